(** C07 proofs, codec part 3: the token decoder (decode.go) over the tokens of
    a line written by [encode], and the whole-entry round trip.

    Every key handler consumes exactly the value the encoder wrote and leaves
    the decoder at the next key; the loops over IPList, Rules and the rewrite
    Response map are handled by induction with the list decoded so far as the
    invariant.  [codec_roundtrip]: decode o (encode e) = (false, e) for every
    entry of [codec_dom o]. *)
From Coq Require Import ZArith NArith List Bool Lia Ascii String.
From AGH Require Import Base.Run Model.QLogFile Model.QLog Model.QLogCodec Proofs.QLogCodec Proofs.QLogCodecScan.
Import ListNotations.
Local Open Scope N_scope.

Definition dsteps (o : oracles) (tl : list token) (st : dstate * centry) : dstate * centry :=
  fold_left (dstep o) tl st.

Lemma dsteps_app o a b st : dsteps o (a ++ b) st = dsteps o b (dsteps o a st).
Proof. apply fold_left_app. Qed.

Lemma dsteps_cons o t tl st : dsteps o (t :: tl) st = dsteps o tl (dstep o st t).
Proof. reflexivity. Qed.

Lemma dsteps_nil o st : dsteps o [] st = st.
Proof. reflexivity. Qed.

(** Segments compose. *)
Lemma seg_app o a b st st1 st2 :
  dsteps o a st = st1 -> dsteps o b st1 = st2 -> dsteps o (a ++ b) st = st2.
Proof. intros <- <-. apply dsteps_app. Qed.

(** ** Setters that do not change anything *)
Lemma set_at_nth {A} (l : list A) i d x : nth i l d = x -> set_at l i x = l.
Proof.
  revert i; induction l as [|a l IH]; intros [|i] H; cbn in *; auto.
  - congruence.
  - f_equal. auto.
Qed.

Lemma nth_set_at_other {A} (l : list A) i j x d : i <> j -> nth i (set_at l j x) d = nth i l d.
Proof.
  revert i j; induction l as [|a l IH]; intros [|i] [|j] H; cbn; auto; try congruence.
Qed.

Lemma set_slot_opt e0 i s : slot e0 i = [] ->
  (if is_nil s then e0 else set_slot e0 i s) = set_slot e0 i s.
Proof.
  intro H. destruct s; [|reflexivity]. cbn [is_nil]. unfold set_slot.
  rewrite (set_at_nth _ _ _ _ H). destruct e0; reflexivity.
Qed.

Lemma set_int_opt e0 i z : ival e0 i = 0%Z ->
  (if (z =? 0)%Z then e0 else set_int e0 i z) = set_int e0 i z.
Proof.
  intro H. destruct (Z.eqb_spec z 0%Z); [|reflexivity]. subst. unfold set_int.
  rewrite (set_at_nth _ _ _ _ H). destruct e0; reflexivity.
Qed.

Lemma set_flag_opt e0 i (b : bool) : fval e0 i = false ->
  (if b then set_flag e0 i true else e0) = set_flag e0 i b.
Proof.
  intro H. destruct b; [reflexivity|]. unfold set_flag.
  rewrite (set_at_nth _ _ _ _ H). destruct e0; reflexivity.
Qed.

Lemma set_iplist_same e0 : set_iplist e0 (ce_iplist e0) = e0.
Proof. destruct e0; reflexivity. Qed.
Lemma set_rules_same e0 : set_rules e0 (ce_rules e0) = e0.
Proof. destruct e0; reflexivity. Qed.
Lemma set_rw_same e0 : set_rw e0 (ce_rw e0) = e0.
Proof. destruct e0; reflexivity. Qed.

(** ** The top-level keys *)
Lemma dstep_top_key o e k : dstep o (DTop, e) (TStr k) =
  if keq k "Result" then (DRes, e) else if is_top_key k then (DVal k, e) else (DTop, e).
Proof. reflexivity. Qed.

Lemma dstep_val o e k t : dstep o (DVal k, e) t =
  match top_handler o k t e with Some e' => (DTop, e') | None => (DDone, e) end.
Proof. reflexivity. Qed.

Lemma d_T o e0 s : o_time o s = true ->
  dsteps o [TStr (B "T"); TStr s] (DTop, e0) = (DTop, set_slot e0 sT s).
Proof.
  intro H. rewrite !dsteps_cons, dstep_top_key.
  change (keq (B "T") "Result") with false. change (is_top_key (B "T")) with true. cbv iota.
  rewrite dstep_val.
  change (top_handler o (B "T") (TStr s) e0) with (if o_time o s then Some (set_slot e0 sT s) else None).
  rewrite H. reflexivity.
Qed.

Lemma d_QH o e0 s : dsteps o [TStr (B "QH"); TStr s] (DTop, e0) = (DTop, set_slot e0 sQH s).
Proof. reflexivity. Qed.
Lemma d_QT o e0 s : dsteps o [TStr (B "QT"); TStr s] (DTop, e0) = (DTop, set_slot e0 sQT s).
Proof. reflexivity. Qed.
Lemma d_QC o e0 s : dsteps o [TStr (B "QC"); TStr s] (DTop, e0) = (DTop, set_slot e0 sQC s).
Proof. reflexivity. Qed.

Lemma d_ECS o e0 s : slot e0 sECS = [] ->
  dsteps o (t_str_opt "ECS" s) (DTop, e0) = (DTop, set_slot e0 sECS s).
Proof.
  intro H. rewrite <- (set_slot_opt _ _ s H). unfold t_str_opt. destruct (is_nil s); reflexivity.
Qed.
Lemma d_CID o e0 s : slot e0 sCID = [] ->
  dsteps o (t_str_opt "CID" s) (DTop, e0) = (DTop, set_slot e0 sCID s).
Proof.
  intro H. rewrite <- (set_slot_opt _ _ s H). unfold t_str_opt. destruct (is_nil s); reflexivity.
Qed.
Lemma d_Up o e0 s : slot e0 sUp = [] ->
  dsteps o (t_str_opt "Upstream" s) (DTop, e0) = (DTop, set_slot e0 sUp s).
Proof.
  intro H. rewrite <- (set_slot_opt _ _ s H). unfold t_str_opt. destruct (is_nil s); reflexivity.
Qed.

Lemma d_CP o e0 s : valid_cp s = true ->
  dsteps o [TStr (B "CP"); TStr s] (DTop, e0) = (DTop, set_slot e0 sCP s).
Proof.
  intro H. rewrite !dsteps_cons, dstep_top_key.
  change (keq (B "CP") "Result") with false. change (is_top_key (B "CP")) with true. cbv iota.
  rewrite dstep_val.
  change (top_handler o (B "CP") (TStr s) e0) with (if valid_cp s then Some (set_slot e0 sCP s) else None).
  rewrite H. reflexivity.
Qed.

Lemma d_Ans o e0 s : slot e0 sAns = [] -> o_b64 o s = true ->
  dsteps o (t_str_opt "Answer" s) (DTop, e0) = (DTop, set_slot e0 sAns s).
Proof.
  intros H Hb. rewrite <- (set_slot_opt _ _ s H). unfold t_str_opt. destruct (is_nil s); [reflexivity|].
  rewrite !dsteps_cons, dstep_top_key.
  change (keq (B "Answer") "Result") with false. change (is_top_key (B "Answer")) with true. cbv iota.
  rewrite dstep_val.
  change (top_handler o (B "Answer") (TStr s) e0) with (if o_b64 o s then Some (set_slot e0 sAns s) else None).
  rewrite Hb. reflexivity.
Qed.

Lemma d_Orig o e0 s : slot e0 sOrig = [] -> o_b64 o s = true ->
  dsteps o (t_str_opt "OrigAnswer" s) (DTop, e0) = (DTop, set_slot e0 sOrig s).
Proof.
  intros H Hb. rewrite <- (set_slot_opt _ _ s H). unfold t_str_opt. destruct (is_nil s); [reflexivity|].
  rewrite !dsteps_cons, dstep_top_key.
  change (keq (B "OrigAnswer") "Result") with false. change (is_top_key (B "OrigAnswer")) with true. cbv iota.
  rewrite dstep_val.
  change (top_handler o (B "OrigAnswer") (TStr s) e0) with (if o_b64 o s then Some (set_slot e0 sOrig s) else None).
  rewrite Hb. reflexivity.
Qed.

Lemma d_IP o e0 s : slot e0 sIP = [] -> s = [] \/ o_ip o s = true ->
  dsteps o [TStr (B "IP"); TStr s] (DTop, e0) = (DTop, set_slot e0 sIP s).
Proof.
  intros H Hs. rewrite !dsteps_cons, dstep_top_key.
  change (keq (B "IP") "Result") with false. change (is_top_key (B "IP")) with true. cbv iota.
  rewrite dstep_val.
  change (top_handler o (B "IP") (TStr s) e0)
    with (Some (if is_nil (slot e0 sIP) && o_ip o s then set_slot e0 sIP s else e0)).
  rewrite H. cbn [is_nil andb]. destruct (o_ip o s) eqn:E; [reflexivity|].
  destruct Hs as [->|Hs]; [|congruence].
  pose proof (set_slot_opt e0 sIP [] H) as Hn. cbn [is_nil] in Hn. rewrite <- Hn. reflexivity.
Qed.

Lemma d_Elapsed o e0 z : int64_b z ->
  dsteps o [TStr (B "Elapsed"); TNum (dec_bytes z)] (DTop, e0) = (DTop, set_int e0 iElapsed z).
Proof.
  intro H. rewrite !dsteps_cons, dstep_top_key.
  change (keq (B "Elapsed") "Result") with false. change (is_top_key (B "Elapsed")) with true. cbv iota.
  rewrite dstep_val.
  change (top_handler o (B "Elapsed") (TNum (dec_bytes z)) e0)
    with (match parse_int (dec_bytes z) with Some z' => Some (set_int e0 iElapsed z') | None => None end).
  rewrite parse_int_dec by auto. reflexivity.
Qed.

Lemma d_Cached o e0 b : fval e0 fCached = false ->
  dsteps o (t_true_opt "Cached" b) (DTop, e0) = (DTop, set_flag e0 fCached b).
Proof. intro H. rewrite <- (set_flag_opt _ _ b H). destruct b; reflexivity. Qed.

Lemma d_AD o e0 b : fval e0 fAD = false ->
  dsteps o (t_true_opt "AD" b) (DTop, e0) = (DTop, set_flag e0 fAD b).
Proof. intro H. rewrite <- (set_flag_opt _ _ b H). destruct b; reflexivity. Qed.

(** ** Inside the Result block *)
Lemma dstep_res_val o e k t : dstep o (DResVal k, e) t =
  match res_handler k t e with Some e' => (DRes, e') | None => (DTop, translate e) end.
Proof. reflexivity. Qed.

Lemma r_Canon o e0 s : slot e0 sCanon = [] ->
  dsteps o (t_str_opt "CanonName" s) (DRes, e0) = (DRes, set_slot e0 sCanon s).
Proof.
  intro H. rewrite <- (set_slot_opt _ _ s H). unfold t_str_opt. destruct (is_nil s); reflexivity.
Qed.

Lemma r_Svc o e0 s : slot e0 sSvc = [] ->
  dsteps o (t_str_opt "ServiceName" s) (DRes, e0) = (DRes, set_slot e0 sSvc s).
Proof.
  intro H. rewrite <- (set_slot_opt _ _ s H). unfold t_str_opt. destruct (is_nil s); reflexivity.
Qed.

Lemma r_Reason o e0 z : ival e0 iReason = 0%Z -> int64_b z ->
  dsteps o (t_int_opt "Reason" z) (DRes, e0) = (DRes, set_int e0 iReason z).
Proof.
  intros H Hz. rewrite <- (set_int_opt _ _ z H). unfold t_int_opt. destruct (z =? 0)%Z; [reflexivity|].
  rewrite !dsteps_cons.
  change (dstep o (DRes, e0) (TStr (B "Reason"))) with (DResVal (B "Reason"), e0).
  rewrite dstep_res_val.
  change (res_handler (B "Reason") (TNum (dec_bytes z)) e0)
    with (match parse_int (dec_bytes z) with Some z' => Some (set_int e0 iReason z') | None => None end).
  rewrite parse_int_dec by auto. reflexivity.
Qed.

Lemma r_Filtered o e0 b : fval e0 fFiltered = false ->
  dsteps o (t_true_opt "IsFiltered" b) (DRes, e0) = (DRes, set_flag e0 fFiltered b).
Proof. intro H. rewrite <- (set_flag_opt _ _ b H). destruct b; reflexivity. Qed.

(** *** IPList *)
Lemma ip_loop o l : Forall (fun a => o_addr o a = true) l -> forall e0,
  dsteps o (concat (map (fun a => [TStr a]) l)) (DIPList, e0) = (DIPList, set_iplist e0 (ce_iplist e0 ++ l)).
Proof.
  induction 1 as [|a l Ha _ IH]; intro e0.
  - cbn [map concat]. rewrite dsteps_nil, app_nil_r, set_iplist_same. reflexivity.
  - cbn [map concat app]. rewrite dsteps_cons.
    change (dstep o (DIPList, e0) (TStr a))
      with (DIPList, if o_addr o a then set_iplist e0 (ce_iplist e0 ++ [a]) else e0).
    rewrite Ha, IH. cbn [ce_iplist set_iplist]. rewrite <- app_assoc. reflexivity.
Qed.

Lemma r_IPList o e0 l : ce_iplist e0 = [] -> Forall (fun a => o_addr o a = true) l ->
  dsteps o (if is_nil l then [] else TStr (B "IPList") :: t_iplist l) (DRes, e0) = (DRes, set_iplist e0 l).
Proof.
  intros H Hl. destruct l as [|a l'] eqn:El.
  - cbn [is_nil]. rewrite dsteps_nil, <- H, set_iplist_same. reflexivity.
  - rewrite <- El in *. replace (is_nil l) with false by (subst; reflexivity).
    unfold t_iplist. rewrite !dsteps_cons.
    change (dstep o (dstep o (DRes, e0) (TStr (B "IPList"))) (TDelim 91)) with (DIPList, e0).
    rewrite dsteps_app, ip_loop by auto. rewrite H. reflexivity.
Qed.

(** *** Rules *)
Definition norm_part (part : list crule) : crule := match part with [] => blank_rule | r :: _ => r end.

Lemma nth_error_snoc {A} (pre : list A) x : nth_error (pre ++ [x]) (length pre) = Some x.
Proof. rewrite nth_error_app2, Nat.sub_diag by lia. reflexivity. Qed.

Lemma set_at_snoc {A} (pre : list A) x y : set_at (pre ++ [x]) (length pre) y = pre ++ [y].
Proof. induction pre; cbn; congruence. Qed.

Lemma rs_part pre part : (length part <= 1)%nat ->
  (if (length (pre ++ part) <? S (length pre))%nat then (pre ++ part) ++ [blank_rule] else pre ++ part) =
  pre ++ [norm_part part].
Proof.
  intro H. destruct part as [|r1 [|r2 part]]; [| |cbn in H; lia].
  - rewrite app_nil_r. replace (length pre <? S (length pre))%nat with true by (symmetry; apply Nat.ltb_lt; lia).
    reflexivity.
  - replace (length (pre ++ [r1]) <? S (length pre))%nat with false
      by (symmetry; apply Nat.ltb_ge; rewrite app_length; cbn; lia).
    reflexivity.
Qed.

Lemma srf_text o e0 pre part s : ce_rules e0 = pre ++ part -> (length part <= 1)%nat ->
  set_rule_field e0 o (B "Text") (length pre) (TStr s) =
  Some (set_rules e0 (pre ++ [{| cr_text := s; cr_ip := cr_ip (norm_part part); cr_id := cr_id (norm_part part) |}])).
Proof.
  intros H Hp. unfold set_rule_field. rewrite H, rs_part by auto.
  change (keq (B "Text") "FilterListID") with false. change (keq (B "Text") "IP") with false. cbv iota.
  rewrite nth_error_snoc, set_at_snoc. reflexivity.
Qed.

Lemma srf_ip o e0 pre part s : ce_rules e0 = pre ++ part -> (length part <= 1)%nat ->
  set_rule_field e0 o (B "IP") (length pre) (TStr s) =
  Some (set_rules e0 (pre ++ [if o_addr o s
                              then {| cr_text := cr_text (norm_part part); cr_ip := s; cr_id := cr_id (norm_part part) |}
                              else norm_part part])).
Proof.
  intros H Hp. unfold set_rule_field. rewrite H, rs_part by auto.
  change (keq (B "IP") "FilterListID") with false. change (keq (B "IP") "IP") with true. cbv iota.
  destruct (o_addr o s); [|reflexivity].
  rewrite nth_error_snoc, set_at_snoc. reflexivity.
Qed.

Lemma srf_id o e0 pre part s : ce_rules e0 = pre ++ part -> (length part <= 1)%nat ->
  set_rule_field e0 o (B "FilterListID") (length pre) (TNum s) =
  Some (set_rules e0 (pre ++ [{| cr_text := cr_text (norm_part part); cr_ip := cr_ip (norm_part part);
                                 cr_id := parse_or_0 s |}])).
Proof.
  intros H Hp. unfold set_rule_field. rewrite H, rs_part by auto.
  change (keq (B "FilterListID") "FilterListID") with true. cbv iota.
  rewrite nth_error_snoc, set_at_snoc. reflexivity.
Qed.

Lemma dstep_rule_val o e k i t : dstep o (DRuleVal k i, e) t =
  match set_rule_field e o k i t with Some e' => (DRuleTok i, e') | None => (DPanic, e) end.
Proof. reflexivity. Qed.

Definition rule_ok (o : oracles) (r : crule) : Prop :=
  (cr_ip r = [] \/ o_addr o (cr_ip r) = true) /\ int64_b (cr_id r).

Lemma rule_one o e0 pre r : ce_rules e0 = pre -> rule_ok o r ->
  dsteps o (t_rule r) (DRuleTok (length pre), e0) = (DRuleTok (S (length pre)), set_rules e0 (pre ++ [r])).
Proof.
  intros H [Hip Hid]. destruct r as [text ip id]. cbn [cr_ip cr_id] in *.
  unfold t_rule. cbn [concat cr_text cr_ip cr_id]. rewrite dsteps_cons.
  change (dstep o (DRuleTok (length pre), e0) (TDelim 123)) with (DRuleTok (length pre), e0).
  rewrite app_nil_r.
  (* Text *)
  set (e1 := set_rules e0 (pre ++ (if is_nil text then [] else [{| cr_text := text; cr_ip := []; cr_id := 0 |}]))).
  assert (S1 : dsteps o (t_str_opt "Text" text) (DRuleTok (length pre), e0) = (DRuleTok (length pre), e1)).
  { unfold t_str_opt, e1. destruct (is_nil text).
    - rewrite app_nil_r, <- H, set_rules_same. reflexivity.
    - rewrite !dsteps_cons.
      change (dstep o (DRuleTok (length pre), e0) (TStr (B "Text"))) with (DRuleVal (B "Text") (length pre), e0).
      rewrite dstep_rule_val, (srf_text o e0 pre [] text) by (rewrite ?app_nil_r; auto). reflexivity. }
  assert (R1 : ce_rules e1 = pre ++ (if is_nil text then [] else [{| cr_text := text; cr_ip := []; cr_id := 0 |}])) by reflexivity.
  assert (L1 : (length (if is_nil text then [] else [{| cr_text := text; cr_ip := []; cr_id := 0%Z |}]) <= 1)%nat)
    by (destruct (is_nil text); cbn; lia).
  assert (N1 : norm_part (if is_nil text then [] else [{| cr_text := text; cr_ip := []; cr_id := 0%Z |}]) =
               {| cr_text := text; cr_ip := []; cr_id := 0 |}).
  { destruct text; reflexivity. }
  (* IP *)
  set (e2 := set_rules e0 (pre ++ [{| cr_text := text; cr_ip := ip; cr_id := 0 |}])).
  assert (S2 : dsteps o [TStr (B "IP"); TStr ip] (DRuleTok (length pre), e1) = (DRuleTok (length pre), e2)).
  { rewrite !dsteps_cons.
    change (dstep o (DRuleTok (length pre), e1) (TStr (B "IP"))) with (DRuleVal (B "IP") (length pre), e1).
    rewrite dstep_rule_val, (srf_ip o e1 pre _ ip R1 L1), N1. cbn [cr_text cr_ip cr_id].
    unfold e2, e1. destruct (o_addr o ip) eqn:Ea; [reflexivity|].
    destruct Hip as [->|Hip]; [reflexivity|congruence]. }
  assert (R2 : ce_rules e2 = pre ++ [{| cr_text := text; cr_ip := ip; cr_id := 0 |}]) by reflexivity.
  (* FilterListID *)
  assert (S3 : dsteps o (t_int_opt "FilterListID" id) (DRuleTok (length pre), e2) =
               (DRuleTok (length pre), set_rules e0 (pre ++ [{| cr_text := text; cr_ip := ip; cr_id := id |}]))).
  { unfold t_int_opt. destruct (Z.eqb_spec id 0%Z) as [->|Hne]; [reflexivity|].
    rewrite !dsteps_cons.
    change (dstep o (DRuleTok (length pre), e2) (TStr (B "FilterListID")))
      with (DRuleVal (B "FilterListID") (length pre), e2).
    rewrite dstep_rule_val, (srf_id o e2 pre _ _ R2) by (cbn; lia).
    rewrite parse_or_0_dec by auto. reflexivity. }
  rewrite dsteps_app, (seg_app _ _ _ _ _ _ S1 (seg_app _ _ _ _ _ _ S2 S3)).
  reflexivity.
Qed.

Lemma rules_loop o rs : Forall (rule_ok o) rs -> forall pre e0, ce_rules e0 = pre ->
  dsteps o (concat (map t_rule rs)) (DRuleTok (length pre), e0) =
  (DRuleTok (length pre + length rs), set_rules e0 (pre ++ rs)).
Proof.
  induction 1 as [|r rs Hr _ IH]; intros pre e0 H.
  - cbn [map concat length]. rewrite dsteps_nil, Nat.add_0_r, app_nil_r, <- H, set_rules_same. reflexivity.
  - cbn [map concat]. rewrite dsteps_app, (rule_one o e0 pre r H Hr).
    replace (S (length pre)) with (length (pre ++ [r])) by (rewrite app_length; cbn; lia).
    rewrite IH by reflexivity. rewrite app_length. cbn [length set_rules ce_rules].
    rewrite <- app_assoc. cbn [app]. f_equal. f_equal. lia.
Qed.

Lemma r_Rules o e0 rs : ce_rules e0 = [] -> Forall (rule_ok o) rs ->
  dsteps o (if is_nil rs then [] else TStr (B "Rules") :: t_rules rs) (DRes, e0) = (DRes, set_rules e0 rs).
Proof.
  intros H Hr. destruct rs as [|r rs'] eqn:El.
  - cbn [is_nil]. rewrite dsteps_nil, <- H, set_rules_same. reflexivity.
  - rewrite <- El in *. replace (is_nil rs) with false by (subst; reflexivity).
    unfold t_rules. rewrite !dsteps_cons.
    change (dstep o (dstep o (DRes, e0) (TStr (B "Rules"))) (TDelim 91)) with (DRuleTok (@length crule []), e0).
    rewrite dsteps_app, (rules_loop o rs Hr [] e0 H). reflexivity.
Qed.

(** *** DNSRewriteResult *)
Lemma map_set_new m k v : ~ In k (map fst m) -> map_set m k v = m ++ [(k, v)].
Proof.
  induction m as [|[k' v'] m IH]; intro H; [reflexivity|]. cbn [map_set map fst In] in *.
  destruct (Z.eqb_spec k k'); [exfalso; apply H; auto|]. rewrite IH by tauto. reflexivity.
Qed.

Lemma resp_vals_loop o k vs : Forall is_rs vs -> forall acc e0,
  dsteps o (concat (map (fun v => [TStr (rrv_text v)]) vs)) (DRespArr k acc, e0) = (DRespArr k (acc ++ vs), e0).
Proof.
  induction 1 as [|v vs Hv _ IH]; intros acc e0.
  - cbn [map concat]. rewrite app_nil_r. reflexivity.
  - cbn [map concat app]. rewrite dsteps_cons. destruct v; try contradiction. cbn [rrv_text].
    change (dstep o (DRespArr k acc, e0) (TStr s)) with (DRespArr k (acc ++ [RS s]), e0).
    rewrite IH, <- app_assoc. reflexivity.
Qed.

Lemma kv_one o e0 c pre k vs :
  ce_rw e0 = Some {| rw_rcode := c; rw_resp := pre |} -> ~ In k (map fst pre) -> (0 <= k < 65536)%Z ->
  Forall is_rs vs ->
  dsteps o (t_kv (k, vs)) (DRespKey, e0) =
  (DRespKey, set_rw e0 (Some {| rw_rcode := c; rw_resp := pre ++ [(k, vs)] |})).
Proof.
  intros H Hk Hr Hv. unfold t_kv. cbn [fst snd]. rewrite !dsteps_cons.
  change (dstep o (DRespKey, e0) (TStr (dec_bytes k))) with (DRespArr0 (parse_u16 (dec_bytes k)), e0).
  rewrite parse_u16_dec by auto.
  change (dstep o (DRespArr0 (Some k), e0) (TDelim 91)) with (DRespArr (Some k) [], e0).
  rewrite dsteps_app, resp_vals_loop by auto. cbn [app]. rewrite dsteps_cons, dsteps_nil.
  change (dstep o (DRespArr (Some k) vs, e0) (TDelim 93)) with (DRespKey, resp_commit e0 (Some k) vs).
  unfold resp_commit, set_resp, ensure_rw. rewrite H. cbn [rw_rcode rw_resp].
  rewrite map_set_new by auto. reflexivity.
Qed.

Definition kv_ok (kv : Z * list rrv) : Prop := (0 <= fst kv < 65536)%Z /\ Forall is_rs (snd kv).

Lemma resp_loop o m : Forall kv_ok m -> forall pre e0 c,
  ce_rw e0 = Some {| rw_rcode := c; rw_resp := pre |} -> NoDup (map fst (pre ++ m)) ->
  dsteps o (concat (map t_kv m)) (DRespKey, e0) =
  (DRespKey, set_rw e0 (Some {| rw_rcode := c; rw_resp := pre ++ m |})).
Proof.
  induction 1 as [|[k vs] m [Hk Hv] _ IH]; intros pre e0 c H Hnd.
  - cbn [map concat]. rewrite dsteps_nil, app_nil_r, <- H, set_rw_same. reflexivity.
  - cbn [map concat]. cbn [fst snd] in *. rewrite dsteps_app.
    assert (Hnot : ~ In k (map fst pre)).
    { rewrite map_app in Hnd. cbn [map fst] in Hnd. apply NoDup_remove_2 in Hnd.
      intro Hin. apply Hnd. apply in_or_app. auto. }
    rewrite (kv_one o e0 c pre k vs H Hnot Hk Hv).
    rewrite (IH (pre ++ [(k, vs)]) _ c) by (try reflexivity; rewrite <- app_assoc; exact Hnd).
    cbn [set_rw]. rewrite <- app_assoc. reflexivity.
Qed.

(** parseDNSRewriteResultIPs leaves a response of accepted addresses alone. *)
Definition kv_ips_ok (o : oracles) (kv : Z * list rrv) : Prop :=
  Forall (fun v => match v with RS s => (fst kv = 1 \/ fst kv = 28)%Z -> o_ip o s = true | _ => False end) (snd kv).

Lemma map_id_in {A} (f : A -> A) l : (forall x, In x l -> f x = x) -> map f l = l.
Proof. intro H. rewrite <- (map_id l) at 2. apply map_ext_in. exact H. Qed.

Lemma parse_ips_id o e0 w : ce_rw e0 = Some w -> Forall (kv_ips_ok o) (rw_resp w) -> parse_ips o e0 = e0.
Proof.
  intros H Hok. unfold parse_ips. rewrite H. rewrite map_id_in.
  - destruct w as [c m]. cbn [rw_rcode rw_resp]. rewrite <- H. apply set_rw_same.
  - intros [k vs] Hin. rewrite Forall_forall in Hok. specialize (Hok _ Hin). unfold kv_ips_ok in Hok.
    cbn [fst snd] in *. destruct ((k =? 1)%Z || (k =? 28)%Z) eqn:Ek; [|reflexivity].
    f_equal. apply map_id_in. intros v Hv. rewrite Forall_forall in Hok. specialize (Hok _ Hv).
    destruct v; try contradiction. rewrite Hok; [reflexivity|].
    apply orb_true_iff in Ek as [Ek|Ek]; apply Z.eqb_eq in Ek; auto.
Qed.

Definition rw_ok (o : oracles) (w : rewrite) : Prop :=
  int64_b (rw_rcode w) /\ (rw_resp w <> [] \/ rw_rcode w <> 0%Z) /\ NoDup (map fst (rw_resp w)) /\
  Forall kv_ok (rw_resp w) /\ Forall (kv_ips_ok o) (rw_resp w).

Lemma d_rw o e0 w : ce_rw e0 = None -> rw_ok o w ->
  dsteps o (TStr (B "DNSRewriteResult") :: t_rw w) (DRes, e0) = (DRes, set_rw e0 (Some w)).
Proof.
  intros H (Hc & Hne & Hnd & Hkv & Hips). destruct w as [c m]. cbn [rw_rcode rw_resp] in *.
  unfold t_rw. cbn [rw_rcode rw_resp concat]. rewrite app_nil_r. rewrite !dsteps_cons.
  change (dstep o (dstep o (DRes, e0) (TStr (B "DNSRewriteResult"))) (TDelim 123)) with (DRw, e0).
  (* Response *)
  set (e1 := set_rw e0 (Some {| rw_rcode := 0; rw_resp := m |})).
  assert (S1 : dsteps o (if is_nil m then [] else TStr (B "Response") :: t_resp m) (DRw, e0) =
               (DRw, if is_nil m then e0 else e1)).
  { destruct m as [|kv m'] eqn:Em; [reflexivity|]. rewrite <- Em in *.
    replace (is_nil m) with false by (subst; reflexivity).
    unfold t_resp. rewrite !dsteps_cons.
    change (dstep o (DRw, e0) (TStr (B "Response"))) with (DResp0, set_resp e0 (rw_resp (ensure_rw e0))).
    unfold set_resp, ensure_rw. rewrite H. cbn [rw_rcode rw_resp].
    set (ea := set_rw e0 (Some {| rw_rcode := 0; rw_resp := [] |})).
    change (dstep o (DResp0, ea) (TDelim 123)) with (DRespKey, ea).
    rewrite dsteps_app, (resp_loop o m Hkv [] ea 0%Z) by (try reflexivity; exact Hnd).
    cbn [app]. rewrite dsteps_cons, dsteps_nil.
    change (dstep o (DRespKey, set_rw ea (Some {| rw_rcode := 0; rw_resp := m |})) (TDelim 125))
      with (DRw, parse_ips o (set_rw ea (Some {| rw_rcode := 0; rw_resp := m |}))).
    rewrite (parse_ips_id o _ {| rw_rcode := 0; rw_resp := m |}) by (try reflexivity; exact Hips).
    subst m. reflexivity. }
  (* RCode *)
  assert (S2 : dsteps o (t_int_opt "RCode" c) (DRw, if is_nil m then e0 else e1) =
               (DRw, set_rw e0 (Some {| rw_rcode := c; rw_resp := m |}))).
  { unfold t_int_opt. destruct (Z.eqb_spec c 0%Z) as [->|Hc0].
    - destruct m; [destruct Hne; congruence|reflexivity].
    - rewrite !dsteps_cons.
      set (ex := if is_nil m then e0 else e1).
      change (dstep o (DRw, ex) (TStr (B "RCode"))) with (DRwRCode, ex).
      change (dstep o (DRwRCode, ex) (TNum (dec_bytes c)))
        with (DRw, set_rw ex (Some {| rw_rcode := parse_or_0 (dec_bytes c); rw_resp := rw_resp (ensure_rw ex) |})).
      rewrite parse_or_0_dec by auto. subst ex. unfold ensure_rw.
      destruct m; cbn [is_nil]; [rewrite H|]; reflexivity. }
  rewrite (seg_app _ _ _ _ _ _ (seg_app _ _ _ _ _ _ S1 S2) eq_refl). reflexivity.
Qed.

Lemma r_Rw o e0 rw : ce_rw e0 = None -> match rw with Some w => rw_ok o w | None => True end ->
  dsteps o (match rw with Some w => TStr (B "DNSRewriteResult") :: t_rw w | None => [] end) (DRes, e0) =
  (DRes, set_rw e0 rw).
Proof.
  intros H Hw. destruct rw as [w|]; [apply d_rw; auto|].
  rewrite dsteps_nil, <- H, set_rw_same. reflexivity.
Qed.

(** *** The Result block as a whole *)
Definition result_ok (o : oracles) (e : centry) : Prop :=
  match ce_rw e with Some w => rw_ok o w | None => True end /\
  Forall (fun a => o_addr o a = true) (ce_iplist e) /\
  Forall (rule_ok o) (ce_rules e) /\ int64_b (ival e iReason).

Definition after_result (e0 e : centry) : centry :=
  set_flag (set_int (set_rules (set_iplist (set_slot (set_slot (set_rw e0 (ce_rw e)) sCanon (slot e sCanon))
    sSvc (slot e sSvc)) (ce_iplist e)) (ce_rules e)) iReason (ival e iReason)) fFiltered (fval e fFiltered).

Lemma d_result o e0 e :
  ce_rw e0 = None -> ce_iplist e0 = [] -> ce_rules e0 = [] -> slot e0 sCanon = [] -> slot e0 sSvc = [] ->
  ival e0 iReason = 0%Z -> fval e0 fFiltered = false -> result_ok o e ->
  dsteps o (TStr (B "Result") :: t_result e) (DTop, e0) = (DTop, translate (after_result e0 e)).
Proof.
  intros H1 H2 H3 H4 H5 H6 H7 (Hw & Hip & Hr & Hre).
  unfold t_result, t_result_fields. cbn [concat]. rewrite app_nil_r. rewrite !dsteps_cons.
  change (dstep o (dstep o (DTop, e0) (TStr (B "Result"))) (TDelim 123)) with (DRes, e0).
  set (e1 := set_rw e0 (ce_rw e)).
  set (e2 := set_slot e1 sCanon (slot e sCanon)).
  set (e3 := set_slot e2 sSvc (slot e sSvc)).
  set (e4 := set_iplist e3 (ce_iplist e)).
  set (e5 := set_rules e4 (ce_rules e)).
  set (e6 := set_int e5 iReason (ival e iReason)).
  assert (S1 := r_Rw o e0 (ce_rw e) H1 Hw). fold e1 in S1.
  assert (S2 := r_Canon o e1 (slot e sCanon) H4). fold e2 in S2.
  assert (H5' : slot e2 sSvc = []).
  { unfold e2, e1, slot, set_slot, set_rw. cbn [ce_s]. rewrite nth_set_at_other by discriminate. exact H5. }
  assert (S3 := r_Svc o e2 (slot e sSvc) H5'). fold e3 in S3.
  assert (S4 := r_IPList o e3 (ce_iplist e) H2 Hip). fold e4 in S4.
  assert (S5 := r_Rules o e4 (ce_rules e) H3 Hr). fold e5 in S5.
  assert (S6 := r_Reason o e5 (ival e iReason) H6 Hre). fold e6 in S6.
  assert (S7 := r_Filtered o e6 (fval e fFiltered) H7).
  rewrite (seg_app _ _ _ _ _ _ (seg_app _ _ _ _ _ _ S1 (seg_app _ _ _ _ _ _ S2 (seg_app _ _ _ _ _ _ S3
            (seg_app _ _ _ _ _ _ S4 (seg_app _ _ _ _ _ _ S5 (seg_app _ _ _ _ _ _ S6 S7)))))) eq_refl).
  reflexivity.
Qed.

(** ** The whole line *)
Lemma translate_id x : ~ (ival x iReason = 10%Z /\ ce_iplist x <> []) -> translate x = x.
Proof.
  intro H. unfold translate. destruct (Z.eqb_spec (ival x iReason) 10); [|reflexivity].
  destruct (ce_iplist x) eqn:E; [reflexivity|]. exfalso. apply H. split; [auto|discriminate].
Qed.

Lemma Forall_nth_d {A} (P : A -> Prop) l i d : Forall P l -> P d -> P (nth i l d).
Proof.
  intros H Hd. destruct (nth_in_or_default i l d) as [Hin| ->]; auto. rewrite Forall_forall in H. auto.
Qed.

Lemma rw_dom_ok o w : rw_dom o w -> rw_ok o w.
Proof.
  intros (H1 & H2 & H3 & H4). split; [exact H1|]. split; [exact H2|]. split; [exact H3|]. split.
  - eapply Forall_impl; [|exact H4]. intros [k vs] (Hk & _ & Hv). split; [exact Hk|].
    cbn [fst snd] in *. eapply Forall_impl; [|exact Hv]. intros v Hd. destruct v; cbn in *; auto.
  - eapply Forall_impl; [|exact H4]. intros [k vs] (_ & _ & Hv). unfold kv_ips_ok.
    cbn [fst snd] in *. eapply Forall_impl; [|exact Hv]. intros v Hd. destruct v; cbn in *; tauto.
Qed.

Lemma codec_dom_texts o e : codec_dom o e -> texts_ok e.
Proof.
  intros (_ & _ & _ & Hutf & _ & _ & _ & _ & _ & _ & Hipl & Hrules & _ & Hrw).
  split; [exact Hutf|]. split; [|split].
  - eapply Forall_impl; [|exact Hipl]. intros a [Ha _]. exact Ha.
  - eapply Forall_impl; [|exact Hrules]. intros r (H1 & _ & H2 & _). split; auto.
  - destruct (ce_rw e) as [w|]; [|exact I]. destruct Hrw as (_ & _ & _ & H4).
    eapply Forall_impl; [|exact H4]. intros [k vs] (_ & Hne & Hv). split; [exact Hne|].
    cbn [fst snd] in *. eapply Forall_impl; [|exact Hv]. intros v Hd. destruct v; cbn in *; tauto.
Qed.

Lemma codec_dom_result o e : codec_dom o e -> result_ok o e.
Proof.
  intros (_ & _ & _ & _ & _ & _ & _ & _ & _ & Hint & Hipl & Hrules & _ & Hrw).
  split; [|split; [|split]].
  - destruct (ce_rw e) as [w|]; [apply rw_dom_ok; auto|exact I].
  - eapply Forall_impl; [|exact Hipl]. intros a [_ Ha]. exact Ha.
  - eapply Forall_impl; [|exact Hrules]. intros r (_ & H1 & _ & H2). split; auto.
  - unfold ival. apply (Forall_nth_d int64_ok); auto. unfold int64_ok. lia.
Qed.

Ltac list_of_length l :=
  repeat (let x := fresh "x" in destruct l as [|x l]; try discriminate).

Theorem dec_tokens o e : codec_dom o e -> dsteps o (t_encode e) (DTop, blank) = (DTop, e).
Proof.
  intro Hdom. pose proof (codec_dom_result o e Hdom) as Hres.
  destruct Hdom as (Hl1 & Hl2 & Hl3 & Hutf & Htime & Hcp & Hip & Hb1 & Hb2 & Hint & Hipl & Hrules & Htr & Hrw).
  assert (Hel : int64_b (ival e iElapsed)).
  { unfold ival. apply (Forall_nth_d int64_ok); auto. unfold int64_ok. lia. }
  unfold t_encode, t_fields. cbn [concat]. rewrite app_nil_r. rewrite dsteps_cons.
  change (dstep o (DTop, blank) (TDelim 123)) with (DTop, blank). rewrite dsteps_app.
  set (e1 := set_slot blank sT (slot e sT)).
  set (e2 := set_slot e1 sQH (slot e sQH)).
  set (e3 := set_slot e2 sQT (slot e sQT)).
  set (e4 := set_slot e3 sQC (slot e sQC)).
  set (e5 := set_slot e4 sECS (slot e sECS)).
  set (e6 := set_slot e5 sCID (slot e sCID)).
  set (e7 := set_slot e6 sCP (slot e sCP)).
  set (e8 := set_slot e7 sUp (slot e sUp)).
  set (e9 := set_slot e8 sAns (slot e sAns)).
  set (e10 := set_slot e9 sOrig (slot e sOrig)).
  set (e11 := set_slot e10 sIP (slot e sIP)).
  set (e12 := after_result e11 e).
  set (e13 := set_int e12 iElapsed (ival e iElapsed)).
  set (e14 := set_flag e13 fCached (fval e fCached)).
  set (e15 := set_flag e14 fAD (fval e fAD)).
  assert (S1 := d_T o blank (slot e sT) Htime). fold e1 in S1.
  assert (S2 := d_QH o e1 (slot e sQH)). fold e2 in S2.
  assert (S3 := d_QT o e2 (slot e sQT)). fold e3 in S3.
  assert (S4 := d_QC o e3 (slot e sQC)). fold e4 in S4.
  assert (S5 := d_ECS o e4 (slot e sECS) eq_refl). fold e5 in S5.
  assert (S6 := d_CID o e5 (slot e sCID) eq_refl). fold e6 in S6.
  assert (S7 := d_CP o e6 (slot e sCP) Hcp). fold e7 in S7.
  assert (S8 := d_Up o e7 (slot e sUp) eq_refl). fold e8 in S8.
  assert (S9 := d_Ans o e8 (slot e sAns) eq_refl Hb1). fold e9 in S9.
  assert (S10 := d_Orig o e9 (slot e sOrig) eq_refl Hb2). fold e10 in S10.
  assert (S11 := d_IP o e10 (slot e sIP) eq_refl Hip). fold e11 in S11.
  assert (S12 := d_result o e11 e eq_refl eq_refl eq_refl eq_refl eq_refl eq_refl eq_refl Hres).
  rewrite (translate_id (after_result e11 e)) in S12 by exact Htr. fold e12 in S12.
  assert (S13 := d_Elapsed o e12 (ival e iElapsed) Hel). fold e13 in S13.
  assert (S14 := d_Cached o e13 (fval e fCached) eq_refl). fold e14 in S14.
  assert (S15 := d_AD o e14 (fval e fAD) eq_refl). fold e15 in S15.
  rewrite (seg_app _ _ _ _ _ _ S1 (seg_app _ _ _ _ _ _ S2 (seg_app _ _ _ _ _ _ S3 (seg_app _ _ _ _ _ _ S4
          (seg_app _ _ _ _ _ _ S5 (seg_app _ _ _ _ _ _ S6 (seg_app _ _ _ _ _ _ S7 (seg_app _ _ _ _ _ _ S8
          (seg_app _ _ _ _ _ _ S9 (seg_app _ _ _ _ _ _ S10 (seg_app _ _ _ _ _ _ S11 (seg_app _ _ _ _ _ _ S12
          (seg_app _ _ _ _ _ _ S13 (seg_app _ _ _ _ _ _ S14 S15)))))))))))))).
  rewrite dsteps_cons, dsteps_nil. change (dstep o (DTop, e15) (TDelim 125)) with (DTop, e15).
  f_equal. clear - Hl1 Hl2 Hl3.
  destruct e as [S F I ipl rules rw]. cbn [ce_s ce_f ce_i] in *.
  unfold n_slots in Hl1. list_of_length S. list_of_length F. list_of_length I.
  reflexivity.
Qed.

(** *** C07_codec_roundtrip: the whole entry *)
Theorem codec_roundtrip : forall o e, codec_dom o e -> decode o (encode e) = (false, e).
Proof.
  intros o e H. unfold decode. rewrite (scan_encode e (codec_dom_texts o e H)).
  unfold decode_tokens. fold (dsteps o (t_encode e) (DTop, blank)). rewrite (dec_tokens o e H). reflexivity.
Qed.

(** C07, API layer: serving a request changes nothing; every row of every
    response, after ANY history with requests and anonymisation changes in
    between, is an entry some Add of the history recorded, shown with the
    address it was recorded with (its mask while the switch is on). *)
From Coq Require Import ZArith NArith List Bool Lia.
From AGH Require Import Base.Run Model.QLogFile Model.QLog Model.QLogServe Proofs.QLog.
Import ListNotations.
Local Open Scope Z_scope.

(** ** Serving is read-only *)
Lemma serve_readonly me bf t s q : fst (serve me bf t s q) = s.
Proof. reflexivity. Qed.

Lemma qrun_st me bf t : forall ops s,
  st (fold_left (qstep me bf t) ops s) = fold_left step (plain ops) (st s).
Proof.
  induction ops as [|o ops IH]; intro s; [reflexivity|].
  cbn [fold_left]. rewrite IH. destruct o; reflexivity.
Qed.

Lemma qrun_anon me bf t : forall ops s,
  anon (fold_left (qstep me bf t) ops s) = anon_after (anon s) ops.
Proof.
  induction ops as [|o ops IH]; intro s; [reflexivity|].
  unfold anon_after. cbn [fold_left]. rewrite IH. destruct o; reflexivity.
Qed.

(** The log after a history with requests and switch changes is the log after
    the history without them. *)
Lemma qrun_erases me bf t c ops : st (qrun me bf t c ops) = run c (plain ops).
Proof. unfold qrun, run. rewrite qrun_st. reflexivity. Qed.

Lemma qrun_switch me bf t c ops : anon (qrun me bf t c ops) = anon_after false ops.
Proof. unfold qrun. rewrite qrun_anon. reflexivity. Qed.

(** A request served in the middle of a history can be dropped from it. *)
Lemma serve_erasable me bf t c pre q post :
  qrun me bf t c (pre ++ SServe q :: post) = qrun me bf t c (pre ++ post).
Proof. unfold qrun. rewrite !fold_left_app. reflexivity. Qed.

(** ** What a search returns is in the log *)
Lemma In_firstnZ {A} (x : A) l : forall n, In x (firstnZ n l) -> In x l.
Proof.
  induction l as [|a l IH]; intros n H; cbn [firstnZ] in H; auto.
  destruct (n <=? 0); [destruct H|]. destruct H as [->|H]; [left; auto|right; eauto].
Qed.

Lemma In_skipnZ {A} (x : A) l : forall n, In x (skipnZ n l) -> In x l.
Proof.
  induction l as [|a l IH]; intros n H; cbn [skipnZ] in H; auto.
  destruct (n <=? 0); auto. right; eauto.
Qed.

Lemma In_insert_desc x y l : In x (insert_desc y l) -> x = y \/ In x l.
Proof.
  induction l as [|z l IH]; cbn [insert_desc]; intro H.
  - destruct H as [->|[]]; auto.
  - destruct (e_time z >? e_time y).
    + destruct H as [->|H]; [right; left; auto|]. destruct (IH H); auto. right; right; auto.
    + destruct H as [->|H]; auto.
Qed.

Lemma In_sort_desc x l : In x (sort_desc l) -> In x l.
Proof.
  induction l as [|y l IH]; cbn [sort_desc fold_right]; intro H; auto.
  apply In_insert_desc in H as [->|H]; [left; auto|right; auto].
Qed.

Lemma search_memory_In s p e : In e (search_memory s p) -> In e (buf s).
Proof.
  unfold search_memory. destruct (mem_size (cfg s) =? 0); [intros []|].
  intro H. apply filter_In in H as [H _]. apply in_rev; auto.
Qed.

Lemma process_some c p e e' ts : process c p e = (Some e', ts) -> e' = e.
Proof.
  unfold process.
  destruct (negb (forallb (crit_quick c e) (p_crits p))); [discriminate|].
  destruct (is_ignored c e); [discriminate|].
  destruct (client_ignored c e); [discriminate|].
  destruct (negb (p_match c p e)); [discriminate|]. intro H; inversion H; auto.
Qed.

Lemma collect_In c p lim : forall ls total n oldest r o,
  collect c p lim ls total n oldest = (r, o) -> forall e, In e r -> In (Some e) ls.
Proof.
  induction ls as [|x ls IH]; intros total n oldest r o H e He; cbn [collect] in H.
  - destruct ((0 <? p_scan p) && (p_scan p <=? total)); inversion H; subst; destruct He.
  - destruct ((0 <? p_scan p) && (p_scan p <=? total)); [inversion H; subst; destruct He|].
    destruct x as [e0|].
    + destruct (process c p e0) as [ent ts] eqn:Ep. destruct ent as [e1|].
      * apply process_some in Ep. subst e1.
        destruct (n + 1 =? lim).
        -- inversion H; subst. destruct He as [->|[]]. left; auto.
        -- destruct (collect c p lim ls (total + 1) (n + 1) ts) as [r' o'] eqn:Ec.
           inversion H; subst. destruct He as [->|He]; [left; auto|right; eapply IH; eauto].
      * right; eapply IH; eauto.
    + right; eapply IH; eauto.
Qed.

Lemma entry_at_In es : forall o p len e, entry_at es o p len = Some e -> In e es.
Proof.
  induction es as [|x es IH]; intros o p len e H; cbn [entry_at] in H; [discriminate|].
  destruct (o =? p).
  - destruct (e_len x =? len); [inversion H; left; auto|discriminate].
  - right; eapply IH; eauto.
Qed.

Lemma lookup_In fs x e : lookup fs x = Some e -> In e (concat fs).
Proof.
  destruct x as [[i st0] len]. unfold lookup.
  destruct (nth_error fs (Z.to_nat i)) as [es|] eqn:E; [|discriminate].
  intro H. apply entry_at_In in H. apply in_concat. exists es. split; auto.
  eapply nth_error_In; eauto.
Qed.

Lemma search_files_In me bf s p e : In e (fst (search_files me bf s p)) -> In e (on_disk s).
Proof.
  unfold search_files.
  destruct (seek_record me bf (p_older p) (new_reader (map qf (files_of s)))) as [r|]; [|intros []].
  destruct (collect _ _ _ _ _ _ _) as [res o] eqn:Ec. cbn [fst]. intro H.
  eapply collect_In in Ec; eauto. apply in_map_iff in Ec as (x & Hx & _).
  apply lookup_In in Hx. rewrite concat_files_of in Hx. auto.
Qed.

(** Every entry of a search result, whatever the parameters (cursor, window,
    criteria, paging), is an entry of the log. *)
Lemma search_In me bf s p es o : search me bf s p = Ok es o -> forall e, In e es -> In e (flat s).
Proof.
  unfold search. destruct (p_limit p =? 0); [intro H; inversion H; intros ? []|].
  destruct (search_files me bf s p) as [fe fo] eqn:Ef.
  destruct ((lenZ (search_memory s p ++ fe) >? p_offset p + p_limit p) && (p_offset p + p_limit p <? 0)); [discriminate|].
  set (cut := if lenZ (search_memory s p ++ fe) >? p_offset p + p_limit p
              then firstnZ (p_offset p + p_limit p) (search_memory s p ++ fe) else search_memory s p ++ fe).
  assert (Hcut : forall e, In e cut -> In e (flat s)).
  { intros e H. assert (H' : In e (search_memory s p ++ fe)).
    { unfold cut in H. destruct (lenZ (search_memory s p ++ fe) >? p_offset p + p_limit p); eauto using In_firstnZ. }
    unfold flat. apply in_app_or in H' as [H'|H']; apply in_or_app.
    - right. eapply search_memory_In; eauto.
    - left. apply (search_files_In me bf s p). rewrite Ef. auto. }
  destruct (p_offset p >? 0).
  - destruct (lenZ (sort_desc cut) >? p_offset p); intro H; inversion H; subst; intros e He.
    + apply Hcut, In_sort_desc. eapply In_skipnZ; eauto.
    + destruct He.
  - intro H; inversion H; subst. intros e He. apply Hcut, In_sort_desc; auto.
Qed.

Lemma handle_In me bf s q es o : handle me bf s q = Ok es o -> forall e, In e es -> In e (flat s).
Proof. unfold handle. destruct (parse q); [apply search_In|discriminate]. Qed.

(** ** What the log holds was recorded by an Add of the history *)
Lemma flat_run_recorded : forall ops s e, In e (flat (fold_left step ops s)) ->
  In e (flat s) \/ In (OAdd e) ops \/ In (OAddAsync e) ops.
Proof.
  induction ops as [|o ops IH]; intros s e H; cbn [fold_left] in H; auto.
  apply IH in H as [H|[H|H]]; [|right; left; right; auto|right; right; right; auto].
  destruct (flat_step s o) as (a & x & b & E1 & E2). rewrite E2 in H.
  assert (H' : In e (flat s ++ extra s o)).
  { rewrite E1. apply in_app_or in H as [H|H]; apply in_or_app; auto. right. apply in_or_app; auto. }
  apply in_app_or in H' as [H'|H']; auto.
  destruct o; cbn [extra] in H'; try destruct H';
    destruct (enabled (cfg s)); try destruct H'; try contradiction; subst.
  - right; left; left; auto.
  - right; right; left; auto.
Qed.

Lemma plain_In o ops : In o (plain ops) -> In (SOp o) ops.
Proof.
  unfold plain. intro H. apply in_flat_map in H as (x & Hx & H).
  destruct x; cbn in H; try destruct H as [->|[]]; try destruct H. auto.
Qed.

(** ** The clause "returned with the client it was recorded with" *)
Theorem client_as_recorded me bf t c ops q rows old :
  snd (serve me bf t (qrun me bf t c ops) q) = ROk rows old ->
  forall i cl, In (i, cl) rows ->
  exists e, (In (SOp (OAdd e)) ops \/ In (SOp (OAddAsync e)) ops) /\ i = e_id e /\
            cl = if anon_after false ops then mask_of t (e_ip e) else e_ip e.
Proof.
  unfold serve. cbn [snd]. rewrite qrun_erases, qrun_switch.
  destruct (handle me bf (run c (plain ops)) q) as [es o| |] eqn:Eh; cbn [render]; try discriminate.
  intro H; inversion H; subst. intros i cl Hin.
  apply in_map_iff in Hin as (e & He & Hin). inversion He; subst.
  exists e. split; [|split; auto].
  eapply handle_In in Hin; eauto. unfold run in Hin.
  apply flat_run_recorded in Hin as [[]|[Hin|Hin]]; apply plain_In in Hin; auto.
Qed.

(** Non-vacuity, and the scenario itself: record with the switch off, turn it
    on, serve, turn it off, serve again: the second response shows the address
    as recorded; with the switch still on, its mask. *)
Definition ex_ip : bytes := [49; 46; 50; 46; 51; 46; 52]%N.       (* "1.2.3.4" *)
Definition ex_masked : bytes := [49; 46; 50; 46; 48; 46; 48]%N.   (* "1.2.0.0" *)
Definition ex_entry : entry := Build_entry 1 1000 50 [97]%N ex_ip [] 0 false.
Definition ex_cfg : config := Build_config true true 4 [] [].
Definition ex_all : request := Build_request None None None None None.
Definition ex_tbl : mask_tbl := [(ex_ip, ex_masked)].

Example toggle_example :
  let h := [SOp (OAdd ex_entry); SAnon true; SServe ex_all] in
  snd (serve max_entry_size buffer_size ex_tbl (qrun max_entry_size buffer_size ex_tbl ex_cfg h) ex_all)
    = ROk [(1%N, ex_masked)] 1000 /\
  snd (serve max_entry_size buffer_size ex_tbl (qrun max_entry_size buffer_size ex_tbl ex_cfg (h ++ [SAnon false])) ex_all)
    = ROk [(1%N, ex_ip)] 1000.
Proof. vm_compute. split; reflexivity. Qed.

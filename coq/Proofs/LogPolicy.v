(** Proofs about the logging / statistics policy model (C08). *)
From Coq Require Import Lia.
From AGH Require Import Base.Run Model.ClientIndex Model.LogPolicy.
Local Open Scope N_scope.

Lemma ignored_name_not_logged ev q st :
  e_qign ev (normalize (q_name q)) = true -> st_mem (process ev q st) = st_mem st.
Proof.
  intros H. unfold process, should_log; cbn [st_mem]. rewrite H. cbn. rewrite andb_false_r. reflexivity.
Qed.

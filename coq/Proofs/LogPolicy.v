(** Proofs about the logging / statistics policy model (C08). *)
From Coq Require Import Lia.
From AGH Require Import Base.Run Model.ClientIndex Model.LogPolicy.
Local Open Scope N_scope.

(** * The mask *)
(** [low_zero n b]: the last [n] bytes of [b] are zero. *)
Definition low_zero (n : nat) (b : bytes) : Prop := exists pre, b = pre ++ repeat 0 n.

(** 16 bits of an IPv4 address (also when it is embedded in IPv6), 80 bits of
    an IPv6 address. *)
Definition masked (b : bytes) : Prop :=
  (length b = 4%nat -> low_zero 2 b) /\
  (length b = 16%nat -> if is_4in6 b then low_zero 2 b else low_zero 10 b).

Ltac explode ip :=
  repeat (let x := fresh "b" in destruct ip as [|x ip]; cbn [length] in *; try lia; try discriminate).

Lemma anonymize_length ip : length (anonymize ip) = length ip.
Proof.
  unfold anonymize, zero_tail.
  destruct (Nat.eqb (length ip) 4) eqn:E4.
  - apply Nat.eqb_eq in E4. rewrite app_length, firstn_length, repeat_length. lia.
  - destruct (Nat.eqb (length ip) 16) eqn:E16; [|reflexivity].
    apply Nat.eqb_eq in E16. destruct (is_4in6 ip); rewrite app_length, firstn_length, repeat_length; lia.
Qed.

Lemma anonymize_v4 ip : length ip = 4%nat ->
  exists a b c d, ip = [a; b; c; d] /\ anonymize ip = [a; b; 0; 0].
Proof.
  intros H. destruct ip as [|a [|b [|c [|d [|e ip]]]]]; try discriminate.
  exists a, b, c, d. split; reflexivity.
Qed.

Lemma anonymize_v6 ip : length ip = 16%nat -> is_4in6 ip = false ->
  anonymize ip = firstn 6 ip ++ repeat 0 10.
Proof.
  intros H H4. unfold anonymize. rewrite H4.
  replace (Nat.eqb (length ip) 4) with false by (rewrite H; reflexivity).
  replace (Nat.eqb (length ip) 16) with true by (rewrite H; reflexivity).
  unfold zero_tail. rewrite H. reflexivity.
Qed.

Lemma anonymize_4in6 ip : is_4in6 ip = true ->
  anonymize ip = firstn 14 ip ++ [0; 0].
Proof.
  intros H4. unfold anonymize. rewrite H4.
  unfold is_4in6 in H4. apply andb_true_iff in H4. destruct H4 as [HL _]. apply Nat.eqb_eq in HL.
  replace (Nat.eqb (length ip) 4) with false by (rewrite HL; reflexivity).
  replace (Nat.eqb (length ip) 16) with true by (rewrite HL; reflexivity).
  unfold zero_tail. rewrite HL. reflexivity.
Qed.

Lemma anonymize_masked ip : masked (anonymize ip).
Proof.
  split; intros HL; rewrite anonymize_length in HL.
  - destruct (anonymize_v4 ip HL) as (a & b & c & d & -> & ->). exists [a; b]. reflexivity.
  - destruct (is_4in6 ip) eqn:E4.
    + rewrite (anonymize_4in6 ip E4).
      assert (E : is_4in6 (firstn 14 ip ++ [0; 0]) = true).
      { unfold is_4in6 in *. apply andb_true_iff in E4. destruct E4 as [_ E12].
        explode ip. cbn in *. exact E12. }
      rewrite E. exists (firstn 14 ip). reflexivity.
    + rewrite (anonymize_v6 ip HL E4).
      assert (E : is_4in6 (firstn 6 ip ++ repeat 0 10) = false).
      { explode ip. unfold is_4in6. cbn.
        repeat (match goal with |- context [N.eqb ?x ?y] => destruct (N.eqb x y); cbn end); reflexivity. }
      rewrite E. exists (firstn 6 ip). reflexivity.
Qed.

Lemma anonymize_idempotent ip : anonymize (anonymize ip) = anonymize ip.
Proof.
  destruct (Nat.eqb (length ip) 4) eqn:E4.
  - apply Nat.eqb_eq in E4. destruct (anonymize_v4 ip E4) as (a & b & c & d & -> & ->). reflexivity.
  - destruct (Nat.eqb (length ip) 16) eqn:E16.
    + apply Nat.eqb_eq in E16. destruct (is_4in6 ip) eqn:E.
      * rewrite (anonymize_4in6 ip E). unfold is_4in6 in E. apply andb_true_iff in E. destruct E as [_ E12].
        explode ip. cbn in E12 |- *. unfold anonymize, is_4in6. cbn. rewrite E12. reflexivity.
      * rewrite (anonymize_v6 ip E16 E). explode ip. unfold anonymize, is_4in6. cbn.
        repeat (match goal with |- context [N.eqb ?x ?y] => destruct (N.eqb x y); cbn end); reflexivity.
    + unfold anonymize. rewrite E4, E16, E4, E16. reflexivity.
Qed.

(** * One query *)
Lemma ignored_name_not_logged ev q st :
  e_qign ev (normalize (q_name q)) = true -> st_mem (process ev q st) = st_mem st.
Proof.
  intros H. unfold process, should_log; cbn [st_mem]. rewrite H. cbn. rewrite andb_false_r. reflexivity.
Qed.

Lemma ignored_name_not_counted ev q st :
  e_sign ev (normalize (q_name q)) = true -> st_stats (process ev q st) = st_stats st.
Proof.
  intros H. unfold process, should_count; cbn [st_stats]. rewrite H. cbn. rewrite andb_false_r. reflexivity.
Qed.

(** The client decision is made on [ids_of q]: the REAL address (and the
    ClientID), whatever the anonymisation setting. *)
Lemma ignored_client_not_logged ev q st :
  qlog_client_ignored (e_ix ev) (e_dhcp ev) (ids_of q) = true -> st_mem (process ev q st) = st_mem st.
Proof.
  intros H. unfold process, should_log; cbn [st_mem]. rewrite H. cbn. rewrite andb_false_r. reflexivity.
Qed.

Lemma ignored_client_not_counted ev q st :
  stats_client_counted (e_ix ev) (e_dhcp ev) (ids_of q) = false -> st_stats (process ev q st) = st_stats st.
Proof. intros H. unfold process, should_count; cbn [st_stats]. rewrite H. reflexivity. Qed.

Lemma process_file ev q st : st_file (process ev q st) = st_file st.
Proof. reflexivity. Qed.

(** * Histories: queries under arbitrary (changing) configurations and
    registries, interleaved with flushes, rotations of the log file and
    roll-overs of the statistics unit *)
Inductive lev :=
  | LQuery (ev : env) (q : query)
  | LFlush
  | LRotate
  | LRoll.

Definition apply_ev (st : store) (e : lev) : store :=
  match e with
  | LQuery ev q => process ev q st
  | LFlush => flush st
  | LRotate => rotate st
  | LRoll => roll st
  end.

Definition run_log (evs : list lev) : store := fold_left apply_ev evs empty_store.

(** Everything the query log holds: the rotated file, the file, the buffer. *)
Definition all_log (st : store) : list lentry := st_old st ++ st_file st ++ st_mem st.

Fixpoint logged (evs : list lev) : list lentry :=
  match evs with
  | [] => []
  | LQuery ev q :: r => (if should_log ev q then [log_entry ev q] else []) ++ logged r
  | _ :: r => logged r
  end.
Fixpoint counted (evs : list lev) : list sentry :=
  match evs with
  | [] => []
  | LQuery ev q :: r => (if should_count ev q then [stat_entry ev q] else []) ++ counted r
  | _ :: r => counted r
  end.

Definition is_rotate (e : lev) : bool := match e with LRotate => true | _ => false end.

(** What a rotation drops: the previous querylog.json.1 it overwrites. *)
Definition dropped_by (st : store) (e : lev) : list lentry :=
  match e with
  | LRotate => if st_has_file st then st_old st else []
  | _ => []
  end.

Lemma concat_snoc {A} (l : list (list A)) (x : list A) : concat (l ++ [x]) = concat l ++ x.
Proof. rewrite concat_app. cbn. rewrite app_nil_r. reflexivity. Qed.

Ltac norm_app := cbn [app]; repeat rewrite <- app_assoc; repeat rewrite app_nil_r; cbn [app].

Lemma all_log_step st e :
  dropped_by st e ++ all_log (apply_ev st e) =
    all_log st ++ (match e with LQuery ev q => if should_log ev q then [log_entry ev q] else [] | _ => [] end) /\
  all_stats (apply_ev st e) =
    all_stats st ++ (match e with LQuery ev q => if should_count ev q then [stat_entry ev q] else [] | _ => [] end).
Proof.
  destruct e as [ev q| | |]; cbn [apply_ev dropped_by].
  - unfold all_log, all_stats, process; cbn [st_old st_file st_mem st_stats st_units].
    destruct (should_log ev q), (should_count ev q); norm_app; auto.
  - unfold all_log, all_stats, flush; cbn [st_old st_file st_mem st_stats st_units]. norm_app. auto.
  - unfold all_log, all_stats, rotate. destruct (st_has_file st); cbn [st_old st_file st_mem st_stats st_units];
      norm_app; auto.
  - unfold all_log, all_stats, roll; cbn [st_old st_file st_mem st_stats st_units].
    rewrite concat_snoc. norm_app. auto.
Qed.

(** The records a history dropped by rotating twice (oldest first). *)
Fixpoint dropped_from (st : store) (evs : list lev) : list lentry :=
  match evs with
  | [] => []
  | e :: r => dropped_by st e ++ dropped_from (apply_ev st e) r
  end.

Lemma all_log_fold evs : forall st,
  dropped_from st evs ++ all_log (fold_left apply_ev evs st) = all_log st ++ logged evs /\
  all_stats (fold_left apply_ev evs st) = all_stats st ++ counted evs.
Proof.
  induction evs as [|e evs IH]; intros st; cbn [fold_left logged counted dropped_from].
  - rewrite !app_nil_r. auto.
  - destruct (IH (apply_ev st e)) as [IH1 IH2]. destruct (all_log_step st e) as [S1 S2].
    rewrite <- app_assoc, IH1, IH2, S2, app_assoc, S1.
    destruct e; norm_app; auto.
Qed.

(** Across rotations and unit roll-overs: the records of the queries that
    passed the tests, in order, are what an overwritten querylog.json.1 dropped
    followed by EXACTLY what the log holds (rotated file, file, buffer); the
    statistics (stored units and the current one) hold exactly the counted
    records. *)
Lemma run_log_across_rotation evs :
  logged evs = dropped_from empty_store evs ++ all_log (run_log evs) /\
  all_stats (run_log evs) = counted evs.
Proof. unfold run_log. destruct (all_log_fold evs empty_store) as [H1 H2]. rewrite H1, H2. auto. Qed.

(** Without a rotation nothing is dropped... *)
Lemma dropped_none evs : forall st, existsb is_rotate evs = false -> dropped_from st evs = [].
Proof.
  induction evs as [|e evs IH]; intros st Hn; [reflexivity|].
  cbn [existsb] in Hn. apply orb_false_iff in Hn. destruct Hn as [He Hn].
  cbn [dropped_from]. rewrite (IH _ Hn). destruct e; try discriminate He; reflexivity.
Qed.

(** ... in particular a history without rotation holds exactly the records
    of the queries that passed the tests, in order. *)
Lemma run_log_exact evs :
  existsb is_rotate evs = false ->
  all_log (run_log evs) = logged evs /\ all_stats (run_log evs) = counted evs.
Proof.
  intros Hn. destruct (run_log_across_rotation evs) as [H1 H2]. split; [|exact H2].
  rewrite H1, (dropped_none evs empty_store Hn). reflexivity.
Qed.

Definition plain_env : env :=
  {| e_ix := empty_index; e_dhcp := fun _ => None; e_anon := false; e_qlog_enabled := true; e_refuse_any := false;
     e_qign := fun _ => false; e_sign := fun _ => false |}.

Lemma rotation_example :
  let q (n : bytes) := {| q_name := n; q_any := false; q_addr := ([10;1;2;3], []); q_cid := []; q_cid_mac := None |} in
  let evs := [LQuery plain_env (q [97;46]); LFlush; LRotate; LQuery plain_env (q [98;46]); LRoll;
              LFlush; LRotate; LQuery plain_env (q [99;46])] in
  st_old (run_log evs) = [([98], [10;1;2;3], [])] /\ st_file (run_log evs) = [] /\
  st_mem (run_log evs) = [([99], [10;1;2;3], [])] /\
  dropped_from empty_store evs = [([97], [10;1;2;3], [])] /\
  st_units (run_log evs) = [[([97], [], [10;1;2;3]); ([98], [], [10;1;2;3])]] /\
  st_stats (run_log evs) = [([99], [], [10;1;2;3])].
Proof. repeat split; vm_compute; reflexivity. Qed.

Lemma all_log_logged evs e : In e (all_log (run_log evs)) -> In e (logged evs).
Proof. intros H. destruct (run_log_across_rotation evs) as [-> _]. apply in_or_app. right. exact H. Qed.

Lemma logged_in evs e : In e (logged evs) ->
  exists ev q, In (LQuery ev q) evs /\ should_log ev q = true /\ e = log_entry ev q.
Proof.
  induction evs as [|[ev q| | |] evs IH]; cbn [logged]; [intros []| | | |].
  - intros H. apply in_app_or in H. destruct H as [H|H].
    + destruct (should_log ev q) eqn:E; [|destruct H]. destruct H as [<-|[]]. exists ev, q. cbn; auto.
    + destruct (IH H) as (ev' & q' & Hin & Hs & He). exists ev', q'. cbn; auto.
  - intros H. destruct (IH H) as (ev' & q' & Hin & Hs & He). exists ev', q'. cbn; auto.
  - intros H. destruct (IH H) as (ev' & q' & Hin & Hs & He). exists ev', q'. cbn; auto.
  - intros H. destruct (IH H) as (ev' & q' & Hin & Hs & He). exists ev', q'. cbn; auto.
Qed.

Lemma counted_in evs e : In e (counted evs) ->
  exists ev q, In (LQuery ev q) evs /\ should_count ev q = true /\ e = stat_entry ev q.
Proof.
  induction evs as [|[ev q| | |] evs IH]; cbn [counted]; [intros []| | | |].
  - intros H. apply in_app_or in H. destruct H as [H|H].
    + destruct (should_count ev q) eqn:E; [|destruct H]. destruct H as [<-|[]]. exists ev, q. cbn; auto.
    + destruct (IH H) as (ev' & q' & Hin & Hs & He). exists ev', q'. cbn; auto.
  - intros H. destruct (IH H) as (ev' & q' & Hin & Hs & He). exists ev', q'. cbn; auto.
  - intros H. destruct (IH H) as (ev' & q' & Hin & Hs & He). exists ev', q'. cbn; auto.
  - intros H. destruct (IH H) as (ev' & q' & Hin & Hs & He). exists ev', q'. cbn; auto.
Qed.

Lemma should_log_true ev q : should_log ev q = true ->
  e_qign ev (normalize (q_name q)) = false /\
  qlog_client_ignored (e_ix ev) (e_dhcp ev) (ids_of q) = false /\
  (q_any q = true -> e_refuse_any ev = false).
Proof.
  unfold should_log. rewrite !andb_true_iff, !negb_true_iff. intros [[[H0 H1] H2] H3].
  repeat split; auto. intros Ha. rewrite Ha in H1. exact H1.
Qed.

Lemma should_count_true ev q : should_count ev q = true ->
  e_sign ev (normalize (q_name q)) = false /\
  stats_client_counted (e_ix ev) (e_dhcp ev) (ids_of q) = true.
Proof. unfold should_count. rewrite andb_true_iff, negb_true_iff. tauto. Qed.

(** Every record held by the query log, in memory or on disk, after ANY
    history: it stems from a query whose normalised name the ignore list in
    force did not match, whose client (found by ClientID / real address) was
    not marked, and with anonymisation on it carries the masked address. *)
Theorem log_records_ok evs e :
  In e (all_log (run_log evs)) ->
  exists ev q, In (LQuery ev q) evs /\ e = log_entry ev q /\
    e_qign ev (fst (fst e)) = false /\
    qlog_client_ignored (e_ix ev) (e_dhcp ev) (ids_of q) = false /\
    (e_anon ev = true -> snd (fst e) = anonymize (fst (q_addr q)) /\ masked (snd (fst e))).
Proof.
  intros H. apply all_log_logged in H.
  destruct (logged_in evs e H) as (ev & q & Hin & Hs & ->).
  destruct (should_log_true ev q Hs) as (H1 & H2 & _).
  exists ev, q. split; [assumption|]. split; [reflexivity|]. split; [exact H1|]. split; [exact H2|].
  unfold log_entry, recorded_ip; cbn [fst snd]. intros ->. split; [reflexivity|apply anonymize_masked].
Qed.

Theorem stat_records_ok evs s :
  In s (all_stats (run_log evs)) ->
  exists ev q, In (LQuery ev q) evs /\ s = stat_entry ev q /\
    e_sign ev (fst (fst s)) = false /\
    stats_client_counted (e_ix ev) (e_dhcp ev) (ids_of q) = true /\
    (e_anon ev = true -> snd s = [] \/ (snd s = anonymize (fst (q_addr q)) /\ masked (snd s))).
Proof.
  destruct (run_log_across_rotation evs) as [_ ->]. intros H.
  destruct (counted_in evs s H) as (ev & q & Hin & Hs & ->).
  destruct (should_count_true ev q Hs) as (H1 & H2).
  exists ev, q. split; [assumption|]. split; [reflexivity|].
  split; [unfold stat_entry; destruct (q_cid q); exact H1|]. split; [exact H2|].
  unfold stat_entry, recorded_ip. destruct (q_cid q); cbn [fst snd]; [|auto].
  intros ->. right. split; [reflexivity|apply anonymize_masked].
Qed.

(** * The search / report side *)
Theorem search_results_ok ev mac_of st e :
  In e (search_report ev mac_of st) ->
  exists e0, In e0 (all_log st) /\ e = reported ev e0 /\
    e_qign ev (fst (fst e)) = false /\
    qlog_client_ignored (e_ix ev) (e_dhcp ev) (stored_ids mac_of e0) = false /\
    (e_anon ev = true -> masked (snd (fst e))).
Proof.
  unfold search_report, search. intros H. apply in_map_iff in H. destruct H as (e0 & <- & H).
  apply filter_In in H. destruct H as [Hin Hv].
  unfold visible in Hv. apply andb_true_iff in Hv. destruct Hv as [H1 H2]. apply negb_true_iff in H1, H2.
  exists e0. split.
  - unfold all_log. apply in_app_or in Hin. destruct Hin as [Hin|Hin]; [|apply in_app_or in Hin; destruct Hin as [Hin|Hin]];
      apply in_rev in Hin; apply in_or_app; [right; apply in_or_app; right|right; apply in_or_app; left|left]; exact Hin.
  - destruct e0 as [[n ip] c]. unfold reported; cbn [fst snd] in *.
    split; [reflexivity|]. split; [exact H1|]. split; [exact H2|].
    intros ->. apply anonymize_masked.
Qed.

Theorem stats_report_ok ev mac_of st :
  (forall d, In d (stats_domains ev st) -> e_sign ev d = false) /\
  (forall s, In s (stats_clients ev mac_of st) ->
     In s (all_stats st) /\ stats_client_counted (e_ix ev) (e_dhcp ev) [stat_key_id mac_of s] = true).
Proof.
  split.
  - intros d H. unfold stats_domains in H. apply in_map_iff in H. destruct H as (s & <- & H).
    apply filter_In in H. destruct H as [_ H]. unfold stat_domain_visible in H. apply negb_true_iff in H. exact H.
  - intros s H. unfold stats_clients in H. apply filter_In in H. exact H.
Qed.

(** * Relation to the request precedence of C04 *)
(** FULL statement: a request that the precedence of C04 ([acf_find]: ClientID,
    exact address, longest containing prefix, lease MAC) attributes to a
    client marked to be ignored is not recorded. *)
Definition ignored_client_never_stored_statement : Prop :=
  forall ev q st u c,
    find_by_cid (e_ix ev) [] = None ->          (* nobody lists the empty ClientID (SetIDs rejects it) *)
    acf_find (e_ix ev) (e_dhcp ev) (q_cid q) (q_addr q) = Some u -> deref (e_ix ev) u = Some c ->
    (c_ignore_qlog c = true -> st_mem (process ev q st) = st_mem st) /\
    (c_ignore_stats c = true -> st_stats (process ev q st) = st_stats st).

Lemma first_client_here f ix i rest u c :
  f i = Some u -> deref ix u = Some c -> first_client f ix (i :: rest) = Some c.
Proof. intros H1 H2. cbn. rewrite H1, H2. reflexivity. Qed.
Lemma first_client_skip f ix i rest : f i = None -> first_client f ix (i :: rest) = first_client f ix rest.
Proof. intros H. cbn. rewrite H. reflexivity. Qed.

(** The finders of the log and the statistics select the client of the request
    precedence (ClientID, exact address, longest containing prefix, lease MAC):
    a ClientID is never read as a MAC address. *)
Lemma precedence_client_found ev q u c :
  find_by_cid (e_ix ev) [] = None ->
  acf_find (e_ix ev) (e_dhcp ev) (q_cid q) (q_addr q) = Some u -> deref (e_ix ev) u = Some c ->
  first_client (find_loose (e_ix ev) (e_dhcp ev)) (e_ix ev) (ids_of q) = Some c /\
  first_client (find_strict (e_ix ev) (e_dhcp ev)) (e_ix ev) (ids_of q) = Some c.
Proof.
  intros Hemp Hacf Hd. unfold acf_find in Hacf. unfold ids_of.
  set (ix := e_ix ev) in *. set (dh := e_dhcp ev) in *.
  assert (Haddr : find_by_cid ix (q_cid q) = None ->
          find_loose ix dh (IdAddr (q_addr q)) = Some u /\ find_strict ix dh (IdAddr (q_addr q)) = Some u).
  { intros Hc. rewrite Hc in Hacf. cbn [find_loose find_strict].
    destruct (find_by_ip ix (q_addr q)) as [u'|]; [inversion Hacf; auto|].
    destruct (dh (q_addr q)) as [m|]; [|discriminate].
    rewrite Hacf. auto. }
  destruct (q_cid q) as [|b cid] eqn:Ec.
  - destruct (Haddr Hemp) as [H1 H2]. split; eapply first_client_here; eauto.
  - destruct (find_by_cid ix (b :: cid)) as [u'|] eqn:Hc.
    + inversion Hacf; subst u'.
      assert (Hf : find ix (b :: cid) None None = Some u) by (unfold find; rewrite Hc; reflexivity).
      split; eapply first_client_here; eauto.
    + assert (Hf : find ix (b :: cid) None None = None) by (unfold find; rewrite Hc; reflexivity).
      destruct (Haddr eq_refl) as [H1 H2].
      split; (rewrite first_client_skip by exact Hf); eapply first_client_here; eauto.
Qed.

Theorem ignored_client_never_stored : ignored_client_never_stored_statement.
Proof.
  intros ev q st u c Hemp Hacf Hd.
  destruct (precedence_client_found ev q u c Hemp Hacf Hd) as [H1 H2]. split; intros Hf.
  - apply ignored_client_not_logged. unfold qlog_client_ignored. rewrite H1. exact Hf.
  - apply ignored_client_not_counted. unfold stats_client_counted. rewrite H2, Hf. reflexivity.
Qed.

(** The former witness against the statement (repaired finding
    C08-maclike-clientid-resolved-as-mac): client b = 192.168.1.0/24 with both
    ignore flags, client a = MAC aa:bb:cc:dd:ee:01 without; a request from
    192.168.1.5 with ClientID "aa-bb-cc-dd-ee-01" is recorded nowhere. *)
Definition wit_client (u : uid) name ips subnets macs (iq is_ : bool) : client :=
  {| c_uid := u; c_name := name; c_cids := []; c_ips := ips; c_subnets := subnets; c_macs := macs;
     c_own_settings := false; c_filtering := false; c_safesearch := false; c_safebrowsing := false;
     c_parental := false; c_own_blocked := false; c_blocked := None;
     c_ignore_qlog := iq; c_ignore_stats := is_; c_tags := []; c_upstreams := [] |}.
Definition wit_mac : bytes := [170;187;204;221;238;1].
Definition wit_cid : bytes := [97;97;45;98;98;45;99;99;45;100;100;45;101;101;45;48;49].
Definition wit_cfg : config := {| cfg_tags := []; cfg_addr_ok := fun _ => true |}.
Definition wit_ix : index :=
  run wit_cfg [OAdd (wit_client 1 [98] [] [([192;168;1;0], 24)] [] true true);
       OAdd (wit_client 2 [97] [] [] [wit_mac] false false)] empty_index.
Definition wit_env (anon : bool) : env :=
  {| e_ix := wit_ix; e_dhcp := fun _ => None; e_anon := anon; e_qlog_enabled := true; e_refuse_any := false;
     e_qign := fun _ => false; e_sign := fun _ => false |}.
Definition wit_query (cid : bytes) (mac : option bytes) : query :=
  {| q_name := [111;107;46]; q_any := false; q_addr := ([192;168;1;5], []); q_cid := cid; q_cid_mac := mac |}.

(** Non-vacuity, for both anonymisation settings: the request of the ignored
    client b is recorded nowhere, with the MAC-like ClientID and without it
    (the latter is the case the repaired defect #9 got wrong with anonymisation
    on); a request from outside the prefix is recorded with the masked address. *)
Lemma never_stored_premises_satisfiable :
  find_by_cid wit_ix [] = None /\
  acf_find wit_ix (fun _ => None) wit_cid ([192;168;1;5], []) = Some 1 /\
  process (wit_env true) (wit_query wit_cid (Some wit_mac)) empty_store = empty_store /\
  process (wit_env false) (wit_query wit_cid (Some wit_mac)) empty_store = empty_store /\
  process (wit_env true) (wit_query [] None) empty_store = empty_store /\
  process (wit_env false) (wit_query [] None) empty_store = empty_store /\
  all_log (process (wit_env true)
             {| q_name := [79;75;46]; q_any := false; q_addr := ([10;1;2;3], []); q_cid := []; q_cid_mac := None |}
             empty_store) = [([111;107], [10;1;0;0], [])].
Proof. repeat split; vm_compute; reflexivity. Qed.

(** The reading of defect #9 (ids built from the anonymised address) is not
    the property: it would record the ignored client. *)
Definition ids_of_anonymised (ev : env) (q : query) : list id :=
  [IdAddr (recorded_ip ev q, [])].
Lemma anonymised_ids_reading_refuted :
  qlog_client_ignored wit_ix (fun _ => None) (ids_of_anonymised (wit_env true) (wit_query [] None)) = false /\
  qlog_client_ignored wit_ix (fun _ => None) (ids_of (wit_query [] None)) = true.
Proof. split; vm_compute; reflexivity. Qed.

Lemma addresses_masked ip : masked (anonymize ip) /\ length (anonymize ip) = length ip.
Proof. split; [exact (anonymize_masked ip)|exact (anonymize_length ip)]. Qed.

(** * Configured anonymisation and the shared mutator never diverge *)
Definition in_sync (c : qconf) : Prop := qc_mut c = qc_anon c.

Lemma conf_step_in_sync c o : in_sync c -> in_sync (conf_step c o).
Proof.
  unfold in_sync. destruct o as [e a|e a]; cbn; [reflexivity|]. destruct a; auto.
Qed.

Lemma conf_always_in_sync enabled anon ops :
  in_sync (fold_left conf_step ops (conf_init enabled anon)).
Proof.
  assert (H : forall c, in_sync c -> in_sync (fold_left conf_step ops c)).
  { induction ops as [|o ops IH]; cbn; intros c Hc; [assumption|]. apply IH, conf_step_in_sync, Hc. }
  apply H. reflexivity.
Qed.

(** Hence: whenever anonymisation is CONFIGURED on, a recorded address is masked. *)
Lemma configured_anon_masks enabled anon ops ev q :
  let c := fold_left conf_step ops (conf_init enabled anon) in
  e_anon ev = qc_mut c -> qc_anon c = true ->
  recorded_ip ev q = anonymize (fst (q_addr q)) /\ masked (recorded_ip ev q).
Proof.
  intros c Hm Ha. pose proof (conf_always_in_sync enabled anon ops) as Hs. unfold in_sync in Hs.
  fold c in Hs. unfold recorded_ip. rewrite Hm, Hs, Ha. split; [reflexivity|apply anonymize_masked].
Qed.

(** Specification and proofs for the DNS filtering pipeline, layer A
    (C01, C02): the engines, the safe-browsing / parental verdicts and the
    upstream are arbitrary. *)
From Coq Require Import List NArith Bool Lia Permutation.
From AGH Require Import Base.Run Base.NetAddr Base.RuleEngine Model.Pipeline.
Import ListNotations.
Local Open Scope N_scope.

(** * The synthetic answer of a blocking mode, as a table *)

Definition addr_question (qt : N) : bool := (qt =? tA) || (qt =? tAAAA) || (qt =? tHTTPS).

(** The answer section for a list of addresses: A questions get all of them
    if all are IPv4 (else none), AAAA questions the non-IPv4 ones, HTTPS none. *)
Definition answers_for (c : cfg) (name : bytes) (qt : N) (ips : list addr) : list rr :=
  if qt =? tA then (if forallb is4 ips then map (rec_a c name) ips else [])
  else if qt =? tAAAA then map (rec_aaaa c name) (filter (fun a => negb (is4 a)) ips)
  else [].

Definition null_answers (c : cfg) (name : bytes) (qt : N) : list rr :=
  if qt =? tA then [rec_a c name zero4]
  else if qt =? tAAAA then [rec_aaaa c name zero6]
  else [].

Definition synthetic (c : cfg) (name : bytes) (qt : N) (rule_ips : list addr) : resp :=
  if addr_question qt then
    match c_mode c with
    | MRefused => mkResp rcRefused [] false
    | MNXDomain => mkResp rcNXDomain [] true
    | MNullIP => mkResp rcSuccess (null_answers c name qt) false
    | MCustomIP =>
        mkResp rcSuccess
          (if qt =? tA then [rec_a c name (c_ip4 c)]
           else if qt =? tAAAA then [rec_aaaa c name (c_ip6 c)] else []) false
    | MDefault =>
        mkResp rcSuccess
          (match rule_ips with [] => null_answers c name qt | _ => answers_for c name qt rule_ips end) false
    end
  else
    (* any other question type: NODATA with SOA, a bare NOERROR in null-IP mode *)
    match c_mode c with
    | MNullIP => mkResp rcSuccess [] false
    | _ => mkResp rcSuccess [] true
    end.

Definition rule_reason (r : reason) : Prop := r = FilteredBlockList \/ r = FilteredBlockedService.

Lemma filter_message_synthetic c name qt r :
  rule_reason (r_reason r) ->
  filter_message c name qt r = synthetic c name qt (ips_from_rules r).
Proof.
  intros Hr. unfold filter_message, synthetic, addr_question.
  destruct ((qt =? tA) || (qt =? tAAAA) || (qt =? tHTTPS)) eqn:Eq; cbn [negb].
  - assert (Hm : match r_reason r with
                 | FilteredSafeBrowsing => blocked_host_response c name qt (c_sb_host c)
                 | FilteredParental => blocked_host_response c name qt (c_par_host c)
                 | _ => for_blocking_mode c name qt (ips_from_rules r)
                 end = for_blocking_mode c name qt (ips_from_rules r)).
    { destruct Hr as [-> | ->]; reflexivity. }
    rewrite Hm. unfold for_blocking_mode, null_ip_response, response_with_ips, null_answers, answers_for,
      empty_ok, refused, nxdomain.
    destruct (c_mode c); try reflexivity.
    + destruct (ips_from_rules r) as [|i l]; destruct (qt =? tA) eqn:EA; try reflexivity;
        try (destruct (qt =? tAAAA) eqn:E6; reflexivity).
      destruct (forallb is4 (i :: l)); reflexivity.
    + destruct (qt =? tA); [reflexivity|]. destruct (qt =? tAAAA); reflexivity.
    + destruct (qt =? tA); [reflexivity|]. destruct (qt =? tAAAA); reflexivity.
  - destruct (c_mode c); reflexivity.
Qed.

Section Engines.
  Variable allow_eng block_eng : ufreq -> dnsresult * bool.
  Variable sb_oracle par_oracle : bytes -> bool.

  Notation check_host := (check_host allow_eng block_eng sb_oracle par_oracle).
  Notation match_host := (match_host allow_eng block_eng).
  Notation process := (process allow_eng block_eng sb_oracle par_oracle).
  Notation filter_answer := (filter_answer allow_eng block_eng).
  Notation check_rr := (check_rr allow_eng block_eng).

  (** * The request as the engines see it *)

  Definition rq_of (st : settings) (host : bytes) (qt : N) : ufreq :=
    mkReq host qt (st_client_name st) (Some (st_client_ip st)).

  Definition host_of (q : request) : bytes := lower (trim_dot (q_name q)).

  (** Queries answered before any filtering (AAAA switched off, the Firefox
      canary, the health-check name). *)
  Definition early (c : cfg) (q : request) : bool :=
    (c_aaaa_disabled c && (q_qtype q =? tAAAA)) ||
    (((q_qtype q =? tA) || (q_qtype q =? tAAAA)) && eqb_bytes (q_name q) mozilla_fqdn) ||
    eqb_bytes (q_name q) healthcheck_fqdn.

  (** * Declarative verdicts, in terms of what the engines report *)

  (** An allow-list rule matches the name. *)
  Definition allow_hit (st : settings) (host : bytes) (qt : N) : Prop :=
    st_filtering st = true /\ snd (allow_eng (rq_of st host qt)) = true.

  (** No allow-list rule matches, and the block-list engine (block lists,
      custom rules, hosts-style lines) reports a winning rule that is not an
      exception. *)
  Definition list_blocked (st : settings) (host : bytes) (qt : N) : Prop :=
    st_filtering st = true /\
    snd (allow_eng (rq_of st host qt)) = false /\
    snd (block_eng (rq_of st host qt)) = true /\
    r_filtered (blocklist_result qt (fst (block_eng (rq_of st host qt)))) = true.

  (** No rule list says anything about the name (filtering off for the
      client, or neither engine matches, or only host rules of no use). *)
  Definition lists_silent (st : settings) (host : bytes) (qt : N) : Prop :=
    st_filtering st = false \/
    (snd (allow_eng (rq_of st host qt)) = false /\
     (snd (block_eng (rq_of st host qt)) = false \/
      matched (blocklist_result qt (fst (block_eng (rq_of st host qt)))) = false)).

  (** A rule of an active blocked service matches. *)
  Definition service_blocked (st : settings) (host : bytes) : Prop :=
    exists name r, first_service (st_services st) host = Some (name, r).

  Definition blocked_by_spec (c : cfg) (q : request) : Prop :=
    let st := client_settings c q in
    protection_on c = true /\ early c q = false /\ host_of q <> [] /\
    (list_blocked st (host_of q) (q_qtype q) \/
     (lists_silent st (host_of q) (q_qtype q) /\ service_blocked st (host_of q))).

  (** * The pipeline unfolded *)

  Definition the_call (q : request) : bytes * N := (q_name q, q_qtype q).

  Definition after_upstream (c : cfg) (q : request) (res : result) (r : resp) : outcome :=
    let st := client_settings c q in
    match r_reason res with
    | NotFilteredAllowList => mkOutcome (Some r) [the_call q] res false true
    | _ =>
        if negb (protection_on c) || negb (st_filtering st)
        then mkOutcome (Some r) [the_call q] res false true
        else
          match filter_answer c st (rs_answer r) with
          | (_, Some fr) =>
              mkOutcome (Some (filter_message c (q_name q) (q_qtype q) fr)) [the_call q] fr true true
          | (ans', None) =>
              mkOutcome (Some (mkResp (rs_rcode r) ans' (rs_soa r))) [the_call q] res false true
          end
    end.

  Lemma process_not_early c up q :
    early c q = false ->
    process c up q =
    let st := client_settings c q in
    let res := check_host st (trim_dot (q_name q)) (q_qtype q) in
    if r_filtered res
    then mkOutcome (Some (filter_message c (q_name q) (q_qtype q) res)) [] res false true
    else match up (q_name q) (q_qtype q) with
         | None => mkOutcome (Some servfail) [the_call q] res false false
         | Some r => after_upstream c q res r
         end.
  Proof.
    intros He.
    set (outcome_of := fun p : pstate =>
      mkOutcome (ps_resp p) (ps_calls p) (ps_result p) (ps_orig_kept p) (ps_logged p)).
    change (process c up q) with
      (outcome_of (run_stages allow_eng block_eng sb_oracle par_oracle c up q stage_order
                     (mkPState None [] no_result false false false))).
    unfold stage_order.
    set (p0 := mkPState None [] no_result false false false).
    assert (L1 : run_stage allow_eng block_eng sb_oracle par_oracle c up q StInitial p0 = (RcSuccess, p0)).
    { unfold early in He.
      apply orb_false_iff in He as [He H3]. apply orb_false_iff in He as [H1 H2].
      unfold run_stage. rewrite H1, H2, H3. reflexivity. }
    cbn [run_stages]. rewrite L1. cbv zeta.
    set (st := client_settings c q).
    set (res := check_host st (trim_dot (q_name q)) (q_qtype q)).
    cbn [run_stages].
    assert (L2 : run_stage allow_eng block_eng sb_oracle par_oracle c up q StFilterBefore p0 =
                 (RcSuccess, mkPState (if r_filtered res then Some (filter_message c (q_name q) (q_qtype q) res) else None)
                                      [] res false false false)).
    { reflexivity. }
    rewrite L2. clear L1 L2.
    destruct (r_filtered res) eqn:Ef.
    - (* answered locally: the upstream stage and response filtering do nothing *)
      set (p1 := mkPState (Some (filter_message c (q_name q) (q_qtype q) res)) [] res false false false).
      assert (L3 : run_stage allow_eng block_eng sb_oracle par_oracle c up q StUpstream p1 = (RcSuccess, p1)) by reflexivity.
      rewrite L3.
      assert (L4 : run_stage allow_eng block_eng sb_oracle par_oracle c up q StFilterAfter p1 = (RcSuccess, p1)).
      { subst p1. unfold run_stage. cbn [ps_result ps_from_upstream negb]. rewrite orb_true_r. cbn [orb].
        destruct (r_reason res); reflexivity. }
      rewrite L4. reflexivity.
    - set (p1 := mkPState None [] res false false false).
      destruct (up (q_name q) (q_qtype q)) as [r|] eqn:Eu.
      + set (p2 := mkPState (Some r) [the_call q] res false true false).
        assert (L3 : run_stage allow_eng block_eng sb_oracle par_oracle c up q StUpstream p1 = (RcSuccess, p2)).
        { unfold run_stage. cbn [ps_resp p1 ps_calls ps_result app]. rewrite Eu. reflexivity. }
        rewrite L3. clear L3. unfold after_upstream. fold st. subst p2.
        unfold run_stage at 1. cbn [ps_result ps_from_upstream ps_resp ps_calls negb]. rewrite orb_false_r.
        fold st.
        destruct (r_reason res) eqn:Er; try reflexivity;
          (destruct (negb (protection_on c) || negb (st_filtering st)); [reflexivity|];
           destruct (filter_answer c st (rs_answer r)) as [ans' [fr|]]; reflexivity).
      + assert (L3 : run_stage allow_eng block_eng sb_oracle par_oracle c up q StUpstream p1 =
                     (RcError, mkPState (Some servfail) [the_call q] res false false false)).
        { unfold run_stage. cbn [ps_resp p1 ps_calls ps_result app]. rewrite Eu. reflexivity. }
        rewrite L3. reflexivity.
  Qed.

  (** * check_host under the verdicts *)

  Lemma check_host_unfold st host qt :
    host <> [] ->
    check_host st host qt =
    let h := lower host in
    if matched (match_host st h qt) then match_host st h qt
    else if matched (match_services st h) then match_services st h
    else if matched (check_safebrowsing sb_oracle st h) then check_safebrowsing sb_oracle st h
    else if matched (check_parental par_oracle st h) then check_parental par_oracle st h
    else no_result.
  Proof. intros Hh. unfold Pipeline.check_host. destruct host; [congruence|]. reflexivity. Qed.

  Lemma lower_nonempty s : lower s <> [] -> s <> [].
  Proof. destruct s; cbn; congruence. Qed.

  Lemma match_host_list_blocked st host qt :
    st_protection st = true -> list_blocked st host qt ->
    match_host st host qt = blocklist_result qt (fst (block_eng (rq_of st host qt))).
  Proof.
    intros Hp (Hf & Ha & Hb & _). unfold Pipeline.match_host. fold (rq_of st host qt).
    rewrite Hf, Hp. cbn [negb]. rewrite Ha, Hb. reflexivity.
  Qed.

  Lemma blocklist_result_filtered qt dr :
    r_filtered (blocklist_result qt dr) = true ->
    r_reason (blocklist_result qt dr) = FilteredBlockList /\ r_service (blocklist_result qt dr) = [].
  Proof.
    unfold blocklist_result, other_qtype_result.
    destruct (dr_net dr) as [n|]; [destruct (nr_white n); cbn; intros; try discriminate; auto|].
    destruct (qt =? tA); [destruct (dr_v4 dr); [destruct (dr_v6 dr)|]; cbn; intros; try discriminate; auto|].
    destruct (qt =? tAAAA); destruct (dr_v6 dr), (dr_v4 dr); cbn; intros; try discriminate; auto.
  Qed.

  Lemma matched_filtered r : r_filtered r = true -> r_reason r = FilteredBlockList -> matched r = true.
  Proof. intros _ H. unfold matched. rewrite H. reflexivity. Qed.

  Lemma match_host_silent st host qt :
    lists_silent st host qt -> matched (match_host st host qt) = false.
  Proof.
    unfold Pipeline.match_host. fold (rq_of st host qt).
    intros [Hf | (Ha & Hb)].
    - rewrite Hf. reflexivity.
    - destruct (st_filtering st); [|reflexivity]. cbn [negb].
      destruct (st_protection st).
      + rewrite Ha. destruct Hb as [Hb|Hb]; [rewrite Hb; reflexivity|].
        destruct (snd (block_eng (rq_of st host qt))); [exact Hb | reflexivity].
      + cbn [snd]. destruct (snd (block_eng (rq_of st host qt))); reflexivity.
  Qed.

  Lemma client_settings_protection c q : st_protection (client_settings c q) = protection_on c.
  Proof.
    unfold client_settings. destruct (q_client q) as [p|]; [|reflexivity].
    destruct (pc_use_own_settings p); reflexivity.
  Qed.

  (** The verdict of the request stage for a query blocked by the spec. *)
  Lemma check_host_blocked c q :
    blocked_by_spec c q ->
    let res := check_host (client_settings c q) (trim_dot (q_name q)) (q_qtype q) in
    r_filtered res = true /\ rule_reason (r_reason res).
  Proof.
    intros (Hp & _ & Hh & Hv). cbv zeta.
    assert (Hp' := client_settings_protection c q). rewrite Hp in Hp'.
    unfold host_of in *. rewrite check_host_unfold by (apply lower_nonempty; exact Hh).
    cbv zeta. set (st := client_settings c q) in *. set (h := lower (trim_dot (q_name q))) in *.
    destruct Hv as [Hl | [Hs (name & r & Hsvc)]].
    - rewrite (match_host_list_blocked _ _ _ Hp' Hl).
      destruct Hl as (_ & _ & _ & Hfil).
      destruct (blocklist_result_filtered _ _ Hfil) as [Hr _].
      rewrite (matched_filtered _ Hfil Hr). split; [exact Hfil | left; exact Hr].
    - rewrite (match_host_silent _ _ _ Hs).
      unfold match_services. rewrite Hp'. cbn [negb]. rewrite Hsvc. cbn.
      split; [reflexivity | right; reflexivity].
  Qed.

  (** * C01 *)

  (** A query blocked by the rule lists or a blocked service is answered
      locally with the synthetic answer of the blocking mode; nothing is sent
      upstream. *)
  Theorem blocked_is_local c up q :
    blocked_by_spec c q ->
    let o := process c up q in
    o_calls o = [] /\
    r_filtered (o_result o) = true /\ rule_reason (r_reason (o_result o)) /\
    o_resp o = Some (synthetic c (q_name q) (q_qtype q) (ips_from_rules (o_result o))).
  Proof.
    intros Hb. pose proof (check_host_blocked c q Hb) as [Hf Hr]. cbv zeta in Hf, Hr.
    destruct Hb as (_ & He & _). cbv zeta.
    rewrite (process_not_early c up q He). cbv zeta. rewrite Hf. cbn [o_calls o_result o_resp].
    repeat split; try assumption. rewrite (filter_message_synthetic _ _ _ _ Hr). reflexivity.
  Qed.

  (** ... and the whole outcome is independent of the upstream. *)
  Theorem no_upstream_data c up1 up2 q :
    blocked_by_spec c q -> process c up1 q = process c up2 q.
  Proof.
    intros Hb. pose proof (check_host_blocked c q Hb) as [Hf _]. cbv zeta in Hf.
    destruct Hb as (_ & He & _).
    rewrite !(process_not_early _ _ _ He). cbv zeta. rewrite Hf. reflexivity.
  Qed.

  (** Not blocked at the request stage: the verdict of the request stage is
      not "filtered" (allow rule, or nothing matched). *)
  Definition passes_request_stage (c : cfg) (q : request) : Prop :=
    early c q = false /\
    r_filtered (check_host (client_settings c q) (trim_dot (q_name q)) (q_qtype q)) = false.

  (** Sufficient, in terms of the engines: an allow-list rule matches (and
      protection is on), or nothing at all concerns the name. *)
  Lemma allow_hit_passes c q :
    early c q = false -> protection_on c = true -> host_of q <> [] ->
    allow_hit (client_settings c q) (host_of q) (q_qtype q) ->
    passes_request_stage c q /\
    r_reason (check_host (client_settings c q) (trim_dot (q_name q)) (q_qtype q)) = NotFilteredAllowList.
  Proof.
    intros He Hp Hh (Hf & Ha). unfold passes_request_stage, host_of in *.
    rewrite check_host_unfold by (apply lower_nonempty; exact Hh). cbv zeta.
    set (st := client_settings c q) in *. set (h := lower (trim_dot (q_name q))) in *.
    assert (Hm : match_host st h (q_qtype q) = allowlist_result (fst (allow_eng (rq_of st h (q_qtype q))))).
    { unfold Pipeline.match_host. fold (rq_of st h (q_qtype q)).
      assert (Hpp : st_protection st = true) by (unfold st; rewrite client_settings_protection; exact Hp).
      rewrite Hf, Hpp. cbn [negb]. rewrite Ha. reflexivity. }
    rewrite Hm. cbn. auto.
  Qed.

  Definition nothing_matches (c : cfg) (q : request) : Prop :=
    let st := client_settings c q in
    lists_silent st (host_of q) (q_qtype q) /\
    first_service (st_services st) (host_of q) = None /\
    (st_safebrowsing st = false \/ sb_oracle (host_of q) = false) /\
    (st_parental st = false \/ par_oracle (host_of q) = false).

  Lemma nothing_matches_passes c q :
    early c q = false -> nothing_matches c q ->
    passes_request_stage c q /\
    check_host (client_settings c q) (trim_dot (q_name q)) (q_qtype q) = no_result.
  Proof.
    intros He (Hs & Hsvc & Hsb & Hpar). unfold passes_request_stage, host_of in *.
    assert (Hres : check_host (client_settings c q) (trim_dot (q_name q)) (q_qtype q) = no_result).
    { destruct (trim_dot (q_name q)) as [|x xs] eqn:Et; [reflexivity|].
      rewrite check_host_unfold by discriminate. cbv zeta.
      rewrite (match_host_silent _ _ _ Hs).
      unfold match_services. rewrite Hsvc.
      assert (Hsv : matched (if negb (st_protection (client_settings c q)) then no_result else no_result) = false)
        by (destruct (negb _); reflexivity).
      rewrite Hsv.
      unfold check_safebrowsing, check_parental.
      assert (H1 : st_protection (client_settings c q) && st_safebrowsing (client_settings c q) && sb_oracle (lower (x :: xs)) = false).
      { destruct Hsb as [-> | ->]; rewrite ?andb_false_r; reflexivity. }
      assert (H2 : st_protection (client_settings c q) && st_parental (client_settings c q) && par_oracle (lower (x :: xs)) = false).
      { destruct Hpar as [-> | ->]; rewrite ?andb_false_r; reflexivity. }
      rewrite H1, H2. reflexivity. }
    rewrite Hres. repeat split; auto.
  Qed.

  (** A query that passes the request stage is forwarded exactly once, with
      its own name and type; an upstream failure gives SERVFAIL. *)
  Theorem forwarded_once c up q :
    passes_request_stage c q ->
    o_calls (process c up q) = [the_call q] /\
    (up (q_name q) (q_qtype q) = None -> o_resp (process c up q) = Some servfail).
  Proof.
    intros [He Hf]. rewrite (process_not_early _ _ _ He). cbv zeta. rewrite Hf.
    destruct (up (q_name q) (q_qtype q)) as [r|]; [|split; reflexivity].
    split; [|discriminate]. unfold after_upstream.
    destruct (r_reason _); try reflexivity;
      (destruct (negb (protection_on c) || negb _); [reflexivity|];
       destruct (filter_answer _ _ _) as [a [f|]]; reflexivity).
  Qed.

  (** Allow-listed: the upstream answer is delivered exactly as it came. *)
  Theorem allowlisted_intact c up q r :
    passes_request_stage c q ->
    r_reason (check_host (client_settings c q) (trim_dot (q_name q)) (q_qtype q)) = NotFilteredAllowList ->
    up (q_name q) (q_qtype q) = Some r ->
    o_resp (process c up q) = Some r /\ r_reason (o_result (process c up q)) = NotFilteredAllowList.
  Proof.
    intros [He Hf] Hr Hu. rewrite (process_not_early _ _ _ He). cbv zeta. rewrite Hf, Hu.
    unfold after_upstream. rewrite Hr. split; [reflexivity | exact Hr].
  Qed.

  (** With protection off nothing is blocked: whatever the engines and
      oracles say, the query is forwarded and the upstream answer delivered
      unchanged. *)
  Theorem protection_off c up q :
    protection_on c = false -> early c q = false ->
    let o := process c up q in
    o_result o = no_result /\ o_calls o = [the_call q] /\
    o_resp o = Some (match up (q_name q) (q_qtype q) with Some r => r | None => servfail end).
  Proof.
    intros Hp He. cbv zeta.
    assert (Hst := client_settings_protection c q). rewrite Hp in Hst.
    assert (Hres : check_host (client_settings c q) (trim_dot (q_name q)) (q_qtype q) = no_result).
    { destruct (trim_dot (q_name q)) as [|x xs] eqn:Et; [reflexivity|].
      rewrite check_host_unfold by discriminate. cbv zeta.
      unfold Pipeline.match_host, match_services, check_safebrowsing, check_parental. rewrite Hst.
      cbn [negb andb snd].
      destruct (negb (st_filtering (client_settings c q))); [reflexivity|].
      destruct (snd (block_eng _)); reflexivity. }
    rewrite (process_not_early _ _ _ He). cbv zeta. rewrite Hres. cbn [r_filtered no_result].
    destruct (up (q_name q) (q_qtype q)) as [r|]; [|repeat split; reflexivity].
    unfold after_upstream. cbn [r_reason no_result]. rewrite Hp. cbn [negb orb]. repeat split; reflexivity.
  Qed.

  (** * C02 *)

  (** A record is offending if its check reports a filtered result. *)
  Definition offending (c : cfg) (st : settings) (r : rr) : Prop :=
    exists res, check_rr st (strip_rr c r) = Some res.
  Definition clean (c : cfg) (st : settings) (r : rr) : Prop := check_rr st (strip_rr c r) = None.

  Lemma filter_answer_clean c st ans :
    Forall (clean c st) ans -> filter_answer c st ans = (map (strip_rr c) ans, None).
  Proof.
    induction 1 as [|r rest Hr _ IH]; [reflexivity|].
    cbn [Pipeline.filter_answer map]. unfold clean in Hr. rewrite Hr, IH. reflexivity.
  Qed.

  (** Induction over the clean prefix: the first offending record decides,
      wherever it sits. *)
  Lemma filter_answer_first c st pre r post res :
    Forall (clean c st) pre -> check_rr st (strip_rr c r) = Some res ->
    filter_answer c st (pre ++ r :: post) = (map (strip_rr c) pre ++ strip_rr c r :: post, Some res).
  Proof.
    intros Hpre Hr. induction Hpre as [|p pre Hp _ IH].
    - cbn [app map Pipeline.filter_answer]. rewrite Hr. reflexivity.
    - cbn [app map Pipeline.filter_answer]. unfold clean in Hp. rewrite Hp, IH. reflexivity.
  Qed.

  (** Response filtering applies: protection on, filtering on for the client,
      the request stage neither blocked nor allow-listed the name. *)
  Definition response_filtering_applies (c : cfg) (q : request) : Prop :=
    passes_request_stage c q /\
    r_reason (check_host (client_settings c q) (trim_dot (q_name q)) (q_qtype q)) <> NotFilteredAllowList /\
    protection_on c = true /\ st_filtering (client_settings c q) = true.

  Lemma applies_after_upstream c q res r :
    r_reason res <> NotFilteredAllowList -> protection_on c = true ->
    st_filtering (client_settings c q) = true ->
    after_upstream c q res r =
    match filter_answer c (client_settings c q) (rs_answer r) with
    | (_, Some fr) => mkOutcome (Some (filter_message c (q_name q) (q_qtype q) fr)) [the_call q] fr true true
    | (ans', None) => mkOutcome (Some (mkResp (rs_rcode r) ans' (rs_soa r))) [the_call q] res false true
    end.
  Proof.
    intros Hr Hp Hf. unfold after_upstream. rewrite Hp, Hf. cbn [negb orb].
    destruct (r_reason res); try reflexivity. congruence.
  Qed.

  (** The check of a record only ever reports a block-list result. *)
  Lemma match_host_filtered_reason st host qt :
    r_filtered (match_host st host qt) = true -> r_reason (match_host st host qt) = FilteredBlockList.
  Proof.
    unfold Pipeline.match_host.
    destruct (negb (st_filtering st)); [discriminate|].
    destruct (snd (if st_protection st then _ else _)); [discriminate|].
    destruct (negb (snd (block_eng _))); [discriminate|].
    destruct (negb (st_protection st)); [discriminate|].
    intros H. apply blocklist_result_filtered in H. tauto.
  Qed.

  Lemma first_filtered_hint_reason st hs res :
    first_filtered_hint allow_eng block_eng st hs = Some res ->
    r_filtered res = true /\ r_reason res = FilteredBlockList.
  Proof.
    induction hs as [|h hs IH]; cbn [first_filtered_hint]; [discriminate|].
    unfold check_host_rules.
    destruct (r_filtered (match_host st (lower (ta_text h)) tHTTPS)) eqn:E; [|exact IH].
    intros [= <-]. split; [exact E | apply match_host_filtered_reason; exact E].
  Qed.

  Lemma filter_https_reason st ps res :
    filter_https allow_eng block_eng st ps = Some res ->
    r_filtered res = true /\ r_reason res = FilteredBlockList.
  Proof.
    induction ps as [|p ps IH]; cbn [filter_https]; [discriminate|].
    destruct (first_filtered_hint _ _ _ _) eqn:E; [|exact IH].
    intros [= <-]. eapply first_filtered_hint_reason; exact E.
  Qed.

  Lemma check_rr_reason st r res :
    check_rr st r = Some res -> r_filtered res = true /\ r_reason res = FilteredBlockList.
  Proof.
    unfold Pipeline.check_rr, check_host_rules. destruct (rr_data r) as [a|a|t|ps|ty id].
    - destruct (r_filtered (match_host _ _ _)) eqn:E; [|discriminate].
      intros [= <-]. split; [exact E | apply match_host_filtered_reason; exact E].
    - destruct (r_filtered (match_host _ _ _)) eqn:E; [|discriminate].
      intros [= <-]. split; [exact E | apply match_host_filtered_reason; exact E].
    - destruct (r_filtered (match_host _ _ _)) eqn:E; [|discriminate].
      intros [= <-]. split; [exact E | apply match_host_filtered_reason; exact E].
    - apply filter_https_reason.
    - discriminate.
  Qed.

  (** The first offending record of the upstream answer, at any position,
      replaces the whole answer by the blocking-mode answer; the original is
      kept for the log. *)
  Theorem offending_record_blocks c up q r pre rr0 post res :
    response_filtering_applies c q ->
    up (q_name q) (q_qtype q) = Some r ->
    rs_answer r = pre ++ rr0 :: post ->
    Forall (clean c (client_settings c q)) pre ->
    check_rr (client_settings c q) (strip_rr c rr0) = Some res ->
    let o := process c up q in
    o_resp o = Some (synthetic c (q_name q) (q_qtype q) (ips_from_rules res)) /\
    o_result o = res /\ r_filtered res = true /\ r_reason res = FilteredBlockList /\
    o_orig_kept o = true /\ o_calls o = [the_call q].
  Proof.
    intros ([He Hf] & Hna & Hp & Hfil) Hu Hans Hpre Hr. cbv zeta.
    rewrite (process_not_early _ _ _ He). cbv zeta. rewrite Hf, Hu.
    rewrite (applies_after_upstream _ _ _ _ Hna Hp Hfil), Hans.
    rewrite (filter_answer_first _ _ _ _ _ _ Hpre Hr).
    destruct (check_rr_reason _ _ _ Hr) as [Hrf Hrr].
    cbn [o_resp o_result o_orig_kept o_calls].
    rewrite (filter_message_synthetic _ _ _ _ (or_introl Hrr)). repeat split; assumption.
  Qed.

  (** No offending record: the answer is delivered as it came, except that
      IPv6 hints are removed from HTTPS records when AAAA is disabled. *)
  Theorem clean_answer_unchanged c up q r :
    response_filtering_applies c q ->
    up (q_name q) (q_qtype q) = Some r ->
    Forall (clean c (client_settings c q)) (rs_answer r) ->
    let o := process c up q in
    o_resp o = Some (mkResp (rs_rcode r) (map (strip_rr c) (rs_answer r)) (rs_soa r)) /\
    o_orig_kept o = false /\ r_filtered (o_result o) = false.
  Proof.
    intros ([He Hf] & Hna & Hp & Hfil) Hu Hclean. cbv zeta.
    rewrite (process_not_early _ _ _ He). cbv zeta. rewrite Hf, Hu.
    rewrite (applies_after_upstream _ _ _ _ Hna Hp Hfil).
    rewrite (filter_answer_clean _ _ _ Hclean). cbn [o_resp o_orig_kept o_result].
    repeat split; try reflexivity. exact Hf.
  Qed.

  Lemma strip_rr_id c r : c_aaaa_disabled c = false -> strip_rr c r = r.
  Proof. intros H. unfold strip_rr. rewrite H. destruct (rr_data r); reflexivity. Qed.

  Lemma map_strip_id c l : c_aaaa_disabled c = false -> map (strip_rr c) l = l.
  Proof. intros H. induction l as [|r l IH]; cbn; [reflexivity|]. rewrite strip_rr_id, IH by exact H. reflexivity. Qed.

  (** A closed gate: the answer is delivered untouched, whatever it holds. *)
  Theorem gate_closed_unchanged c up q r :
    passes_request_stage c q ->
    up (q_name q) (q_qtype q) = Some r ->
    (r_reason (check_host (client_settings c q) (trim_dot (q_name q)) (q_qtype q)) = NotFilteredAllowList \/
     protection_on c = false \/ st_filtering (client_settings c q) = false) ->
    o_resp (process c up q) = Some r /\ o_orig_kept (process c up q) = false.
  Proof.
    intros [He Hf] Hu Hg. rewrite (process_not_early _ _ _ He). cbv zeta. rewrite Hf, Hu.
    unfold after_upstream. destruct Hg as [Hg | [Hg | Hg]].
    - rewrite Hg. split; reflexivity.
    - rewrite Hg. cbn [negb orb]. destruct (r_reason _); split; reflexivity.
    - rewrite Hg. cbn [negb]. rewrite orb_true_r. destruct (r_reason _); split; reflexivity.
  Qed.

  (** Whether the answer is blocked does not depend on the order of its
      records. *)
  Definition answer_blocked (c : cfg) (st : settings) (ans : list rr) : bool :=
    match snd (filter_answer c st ans) with Some _ => true | None => false end.

  Lemma answer_blocked_iff c st ans :
    answer_blocked c st ans = true <-> Exists (offending c st) ans.
  Proof.
    unfold answer_blocked. induction ans as [|r rest IH].
    - cbn. split; [discriminate | intros H; inversion H].
    - cbn [Pipeline.filter_answer]. destruct (check_rr st (strip_rr c r)) as [res|] eqn:E.
      + cbn. split; [intros _; left; exists res; exact E | reflexivity].
      + destruct (filter_answer c st rest) as [rest' fr] eqn:Er. cbn [snd] in *.
        rewrite IH. split.
        * intros H. right. exact H.
        * intros H. inversion H as [? ? [res Hres]|]; subst; [congruence | assumption].
  Qed.

  Theorem position_independent c st ans ans' :
    Permutation ans ans' -> answer_blocked c st ans = answer_blocked c st ans'.
  Proof.
    intros Hperm.
    destruct (answer_blocked c st ans) eqn:E1, (answer_blocked c st ans') eqn:E2; try reflexivity.
    - apply answer_blocked_iff in E1. apply Exists_exists in E1 as (x & Hin & Hx).
      assert (E : answer_blocked c st ans' = true).
      { apply answer_blocked_iff, Exists_exists. exists x. split; [eapply Permutation_in; eassumption | exact Hx]. }
      congruence.
    - apply answer_blocked_iff in E2. apply Exists_exists in E2 as (x & Hin & Hx).
      assert (E : answer_blocked c st ans = true).
      { apply answer_blocked_iff, Exists_exists. exists x.
        split; [eapply Permutation_in; [apply Permutation_sym|]; eassumption | exact Hx]. }
      congruence.
  Qed.
End Engines.

(** Queries answered before filtering: a fixed local answer, nothing
    forwarded, nothing logged, no engine involved. *)
Definition outcome_of (p : pstate) : outcome :=
  mkOutcome (ps_resp p) (ps_calls p) (ps_result p) (ps_orig_kept p) (ps_logged p).

Lemma process_outcome_of a b sb par c up q :
  process a b sb par c up q =
  outcome_of (run_stages a b sb par c up q stage_order (mkPState None [] no_result false false false)).
Proof. reflexivity. Qed.

Definition early_answer (c : cfg) (q : request) : resp :=
  if c_aaaa_disabled c && (q_qtype q =? tAAAA) then nodata
  else if ((q_qtype q =? tA) || (q_qtype q =? tAAAA)) && eqb_bytes (q_name q) mozilla_fqdn then nxdomain
  else empty_ok.

Lemma early_finishes a b sb par c up q :
  early c q = true ->
  process a b sb par c up q = mkOutcome (Some (early_answer c q)) [] no_result false false.
Proof.
  rewrite process_outcome_of. unfold early, early_answer, stage_order. cbn [run_stages]. unfold run_stage at 1.
  destruct (c_aaaa_disabled c && (q_qtype q =? tAAAA)); [reflexivity|].
  destruct (((q_qtype q =? tA) || (q_qtype q =? tAAAA)) && eqb_bytes (q_name q) mozilla_fqdn); [reflexivity|].
  destruct (eqb_bytes (q_name q) healthcheck_fqdn); [reflexivity|]. cbn. discriminate.
Qed.

(** With filtering switched off for the client the rule lists are not
    consulted: the outcome is the same whatever the engines are. *)
Theorem client_filtering_off a1 b1 a2 b2 sb par c up q :
  st_filtering (client_settings c q) = false ->
  process a1 b1 sb par c up q = process a2 b2 sb par c up q.
Proof.
  intros Hf.
  assert (Hm : forall a b h qt, match_host a b (client_settings c q) h qt = no_result).
  { intros. unfold match_host. rewrite Hf. reflexivity. }
  assert (Hc : forall a b, check_host a b sb par (client_settings c q) (trim_dot (q_name q)) (q_qtype q) =
               check_host a1 b1 sb par (client_settings c q) (trim_dot (q_name q)) (q_qtype q)).
  { intros. unfold check_host. destruct (trim_dot (q_name q)); [reflexivity|].
    unfold checker_order. cbn [first_match run_checker]. rewrite !Hm. reflexivity. }
  destruct (early c q) eqn:He.
  - (* answered before filtering: the engines are not reached *)
    rewrite !(early_finishes _ _ _ _ _ _ _ He). reflexivity.
  - rewrite !(process_not_early _ _ _ _ _ _ _ He). cbv zeta. rewrite (Hc a2 b2).
    destruct (r_filtered _); [reflexivity|].
    destruct (up (q_name q) (q_qtype q)); [|reflexivity].
    unfold after_upstream. rewrite Hf. cbn [negb]. rewrite !orb_true_r.
    destruct (r_reason _); reflexivity.
Qed.

Theorem client_filtering_off_reason a b sb par c up q :
  st_filtering (client_settings c q) = false ->
  let r := r_reason (o_result (process a b sb par c up q)) in
  r <> FilteredBlockList /\ r <> NotFilteredAllowList.
Proof.
  intros Hf. cbv zeta.
  assert (Hm : forall h qt, match_host a b (client_settings c q) h qt = no_result).
  { intros. unfold match_host. rewrite Hf. reflexivity. }
  assert (Hres : let res := check_host a b sb par (client_settings c q) (trim_dot (q_name q)) (q_qtype q) in
                 r_reason res <> FilteredBlockList /\ r_reason res <> NotFilteredAllowList).
  { cbv zeta. unfold check_host. destruct (trim_dot (q_name q)); [cbn; split; discriminate|].
    unfold checker_order. cbn [first_match run_checker]. rewrite Hm. cbn [matched no_result r_reason reason_eqb negb].
    unfold match_services, check_safebrowsing, check_parental.
    destruct (negb (st_protection _)); cbn;
      repeat match goal with
             | |- context [first_service ?s ?h] => destruct (first_service s h) as [[? ?]|]; cbn
             | |- context [if ?b then _ else _] => destruct b; cbn
             end; split; discriminate. }
  destruct (early c q) eqn:He.
  - rewrite (early_finishes _ _ _ _ _ _ _ He). cbn. split; discriminate.
  - rewrite (process_not_early _ _ _ _ _ _ _ He). cbv zeta. cbv zeta in Hres.
    destruct (r_filtered _); [exact Hres|].
    destruct (up (q_name q) (q_qtype q)); [|exact Hres].
    unfold after_upstream. rewrite Hf. cbn [negb]. rewrite !orb_true_r.
    destruct (r_reason _) eqn:Er; cbn [o_result]; rewrite ?Er; try exact Hres; split; congruence.
Qed.

(** * Non-vacuity: concrete states meeting the premises *)

Definition ex_name (s : bytes) : bytes := s.
Definition b_a_test : bytes := [97;46;116;101;115;116].                 (* a.test *)
Definition ex_pattern : bytes := [124;124;97;46;116;101;115;116;94].   (* ||a.test^ *)
Definition no_clients : clients := mkClients [] [].

Definition ex_block_rules : list rule :=
  [RNet (mkNRule 1 false ex_pattern false false [] [] no_clients no_clients [])].
Definition ex_allow_rules : list rule :=
  [RNet (mkNRule 2 true ex_pattern false false [] [] no_clients no_clients [])].

Definition ex_cfg (m : bmode) : cfg :=
  mkCfg true None true false false m (mkAddr V4 3221225985 []) (mkAddr V6 1 []) 10 false
        [] false [] BHEmpty BHEmpty.
Definition ex_cfg_off : cfg :=
  mkCfg true (Some true) true false false MDefault (mkAddr V4 3221225985 []) (mkAddr V6 1 []) 10 false
        [] false [] BHEmpty BHEmpty.

Definition ex_client_ip : addr := mkAddr V4 167772161 [].
(* "B.a.TEST." A *)
Definition ex_query : request := mkRequest [66;46;97;46;84;69;83;84;46] 1 ex_client_ip None.
(* "x.test." A *)
Definition ex_query_other : request := mkRequest [120;46;116;101;115;116;46] 1 ex_client_ip None.
Definition ex_kid : pclient := mkPClient [107;105;100] true false false false false [] false.
Definition ex_query_kid : request := mkRequest [66;46;97;46;84;69;83;84;46] 1 ex_client_ip (Some ex_kid).

Example ex_blocked_by_spec m :
  blocked_by_spec (match_request []) (match_request ex_block_rules) (ex_cfg m) ex_query.
Proof.
  unfold blocked_by_spec. cbv zeta. split; [reflexivity|]. split; [vm_compute; reflexivity|].
  split; [vm_compute; discriminate|]. left.
  unfold list_blocked. repeat split; vm_compute; reflexivity.
Qed.

Example ex_other_premises :
  allow_hit (match_request ex_allow_rules) (client_settings (ex_cfg MDefault) ex_query) (host_of ex_query) (q_qtype ex_query) /\
  nothing_matches (match_request []) (match_request ex_block_rules) (fun _ => false) (fun _ => false)
    (ex_cfg MDefault) ex_query_other /\
  protection_on ex_cfg_off = false /\ early ex_cfg_off ex_query = false /\
  st_filtering (client_settings (ex_cfg MDefault) ex_query_kid) = false.
Proof.
  split; [split; vm_compute; reflexivity|].
  split; [|repeat split; vm_compute; reflexivity].
  unfold nothing_matches. cbv zeta. split; [right; split; [vm_compute; reflexivity | left; vm_compute; reflexivity]|].
  split; [vm_compute; reflexivity|]. split; left; vm_compute; reflexivity.
Qed.

(** An upstream answer "CNAME b.a.test., A 93.184.216.34" to a question for
    x.test: the CNAME target is on the block list. *)
Definition ex_answer : resp :=
  mkResp 0 [ mkRR [120;46;116;101;115;116;46] 300 (DOther 16 7);
             mkRR [120;46;116;101;115;116;46] 300 (DCNAME [98;46;97;46;116;101;115;116;46]);
             mkRR [98;46;97;46;116;101;115;116;46] 300
                  (DA (mkTA (mkAddr V4 1572395042 []) [57;51;46;49;56;52;46;50;49;54;46;51;52])) ] false.

Example ex_response_premises :
  let a := match_request [] in let b := match_request ex_block_rules in
  let c := ex_cfg MNXDomain in let st := client_settings c ex_query_other in
  response_filtering_applies a b (fun _ => false) (fun _ => false) c ex_query_other /\
  Forall (clean a b c st) [mkRR [120;46;116;101;115;116;46] 300 (DOther 16 7)] /\
  (exists res, check_rr a b st (strip_rr c (mkRR [120;46;116;101;115;116;46] 300 (DCNAME [98;46;97;46;116;101;115;116;46]))) = Some res) /\
  Forall (clean a b c st) [mkRR [98;46;97;46;116;101;115;116;46] 300
                  (DA (mkTA (mkAddr V4 1572395042 []) [57;51;46;49;56;52;46;50;49;54;46;51;52]))].
Proof.
  cbv zeta. split.
  - unfold response_filtering_applies, passes_request_stage. repeat split; try (vm_compute; reflexivity).
    vm_compute. discriminate.
  - split; [repeat constructor|]. split; [eexists; vm_compute; reflexivity | repeat constructor].
Qed.

(** * Layers A and B together: the verdict in terms of the rule lists *)
From AGH Require Import Proofs.RuleEngine.

(** Among the block-list rules that match the request and survive $badfilter
    there is one of the highest priority class present, and it is not an
    exception. *)
Definition wins_block (rs : list rule) (rq : ufreq) : Prop :=
  exists b, In b (remove_badfilter (match_all rs rq)) /\ nr_white b = false /\
            forall r', In r' (remove_badfilter (match_all rs rq)) -> (rule_class r' <= rule_class b)%nat.

(** No rule of the list matches: neither a network rule nor a hosts-style line. *)
Definition no_rule_matches (rs : list rule) (rq : ufreq) : Prop :=
  match_all rs rq = [] /\ host_hits rs (rq_host rq) = [].

Lemma engine_blocks rs rq :
  rq_host rq <> [] -> wins_block rs rq ->
  exists n, match_request rs rq = (mkRes (Some n) [] [], true) /\ nr_white n = false.
Proof.
  intros Hh (b & Hb & Hw & Hmax). unfold match_request.
  destruct (rq_host rq) as [|x xs] eqn:Eh; [congruence|].
  destruct (get_dns_basic_rule (match_all rs rq)) as [n|] eqn:E.
  - exists n. split; [reflexivity|].
    destruct (basic_rule_max_class _ _ E) as [Hin Hn].
    specialize (Hn b Hb). specialize (Hmax n Hin).
    rewrite class_white in *. replace (rule_class n) with (rule_class b) by lia. exact Hw.
  - apply basic_rule_none in E. rewrite E in Hb. destruct Hb.
Qed.

Lemma engine_silent rs rq : no_rule_matches rs rq -> snd (match_request rs rq) = false.
Proof.
  intros [Hn Hh]. unfold match_request. destruct (rq_host rq); [reflexivity|].
  rewrite Hn. cbn. rewrite Hh. reflexivity.
Qed.

(** The premise of C01_blocked_is_local read over the rule lists themselves
    (lists of any length): no allow-list rule matches the name, and a
    non-exception rule of the block lists / custom rules wins. *)
Theorem list_blocked_from_rules allow block st host qt :
  host <> [] -> st_filtering st = true ->
  no_rule_matches allow (rq_of st host qt) -> wins_block block (rq_of st host qt) ->
  list_blocked (match_request allow) (match_request block) st host qt.
Proof.
  intros Hh Hf Ha Hb. unfold list_blocked.
  destruct (engine_blocks block (rq_of st host qt) Hh Hb) as (n & Hm & Hw).
  repeat split; [exact Hf | apply engine_silent; exact Ha | rewrite Hm; reflexivity |].
  rewrite Hm. cbn [fst]. unfold blocklist_result. cbn [dr_net]. rewrite Hw. reflexivity.
Qed.

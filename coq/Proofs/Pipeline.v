(** Specification and proofs for the DNS filtering pipeline, layer A
    (C01, C02): the engines, the safe-browsing / parental / safe-search
    verdicts, the sort inside the legacy rewrites and the upstream are
    arbitrary; legacy rewrites, $dnsrewrite results, the hosts-file container,
    safe search, a named block page, DDR and the DHCP stages are part of the
    configuration every theorem quantifies over. *)
From Coq Require Import List NArith Bool Lia Permutation.
From AGH Require Import Base.Run Base.NetAddr Base.RuleEngine Model.Pipeline.
From AGH Require Model.Rewrites.
Import ListNotations.
Local Open Scope N_scope.

(** * The synthetic answer of a blocking mode, as a table *)

Definition addr_question (qt : N) : bool := (qt =? tA) || (qt =? tAAAA) || (qt =? tHTTPS).

(** The answer section for a list of addresses: A questions get all of them
    if all are IPv4 (else none), AAAA questions the non-IPv4 ones, HTTPS none. *)
Definition answers_for (c : cfg) (name : bytes) (qt : N) (ips : list addr) : list rr :=
  if qt =? tA then (if forallb is4 ips then map (rec_a c name) ips else [])
  else if qt =? tAAAA then map (rec_aaaa c name) (filter (fun a => negb (is4 a)) ips)
  else [].

Definition null_answers (c : cfg) (name : bytes) (qt : N) : list rr :=
  if qt =? tA then [rec_a c name zero4]
  else if qt =? tAAAA then [rec_aaaa c name zero6]
  else [].

Definition synthetic (c : cfg) (name : bytes) (qt : N) (rule_ips : list addr) : resp :=
  if addr_question qt then
    match c_mode c with
    | MRefused => mkResp rcRefused [] false
    | MNXDomain => mkResp rcNXDomain [] true
    | MNullIP => mkResp rcSuccess (null_answers c name qt) false
    | MCustomIP =>
        mkResp rcSuccess
          (if qt =? tA then [rec_a c name (c_ip4 c)]
           else if qt =? tAAAA then [rec_aaaa c name (c_ip6 c)] else []) false
    | MDefault =>
        mkResp rcSuccess
          (match rule_ips with [] => null_answers c name qt | _ => answers_for c name qt rule_ips end) false
    end
  else
    (* any other question type: NODATA with SOA, a bare NOERROR in null-IP mode *)
    match c_mode c with
    | MNullIP => mkResp rcSuccess [] false
    | _ => mkResp rcSuccess [] true
    end.

Definition rule_reason (r : reason) : Prop := r = FilteredBlockList \/ r = FilteredBlockedService.

Lemma filter_message_synthetic c up name qt r :
  rule_reason (r_reason r) ->
  filter_message c up name qt r = (synthetic c name qt (ips_from_rules r), []).
Proof.
  intros Hr. unfold filter_message, synthetic, addr_question.
  destruct ((qt =? tA) || (qt =? tAAAA) || (qt =? tHTTPS)) eqn:Eq; cbn [negb].
  - assert (Hm : match r_reason r with
                 | FilteredSafeBrowsing => blocked_host_response c up name qt (c_sb_host c)
                 | FilteredParental => blocked_host_response c up name qt (c_par_host c)
                 | FilteredSafeSearch => (cname_with_ips c name qt (ips_from_rules r) (r_canon r), [])
                 | _ => (for_blocking_mode c name qt (ips_from_rules r), [])
                 end = (for_blocking_mode c name qt (ips_from_rules r), [])).
    { destruct Hr as [-> | ->]; reflexivity. }
    rewrite Hm. f_equal.
    unfold for_blocking_mode, null_ip_response, response_with_ips, addr_records, null_answers, answers_for,
      empty_ok, refused, nxdomain.
    destruct (c_mode c); try reflexivity.
    + destruct (ips_from_rules r) as [|i l]; destruct (qt =? tA) eqn:EA; try reflexivity;
        try (destruct (qt =? tAAAA) eqn:E6; reflexivity).
    + destruct (qt =? tA); [reflexivity|]. destruct (qt =? tAAAA); reflexivity.
    + destruct (qt =? tA); [reflexivity|]. destruct (qt =? tAAAA); reflexivity.
  - destruct (c_mode c); reflexivity.
Qed.

(** Only a named block page makes [filter_message] talk to the upstream, and
    then it asks for that name only. *)
Definition blockpage_calls (c : cfg) (qt : N) (r : result) : list (bytes * N) :=
  if addr_question qt then
    match r_reason r with
    | FilteredSafeBrowsing => match c_sb_host c with BHName n => [(fqdn n, qt)] | _ => [] end
    | FilteredParental => match c_par_host c with BHName n => [(fqdn n, qt)] | _ => [] end
    | _ => []
    end
  else [].

Lemma filter_message_calls c up name qt r :
  snd (filter_message c up name qt r) = blockpage_calls c qt r.
Proof.
  unfold filter_message, blockpage_calls, addr_question.
  destruct ((qt =? tA) || (qt =? tAAAA) || (qt =? tHTTPS)); cbn [negb]; [|reflexivity].
  unfold blocked_host_response.
  destruct (r_reason r); try reflexivity.
  - destruct (c_sb_host c) as [|a|n]; try reflexivity. destruct (up (fqdn n) qt); reflexivity.
  - destruct (c_par_host c) as [|a|n]; try reflexivity. destruct (up (fqdn n) qt); reflexivity.
Qed.

Section Engines.
  Variable allow_eng block_eng : ufreq -> dnsresult * bool.
  Variable sb_oracle par_oracle : bytes -> bool.
  Variable ss_oracle : bytes -> N -> option ssverdict.
  Variable rw_sort : list Rewrites.entry -> list Rewrites.entry.

  Notation check_host := (check_host allow_eng block_eng sb_oracle par_oracle ss_oracle rw_sort).
  Notation first_match := (first_match allow_eng block_eng sb_oracle par_oracle ss_oracle).
  Notation run_checker := (run_checker allow_eng block_eng sb_oracle par_oracle ss_oracle).
  Notation legacy_rewrite := (legacy_rewrite rw_sort).
  Notation match_host := (match_host allow_eng block_eng).
  Notation process := (process allow_eng block_eng sb_oracle par_oracle ss_oracle rw_sort).
  Notation run_stage := (run_stage allow_eng block_eng sb_oracle par_oracle ss_oracle rw_sort).
  Notation run_stages := (run_stages allow_eng block_eng sb_oracle par_oracle ss_oracle rw_sort).
  Notation filter_answer := (filter_answer allow_eng block_eng).
  Notation check_rr := (check_rr allow_eng block_eng).

  (** * The request as the engines see it *)

  Definition rq_of (st : settings) (host : bytes) (qt : N) : ufreq :=
    mkReq host qt (st_client_name st) (Some (st_client_ip st)) (st_client_tags st).

  Definition host_of (q : request) : bytes := lower (trim_dot (q_name q)).

  Definition the_call (q : request) : bytes * N := (q_name q, q_qtype q).

  (** * The stages in front of filtering *)

  (** Queries answered before any filtering (AAAA switched off, the Firefox
      canary, the health-check name). *)
  Definition early (c : cfg) (q : request) : bool :=
    (c_aaaa_disabled c && (q_qtype q =? tAAAA)) ||
    (((q_qtype q =? tA) || (q_qtype q =? tAAAA)) && eqb_bytes (q_name q) mozilla_fqdn) ||
    eqb_bytes (q_name q) healthcheck_fqdn.

  Definition early_answer (c : cfg) (q : request) : resp :=
    if c_aaaa_disabled c && (q_qtype q =? tAAAA) then nodata
    else if ((q_qtype q =? tA) || (q_qtype q =? tAAAA)) && eqb_bytes (q_name q) mozilla_fqdn then nxdomain
    else empty_ok.

  Definition ddr_answer (c : cfg) (q : request) : option resp :=
    match c_ddr c with
    | Some ids => if eqb_bytes (q_name q) ddr_fqdn then Some (ddr_response c q ids) else None
    | None => None
    end.

  Definition dhcp_host_answer (c : cfg) (q : request) (ip : addr) : resp :=
    mkResp rcSuccess
      (if q_qtype q =? tA then [rec_a c (q_name q) ip]
       else match c_dns64 c with
            | Some pref => [rec_aaaa c (q_name q) (map_dns64 pref ip)]
            | None => []
            end) false.

  Definition dhcp_addr_answer (c : cfg) (q : request) : option resp :=
    match q_private_rdns q with
    | None => None
    | Some a =>
        if negb (q_qtype q =? tPTR) then None
        else match assoc_addr (c_dhcp_addrs c) a with
             | None | Some [] => None
             | Some host => Some (mkResp rcSuccess [rec_ptr c (q_name q) (host ++ 46 :: c_local_suffix c)] false)
             end
    end.

  (** What the stages in front of filtering do with a request: answer and
      stop (nothing logged), answer and go on to the log, or hand it to
      filtering (remembering whether it names a DHCP host). *)
  Inductive prefilter_result := PFinish (r : resp) | PAnswered (r : resp) | PContinue (dhcp : bool).

  Definition prefilter (c : cfg) (q : request) : prefilter_result :=
    if early c q then PFinish (early_answer c q)
    else match ddr_answer c q with
    | Some r => PFinish r
    | None =>
        match dhcp_host_from_request c q with
        | Some host =>
            if negb (q_private_client q) then PFinish nxdomain
            else match assoc_bytes (c_dhcp_hosts c) host with
                 | Some ip => PAnswered (dhcp_host_answer c q ip)
                 | None =>
                     match dhcp_addr_answer c q with
                     | Some r => PAnswered r
                     | None => PContinue true
                     end
                 end
        | None =>
            match dhcp_addr_answer c q with
            | Some r => PAnswered r
            | None => PContinue false
            end
        end
    end.

  (** * The pipeline unfolded *)

  Definition after_upstream (c : cfg) (up : upstream) (q : request) (res : result) (r : resp) : outcome :=
    let st := request_settings c q in
    match r_reason res with
    | NotFilteredAllowList | RewrittenLegacy | RewrittenRule | FilteredSafeSearch =>
        mkOutcome (Some r) [the_call q] res false true (resp_qname r (q_name q))
    | _ =>
        if negb (protection_on c) || negb (st_filtering st)
        then mkOutcome (Some r) [the_call q] res false true (resp_qname r (q_name q))
        else
          match filter_answer c st (rs_answer r) with
          | (_, Some fr) =>
              mkOutcome (Some (fst (filter_message c up (q_name q) (q_qtype q) fr))) [the_call q] fr true true
                        (q_name q)
          | (ans', None) =>
              mkOutcome (Some (with_answer r ans')) [the_call q] res false true (resp_qname r (q_name q))
          end
    end.

  Definition forward_outcome (c : cfg) (up : upstream) (q : request) (res : result) : outcome :=
    match up (q_name q) (q_qtype q) with
    | None => mkOutcome (Some servfail) [the_call q] res false false (q_name q)
    | Some r => after_upstream c up q res r
    end.

  Definition dhcp_nx (res : result) (name : bytes) : outcome :=
    mkOutcome (Some nxdomain) [] res false false name.

  (** What happens to a request whose CheckHost verdict is [res]. *)
  Definition verdict_outcome (c : cfg) (up : upstream) (q : request) (dhcp : bool) (res : result) : outcome :=
    let name := q_name q in
    let qt := q_qtype q in
    if is_rewritten_cname res then
      let cn := fqdn (r_canon res) in
      if dhcp then dhcp_nx res cn
      else match up cn qt with
           | None => mkOutcome (Some servfail) [(cn, qt)] res false false name
           | Some r =>
               mkOutcome (Some (with_answer r (rec_cname c name (r_canon res) :: rs_answer r)))
                         [(cn, qt)] res false true name
           end
    else if r_filtered res then
      mkOutcome (Some (fst (filter_message c up name qt res))) (snd (filter_message c up name qt res))
                res false true name
    else
      match r_reason res with
      | RewrittenLegacy | FilteredSafeSearch =>
          mkOutcome (Some (cname_with_ips c name qt (r_iplist res) (r_canon res))) [] res false true name
      | RewrittenRule | RewrittenAutoHosts =>
          match dns_rewrite_response c name qt res with
          | None => mkOutcome None [] no_result false false name
          | Some r => mkOutcome (Some r) [] res false true name
          end
      | _ => if dhcp then dhcp_nx res name else forward_outcome c up q res
      end.

  Definition process_spec (c : cfg) (up : upstream) (q : request) : outcome :=
    match prefilter c q with
    | PFinish r => mkOutcome (Some r) [] no_result false false (q_name q)
    | PAnswered r => mkOutcome (Some r) [] no_result false true (q_name q)
    | PContinue dhcp =>
        match check_host c (request_settings c q) (trim_dot (q_name q)) (q_qtype q) with
        | None => mkOutcome None [] no_result false false (q_name q)
        | Some res => verdict_outcome c up q dhcp res
        end
    end.

  Lemma run_cons c up q s rest p :
    run_stages c up q (s :: rest) p =
    match run_stage c up q s p with
    | (RcSuccess, p') => run_stages c up q rest p'
    | (_, p') => p'
    end.
  Proof. reflexivity. Qed.

  Definition with_dhcp (p : pstate) : pstate :=
    mkPState (ps_resp p) (ps_calls p) (ps_result p) (ps_orig_kept p) (ps_from_upstream p)
             (ps_logged p) (ps_qname p) (ps_orig_q p) true (ps_resp_qname p).

  Definition with_logged (p : pstate) : pstate :=
    mkPState (ps_resp p) (ps_calls p) (ps_result p) (ps_orig_kept p) (ps_from_upstream p) true
             (ps_qname p) (ps_orig_q p) (ps_dhcp_host p) (ps_resp_qname p).

  (** Once a response exists that did not come from the upstream, and the
      question was not rewritten, the remaining stages only log. *)
  Lemma tail_after_upstream_stage c up q p r :
    ps_resp p = Some r -> ps_from_upstream p = false -> ps_orig_q p = None ->
    run_stages c up q [StFilterAfter; StIpset; StLog] p = with_logged p.
  Proof.
    intros Hr Hu Ho. rewrite run_cons.
    assert (H : run_stage c up q StFilterAfter p = (RcSuccess, p)).
    { unfold Pipeline.run_stage. rewrite Hu, Ho. cbn [negb]. rewrite orb_true_r. cbn [orb].
      destruct (r_reason (ps_result p)); reflexivity. }
    rewrite H. reflexivity.
  Qed.

  Lemma tail_with_resp c up q p r :
    ps_resp p = Some r -> ps_from_upstream p = false -> ps_orig_q p = None ->
    run_stages c up q [StUpstream; StFilterAfter; StIpset; StLog] p = with_logged p.
  Proof.
    intros Hr Hu Ho. rewrite run_cons.
    assert (H : run_stage c up q StUpstream p = (RcSuccess, p)).
    { unfold Pipeline.run_stage. rewrite Hr. reflexivity. }
    rewrite H. eapply tail_after_upstream_stage; eassumption.
  Qed.

  Lemma tail_answered c up q p r :
    ps_resp p = Some r -> ps_from_upstream p = false -> ps_orig_q p = None ->
    run_stages c up q [StFilterBefore; StUpstream; StFilterAfter; StIpset; StLog] p = with_logged p.
  Proof.
    intros Hr Hu Ho. rewrite run_cons.
    assert (H : run_stage c up q StFilterBefore p = (RcSuccess, p)).
    { unfold Pipeline.run_stage. rewrite Hr. reflexivity. }
    rewrite H. eapply tail_with_resp; eassumption.
  Qed.

  (** From the filtering stage on, for a state without a response. *)
  Lemma filtering_tail c up q dhcp :
    let p := mkPState None [] no_result false false false (q_name q) None dhcp (q_name q) in
    outcome_of (run_stages c up q [StFilterBefore; StUpstream; StFilterAfter; StIpset; StLog] p) =
    match check_host c (request_settings c q) (trim_dot (q_name q)) (q_qtype q) with
    | None => mkOutcome None [] no_result false false (q_name q)
    | Some res => verdict_outcome c up q dhcp res
    end.
  Proof.
    cbv zeta. rewrite run_cons. unfold Pipeline.run_stage at 1. cbn [ps_resp ps_qname].
    destruct (check_host c (request_settings c q) (trim_dot (q_name q)) (q_qtype q)) as [res|]; [|reflexivity].
    unfold apply_request_verdict, verdict_outcome. cbn [ps_qname ps_calls ps_dhcp_host ps_resp_qname ps_result].
    destruct (is_rewritten_cname res) eqn:Ec.
    - (* the question is rewritten and resolved; the CNAME is put in front *)
      rewrite run_cons. unfold Pipeline.run_stage at 1. cbn [ps_resp ps_dhcp_host ps_qname ps_calls ps_result ps_orig_q app].
      destruct dhcp; [reflexivity|].
      destruct (up (fqdn (r_canon res)) (q_qtype q)) as [r|]; [|reflexivity].
      rewrite run_cons. unfold Pipeline.run_stage at 1.
      cbn [ps_result ps_orig_q ps_resp ps_calls ps_orig_kept ps_from_upstream ps_logged ps_dhcp_host].
      unfold is_rewritten_cname in Ec.
      destruct (r_reason res); try discriminate Ec; reflexivity.
    - destruct (r_filtered res) eqn:Ef.
      + destruct (filter_message c up (q_name q) (q_qtype q) res) as [r calls] eqn:Em.
        erewrite tail_with_resp; [reflexivity | reflexivity | reflexivity | reflexivity].
      + destruct (r_reason res) eqn:Er;
          try (erewrite tail_with_resp; [reflexivity | reflexivity | reflexivity | reflexivity]).
        * (* not found: forwarded *)
          rewrite run_cons. unfold Pipeline.run_stage at 1. cbn [ps_resp ps_dhcp_host ps_qname ps_calls ps_result ps_orig_q app].
          destruct dhcp; [reflexivity|]. unfold forward_outcome.
          destruct (up (q_name q) (q_qtype q)) as [r|]; [|reflexivity].
          rewrite run_cons. unfold Pipeline.run_stage at 1.
          cbn [ps_result ps_orig_q ps_resp ps_calls ps_orig_kept ps_from_upstream ps_logged ps_dhcp_host ps_qname ps_resp_qname negb].
          unfold after_upstream. rewrite Er, orb_false_r.
          destruct (negb (protection_on c) || negb (st_filtering (request_settings c q))); [reflexivity|].
          destruct (filter_answer c (request_settings c q) (rs_answer r)) as [ans' [fr|]]; reflexivity.
        * (* allow-listed: forwarded, the answer is not examined *)
          rewrite run_cons. unfold Pipeline.run_stage at 1. cbn [ps_resp ps_dhcp_host ps_qname ps_calls ps_result ps_orig_q app].
          destruct dhcp; [reflexivity|]. unfold forward_outcome.
          destruct (up (q_name q) (q_qtype q)) as [r|]; [|reflexivity].
          rewrite run_cons. unfold Pipeline.run_stage at 1. cbn [ps_result]. rewrite Er.
          unfold after_upstream. rewrite Er. reflexivity.
        * (* a block-list reason without the filtered flag: forwarded like an unmatched name *)
          rewrite run_cons. unfold Pipeline.run_stage at 1. cbn [ps_resp ps_dhcp_host ps_qname ps_calls ps_result ps_orig_q app].
          destruct dhcp; [reflexivity|]. unfold forward_outcome.
          destruct (up (q_name q) (q_qtype q)) as [r|]; [|reflexivity].
          rewrite run_cons. unfold Pipeline.run_stage at 1.
          cbn [ps_result ps_orig_q ps_resp ps_calls ps_orig_kept ps_from_upstream ps_logged ps_dhcp_host ps_qname ps_resp_qname negb].
          unfold after_upstream. rewrite Er, orb_false_r.
          destruct (negb (protection_on c) || negb (st_filtering (request_settings c q))); [reflexivity|].
          destruct (filter_answer c (request_settings c q) (rs_answer r)) as [ans' [fr|]]; reflexivity.
        * rewrite run_cons. unfold Pipeline.run_stage at 1. cbn [ps_resp ps_dhcp_host ps_qname ps_calls ps_result ps_orig_q app].
          destruct dhcp; [reflexivity|]. unfold forward_outcome.
          destruct (up (q_name q) (q_qtype q)) as [r|]; [|reflexivity].
          rewrite run_cons. unfold Pipeline.run_stage at 1.
          cbn [ps_result ps_orig_q ps_resp ps_calls ps_orig_kept ps_from_upstream ps_logged ps_dhcp_host ps_qname ps_resp_qname negb].
          unfold after_upstream. rewrite Er, orb_false_r.
          destruct (negb (protection_on c) || negb (st_filtering (request_settings c q))); [reflexivity|].
          destruct (filter_answer c (request_settings c q) (rs_answer r)) as [ans' [fr|]]; reflexivity.
        * rewrite run_cons. unfold Pipeline.run_stage at 1. cbn [ps_resp ps_dhcp_host ps_qname ps_calls ps_result ps_orig_q app].
          destruct dhcp; [reflexivity|]. unfold forward_outcome.
          destruct (up (q_name q) (q_qtype q)) as [r|]; [|reflexivity].
          rewrite run_cons. unfold Pipeline.run_stage at 1.
          cbn [ps_result ps_orig_q ps_resp ps_calls ps_orig_kept ps_from_upstream ps_logged ps_dhcp_host ps_qname ps_resp_qname negb].
          unfold after_upstream. rewrite Er, orb_false_r.
          destruct (negb (protection_on c) || negb (st_filtering (request_settings c q))); [reflexivity|].
          destruct (filter_answer c (request_settings c q) (rs_answer r)) as [ans' [fr|]]; reflexivity.
        * rewrite run_cons. unfold Pipeline.run_stage at 1. cbn [ps_resp ps_dhcp_host ps_qname ps_calls ps_result ps_orig_q app].
          destruct dhcp; [reflexivity|]. unfold forward_outcome.
          destruct (up (q_name q) (q_qtype q)) as [r|]; [|reflexivity].
          rewrite run_cons. unfold Pipeline.run_stage at 1.
          cbn [ps_result ps_orig_q ps_resp ps_calls ps_orig_kept ps_from_upstream ps_logged ps_dhcp_host ps_qname ps_resp_qname negb].
          unfold after_upstream. rewrite Er, orb_false_r.
          destruct (negb (protection_on c) || negb (st_filtering (request_settings c q))); [reflexivity|].
          destruct (filter_answer c (request_settings c q) (rs_answer r)) as [ans' [fr|]]; reflexivity.
        * (* $dnsrewrite values *)
          destruct (dns_rewrite_response c (q_name q) (q_qtype q) res) as [r|]; [|reflexivity].
          erewrite tail_with_resp; [reflexivity | reflexivity | reflexivity | reflexivity].
        * destruct (dns_rewrite_response c (q_name q) (q_qtype q) res) as [r|]; [|reflexivity].
          erewrite tail_with_resp; [reflexivity | reflexivity | reflexivity | reflexivity].
  Qed.

  (** The whole pipeline is [process_spec]. *)
  Theorem process_unfold c up q : process c up q = process_spec c up q.
  Proof.
    unfold Pipeline.process, process_spec, prefilter, stage_order, init_state.
    rewrite run_cons. unfold Pipeline.run_stage at 1. unfold early, early_answer.
    destruct (c_aaaa_disabled c && (q_qtype q =? tAAAA)); [reflexivity|].
    destruct (((q_qtype q =? tA) || (q_qtype q =? tAAAA)) && eqb_bytes (q_name q) mozilla_fqdn); [reflexivity|].
    destruct (eqb_bytes (q_name q) healthcheck_fqdn); [reflexivity|]. cbn [orb].
    rewrite run_cons. unfold Pipeline.run_stage at 1. unfold ddr_answer.
    destruct (c_ddr c) as [ids|].
    - destruct (eqb_bytes (q_name q) ddr_fqdn); [reflexivity|].
      (* DDR on, another name *)
      rewrite run_cons. unfold Pipeline.run_stage at 1.
      destruct (dhcp_host_from_request c q) as [host|].
      + destruct (negb (q_private_client q)); [reflexivity|].
        destruct (assoc_bytes (c_dhcp_hosts c) host) as [ip|].
        * rewrite run_cons. unfold Pipeline.run_stage at 1. cbn [ps_resp set_resp].
          erewrite tail_answered; [reflexivity | reflexivity | reflexivity | reflexivity].
        * rewrite run_cons. unfold Pipeline.run_stage at 1. cbn [ps_resp]. unfold dhcp_addr_answer.
          destruct (q_private_rdns q) as [a|]; [|apply filtering_tail].
          destruct (negb (q_qtype q =? tPTR)); [apply filtering_tail|].
          destruct (assoc_addr (c_dhcp_addrs c) a) as [[|x xs]|]; try apply filtering_tail.
          erewrite tail_answered; [reflexivity | reflexivity | reflexivity | reflexivity].
      + rewrite run_cons. unfold Pipeline.run_stage at 1. cbn [ps_resp]. unfold dhcp_addr_answer.
        destruct (q_private_rdns q) as [a|]; [|apply filtering_tail].
        destruct (negb (q_qtype q =? tPTR)); [apply filtering_tail|].
        destruct (assoc_addr (c_dhcp_addrs c) a) as [[|x xs]|]; try apply filtering_tail.
        erewrite tail_answered; [reflexivity | reflexivity | reflexivity | reflexivity].
    - rewrite run_cons. unfold Pipeline.run_stage at 1.
      destruct (dhcp_host_from_request c q) as [host|].
      + destruct (negb (q_private_client q)); [reflexivity|].
        destruct (assoc_bytes (c_dhcp_hosts c) host) as [ip|].
        * rewrite run_cons. unfold Pipeline.run_stage at 1. cbn [ps_resp set_resp].
          erewrite tail_answered; [reflexivity | reflexivity | reflexivity | reflexivity].
        * rewrite run_cons. unfold Pipeline.run_stage at 1. cbn [ps_resp]. unfold dhcp_addr_answer.
          destruct (q_private_rdns q) as [a|]; [|apply filtering_tail].
          destruct (negb (q_qtype q =? tPTR)); [apply filtering_tail|].
          destruct (assoc_addr (c_dhcp_addrs c) a) as [[|x xs]|]; try apply filtering_tail.
          erewrite tail_answered; [reflexivity | reflexivity | reflexivity | reflexivity].
      + rewrite run_cons. unfold Pipeline.run_stage at 1. cbn [ps_resp]. unfold dhcp_addr_answer.
        destruct (q_private_rdns q) as [a|]; [|apply filtering_tail].
        destruct (negb (q_qtype q =? tPTR)); [apply filtering_tail|].
        destruct (assoc_addr (c_dhcp_addrs c) a) as [[|x xs]|]; try apply filtering_tail.
        erewrite tail_answered; [reflexivity | reflexivity | reflexivity | reflexivity].
  Qed.

  (** * The verdict of CheckHost, declaratively *)

  Definition verdict (c : cfg) (q : request) : option result :=
    check_host c (request_settings c q) (trim_dot (q_name q)) (q_qtype q).

  (** The legacy rewrites leave the name alone (or are not consulted because
      filtering is off for the client). *)
  Definition rewrites_pass (c : cfg) (st : settings) (host : bytes) (qt : N) : Prop :=
    (if st_filtering st then legacy_rewrite c host qt else Some no_result) = Some no_result.

  (** The hosts-file container has nothing for the name and type. *)
  Definition hosts_silent (c : cfg) (st : settings) (host : bytes) (qt : N) : Prop :=
    matched (match_sys_hosts c st host qt) = false.

  (** No $dnsrewrite rule of the block lists applies to the name. *)
  Definition no_dnsrewrite (st : settings) (host : bytes) (qt : N) : Prop :=
    matched (dnsrewrite_result (fst (block_eng (rq_of st host qt))) host) = false.

  (** An allow-list rule matches the name. *)
  Definition allow_hit (st : settings) (host : bytes) (qt : N) : Prop :=
    st_filtering st = true /\ snd (allow_eng (rq_of st host qt)) = true.

  (** No allow-list rule matches, no $dnsrewrite rule applies, and the
      block-list engine (block lists, custom rules, hosts-style lines) reports
      a winning rule that is not an exception. *)
  Definition list_blocked (st : settings) (host : bytes) (qt : N) : Prop :=
    st_filtering st = true /\
    snd (allow_eng (rq_of st host qt)) = false /\
    no_dnsrewrite st host qt /\
    snd (block_eng (rq_of st host qt)) = true /\
    r_filtered (blocklist_result qt (fst (block_eng (rq_of st host qt)))) = true.

  (** No rule list says anything about the name (filtering off for the
      client, or neither engine matches, or only host rules of no use). *)
  Definition lists_silent (st : settings) (host : bytes) (qt : N) : Prop :=
    st_filtering st = false \/
    (snd (allow_eng (rq_of st host qt)) = false /\
     no_dnsrewrite st host qt /\
     (snd (block_eng (rq_of st host qt)) = false \/
      matched (blocklist_result qt (fst (block_eng (rq_of st host qt)))) = false)).

  (** A rule of an active blocked service matches. *)
  Definition service_blocked (st : settings) (host : bytes) : Prop :=
    exists name r, first_service (st_services st) host = Some (name, r).

  (** The premise of C01: protection on; no earlier stage answers the request
      (DDR, DHCP); the administrator's own rewrites (legacy rewrites, hosts
      file, $dnsrewrite) do not apply to the name; and the rule lists block it,
      or they are silent and a blocked service matches. *)
  Definition blocked_by_spec (c : cfg) (q : request) : Prop :=
    let st := request_settings c q in
    protection_on c = true /\ (exists dhcp, prefilter c q = PContinue dhcp) /\ host_of q <> [] /\
    rewrites_pass c st (host_of q) (q_qtype q) /\ hosts_silent c st (host_of q) (q_qtype q) /\
    (list_blocked st (host_of q) (q_qtype q) \/
     (lists_silent st (host_of q) (q_qtype q) /\ service_blocked st (host_of q))).

  Lemma first_match_unfold c st h qt :
    first_match c checker_order st h qt =
    if matched (match_sys_hosts c st h qt) then match_sys_hosts c st h qt
    else if matched (match_host st h qt) then match_host st h qt
    else if matched (match_services st h) then match_services st h
    else if matched (check_safebrowsing sb_oracle st h) then check_safebrowsing sb_oracle st h
    else if matched (check_parental par_oracle st h) then check_parental par_oracle st h
    else if matched (check_safesearch ss_oracle c st h qt) then check_safesearch ss_oracle c st h qt
    else no_result.
  Proof. reflexivity. Qed.

  Lemma check_host_unfold c st host qt :
    host <> [] -> rewrites_pass c st (lower host) qt ->
    check_host c st host qt = Some (first_match c checker_order st (lower host) qt).
  Proof.
    intros Hh Hr. unfold Pipeline.check_host. destruct host; [congruence|].
    unfold rewrites_pass in Hr. rewrite Hr. reflexivity.
  Qed.

  Lemma lower_nonempty s : lower s <> [] -> s <> [].
  Proof. destruct s; cbn; congruence. Qed.

  Lemma match_host_list_blocked st host qt :
    st_protection st = true -> list_blocked st host qt ->
    match_host st host qt = blocklist_result qt (fst (block_eng (rq_of st host qt))).
  Proof.
    intros Hp (Hf & Ha & Hn & Hb & _). unfold Pipeline.match_host. fold (rq_of st host qt).
    rewrite Hf, Hp. cbn [negb]. rewrite Ha. unfold no_dnsrewrite in Hn. rewrite Hn, Hb. reflexivity.
  Qed.

  Lemma blocklist_result_filtered qt dr :
    r_filtered (blocklist_result qt dr) = true ->
    r_reason (blocklist_result qt dr) = FilteredBlockList /\ r_service (blocklist_result qt dr) = [].
  Proof.
    unfold blocklist_result, other_qtype_result.
    destruct (dr_net dr) as [n|]; [destruct (nr_white n); cbn; intros; try discriminate; auto|].
    destruct (qt =? tA); [destruct (dr_v4 dr); [destruct (dr_v6 dr)|]; cbn; intros; try discriminate; auto|].
    destruct (qt =? tAAAA); destruct (dr_v6 dr), (dr_v4 dr); cbn; intros; try discriminate; auto.
  Qed.

  Lemma matched_reason r : r_reason r = FilteredBlockList -> matched r = true.
  Proof. intros H. unfold matched. rewrite H. reflexivity. Qed.

  Lemma match_host_silent st host qt :
    lists_silent st host qt -> matched (match_host st host qt) = false.
  Proof.
    unfold Pipeline.match_host. fold (rq_of st host qt).
    intros [Hf | (Ha & Hn & Hb)].
    - rewrite Hf. reflexivity.
    - destruct (st_filtering st); [|reflexivity]. cbn [negb]. unfold no_dnsrewrite in Hn.
      destruct (st_protection st).
      + rewrite Ha, Hn. destruct Hb as [Hb|Hb]; [rewrite Hb; reflexivity|].
        destruct (snd (block_eng (rq_of st host qt))); [exact Hb | reflexivity].
      + cbn [snd]. rewrite Hn. destruct (snd (block_eng (rq_of st host qt))); reflexivity.
  Qed.

  Lemma client_settings_protection c q : st_protection (client_settings c q) = protection_on c.
  Proof.
    unfold client_settings. destruct (q_client q) as [p|]; [|reflexivity].
    destruct (pc_use_own_settings p); reflexivity.
  Qed.

  Lemma request_settings_protection c q : st_protection (request_settings c q) = protection_on c.
  Proof.
    unfold request_settings. destruct (q_private_rdns q); [|apply client_settings_protection].
    unfold rdns_settings. cbn [st_protection]. apply client_settings_protection.
  Qed.

  Lemma request_settings_filtering c q : st_filtering (request_settings c q) = st_filtering (client_settings c q).
  Proof. unfold request_settings. destruct (q_private_rdns q); reflexivity. Qed.

  (** The verdict of the request stage for a query blocked by the spec. *)
  Lemma check_host_blocked c q :
    blocked_by_spec c q ->
    exists res, verdict c q = Some res /\ r_filtered res = true /\ rule_reason (r_reason res).
  Proof.
    intros (Hp & _ & Hh & Hrw & Hhs & Hv). unfold verdict.
    assert (Hp' := request_settings_protection c q). rewrite Hp in Hp'.
    unfold host_of in *. rewrite (check_host_unfold _ _ _ _ (lower_nonempty _ Hh) Hrw).
    eexists. split; [reflexivity|]. rewrite first_match_unfold.
    set (st := request_settings c q) in *. set (h := lower (trim_dot (q_name q))) in *.
    unfold hosts_silent in Hhs. rewrite Hhs.
    destruct Hv as [Hl | [Hs (name & r & Hsvc)]].
    - rewrite (match_host_list_blocked _ _ _ Hp' Hl).
      destruct Hl as (_ & _ & _ & _ & Hfil).
      destruct (blocklist_result_filtered _ _ Hfil) as [Hr _].
      rewrite (matched_reason _ Hr). split; [exact Hfil | left; exact Hr].
    - rewrite (match_host_silent _ _ _ Hs).
      unfold match_services. rewrite Hp'. cbn [negb]. rewrite Hsvc. cbn.
      split; [reflexivity | right; reflexivity].
  Qed.

  Lemma rule_reason_not_cname res : rule_reason (r_reason res) -> is_rewritten_cname res = false.
  Proof. unfold is_rewritten_cname. intros [-> | ->]; reflexivity. Qed.

  (** * C01 *)

  (** A query blocked by the rule lists or a blocked service is answered
      locally with the synthetic answer of the blocking mode; nothing is sent
      upstream; the question is the client's. *)
  Theorem blocked_is_local c up q :
    blocked_by_spec c q ->
    let o := process c up q in
    o_calls o = [] /\
    r_filtered (o_result o) = true /\ rule_reason (r_reason (o_result o)) /\
    o_resp o = Some (synthetic c (q_name q) (q_qtype q) (ips_from_rules (o_result o))) /\
    o_qname o = q_name q.
  Proof.
    intros Hb. destruct (check_host_blocked c q Hb) as (res & Hv & Hf & Hr).
    destruct Hb as (_ & [dhcp Hpre] & _). cbv zeta.
    rewrite process_unfold. unfold process_spec. rewrite Hpre. fold (verdict c q). rewrite Hv.
    unfold verdict_outcome. rewrite (rule_reason_not_cname _ Hr), Hf.
    rewrite (filter_message_synthetic _ _ _ _ _ Hr). cbn [fst snd o_calls o_result o_resp o_qname].
    repeat split; assumption.
  Qed.

  (** ... and the whole outcome is independent of the upstream. *)
  Theorem no_upstream_data c up1 up2 q :
    blocked_by_spec c q -> process c up1 q = process c up2 q.
  Proof.
    intros Hb. destruct (check_host_blocked c q Hb) as (res & Hv & Hf & Hr).
    destruct Hb as (_ & [dhcp Hpre] & _).
    rewrite !process_unfold. unfold process_spec. rewrite Hpre. fold (verdict c q). rewrite Hv.
    unfold verdict_outcome. rewrite (rule_reason_not_cname _ Hr), Hf.
    rewrite !(filter_message_synthetic _ _ _ _ _ Hr). reflexivity.
  Qed.

  (** Every question the pipeline puts to the upstream, for every
      configuration (all features on) and request: the client's own question
      when the verdict neither filters nor rewrites it; the target of a
      rewrite (legacy, $dnsrewrite CNAME, safe search); the name of the block
      page of safe browsing / parental control.  Nothing else, ever. *)
  Definition spec_calls (c : cfg) (q : request) : list (bytes * N) :=
    match prefilter c q with
    | PContinue dhcp =>
        match verdict c q with
        | None => []
        | Some res =>
            if is_rewritten_cname res then (if dhcp then [] else [(fqdn (r_canon res), q_qtype q)])
            else if r_filtered res then blockpage_calls c (q_qtype q) res
            else match r_reason res with
                 | RewrittenLegacy | FilteredSafeSearch | RewrittenRule | RewrittenAutoHosts => []
                 | _ => if dhcp then [] else [the_call q]
                 end
        end
    | _ => []
    end.

  Lemma after_upstream_calls c up q res r : o_calls (after_upstream c up q res r) = [the_call q].
  Proof.
    unfold after_upstream. destruct (r_reason res); try reflexivity;
      (destruct (negb (protection_on c) || negb _); [reflexivity|];
       destruct (filter_answer _ _ _) as [a [f|]]; reflexivity).
  Qed.

  Lemma forward_outcome_calls c up q res : o_calls (forward_outcome c up q res) = [the_call q].
  Proof. unfold forward_outcome. destruct (up _ _); [apply after_upstream_calls | reflexivity]. Qed.

  Theorem upstream_calls_spec c up q : o_calls (process c up q) = spec_calls c q.
  Proof.
    rewrite process_unfold. unfold process_spec, spec_calls, verdict.
    destruct (prefilter c q) as [r|r|dhcp]; try reflexivity.
    destruct (check_host c _ _ _) as [res|]; [|reflexivity].
    unfold verdict_outcome.
    destruct (is_rewritten_cname res).
    - destruct dhcp; [reflexivity|]. destruct (up _ _); reflexivity.
    - destruct (r_filtered res).
      + cbn [o_calls]. apply filter_message_calls.
      + destruct (r_reason res); try reflexivity;
          try (destruct dhcp; [reflexivity | apply forward_outcome_calls]);
          destruct (dns_rewrite_response _ _ _ _); reflexivity.
  Qed.

  (** Whatever the verdict: a request whose verdict is "filtered" by a rule
      list or a blocked service never reaches the upstream. *)
  Corollary filtered_never_forwarded c up q res :
    verdict c q = Some res -> r_filtered res = true -> rule_reason (r_reason res) ->
    o_calls (process c up q) = [].
  Proof.
    intros Hv Hf Hr. rewrite upstream_calls_spec. unfold spec_calls. rewrite Hv.
    destruct (prefilter c q); try reflexivity.
    rewrite (rule_reason_not_cname _ Hr), Hf. unfold blockpage_calls.
    destruct (addr_question _); [|reflexivity]. destruct Hr as [-> | ->]; reflexivity.
  Qed.

  (** The stages in front of filtering (early answers, DDR, DHCP hosts and
      addresses) answer locally: nothing is forwarded, blocked name or not. *)
  Corollary local_stages_never_forward c up q :
    (forall dhcp, prefilter c q <> PContinue dhcp) -> o_calls (process c up q) = [].
  Proof.
    intros H. rewrite upstream_calls_spec. unfold spec_calls.
    destruct (prefilter c q) as [r|r|dhcp]; try reflexivity. exfalso. apply (H dhcp). reflexivity.
  Qed.

  (** Safe browsing / parental control with the block page given as a name:
      the only question sent upstream is for the block page's name (with the
      type of the client's question); the blocked name itself is not sent. *)
  Corollary blockpage_lookup_only c up q res :
    verdict c q = Some res -> r_filtered res = true ->
    (r_reason res = FilteredSafeBrowsing \/ r_reason res = FilteredParental) ->
    forall call, In call (o_calls (process c up q)) ->
    exists n, (c_sb_host c = BHName n \/ c_par_host c = BHName n) /\ call = (fqdn n, q_qtype q).
  Proof.
    intros Hv Hf Hr call. rewrite upstream_calls_spec. unfold spec_calls. rewrite Hv.
    destruct (prefilter c q); [intros [] | intros [] |].
    assert (Hc : is_rewritten_cname res = false) by (unfold is_rewritten_cname; destruct Hr as [-> | ->]; reflexivity).
    rewrite Hc, Hf. unfold blockpage_calls. destruct (addr_question _); [|intros []].
    destruct Hr as [-> | ->].
    - destruct (c_sb_host c) as [|a|n] eqn:E; [intros [] | intros [] |].
      intros [<-|[]]. exists n. split; [left; reflexivity | reflexivity].
    - destruct (c_par_host c) as [|a|n] eqn:E; [intros [] | intros [] |].
      intros [<-|[]]. exists n. split; [right; reflexivity | reflexivity].
  Qed.

  (** * Rewrites and blocking *)

  (** The outcome for a request the administrator's legacy rewrites apply
      to.  No engine, verdict oracle or block list takes part: a name that is
      both rewritten and on a block list follows the rewrite. *)
  Definition rewritten_outcome (c : cfg) (up : upstream) (q : request) (dhcp : bool) (res : result) : outcome :=
    let name := q_name q in
    let qt := q_qtype q in
    if is_rewritten_cname res then
      let cn := fqdn (r_canon res) in
      if dhcp then dhcp_nx res cn
      else match up cn qt with
           | None => mkOutcome (Some servfail) [(cn, qt)] res false false name
           | Some r =>
               mkOutcome (Some (with_answer r (rec_cname c name (r_canon res) :: rs_answer r)))
                         [(cn, qt)] res false true name
           end
    else mkOutcome (Some (cname_with_ips c name qt (r_iplist res) (r_canon res))) [] res false true name.

  Lemma legacy_rewrite_shape c host qt r :
    legacy_rewrite c host qt = Some r -> matched r = true ->
    r_reason r = RewrittenLegacy /\ r_filtered r = false.
  Proof.
    unfold Pipeline.legacy_rewrite.
    destruct (Rewrites.process_rewrites rw_sort (c_rewrites c) host qt) as [x|]; [|discriminate].
    destruct (Rewrites.r_reason x); intros [= <-]; [discriminate | split; reflexivity].
  Qed.

  Theorem legacy_rewrite_decides c up q dhcp r :
    prefilter c q = PContinue dhcp -> host_of q <> [] ->
    st_filtering (request_settings c q) = true ->
    legacy_rewrite c (host_of q) (q_qtype q) = Some r -> matched r = true ->
    process c up q = rewritten_outcome c up q dhcp r /\ r_reason r = RewrittenLegacy.
  Proof.
    intros Hpre Hh Hf Hrw Hm. destruct (legacy_rewrite_shape _ _ _ _ Hrw Hm) as [Hr Hfl].
    split; [|exact Hr].
    rewrite process_unfold. unfold process_spec. rewrite Hpre.
    assert (Hv : check_host c (request_settings c q) (trim_dot (q_name q)) (q_qtype q) = Some r).
    { unfold Pipeline.check_host, host_of in *. destruct (trim_dot (q_name q)) eqn:E; [cbn in Hh; congruence|].
      rewrite Hf, Hrw, Hm. reflexivity. }
    rewrite Hv. unfold verdict_outcome, rewritten_outcome.
    destruct (is_rewritten_cname r); [reflexivity|]. rewrite Hfl, Hr. reflexivity.
  Qed.

  (** Any rewritten question (legacy rewrite to a CNAME without addresses,
      $dnsrewrite CNAME, safe-search CNAME): the target is resolved instead of
      the client's name, the client's question is put back and the CNAME is put
      in front of whatever the upstream answered; those records are NOT
      response-filtered. *)
  Theorem rewritten_cname_outcome c up q res r :
    prefilter c q = PContinue false -> verdict c q = Some res -> is_rewritten_cname res = true ->
    up (fqdn (r_canon res)) (q_qtype q) = Some r ->
    let o := process c up q in
    o_resp o = Some (with_answer r (rec_cname c (q_name q) (r_canon res) :: rs_answer r)) /\
    o_calls o = [(fqdn (r_canon res), q_qtype q)] /\ o_result o = res /\
    o_orig_kept o = false /\ o_qname o = q_name q.
  Proof.
    intros Hpre Hv Hc Hu. cbv zeta. rewrite process_unfold. unfold process_spec. rewrite Hpre.
    fold (verdict c q). rewrite Hv. unfold verdict_outcome. rewrite Hc, Hu. repeat split.
  Qed.

  (** $dnsrewrite results never carry the filtered flag ... *)
  Lemma process_dns_rewrites_shape rs : forall vals rules,
    let r := process_dns_rewrites rs vals rules in
    r_filtered r = false /\ r_reason r = RewrittenRule.
  Proof.
    induction rs as [|nr rs IH]; intros vals rules; cbn [process_dns_rewrites]; [split; reflexivity|].
    destruct (the_drw nr) as [[|p]|n|a]; try (split; reflexivity); apply IH.
  Qed.

  Lemma dnsrewrite_result_not_filtered dr host : r_filtered (dnsrewrite_result dr host) = false.
  Proof.
    unfold dnsrewrite_result. destruct (dns_rewrites dr) as [|x l]; [reflexivity|].
    destruct (eqb_bytes _ host); [reflexivity|]. apply process_dns_rewrites_shape.
  Qed.

  (** ... so a $dnsrewrite rule that applies to a name or address shadows
      every block rule for it: the check used on answer records (and at the
      request stage) reports "not filtered". *)
  Theorem dnsrewrite_shadows_block st host qt :
    snd (if st_protection st then allow_eng (rq_of st host qt) else (empty_result, false)) = false ->
    matched (dnsrewrite_result (fst (block_eng (rq_of st host qt))) host) = true ->
    r_filtered (match_host st host qt) = false.
  Proof.
    intros Ha Hm. unfold Pipeline.match_host. fold (rq_of st host qt).
    destruct (negb (st_filtering st)); [reflexivity|]. rewrite Ha, Hm.
    apply dnsrewrite_result_not_filtered.
  Qed.

  (** * Forwarded queries *)

  (** The request reaches the upstream stage with its own question: no
      earlier stage answered it, and the verdict is "allow-listed" or
      "nothing matched". *)
  Definition passes_request_stage (c : cfg) (q : request) (res : result) : Prop :=
    prefilter c q = PContinue false /\ verdict c q = Some res /\ r_filtered res = false /\
    (r_reason res = NotFilteredNotFound \/ r_reason res = NotFilteredAllowList).

  Lemma passes_not_cname c q res : passes_request_stage c q res -> is_rewritten_cname res = false.
  Proof. intros (_ & _ & _ & [H|H]); unfold is_rewritten_cname; rewrite H; reflexivity. Qed.

  Lemma passes_outcome c up q res :
    passes_request_stage c q res -> process c up q = forward_outcome c up q res.
  Proof.
    intros Hp. pose proof (passes_not_cname _ _ _ Hp) as Hc. destruct Hp as (Hpre & Hv & Hf & Hr).
    rewrite process_unfold. unfold process_spec. rewrite Hpre. fold (verdict c q). rewrite Hv.
    unfold verdict_outcome. rewrite Hc, Hf. destruct Hr as [-> | ->]; reflexivity.
  Qed.

  Lemma allow_hit_passes c q :
    prefilter c q = PContinue false -> protection_on c = true -> host_of q <> [] ->
    rewrites_pass c (request_settings c q) (host_of q) (q_qtype q) ->
    hosts_silent c (request_settings c q) (host_of q) (q_qtype q) ->
    allow_hit (request_settings c q) (host_of q) (q_qtype q) ->
    exists res, passes_request_stage c q res /\ r_reason res = NotFilteredAllowList.
  Proof.
    intros Hpre Hp Hh Hrw Hhs (Hf & Ha). unfold passes_request_stage, verdict, host_of in *.
    rewrite (check_host_unfold _ _ _ _ (lower_nonempty _ Hh) Hrw). rewrite first_match_unfold.
    set (st := request_settings c q) in *. set (h := lower (trim_dot (q_name q))) in *.
    unfold hosts_silent in Hhs. rewrite Hhs.
    assert (Hm : match_host st h (q_qtype q) = allowlist_result (fst (allow_eng (rq_of st h (q_qtype q))))).
    { unfold Pipeline.match_host. fold (rq_of st h (q_qtype q)).
      assert (Hpp : st_protection st = true) by (unfold st; rewrite request_settings_protection; exact Hp).
      rewrite Hf, Hpp. cbn [negb]. rewrite Ha. reflexivity. }
    rewrite Hm. cbn. eexists. repeat split; auto.
  Qed.

  Definition nothing_matches (c : cfg) (q : request) : Prop :=
    let st := request_settings c q in
    rewrites_pass c st (host_of q) (q_qtype q) /\ hosts_silent c st (host_of q) (q_qtype q) /\
    lists_silent st (host_of q) (q_qtype q) /\
    first_service (st_services st) (host_of q) = None /\
    (st_safebrowsing st = false \/ sb_oracle (host_of q) = false) /\
    (st_parental st = false \/ par_oracle (host_of q) = false) /\
    (st_safesearch st = false \/ ss_oracle (host_of q) (q_qtype q) = None).

  Lemma nothing_matches_verdict c q : nothing_matches c q -> verdict c q = Some no_result.
  Proof.
    intros (Hrw & Hhs & Hs & Hsvc & Hsb & Hpar & Hss). unfold verdict, host_of in *.
    destruct (trim_dot (q_name q)) as [|x xs] eqn:Et; [reflexivity|].
    assert (Hne : x :: xs <> []) by discriminate.
    rewrite (check_host_unfold _ _ _ _ Hne Hrw). f_equal. rewrite first_match_unfold.
    unfold hosts_silent in Hhs. rewrite Hhs, (match_host_silent _ _ _ Hs).
    unfold match_services. rewrite Hsvc.
    assert (Hsv : matched (if negb (st_protection (request_settings c q)) then no_result else no_result) = false)
      by (destruct (negb _); reflexivity).
    rewrite Hsv.
    unfold check_safebrowsing, check_parental, check_safesearch.
    assert (H1 : st_protection (request_settings c q) && st_safebrowsing (request_settings c q) && sb_oracle (lower (x :: xs)) = false).
    { destruct Hsb as [-> | ->]; rewrite ?andb_false_r; reflexivity. }
    assert (H2 : st_protection (request_settings c q) && st_parental (request_settings c q) && par_oracle (lower (x :: xs)) = false).
    { destruct Hpar as [-> | ->]; rewrite ?andb_false_r; reflexivity. }
    rewrite H1, H2. cbn [matched r_reason no_result].
    destruct (negb (st_protection (request_settings c q)) || negb (st_safesearch (request_settings c q))) eqn:Eg;
      [reflexivity|].
    destruct Hss as [Hss|Hss].
    - rewrite Hss in Eg. rewrite orb_true_r in Eg. discriminate.
    - rewrite Hss. reflexivity.
  Qed.

  Lemma nothing_matches_passes c q :
    prefilter c q = PContinue false -> nothing_matches c q -> passes_request_stage c q no_result.
  Proof.
    intros Hpre Hn. unfold passes_request_stage. rewrite (nothing_matches_verdict _ _ Hn).
    repeat split; auto.
  Qed.

  (** A query that passes the request stage is forwarded exactly once, with
      its own name and type; an upstream failure gives SERVFAIL. *)
  (** (Round 6: the question of a delivered upstream answer is the one the
      upstream put into it, [resp_qname]: the client's up to ASCII case; the
      question of the blocking-mode answer is the client's.) *)
  Theorem forwarded_once c up q res :
    passes_request_stage c q res ->
    o_calls (process c up q) = [the_call q] /\
    o_qname (process c up q) =
      match up (q_name q) (q_qtype q) with
      | Some r => if o_orig_kept (process c up q) then q_name q else resp_qname r (q_name q)
      | None => q_name q
      end /\
    (up (q_name q) (q_qtype q) = None -> o_resp (process c up q) = Some servfail).
  Proof.
    intros Hp. rewrite (passes_outcome _ _ _ _ Hp). split; [apply forward_outcome_calls|].
    unfold forward_outcome. destruct (up (q_name q) (q_qtype q)) as [r|]; [|split; reflexivity].
    split; [|discriminate]. unfold after_upstream.
    destruct (r_reason res); try reflexivity;
      (destruct (negb (protection_on c) || negb _); [reflexivity|];
       destruct (filter_answer _ _ _) as [a [f|]]; reflexivity).
  Qed.

  Lemma lower_upper_byte b : lower_byte (upper_byte b) = lower_byte b.
  Proof.
    unfold upper_byte, lower_byte.
    destruct ((97 <=? b) && (b <=? 122)) eqn:E.
    - apply andb_true_iff in E as [E1 E2]. apply N.leb_le in E1, E2.
      assert ((65 <=? b - 32) && (b - 32 <=? 90) = true) as ->
        by (apply andb_true_iff; split; apply N.leb_le; lia).
      assert ((65 <=? b) && (b <=? 90) = false) as ->
        by (apply andb_false_iff; right; apply N.leb_gt; lia).
      lia.
    - reflexivity.
  Qed.

  Lemma lower_byte_idem' b : lower_byte (lower_byte b) = lower_byte b.
  Proof.
    unfold lower_byte. destruct ((65 <=? b) && (b <=? 90)) eqn:E; [|rewrite E; reflexivity].
    apply andb_true_iff in E as [E1 E2]. apply N.leb_le in E1, E2.
    assert ((65 <=? b + 32) && (b + 32 <=? 90) = false) as ->
      by (apply andb_false_iff; right; apply N.leb_gt; lia).
    reflexivity.
  Qed.

  (** The question inside an upstream answer is the asked one up to ASCII case. *)
  Lemma resp_qname_fold r n : lower (resp_qname r n) = lower n.
  Proof.
    unfold resp_qname, lower, upper. destruct (rs_qcase r); [reflexivity| |];
      rewrite map_map; apply map_ext; intros b; [apply lower_byte_idem' | apply lower_upper_byte].
  Qed.

  (** Allow-listed: the upstream answer is delivered exactly as it came, with
      the client's question. *)
  Theorem allowlisted_intact c up q res r :
    passes_request_stage c q res -> r_reason res = NotFilteredAllowList ->
    up (q_name q) (q_qtype q) = Some r ->
    o_resp (process c up q) = Some r /\ o_result (process c up q) = res /\
    o_qname (process c up q) = resp_qname r (q_name q).
  Proof.
    intros Hp Hr Hu. rewrite (passes_outcome _ _ _ _ Hp). unfold forward_outcome. rewrite Hu.
    unfold after_upstream. rewrite Hr. repeat split.
  Qed.

  Lemma first_match_protection_off c st h qt :
    st_protection st = false ->
    let r := first_match c checker_order st h qt in
    r_filtered r = false /\
    (r_reason r = NotFilteredNotFound \/ r_reason r = RewrittenLegacy \/
     r_reason r = RewrittenAutoHosts \/ r_reason r = RewrittenRule).
  Proof.
    intros Hst. cbv zeta. rewrite first_match_unfold.
    assert (Hh : let r := match_sys_hosts c st h qt in
                 r_filtered r = false /\ (r_reason r = NotFilteredNotFound \/ r_reason r = RewrittenAutoHosts)).
    { cbv zeta. unfold match_sys_hosts. destruct (negb _ || negb _); [auto|].
      destruct (_ || _); [destruct (assoc_bytes _ _) as [[|a l]|]; cbn; auto|].
      destruct (qt =? tPTR); [|auto].
      destruct (assoc_bytes _ _); [|auto]. destruct (assoc_addr _ _) as [[|n l]|]; cbn; auto. }
    destruct (matched (match_sys_hosts c st h qt)) eqn:E1.
    { destruct Hh as [H1 [H2|H2]]; split; auto. }
    assert (Hm : let r := match_host st h qt in
                 r_filtered r = false /\ (r_reason r = NotFilteredNotFound \/ r_reason r = RewrittenRule)).
    { cbv zeta. unfold Pipeline.match_host. rewrite Hst. cbn [negb snd].
      destruct (negb (st_filtering st)); [auto|].
      set (dr := dnsrewrite_result _ h).
      destruct (matched dr) eqn:Ed.
      - split; [apply dnsrewrite_result_not_filtered|]. subst dr. unfold dnsrewrite_result in *.
        destruct (dns_rewrites _) as [|y l]; [discriminate|].
        destruct (eqb_bytes _ h); [discriminate|]. right. apply process_dns_rewrites_shape.
      - destruct (negb (snd _)); auto. }
    destruct (matched (match_host st h qt)) eqn:E2.
    { destruct Hm as [H1 [H2|H2]]; split; auto. }
    unfold match_services, check_safebrowsing, check_parental, check_safesearch. rewrite Hst. cbn. auto.
  Qed.

  (** With protection off nothing is blocked, whatever the engines and
      oracles say: no verdict carries a blocking or allow-list reason.  (The
      administrator's rewrites - legacy rewrites, hosts file, $dnsrewrite -
      still apply, as in the code.) *)
  Theorem protection_off_blocks_nothing c q res :
    protection_on c = false -> verdict c q = Some res ->
    r_filtered res = false /\
    (r_reason res = NotFilteredNotFound \/ r_reason res = RewrittenLegacy \/
     r_reason res = RewrittenAutoHosts \/ r_reason res = RewrittenRule).
  Proof.
    intros Hp. unfold verdict.
    assert (Hst := request_settings_protection c q). rewrite Hp in Hst.
    set (st := request_settings c q) in *.
    unfold Pipeline.check_host. destruct (trim_dot (q_name q)) as [|x xs]; [intros [= <-]; auto|].
    cbv beta iota zeta. set (h := lower (x :: xs)).
    destruct (if st_filtering st then legacy_rewrite c h (q_qtype q) else Some no_result) as [rw|] eqn:Erw; [|discriminate].
    destruct (matched rw) eqn:Em.
    - intros [= <-]. destruct (st_filtering st); [|inversion Erw; subst; discriminate].
      destruct (legacy_rewrite_shape _ _ _ _ Erw Em) as [-> ->]. auto.
    - intros [= <-]. apply (first_match_protection_off c st h (q_qtype q) Hst).
  Qed.

  (** Protection off and none of the administrator's rewrites applying: the
      query is forwarded and the upstream answer delivered unchanged. *)
  Theorem protection_off c up q :
    protection_on c = false -> prefilter c q = PContinue false -> nothing_matches c q ->
    let o := process c up q in
    o_result o = no_result /\ o_calls o = [the_call q] /\
    o_resp o = Some (match up (q_name q) (q_qtype q) with Some r => r | None => servfail end).
  Proof.
    intros Hp Hpre Hn. cbv zeta.
    rewrite (passes_outcome _ _ _ _ (nothing_matches_passes _ _ Hpre Hn)).
    unfold forward_outcome. destruct (up (q_name q) (q_qtype q)) as [r|]; [|repeat split].
    unfold after_upstream. cbn [r_reason no_result]. rewrite Hp. cbn [negb orb]. repeat split.
  Qed.

  (** * C02 *)

  (** A record is offending if its check reports a filtered result. *)
  Definition offending (c : cfg) (st : settings) (r : rr) : Prop :=
    exists res, check_rr st (strip_rr c r) = Some res.
  Definition clean (c : cfg) (st : settings) (r : rr) : Prop := check_rr st (strip_rr c r) = None.

  Lemma filter_answer_clean c st ans :
    Forall (clean c st) ans -> filter_answer c st ans = (map (strip_rr c) ans, None).
  Proof.
    induction 1 as [|r rest Hr _ IH]; [reflexivity|].
    cbn [Pipeline.filter_answer map]. unfold clean in Hr. rewrite Hr, IH. reflexivity.
  Qed.

  (** Induction over the clean prefix: the first offending record decides,
      wherever it sits. *)
  Lemma filter_answer_first c st pre r post res :
    Forall (clean c st) pre -> check_rr st (strip_rr c r) = Some res ->
    filter_answer c st (pre ++ r :: post) = (map (strip_rr c) pre ++ strip_rr c r :: post, Some res).
  Proof.
    intros Hpre Hr. induction Hpre as [|p pre Hp _ IH].
    - cbn [app map Pipeline.filter_answer]. rewrite Hr. reflexivity.
    - cbn [app map Pipeline.filter_answer]. unfold clean in Hp. rewrite Hp, IH. reflexivity.
  Qed.

  (** Response filtering applies: protection on, filtering on for the client,
      the request stage neither blocked, allow-listed nor rewrote the name. *)
  Definition response_filtering_applies (c : cfg) (q : request) : Prop :=
    passes_request_stage c q no_result /\
    protection_on c = true /\ st_filtering (request_settings c q) = true.

  Lemma applies_after_upstream c up q r :
    protection_on c = true -> st_filtering (request_settings c q) = true ->
    after_upstream c up q no_result r =
    match filter_answer c (request_settings c q) (rs_answer r) with
    | (_, Some fr) =>
        mkOutcome (Some (fst (filter_message c up (q_name q) (q_qtype q) fr))) [the_call q] fr true true (q_name q)
    | (ans', None) =>
        mkOutcome (Some (with_answer r ans')) [the_call q] no_result false true (resp_qname r (q_name q))
    end.
  Proof. intros Hp Hf. unfold after_upstream. cbn [r_reason no_result]. rewrite Hp, Hf. reflexivity. Qed.

  (** The check of a record only ever reports a block-list result. *)
  Lemma match_host_filtered_reason st host qt :
    r_filtered (match_host st host qt) = true -> r_reason (match_host st host qt) = FilteredBlockList.
  Proof.
    unfold Pipeline.match_host.
    destruct (negb (st_filtering st)); [discriminate|].
    destruct (snd (if st_protection st then _ else _)); [discriminate|].
    destruct (matched (dnsrewrite_result _ host)); [rewrite dnsrewrite_result_not_filtered; discriminate|].
    destruct (negb (snd (block_eng _))); [discriminate|].
    destruct (negb (st_protection st)); [discriminate|].
    intros H. apply blocklist_result_filtered in H. tauto.
  Qed.

  Lemma first_filtered_hint_reason st hs res :
    first_filtered_hint allow_eng block_eng st hs = Some res ->
    r_filtered res = true /\ r_reason res = FilteredBlockList.
  Proof.
    induction hs as [|h hs IH]; cbn [first_filtered_hint]; [discriminate|].
    unfold check_host_rules.
    destruct (r_filtered (match_host st (lower (ta_text h)) tHTTPS)) eqn:E; [|exact IH].
    intros [= <-]. split; [exact E | apply match_host_filtered_reason; exact E].
  Qed.

  Lemma filter_https_reason st ps res :
    filter_https allow_eng block_eng st ps = Some res ->
    r_filtered res = true /\ r_reason res = FilteredBlockList.
  Proof.
    induction ps as [|p ps IH]; cbn [filter_https]; [discriminate|].
    destruct (first_filtered_hint _ _ _ _) eqn:E; [|exact IH].
    intros [= <-]. eapply first_filtered_hint_reason; exact E.
  Qed.

  Lemma check_rr_reason st r res :
    check_rr st r = Some res -> r_filtered res = true /\ r_reason res = FilteredBlockList.
  Proof.
    unfold Pipeline.check_rr, check_host_rules. destruct (rr_data r) as [a|a|t|ps|t|ty id].
    - destruct (r_filtered (match_host _ _ _)) eqn:E; [|discriminate].
      intros [= <-]. split; [exact E | apply match_host_filtered_reason; exact E].
    - destruct (r_filtered (match_host _ _ _)) eqn:E; [|discriminate].
      intros [= <-]. split; [exact E | apply match_host_filtered_reason; exact E].
    - destruct (r_filtered (match_host _ _ _)) eqn:E; [|discriminate].
      intros [= <-]. split; [exact E | apply match_host_filtered_reason; exact E].
    - apply filter_https_reason.
    - discriminate.
    - discriminate.
  Qed.

  (** The first offending record of the upstream answer, at any position,
      replaces the whole answer by the blocking-mode answer; the original is
      kept for the log. *)
  Theorem offending_record_blocks c up q r pre rr0 post res :
    response_filtering_applies c q ->
    up (q_name q) (q_qtype q) = Some r ->
    rs_answer r = pre ++ rr0 :: post ->
    Forall (clean c (request_settings c q)) pre ->
    check_rr (request_settings c q) (strip_rr c rr0) = Some res ->
    let o := process c up q in
    o_resp o = Some (synthetic c (q_name q) (q_qtype q) (ips_from_rules res)) /\
    o_result o = res /\ r_filtered res = true /\ r_reason res = FilteredBlockList /\
    o_orig_kept o = true /\ o_calls o = [the_call q] /\ o_qname o = q_name q.
  Proof.
    intros (Hpass & Hp & Hfil) Hu Hans Hpre Hr. cbv zeta.
    rewrite (passes_outcome _ _ _ _ Hpass). unfold forward_outcome. rewrite Hu.
    rewrite (applies_after_upstream _ _ _ _ Hp Hfil), Hans.
    rewrite (filter_answer_first _ _ _ _ _ _ Hpre Hr).
    destruct (check_rr_reason _ _ _ Hr) as [Hrf Hrr].
    cbn [o_resp o_result o_orig_kept o_calls o_qname].
    rewrite (filter_message_synthetic _ _ _ _ _ (or_introl Hrr)). repeat split; assumption.
  Qed.

  (** No offending record: the answer is delivered as it came, except that
      IPv6 hints are removed from HTTPS records when AAAA is disabled. *)
  Theorem clean_answer_unchanged c up q r :
    response_filtering_applies c q ->
    up (q_name q) (q_qtype q) = Some r ->
    Forall (clean c (request_settings c q)) (rs_answer r) ->
    let o := process c up q in
    o_resp o = Some (with_answer r (map (strip_rr c) (rs_answer r))) /\
    o_orig_kept o = false /\ r_filtered (o_result o) = false /\ o_qname o = resp_qname r (q_name q).
  Proof.
    intros (Hpass & Hp & Hfil) Hu Hclean. cbv zeta.
    rewrite (passes_outcome _ _ _ _ Hpass). unfold forward_outcome. rewrite Hu.
    rewrite (applies_after_upstream _ _ _ _ Hp Hfil).
    rewrite (filter_answer_clean _ _ _ Hclean). repeat split.
  Qed.

  Lemma strip_rr_id c r : c_aaaa_disabled c = false -> strip_rr c r = r.
  Proof. intros H. unfold strip_rr. rewrite H. destruct (rr_data r); reflexivity. Qed.

  Lemma map_strip_id c l : c_aaaa_disabled c = false -> map (strip_rr c) l = l.
  Proof. intros H. induction l as [|r l IH]; cbn; [reflexivity|]. rewrite strip_rr_id, IH by exact H. reflexivity. Qed.

  (** A closed gate: the answer is delivered untouched, whatever it holds. *)
  Theorem gate_closed_unchanged c up q res r :
    passes_request_stage c q res ->
    up (q_name q) (q_qtype q) = Some r ->
    (r_reason res = NotFilteredAllowList \/
     protection_on c = false \/ st_filtering (request_settings c q) = false) ->
    o_resp (process c up q) = Some r /\ o_orig_kept (process c up q) = false.
  Proof.
    intros Hpass Hu Hg. rewrite (passes_outcome _ _ _ _ Hpass). unfold forward_outcome. rewrite Hu.
    unfold after_upstream. destruct Hg as [Hg | [Hg | Hg]].
    - rewrite Hg. split; reflexivity.
    - rewrite Hg. cbn [negb orb]. destruct (r_reason _); split; reflexivity.
    - rewrite Hg. cbn [negb]. rewrite orb_true_r. destruct (r_reason _); split; reflexivity.
  Qed.

  (** Whether the answer is blocked does not depend on the order of its
      records. *)
  Definition answer_blocked (c : cfg) (st : settings) (ans : list rr) : bool :=
    match snd (filter_answer c st ans) with Some _ => true | None => false end.

  Lemma answer_blocked_iff c st ans :
    answer_blocked c st ans = true <-> Exists (offending c st) ans.
  Proof.
    unfold answer_blocked. induction ans as [|r rest IH].
    - cbn. split; [discriminate | intros H; inversion H].
    - cbn [Pipeline.filter_answer]. destruct (check_rr st (strip_rr c r)) as [res|] eqn:E.
      + cbn. split; [intros _; left; exists res; exact E | reflexivity].
      + destruct (filter_answer c st rest) as [rest' fr] eqn:Er. cbn [snd] in *.
        rewrite IH. split.
        * intros H. right. exact H.
        * intros H. inversion H as [? ? [res Hres]|]; subst; [congruence | assumption].
  Qed.

  Theorem position_independent c st ans ans' :
    Permutation ans ans' -> answer_blocked c st ans = answer_blocked c st ans'.
  Proof.
    intros Hperm.
    destruct (answer_blocked c st ans) eqn:E1, (answer_blocked c st ans') eqn:E2; try reflexivity.
    - apply answer_blocked_iff in E1. apply Exists_exists in E1 as (x & Hin & Hx).
      assert (E : answer_blocked c st ans' = true).
      { apply answer_blocked_iff, Exists_exists. exists x. split; [eapply Permutation_in; eassumption | exact Hx]. }
      congruence.
    - apply answer_blocked_iff in E2. apply Exists_exists in E2 as (x & Hin & Hx).
      assert (E : answer_blocked c st ans = true).
      { apply answer_blocked_iff, Exists_exists. exists x.
        split; [eapply Permutation_in; [apply Permutation_sym|]; eassumption | exact Hx]. }
      congruence.
  Qed.
End Engines.

(** * Filtering switched off for the client *)

Lemma check_host_filtering_off a1 b1 a2 b2 sb par ss srt c st host qt :
  st_filtering st = false ->
  check_host a1 b1 sb par ss srt c st host qt = check_host a2 b2 sb par ss srt c st host qt.
Proof.
  intros Hf. unfold check_host. destruct host; [reflexivity|]. rewrite Hf.
  cbn [matched no_result r_reason]. unfold checker_order. cbn [first_match run_checker].
  unfold match_host. rewrite Hf. reflexivity.
Qed.

Lemma after_upstream_filtering_off a1 b1 a2 b2 c up q res r :
  st_filtering (request_settings c q) = false ->
  after_upstream a1 b1 c up q res r = after_upstream a2 b2 c up q res r.
Proof.
  intros Hf. unfold after_upstream. rewrite Hf. cbn [negb]. rewrite !orb_true_r.
  destruct (r_reason res); reflexivity.
Qed.

(** With filtering switched off for the client the rule lists are not
    consulted: the outcome is the same whatever the engines are. *)
Theorem client_filtering_off a1 b1 a2 b2 sb par ss srt c up q :
  st_filtering (request_settings c q) = false ->
  process a1 b1 sb par ss srt c up q = process a2 b2 sb par ss srt c up q.
Proof.
  intros Hf. rewrite !process_unfold. unfold process_spec.
  destruct (prefilter c q) as [r|r|dhcp]; try reflexivity.
  rewrite (check_host_filtering_off a1 b1 a2 b2 _ _ _ _ _ _ _ _ Hf).
  destruct (check_host a2 b2 sb par ss srt c _ _ _) as [res|]; [|reflexivity].
  unfold verdict_outcome, forward_outcome.
  destruct (is_rewritten_cname res); [reflexivity|].
  destruct (r_filtered res); [reflexivity|].
  destruct (r_reason res); try reflexivity;
    (destruct dhcp; [reflexivity|]; destruct (up _ _); [|reflexivity];
     apply after_upstream_filtering_off; exact Hf).
Qed.

Lemma verdict_filtering_off a b sb par ss srt c st host qt res :
  st_filtering st = false -> check_host a b sb par ss srt c st host qt = Some res ->
  r_reason res <> FilteredBlockList /\ r_reason res <> NotFilteredAllowList /\
  r_reason res <> RewrittenLegacy /\ r_reason res <> RewrittenAutoHosts /\ r_reason res <> RewrittenRule.
Proof.
  intros Hf. unfold check_host. destruct host; [intros [= <-]; cbn; repeat split; discriminate|].
  rewrite Hf. cbn [matched no_result r_reason]. intros [= <-].
  unfold checker_order. cbn [first_match run_checker].
  unfold match_sys_hosts, match_host. rewrite Hf. cbn [negb orb matched no_result r_reason].
  unfold match_services, check_safebrowsing, check_parental, check_safesearch.
  repeat match goal with
         | |- context [first_service ?s ?h] => destruct (first_service s h) as [[? ?]|]; cbn
         | |- context [match ss ?h ?q with _ => _ end] => destruct (ss h q) as [[?|?]|]; cbn
         | |- context [if ?b then _ else _] => destruct b; cbn
         end; repeat split; discriminate.
Qed.

Theorem client_filtering_off_reason a b sb par ss srt c up q :
  st_filtering (request_settings c q) = false ->
  let r := r_reason (o_result (process a b sb par ss srt c up q)) in
  r <> FilteredBlockList /\ r <> NotFilteredAllowList.
Proof.
  intros Hf. cbv zeta. rewrite process_unfold. unfold process_spec.
  destruct (prefilter c q) as [r|r|dhcp]; try (cbn; split; discriminate).
  destruct (check_host a b sb par ss srt c _ _ _) as [res|] eqn:Ev; [|cbn; split; discriminate].
  destruct (verdict_filtering_off _ _ _ _ _ _ _ _ _ _ _ Hf Ev) as (H1 & H2 & _).
  unfold verdict_outcome, forward_outcome, dhcp_nx.
  destruct (is_rewritten_cname res).
  { destruct dhcp; [cbn; auto|]. destruct (up _ _); cbn; auto. }
  destruct (r_filtered res); [cbn; auto|].
  destruct (r_reason res) eqn:Er; try congruence;
    try (destruct (dns_rewrite_response _ _ _ _); cbn; rewrite ?Er; split; discriminate);
    try (cbn; rewrite Er; split; discriminate);
    (destruct dhcp; [cbn; rewrite Er; split; discriminate|];
     destruct (up _ _); [|cbn; rewrite Er; split; discriminate];
     unfold after_upstream; rewrite Hf, Er; cbn [negb]; rewrite orb_true_r; cbn; rewrite Er; split; discriminate).
Qed.

(** * Non-vacuity: concrete states meeting the premises *)

Definition b_a_test : bytes := [97;46;116;101;115;116].                 (* a.test *)
Definition b_x_test : bytes := [120;46;116;101;115;116].                (* x.test *)
Definition ex_pattern : bytes := [124;124;97;46;116;101;115;116;94].   (* ||a.test^ *)
Definition no_clients : clients := mkClients [] [].

Definition plain_rule (id : N) (white : bool) (pat : bytes) (drw : option dnsrw) : rule :=
  RNet (mkNRule id white pat false false [] [] no_clients no_clients [] [] [] drw).

Definition ex_block_rules : list rule := [plain_rule 1 false ex_pattern None].
Definition ex_allow_rules : list rule := [plain_rule 2 true ex_pattern None].

Definition ex_cfg_with (m : bmode) (deadline : option bool) (rws : list Rewrites.entry) (sbh : blockhost) : cfg :=
  mkCfg true deadline true true false m (mkAddr V4 3221225985 []) (mkAddr V6 1 []) 10 false
        [] false [] sbh BHEmpty
        rws false [] [] [] false None false [108;97;110] [] [] None.
Definition ex_cfg (m : bmode) : cfg := ex_cfg_with m None [] BHEmpty.
Definition ex_cfg_off : cfg := ex_cfg_with MDefault (Some true) [] BHEmpty.

Definition ex_client_ip : addr := mkAddr V4 167772161 [].
(* "B.a.TEST." A *)
Definition ex_query : request := mkRequest [66;46;97;46;84;69;83;84;46] 1 ex_client_ip None false None.
(* "x.test." A *)
Definition ex_query_other : request := mkRequest [120;46;116;101;115;116;46] 1 ex_client_ip None false None.
Definition ex_kid : pclient := mkPClient [107;105;100] true false false false false [] false false [].
Definition ex_query_kid : request := mkRequest [66;46;97;46;84;69;83;84;46] 1 ex_client_ip (Some ex_kid) false None.

Definition no_ss : bytes -> N -> option ssverdict := fun _ _ => None.

Example ex_blocked_by_spec m :
  blocked_by_spec (match_request []) (match_request ex_block_rules) Rewrites.isort (ex_cfg m) ex_query.
Proof.
  unfold blocked_by_spec. cbv zeta. split; [reflexivity|]. split; [exists false; vm_compute; reflexivity|].
  split; [vm_compute; discriminate|]. split; [vm_compute; reflexivity|]. split; [vm_compute; reflexivity|]. left.
  unfold list_blocked, no_dnsrewrite. repeat split; vm_compute; reflexivity.
Qed.

Example ex_other_premises :
  allow_hit (match_request ex_allow_rules) (request_settings (ex_cfg MDefault) ex_query) (host_of ex_query) (q_qtype ex_query) /\
  nothing_matches (match_request []) (match_request ex_block_rules) (fun _ => false) (fun _ => false) no_ss
    Rewrites.isort (ex_cfg MDefault) ex_query_other /\
  prefilter (ex_cfg MDefault) ex_query_other = PContinue false /\
  protection_on ex_cfg_off = false /\ prefilter ex_cfg_off ex_query = PContinue false /\
  st_filtering (request_settings (ex_cfg MDefault) ex_query_kid) = false.
Proof.
  split; [split; vm_compute; reflexivity|].
  split; [|repeat split; vm_compute; reflexivity].
  unfold nothing_matches. cbv zeta. split; [vm_compute; reflexivity|]. split; [vm_compute; reflexivity|].
  split; [right; split; [vm_compute; reflexivity | split; [vm_compute; reflexivity | left; vm_compute; reflexivity]]|].
  split; [vm_compute; reflexivity|]. split; [right; reflexivity|]. split; [left; vm_compute; reflexivity|].
  left; vm_compute; reflexivity.
Qed.

(** An upstream answer "CNAME b.a.test., A 93.184.216.34" to a question for
    x.test: the CNAME target is on the block list. *)
Definition ex_answer : resp :=
  mkResp 0 [ mkRR [120;46;116;101;115;116;46] 300 (DOther 16 7);
             mkRR [120;46;116;101;115;116;46] 300 (DCNAME [98;46;97;46;116;101;115;116;46]);
             mkRR [98;46;97;46;116;101;115;116;46] 300
                  (DA (mkTA (mkAddr V4 1572395042 []) [57;51;46;49;56;52;46;50;49;54;46;51;52])) ] false.

Example ex_response_premises :
  let a := match_request [] in let b := match_request ex_block_rules in
  let c := ex_cfg MNXDomain in let st := request_settings c ex_query_other in
  response_filtering_applies a b (fun _ => false) (fun _ => false) no_ss Rewrites.isort c ex_query_other /\
  Forall (clean a b c st) [mkRR [120;46;116;101;115;116;46] 300 (DOther 16 7)] /\
  (exists res, check_rr a b st (strip_rr c (mkRR [120;46;116;101;115;116;46] 300 (DCNAME [98;46;97;46;116;101;115;116;46]))) = Some res) /\
  Forall (clean a b c st) [mkRR [98;46;97;46;116;101;115;116;46] 300
                  (DA (mkTA (mkAddr V4 1572395042 []) [57;51;46;49;56;52;46;50;49;54;46;51;52]))].
Proof.
  cbv zeta. split.
  - unfold response_filtering_applies, passes_request_stage. repeat split; try (vm_compute; reflexivity).
    left. reflexivity.
  - split; [repeat constructor|]. split; [eexists; vm_compute; reflexivity | repeat constructor].
Qed.

(** A legacy rewrite "a.test -> x.test" together with the block rule
    "||a.test^": the premises of [legacy_rewrite_decides] hold, i.e. the
    rewrite decides although the name is on a block list. *)
Definition ex_rw_entry : Rewrites.entry :=
  {| Rewrites.e_dom := b_a_test; Rewrites.e_ans := b_x_test; Rewrites.e_ip := None; Rewrites.e_type := Rewrites.RCNAME |}.
Definition ex_cfg_rw : cfg := ex_cfg_with MDefault None [ex_rw_entry] BHEmpty.
(* "a.test." A *)
Definition ex_query_a : request := mkRequest [97;46;116;101;115;116;46] 1 ex_client_ip None false None.

Example ex_rewrite_premises :
  prefilter ex_cfg_rw ex_query_a = PContinue false /\ host_of ex_query_a <> [] /\
  st_filtering (request_settings ex_cfg_rw ex_query_a) = true /\
  (exists r, legacy_rewrite Rewrites.isort ex_cfg_rw (host_of ex_query_a) 1 = Some r /\ matched r = true /\
             is_rewritten_cname r = true) /\
  blocked_by_spec (match_request []) (match_request ex_block_rules) Rewrites.isort (ex_cfg MDefault) ex_query_a.
Proof.
  split; [vm_compute; reflexivity|]. split; [vm_compute; discriminate|]. split; [vm_compute; reflexivity|].
  split; [eexists; repeat split; vm_compute; reflexivity|].
  unfold blocked_by_spec. cbv zeta. split; [reflexivity|]. split; [exists false; vm_compute; reflexivity|].
  split; [vm_compute; discriminate|]. split; [vm_compute; reflexivity|]. split; [vm_compute; reflexivity|]. left.
  unfold list_blocked, no_dnsrewrite. repeat split; vm_compute; reflexivity.
Qed.

(** The rewritten question is not filtered again: with the rewrite
    "x.test -> b.a.test" and "||a.test^" on the block list, a question for
    x.test sends the blocked name b.a.test upstream (the administrator's
    rewrite is followed as configured). *)
Definition ex_rw_to_blocked : Rewrites.entry :=
  {| Rewrites.e_dom := b_x_test; Rewrites.e_ans := [98;46;97;46;116;101;115;116]; Rewrites.e_ip := None;
     Rewrites.e_type := Rewrites.RCNAME |}.

Example ex_rewrite_target_not_filtered :
  o_calls (process (match_request []) (match_request ex_block_rules) (fun _ => false) (fun _ => false) no_ss
             Rewrites.isort (ex_cfg_with MDefault None [ex_rw_to_blocked] BHEmpty) (fun _ _ => Some ex_answer)
             ex_query_other)
  = [([98;46;97;46;116;101;115;116;46], 1)].
Proof. vm_compute. reflexivity. Qed.

(** Safe browsing with the block page given as a name: premises of
    [blockpage_lookup_only]. *)
Example ex_blockpage_premises :
  let c := ex_cfg_with MDefault None [] (BHName [98;108;111;99;107;46;112;97;103;101]) in
  exists res,
    verdict (match_request []) (match_request []) (fun h => eqb_bytes h b_x_test) (fun _ => false) no_ss
            Rewrites.isort c ex_query_other = Some res /\
    r_filtered res = true /\ r_reason res = FilteredSafeBrowsing.
Proof. cbv zeta. eexists. repeat split; vm_compute; reflexivity. Qed.

(** * Layers A and B together: the verdict in terms of the rule lists *)
From AGH Require Import Proofs.RuleEngine.

(** Among the block-list rules that match the request, survive $badfilter
    and carry no $dnsrewrite there is one of the highest priority class
    present, and it is not an exception. *)
Definition wins_block (rs : list rule) (rq : ufreq) : Prop :=
  exists b, In b (basic_candidates (match_all rs rq)) /\ nr_white b = false /\
            forall r', In r' (basic_candidates (match_all rs rq)) -> (rule_class r' <= rule_class b)%nat.

(** No rule of the list matches: neither a network rule nor a hosts-style line. *)
Definition no_rule_matches (rs : list rule) (rq : ufreq) : Prop :=
  match_all rs rq = [] /\ host_hits rs (rq_host rq) = [].

(** No matching rule of the list carries $dnsrewrite. *)
Definition no_rewrite_rule (rs : list rule) (rq : ufreq) : Prop :=
  filter has_drw (match_all rs rq) = [].

Lemma engine_blocks rs rq :
  rq_host rq <> [] -> wins_block rs rq ->
  exists n, match_request rs rq = (mkRes (Some n) [] [] (match_all rs rq), true) /\ nr_white n = false.
Proof.
  intros Hh (b & Hb & Hw & Hmax). unfold match_request.
  destruct (rq_host rq) as [|x xs] eqn:Eh; [congruence|].
  destruct (get_dns_basic_rule (match_all rs rq)) as [n|] eqn:E.
  - exists n. split; [reflexivity|].
    destruct (basic_rule_max_class _ _ E) as [Hin Hn].
    specialize (Hn b Hb). specialize (Hmax n Hin).
    rewrite class_white in *. replace (rule_class n) with (rule_class b) by lia. exact Hw.
  - apply basic_rule_none in E. rewrite E in Hb. destruct Hb.
Qed.

Lemma engine_silent rs rq : no_rule_matches rs rq -> snd (match_request rs rq) = false.
Proof.
  intros [Hn Hh]. unfold match_request. destruct (rq_host rq); [reflexivity|].
  rewrite Hn. cbn. rewrite Hh. reflexivity.
Qed.

Lemma engine_all rs rq : rq_host rq <> [] -> dr_all (fst (match_request rs rq)) = match_all rs rq.
Proof.
  intros Hh. unfold match_request. destruct (rq_host rq); [congruence|].
  destruct (get_dns_basic_rule _); [reflexivity|]. destruct (host_hits _ _); reflexivity.
Qed.

Lemma no_rewrite_rule_result rs rq host :
  rq_host rq <> [] -> no_rewrite_rule rs rq ->
  dnsrewrite_result (fst (match_request rs rq)) host = no_result.
Proof.
  intros Hh Hn. unfold dnsrewrite_result, dns_rewrites. rewrite (engine_all _ _ Hh), Hn. reflexivity.
Qed.

(** The premise of C01_blocked_is_local read over the rule lists themselves
    (lists of any length): no allow-list rule matches the name, no matching
    block-list rule carries $dnsrewrite, and a non-exception rule of the
    block lists / custom rules wins. *)
Theorem list_blocked_from_rules allow block st host qt :
  host <> [] -> st_filtering st = true ->
  no_rule_matches allow (rq_of st host qt) -> no_rewrite_rule block (rq_of st host qt) ->
  wins_block block (rq_of st host qt) ->
  list_blocked (match_request allow) (match_request block) st host qt.
Proof.
  intros Hh Hf Ha Hn Hb. unfold list_blocked, no_dnsrewrite.
  destruct (engine_blocks block (rq_of st host qt) Hh Hb) as (n & Hm & Hw).
  split; [exact Hf|]. split; [apply engine_silent; exact Ha|].
  split; [rewrite (no_rewrite_rule_result block (rq_of st host qt) host Hh Hn); reflexivity|].
  split; [rewrite Hm; reflexivity|].
  rewrite Hm. cbn [fst]. unfold blocklist_result. cbn [dr_net]. rewrite Hw. reflexivity.
Qed.

(** C05: the whole-table form of the instance theorem (round 3).

    Threads are arbitrary event lists that CONFORM to the extracted table: every
    access they perform is an access site of the table with at least the locks
    listed there, and every nested acquisition is an acquired-while-held pair
    of the table (listed findings included).  For any number of such threads
    and any schedule:

    - [whole_table_safe]: if the table passes the checks and nothing is listed
      as a known finding, no reachable state has a race or is deadlocked, and
      the acquired-while-held relation has no cycle at all;
    - [deadlock_uses_listed_pair]: with listed pairs, a deadlock is only
      reachable if some thread's program contains a nested acquisition `l while
      holding y` for which EVERY pair (y, l) of the table is a listed finding
      (the thread goes through a listed pair; the position in its program, the
      held lock and the pair are exhibited).  This is [only_listed_cycles]
      lifted through [ranked_no_deadlock] on the sub-order without the listed
      pairs.

    Generic in the table; instantiated in Proofs/LockTableInst.v. *)
From Coq Require Import List String Bool Arith Lia.
From AGH Require Import Base.Conc Model.Guards Proofs.Conc Proofs.LockTable Proofs.LockTablePairs.
Import ListNotations.
Local Open Scope string_scope.
Local Open Scope list_scope.
Local Open Scope nat_scope.

(** * Nothing listed: the checked table is the table *)

Lemma listed_nil : forall k, listed [] k = false.
Proof. reflexivity. Qed.

Lemma filter_all : forall (A : Type) (f : A -> bool) l, (forall x, f x = true) -> filter f l = l.
Proof.
  intros A f l H. induction l as [|a l IH]; [reflexivity|].
  cbn [filter]. rewrite H, IH. reflexivity.
Qed.

Lemma checked_nil : forall tbl, checked [] tbl = tbl.
Proof. intros tbl. unfold checked. apply filter_all. intros a. reflexivity. Qed.

Lemma checked_order_nil : forall ord, checked_order [] ord = ord.
Proof. intros ord. unfold checked_order. apply filter_all. intros o. reflexivity. Qed.

(** * A thread that conforms to the whole order but not to the checked
    sub-order goes through a listed pair *)

(** the thread [p], started holding [h], acquires [l] at some point while it
    holds [y], and every pair (y, l) of [ord] is listed in [known]; [o] is one
    of them *)
Definition uses_listed (known : list string) (ord : list order_pair) (h : held) (p : list event) : Prop :=
  exists d l m r y o,
    p = d ++ Acq l m :: r /\
    In y (held_after h d) /\
    In o ord /\ fst (o_held o) = fst y /\ fst (o_acq o) = l /\
    listed known (order_key o) = true /\
    (forall o', In o' ord -> fst (o_held o') = fst y -> fst (o_acq o') = l ->
                listed known (order_key o') = true).

Lemma acq_uncovered_listed : forall known ord h l,
  acq_covered ord h l = true ->
  acq_covered (checked_order known ord) h l = false ->
  exists y o, In y h /\ In o ord /\ fst (o_held o) = fst y /\ fst (o_acq o) = l /\
              listed known (order_key o) = true /\
              (forall o', In o' ord -> fst (o_held o') = fst y -> fst (o_acq o') = l ->
                          listed known (order_key o') = true).
Proof.
  intros known ord h l Hfull Hchk. unfold acq_covered in *.
  induction h as [|y h IH]; [discriminate|].
  cbn [forallb] in *. apply andb_true_iff in Hfull as [Hy Hfull].
  apply andb_false_iff in Hchk as [Hc|Hc].
  - (* y is the lock whose pairs to l are all listed *)
    apply existsb_exists in Hy as (o & Hin & Ho).
    apply andb_true_iff in Ho as [E1 E2].
    apply String.eqb_eq in E1. apply String.eqb_eq in E2.
    assert (Hall : forall o', In o' ord -> fst (o_held o') = fst y -> fst (o_acq o') = l ->
                              listed known (order_key o') = true).
    { intros o' Hin' F1 F2.
      destruct (listed known (order_key o')) eqn:L; [reflexivity|exfalso].
      assert (X : existsb (fun o => String.eqb (fst (o_held o)) (fst y) && String.eqb (fst (o_acq o)) l)
                (checked_order known ord) = true).
      { apply existsb_exists. exists o'. split.
        - unfold checked_order. apply filter_In. split; [exact Hin'|]. rewrite L. reflexivity.
        - rewrite F1, F2, !String.eqb_refl. reflexivity. }
      exact (eq_true_false_abs _ X Hc). }
    exists y, o. repeat split; try assumption; [left; reflexivity|].
    apply Hall; assumption.
  - destruct (IH Hfull Hc) as (y' & o & Hy' & R). exists y', o. split; [right; exact Hy'|exact R].
Qed.

Lemma conforms_order_diff : forall known ord p h,
  conforms_order ord h p = true ->
  conforms_order (checked_order known ord) h p = false ->
  uses_listed known ord h p.
Proof.
  intros known ord p; induction p as [|e p IH]; intros h Hfull Hchk.
  - cbn [conforms_order] in *. congruence.
  - destruct e as [l m|l m|f|f]; cbn [conforms_order] in *.
    + apply andb_true_iff in Hfull as [Hc Hfull].
      apply andb_false_iff in Hchk as [Hk|Hk].
      * destruct (acq_uncovered_listed known ord h l Hc Hk) as (y & o & Hy & Ho & E1 & E2 & L & Hall).
        exists [], l, m, p, y, o. cbn [app held_after]. repeat split; assumption.
      * destruct (IH _ Hfull Hk) as (d & l' & m' & r & y & o & Ep & Hy & R).
        exists (Acq l m :: d), l', m', r, y, o. cbn [app held_after]. rewrite Ep. split; [reflexivity|].
        split; [exact Hy|exact R].
    + apply andb_true_iff in Hfull as [Hm Hfull]. rewrite Hm in Hchk. cbn [andb] in Hchk.
      destruct (IH _ Hfull Hchk) as (d & l' & m' & r & y & o & Ep & Hy & R).
      exists (Rel l m :: d), l', m', r, y, o. cbn [app held_after]. rewrite Ep. split; [reflexivity|].
      split; [exact Hy|exact R].
    + destruct (IH _ Hfull Hchk) as (d & l' & m' & r & y & o & Ep & Hy & R).
      exists (Rd f :: d), l', m', r, y, o. cbn [app held_after]. rewrite Ep. split; [reflexivity|].
      split; [exact Hy|exact R].
    + destruct (IH _ Hfull Hchk) as (d & l' & m' & r & y & o & Ep & Hy & R).
      exists (Wr f :: d), l', m', r, y, o. cbn [app held_after]. rewrite Ep. split; [reflexivity|].
      split; [exact Hy|exact R].
Qed.

(** * The lifting *)

Lemma all_or_one : forall (f : list event -> bool) progs,
  Forall (fun p => f p = true) progs \/ exists p, In p progs /\ f p = false.
Proof.
  intros f progs. induction progs as [|p progs IH]; [left; constructor|].
  destruct (f p) eqn:E.
  - destruct IH as [IH|(q & Hq & Fq)].
    + left. constructor; assumption.
    + right. exists q. split; [right; exact Hq|exact Fq].
  - right. exists p. split; [left; reflexivity|exact E].
Qed.

(** Threads whose nested acquisitions are all pairs of the table (listed ones
    included): a deadlock is reachable only if one of them goes through a
    listed pair. *)
Theorem deadlock_uses_listed_pair : forall rank known ord,
  forallb (order_ok rank) (checked_order known ord) = true ->
  forall progs, Forall (fun p => conforms_order ord [] p = true) progs ->
  forall s, reachable (init progs) s -> deadlocked s ->
  exists p, In p progs /\ uses_listed known ord [] p.
Proof.
  intros rank known ord Hok progs HF s Hr Hd.
  destruct (all_or_one (conforms_order (checked_order known ord) []) progs) as [Hall|(p & Hin & Hp)].
  - exfalso. exact (table_deadlock_free rank (checked_order known ord) Hok progs Hall s Hr Hd).
  - exists p. split; [exact Hin|].
    rewrite Forall_forall in HF. exact (conforms_order_diff known ord p [] (HF p Hin) Hp).
Qed.

(** The table passes both checks and nothing is listed: threads conforming to
    the whole table never race and never deadlock, and the relation has no
    cycle. *)
Theorem whole_table_safe : forall ro rank tbl ord,
  forallb (access_ok_ro ro) (checked [] tbl) = true ->
  forallb (order_ok rank) (checked_order [] ord) = true ->
  (forall progs,
     Forall (fun p => conforms tbl [] p = true /\ conforms_order ord [] p = true) progs ->
     forall s, reachable (init progs) s -> ~ race s /\ ~ deadlocked s) /\
  (forall c, incl c ord -> ~ cycle c).
Proof.
  intros ro rank tbl ord Ha Ho. split.
  - intros progs HF s Hr. rewrite checked_nil in Ha. rewrite checked_order_nil in Ho. split.
    + apply (table_race_free_ro ro tbl Ha progs); [|exact Hr].
      rewrite Forall_forall in *. intros p Hp. apply (HF p Hp).
    + apply (table_deadlock_free rank ord Ho progs); [|exact Hr].
      rewrite Forall_forall in *. intros p Hp. apply (HF p Hp).
  - intros c Hincl Hc.
    destruct (only_listed_cycles rank [] ord Ho c Hincl Hc) as (o & _ & L).
    rewrite listed_nil in L. discriminate.
Qed.

(** The same, for a table whose list of known findings is not known in advance
    to be empty (the instance is re-checked on every run and must stay provable
    when a finding is listed): conditional on the list being empty, as a
    premise and as a computed test. *)
Definition whole_table_safe_statement (tbl : list access) (ord : list order_pair) : Prop :=
  (forall progs,
     Forall (fun p => conforms tbl [] p = true /\ conforms_order ord [] p = true) progs ->
     forall s, reachable (init progs) s -> ~ race s /\ ~ deadlocked s) /\
  (forall c, incl c ord -> ~ cycle c).

Definition nothing_listed (known : list string) : bool :=
  match known with [] => true | _ => false end.

Theorem whole_table_safe_unless_listed : forall ro rank known tbl ord,
  forallb (access_ok_ro ro) (checked known tbl) = true ->
  forallb (order_ok rank) (checked_order known ord) = true ->
  (known = [] -> whole_table_safe_statement tbl ord) /\
  (if nothing_listed known then whole_table_safe_statement tbl ord else True).
Proof.
  intros ro rank known tbl ord Ha Ho. destruct known as [|k known].
  - assert (H := whole_table_safe ro rank tbl ord Ha Ho). split; [intros _; exact H|exact H].
  - split; [discriminate|exact I].
Qed.

(** Non-vacuity.  (i) A table with one listed ABBA pair: both threads conform
    to the whole order, the deadlock is reachable (Proofs/Conc.v,
    [deadlock_possible]) and the second thread goes through the listed pair.
    (ii) The premises of [whole_table_safe] hold for a small table with a
    conforming thread. *)
Example uses_listed_example :
  let ab := OrderPair "r" "f" ("a", W) ("b", W) "x.go:1" in
  let ba := OrderPair "r" "g" ("b", W) ("a", W) "x.go:2" in
  let known := ["b<a@g"] in
  let ord := [ab; ba] in
  let p1 := [Acq "a" W; Acq "b" W; Rel "b" W; Rel "a" W] in
  let p2 := [Acq "b" W; Acq "a" W; Rel "a" W; Rel "b" W] in
  forallb (order_ok (rank_of (computed_ranks (checked_order known ord)))) (checked_order known ord) = true /\
  conforms_order ord [] p1 = true /\ conforms_order ord [] p2 = true /\
  conforms_order (checked_order known ord) [] p1 = true /\
  uses_listed known ord [] p2.
Proof.
  cbn zeta. split; [vm_compute; reflexivity|]. split; [vm_compute; reflexivity|].
  split; [vm_compute; reflexivity|]. split; [vm_compute; reflexivity|].
  apply conforms_order_diff; vm_compute; reflexivity.
Qed.

Example whole_table_example :
  let tbl := [Access "r" "fn" "querylog.queryLog.buffer" true
                [("querylog.queryLog.bufferLock", W)] "x.go:1"] in
  let ord := [OrderPair "r" "fn" ("dnsforward.Server.serverLock", R)
                ("querylog.queryLog.bufferLock", W) "x.go:2"] in
  let p := [Acq "dnsforward.Server.serverLock" R; Acq "querylog.queryLog.bufferLock" W;
            Wr "querylog.queryLog.buffer"; Rel "querylog.queryLog.bufferLock" W;
            Rel "dnsforward.Server.serverLock" R] in
  forallb (access_ok_ro (never_written tbl)) (checked [] tbl) = true /\
  forallb (order_ok (rank_of (computed_ranks ord))) (checked_order [] ord) = true /\
  conforms tbl [] p = true /\ conforms_order ord [] p = true.
Proof. vm_compute. repeat split; reflexivity. Qed.

(** C13, part 7: path independence when the one run FAILS.

    [Proofs/MigrateSim.v] shows that a step which succeeds on a tree succeeds
    on every type-erased form of it ([sim], forward).  Here the converse: a
    step that succeeds on the erased form succeeds on the tree, provided the
    tree keeps its Go-typed values where the steps leave them ([tinv]):

      dns.querylog_interval  (timeutil.Duration, step 12; moved by step 15 to)
      querylog.interval
      statistics.interval    (timeutil.Duration, step 20)
      dns.upstream_mode      (dnsforward.UpstreamMode, step 28)
      filtering.safe_fs_patterns  ([]string, step 29)

    No step reads one of these positions with a type assertion that tells a
    typed value from its text ([string] or [[]any]); every other position
    holds what a YAML decoder produces ([plain]).  Every decoded document
    satisfies [tinv], every step preserves it, and under it a step fails on
    the tree exactly when it fails on the re-read file. *)
From Coq Require Import List ZArith String Ascii Bool Lia.
From AGH Require Import Model.Migrate Proofs.Migrate Proofs.MigrateFrame Proofs.MigrateSim.
Import ListNotations.
Local Open Scope string_scope.
Local Open Scope list_scope.

(** ** Predicates on the entries of a map *)

Definition typed_head (v : val) : bool :=
  match v with VDur _ | VMode _ | VStrs _ => true | _ => false end.

Definition allp (p : string -> val -> bool) (o : obj) : bool :=
  forallb (fun kv => p (fst kv) (snd kv)) o.

Lemma allp_get p o k v : allp p o = true -> get k o = Some v -> p k v = true.
Proof.
  unfold allp. induction o as [|[k' v'] o IH]; cbn; [discriminate|]. intros H.
  apply andb_prop in H. destruct H as [H1 H2].
  destruct (String.eqb k k') eqn:E; [|auto].
  apply String.eqb_eq in E; subst. now intros [= <-].
Qed.

Lemma allp_upd p o k v : allp p o = true -> p k v = true -> allp p (upd k v o) = true.
Proof.
  unfold allp. intros H Hv. induction o as [|[k' v'] o IH]; cbn.
  - now rewrite Hv.
  - cbn in H. apply andb_prop in H. destruct H as [H1 H2].
    destruct (String.eqb k k'); cbn.
    + now rewrite Hv, H2.
    + now rewrite H1, IH.
Qed.

Lemma allp_del p o k : allp p o = true -> allp p (del k o) = true.
Proof.
  unfold allp. intros H. induction o as [|[k' v'] o IH]; cbn; [reflexivity|].
  cbn in H. apply andb_prop in H. destruct H as [H1 H2].
  destruct (String.eqb k k'); cbn; [auto | now rewrite H1, IH].
Qed.

Lemma allp_mono p q o : (forall k v, p k v = true -> q k v = true) -> allp p o = true -> allp q o = true.
Proof.
  unfold allp. intros M. induction o as [|[k' v'] o IH]; cbn; [reflexivity|]. intros H.
  apply andb_prop in H. destruct H as [H1 H2]. now rewrite (M _ _ H1), IH.
Qed.

(** Every entry plain, except under the keys [ex]. *)
Definition pbut (ex : list string) (k : string) (v : val) : bool := mem_b k ex || plain v.

(** A section: an object whose entries are plain except under [ex]; anything
    else decoded. *)
Definition sec_ok (ex : list string) (v : val) : bool :=
  match v with VObj o => allp (pbut ex) o | _ => plain v end.

(** Where steps leave typed values, by top-level key. *)
Definition exc (k : string) : list string :=
  if String.eqb k "dns" then ["querylog_interval"; "upstream_mode"]
  else if String.eqb k "querylog" then ["interval"]
  else if String.eqb k "statistics" then ["interval"]
  else if String.eqb k "filtering" then ["safe_fs_patterns"]
  else [].

Definition secp (k : string) (v : val) : bool := sec_ok (exc k) v.

(** The invariant of in-memory trees. *)
Definition tinvb (m : obj) : bool := allp secp m.
Definition tinv (m : obj) : Prop := tinvb m = true.

Lemma plain_obj o : plain (VObj o) = allp (pbut []) o.
Proof. reflexivity. Qed.

Lemma plain_nohead v : plain v = true -> typed_head v = false.
Proof. destruct v; cbn; congruence. Qed.

Lemma sec_ok_nohead ex v : sec_ok ex v = true -> typed_head v = false.
Proof. destruct v; cbn; congruence. Qed.

Lemma pbut_plain ex k v : plain v = true -> pbut ex k v = true.
Proof. unfold pbut. intros ->. apply orb_true_r. Qed.

Lemma pbut_in ex k v : mem_b k ex = true -> pbut ex k v = true.
Proof. unfold pbut. now intros ->. Qed.

Lemma pbut_out ex k v : mem_b k ex = false -> pbut ex k v = true -> plain v = true.
Proof. unfold pbut. now intros ->. Qed.

Lemma pbo ex k v : pbut ex k v = true -> mem_b k ex = false -> plain v = true.
Proof. intros H N. exact (pbut_out ex k v N H). Qed.

Lemma plain_sec_ok ex v : plain v = true -> sec_ok ex v = true.
Proof.
  destruct v; cbn [sec_ok]; auto. rewrite plain_obj. apply allp_mono.
  intros k v H. apply pbut_plain. exact (pbut_out [] k v eq_refl H).
Qed.

Lemma sec_ok_nil v : sec_ok [] v = plain v.
Proof. destruct v; reflexivity. Qed.

Lemma secp_plain k v : plain v = true -> secp k v = true.
Proof. apply plain_sec_ok. Qed.

Lemma secp_out k v : exc k = [] -> secp k v = true -> plain v = true.
Proof. unfold secp. intros ->. now rewrite sec_ok_nil. Qed.

Lemma sco k v : secp k v = true -> exc k = [] -> plain v = true.
Proof. intros H N. exact (secp_out k v N H). Qed.

Lemma secp_nohead k v : secp k v = true -> typed_head v = false.
Proof. apply sec_ok_nohead. Qed.

Lemma plain_tinv m : plain (VObj m) = true -> tinv m.
Proof.
  rewrite plain_obj. apply allp_mono. intros k v H. apply secp_plain. exact (pbut_out [] k v eq_refl H).
Qed.

Lemma plain_get o k v : plain (VObj o) = true -> get k o = Some v -> plain v = true.
Proof. rewrite plain_obj. intros H G. exact (pbut_out [] k v eq_refl (allp_get _ _ _ _ H G)). Qed.

Lemma plain_upd o k v : plain (VObj o) = true -> plain v = true -> plain (VObj (upd k v o)) = true.
Proof. rewrite !plain_obj. intros H Hv. apply allp_upd; auto using pbut_plain. Qed.

Lemma plain_del o k : plain (VObj o) = true -> plain (VObj (del k o)) = true.
Proof. rewrite !plain_obj. apply allp_del. Qed.

Lemma plain_arr_Forall l : plain (VArr l) = true <-> Forall (fun v => plain v = true) l.
Proof. cbn [plain]. rewrite forallb_forall, Forall_forall. tauto. Qed.

Lemma plain_coerce t v : plain v = true -> plain (coerce t v) = true.
Proof. destruct t, v as [| | | |[?|] ?| | | | | |]; cbn; auto. Qed.

Lemma plain_zero t : plain (zero t) = true.
Proof. destruct t; reflexivity. Qed.

(** ** Reading a field on related maps, both directions *)

Definition needs_head (t : ty) : bool := match t with TStr | TArr => true | _ => false end.

Definition fv2 (r1 r2 : fv) : Prop :=
  match r1, r2 with
  | FAbsent, FAbsent => True
  | FErr, FErr => True
  | FOk v1, FOk v2 => sim v1 v2
  | _, _ => False
  end.

Lemma fv2_refl r : fv2 r r.
Proof. destruct r; cbn; auto using sim_refl. Qed.

(** [fieldVal] gives the same verdict on a tree and on an erased form of it,
    unless a [string]/[[]any] assertion meets a typed value. *)
Lemma fv2_read t k o1 o2 : osim o1 o2 ->
  (needs_head t = true -> forall v, get k o1 = Some v -> typed_head v = false) ->
  fv2 (field_val t o1 k) (field_val t o2 k).
Proof.
  intros H Hd. pose proof (osim_get k _ _ H) as G. unfold field_val.
  destruct (get k o1) as [v1|], (get k o2) as [v2|]; try contradiction; [|exact I].
  specialize (fun E => Hd E v1 eq_refl).
  inversion G; subst.
  - apply fv2_refl.
  - destruct t; cbn; auto using sim.
  - destruct t; cbn; auto using sim; discriminate (Hd eq_refl).
  - destruct t; cbn; auto using sim; discriminate (Hd eq_refl).
  - destruct t; cbn; auto using sim; discriminate (Hd eq_refl).
  - destruct t; cbn; auto using sim.
  - destruct t; cbn; auto using sim.
Qed.

(** Where an accepted value comes from. *)
Lemma fv_ok_inv t o k v : field_val t o k = FOk v ->
  exists x, get k o = Some x /\ ((x = VNull /\ v = zero t) \/ (has_ty t x = true /\ v = coerce t x)).
Proof.
  unfold field_val. destruct (get k o) as [x|]; [|discriminate]. intros H. exists x. split; [reflexivity|].
  destruct x; try (destruct (has_ty t _) eqn:E; [injection H as <-; right; auto | discriminate]).
  destruct t; try discriminate; injection H as <-; auto.
Qed.

Lemma fv_ok_p (p : string -> val -> bool) t o k v : allp p o = true -> field_val t o k = FOk v ->
  (forall x, p k x = true -> plain x = true) -> plain v = true.
Proof.
  intros Hp H Hk. destruct (fv_ok_inv _ _ _ _ H) as (x & G & [[-> ->]|[_ ->]]).
  - apply plain_zero.
  - apply plain_coerce, Hk. exact (allp_get _ _ _ _ Hp G).
Qed.

Definition scalar_ty (t : ty) : bool := match t with TInt | TStr | TBool => true | _ => false end.

Lemma fv_ok_scalar t o k v : field_val t o k = FOk v -> scalar_ty t = true ->
  plain v = true /\ forall v2, sim v v2 -> v2 = v.
Proof.
  intros H St. destruct (fv_ok_inv _ _ _ _ H) as (x & _ & [[_ ->]|[T ->]]).
  - destruct t; try discriminate; (split; [reflexivity | now inversion 1]).
  - destruct t; try discriminate; destruct x as [| | | |[?|] ?| | | | | |]; try discriminate;
      (split; [reflexivity | now inversion 1]).
Qed.

Lemma fv_ok_obj o k v : field_val TObj o k = FOk v -> exists q, v = VObj q /\ get k o = Some (VObj q).
Proof.
  intros H. destruct (fv_ok_inv _ _ _ _ H) as (x & G & [[-> _]|[T ->]]).
  - unfold field_val in H. rewrite G in H. discriminate.
  - destruct x; try discriminate. cbn. eauto.
Qed.

Lemma fv_ok_arr o k v : field_val TArr o k = FOk v -> exists l, v = VArr l /\ get k o = Some (VArr l).
Proof.
  intros H. destruct (fv_ok_inv _ _ _ _ H) as (x & G & [[-> _]|[T ->]]).
  - unfold field_val in H. rewrite G in H. discriminate.
  - destruct x; try discriminate. cbn. eauto.
Qed.

(** ** Combinators *)

(** [f] succeeds on a tree satisfying [P] whenever it succeeds on an erased
    form of it, and leaves a tree satisfying [Q]. *)
Definition bfol (P Q : obj -> Prop) (f : obj -> res obj) : Prop :=
  forall o1 o2 r2, P o1 -> osim o1 o2 -> f o2 = Ok r2 -> exists r1, f o1 = Ok r1 /\ Q r1.

Definition pb (ex : list string) (o : obj) : Prop := allp (pbut ex) o = true.

Definition back (s : step) : Prop :=
  forall m1 m2 r2, tinv m1 -> osim m1 m2 -> s (Some m2) = Ok r2 -> exists r1, s (Some m1) = Ok r1 /\ tinv r1.

Lemma back_stamp n body : bfol tinv tinv body -> back (fun d => m <- stamp n d ;; body m).
Proof.
  intros F m1 m2 r2 Hi Hs. cbn. apply F.
  - apply allp_upd; [exact Hi | reflexivity].
  - apply osim_upd; [apply sim_refl | exact Hs].
Qed.

Lemma b_with_obj k f : bfol (pb (exc k)) (pb (exc k)) f -> bfol tinv tinv (fun m => with_obj m k f).
Proof.
  intros F m1 m2 r2 Hi Hs. unfold with_obj.
  pose proof (fv2_read TObj k _ _ Hs ltac:(discriminate)) as G.
  destruct (field_val TObj m1 k) as [|v1|] eqn:E1, (field_val TObj m2 k) as [|v2|] eqn:E2;
    cbn [fv2] in G; try contradiction; try discriminate.
  - intros [= <-]. eauto.
  - destruct (fv_ok_obj _ _ _ E1) as (o1 & -> & G1). apply sim_obj_l in G. destruct G as (o2 & -> & Ho).
    cbn [zobj]. destruct (f o2) as [q2| |] eqn:Ef; cbn [bind]; try discriminate. intros [= <-].
    pose proof (allp_get _ _ _ _ Hi G1) as S1.
    destruct (F o1 o2 q2 S1 Ho Ef) as (q1 & -> & Hq). cbn [bind]. eexists; split; [reflexivity|].
    apply allp_upd; auto.
Qed.

(** What a move needs: the assertion does not meet a typed value, and the
    destination accepts what is stored. *)
Definition mv_ok (p q : string -> val -> bool) (t : ty) (sk dk : string) : Prop :=
  (needs_head t = true -> forall v, p sk v = true -> typed_head v = false) /\
  (forall v, p sk v = true -> has_ty t v = true -> q dk (coerce t v) = true) /\
  q dk (zero t) = true.

Lemma mv_ok_plain p q t sk dk :
  (forall v, p sk v = true -> plain v = true) -> (forall v, plain v = true -> q dk v = true) -> mv_ok p q t sk dk.
Proof.
  intros Hp Hq. split; [|split].
  - intros _ v H. now apply plain_nohead, Hp.
  - intros v H _. now apply Hq, plain_coerce, Hp.
  - apply Hq, plain_zero.
Qed.

Lemma mv_ok_free p q t sk dk : needs_head t = false -> (forall v, q dk v = true) -> mv_ok p q t sk dk.
Proof. intros N Hq. split; [|split]; auto. congruence. Qed.

Lemma b_read p t k o1 o2 : allp p o1 = true -> osim o1 o2 ->
  (needs_head t = true -> forall v, p k v = true -> typed_head v = false) ->
  fv2 (field_val t o1 k) (field_val t o2 k).
Proof.
  intros Hp Hs Hd. apply fv2_read; [exact Hs|]. intros N v G. apply (Hd N). exact (allp_get _ _ _ _ Hp G).
Qed.

Lemma fv_ok_q (p q : string -> val -> bool) t o sk dk v : allp p o = true -> field_val t o sk = FOk v ->
  mv_ok p q t sk dk -> q dk v = true.
Proof.
  intros Hp H (_ & M2 & M3). destruct (fv_ok_inv _ _ _ _ H) as (x & G & [[-> ->]|[T ->]]); [exact M3|].
  apply M2; [exact (allp_get _ _ _ _ Hp G) | exact T].
Qed.

Lemma b_move_val p q t sk dk s1 s2 d1 d2 s2' d2' :
  mv_ok p q t sk dk -> allp p s1 = true -> allp q d1 = true -> osim s1 s2 -> osim d1 d2 ->
  move_val t s2 d2 sk dk = Some (s2', d2') ->
  exists s1' d1', move_val t s1 d1 sk dk = Some (s1', d1') /\ allp p s1' = true /\ allp q d1' = true /\
                  osim s1' s2' /\ osim d1' d2'.
Proof.
  intros M Hp Hq Hs Hd. unfold move_val.
  pose proof (b_read p t sk _ _ Hp Hs (proj1 M)) as G.
  destruct (field_val t s1 sk) as [|v1|] eqn:E1, (field_val t s2 sk) as [|v2|] eqn:E2;
    cbn [fv2] in G; try contradiction; try discriminate.
  - intros [= <- <-]. do 2 eexists. repeat split; eauto.
  - intros [= <- <-]. do 2 eexists. split; [reflexivity|]. repeat split.
    + now apply allp_del.
    + apply allp_upd; [exact Hq|]. exact (fv_ok_q p q _ _ _ _ _ Hp E1 M).
    + now apply osim_del.
    + now apply osim_upd.
Qed.

Lemma b_moves p q l : Forall (fun m => mv_ok p q (fst (fst m)) (snd (fst m)) (snd m)) l ->
  forall s1 s2 d1 d2 s2' d2',
  allp p s1 = true -> allp q d1 = true -> osim s1 s2 -> osim d1 d2 ->
  moves l s2 d2 = Some (s2', d2') ->
  exists s1' d1', moves l s1 d1 = Some (s1', d1') /\ allp p s1' = true /\ allp q d1' = true /\
                  osim s1' s2' /\ osim d1' d2'.
Proof.
  induction 1 as [|[[t sk] dk] l M _ IH]; intros s1 s2 d1 d2 s2' d2' Hp Hq Hs Hd; cbn [moves].
  - intros [= <- <-]. do 2 eexists. repeat split; eauto.
  - cbn [fst snd] in M. destruct (move_val t s2 d2 sk dk) as [[a2 b2]|] eqn:E; [|discriminate]. intros H.
    destruct (b_move_val _ _ _ _ _ _ _ _ _ _ _ M Hp Hq Hs Hd E) as (a1 & b1 & -> & Ha & Hb & Sa & Sb).
    eapply IH; eauto.
Qed.

Lemma b_move_in p t sk dk : mv_ok p p t sk dk ->
  bfol (fun o => allp p o = true) (fun o => allp p o = true) (fun m => of_opt (move_in t m sk dk)).
Proof.
  intros M o1 o2 r2 Hp Hs. unfold move_in.
  pose proof (b_read p t sk _ _ Hp Hs (proj1 M)) as G.
  destruct (field_val t o1 sk) as [|v1|] eqn:E1, (field_val t o2 sk) as [|v2|] eqn:E2;
    cbn [fv2] in G; try contradiction; cbn [of_opt]; try discriminate.
  - intros [= <-]. eauto.
  - intros [= <-]. eexists; split; [reflexivity|]. apply allp_del, allp_upd; [exact Hp|].
    exact (fv_ok_q p p _ _ _ _ _ Hp E1 M).
Qed.

(** Lists. *)
Lemma b_map_res {B} (Q : B -> Prop) (f : val -> res B) :
  (forall a b r2, plain a = true -> sim a b -> f b = Ok r2 -> exists r1, f a = Ok r1 /\ Q r1) ->
  forall l1 l2 rs2, plain (VArr l1) = true -> Forall2 sim l1 l2 -> map_res f l2 = Ok rs2 ->
  exists rs1, map_res f l1 = Ok rs1 /\ Forall Q rs1.
Proof.
  intros H l1 l2 rs2 Hp F. revert rs2. induction F as [|a b l1 l2 Sab _ IH]; cbn [map_res]; intros rs2.
  - intros _. eauto.
  - cbn [plain forallb] in Hp. apply andb_prop in Hp. destruct Hp as [Pa Pl].
    destruct (f b) as [y| |] eqn:Eb; cbn [bind]; try discriminate.
    destruct (map_res f l2) as [ys| |] eqn:El; cbn [bind]; try discriminate. intros _.
    destruct (H _ _ _ Pa Sab Eb) as (x & -> & Qx). destruct (IH Pl _ eq_refl) as (xs & -> & Qs).
    cbn [bind]. eauto.
Qed.

Lemma plain_map f l : (forall a, plain a = true -> plain (f a) = true) ->
  plain (VArr l) = true -> plain (VArr (map f l)) = true.
Proof.
  intros H. rewrite !plain_arr_Forall. induction 1; cbn [map]; constructor; auto.
Qed.

Lemma plain_arr1 v : plain v = true -> plain (VArr [v]) = true.
Proof. cbn. now intros ->. Qed.

Lemma plain_fv_val t o k : scalar_ty t = true -> plain (fv_val t (field_val t o k)) = true.
Proof.
  intros St. destruct (field_val t o k) eqn:E; cbn [fv_val]; try apply plain_zero.
  exact (proj1 (fv_ok_scalar _ _ _ _ E St)).
Qed.

(** [with_obj] with possibly different bodies on the two sides. *)
Definition bfol2 (P Q : obj -> Prop) (f1 f2 : obj -> res obj) : Prop :=
  forall o1 o2 r2, P o1 -> osim o1 o2 -> f2 o2 = Ok r2 -> exists r1, f1 o1 = Ok r1 /\ Q r1.

Lemma b_with_obj2 k f1 f2 : bfol2 (pb (exc k)) (pb (exc k)) f1 f2 ->
  bfol2 tinv tinv (fun m => with_obj m k f1) (fun m => with_obj m k f2).
Proof.
  intros F m1 m2 r2 Hi Hs. unfold with_obj.
  pose proof (fv2_read TObj k _ _ Hs ltac:(discriminate)) as G.
  destruct (field_val TObj m1 k) as [|v1|] eqn:E1, (field_val TObj m2 k) as [|v2|] eqn:E2;
    cbn [fv2] in G; try contradiction; try discriminate.
  - intros [= <-]. eauto.
  - destruct (fv_ok_obj _ _ _ E1) as (o1 & -> & G1). apply sim_obj_l in G. destruct G as (o2 & -> & Ho).
    cbn [zobj]. destruct (f2 o2) as [q2| |] eqn:Ef; cbn [bind]; try discriminate. intros [= <-].
    pose proof (allp_get _ _ _ _ Hi G1) as S1.
    destruct (F o1 o2 q2 S1 Ho Ef) as (q1 & -> & Hq). cbn [bind]. eexists; split; [reflexivity|].
    apply allp_upd; auto.
Qed.

Lemma b_bind P Q R f g : follows f f -> bfol P Q f -> bfol Q R g -> bfol P R (fun m => x <- f m ;; g x).
Proof.
  intros Ff Bf Bg o1 o2 r2 Hp Hs. destruct (f o2) as [x2| |] eqn:E2; cbn [bind]; try discriminate. intros H.
  destruct (Bf _ _ _ Hp Hs E2) as (x1 & E1 & Hq). rewrite E1. cbn [bind].
  destruct (Ff _ _ _ Hs E1) as (x2' & E2' & Hx). rewrite E2 in E2'. injection E2' as <-.
  exact (Bg _ _ _ Hq Hx H).
Qed.

(** ** Tactics *)

Ltac fin := eexists; split; [reflexivity|].
Ltac triv := intros [= <-]; eexists; split; [reflexivity | assumption].

(** The side condition of a [string]/[[]any] read. *)
Ltac nh :=
  let N := fresh in let v := fresh in let H := fresh in
  intros N v H;
  first [ discriminate N
        | exact (secp_nohead _ _ H)
        | apply plain_nohead; exact (pbo _ _ _ H eq_refl) ].

Ltac bread p t k o1 o2 Hp Hs :=
  let G := fresh "G" in let E1 := fresh "E1" in let E2 := fresh "E2" in
  pose proof (b_read p t k o1 o2 Hp Hs ltac:(nh)) as G;
  destruct (field_val t o1 k) as [|?v1|] eqn:E1, (field_val t o2 k) as [|?v2|] eqn:E2;
    cbn [fv2] in G; try contradiction; try discriminate; try triv.

Ltac mvp :=
  apply mv_ok_plain;
  [ let v := fresh in let H := fresh in intros v H;
    first [ exact (pbo _ _ _ H eq_refl) | exact (sco _ _ H eq_refl) ]
  | let v := fresh in let H := fresh in intros v H;
    first [ exact (pbut_plain _ _ _ H) | exact (secp_plain _ _ H) ] ].

Ltac mvs := repeat (apply Forall_cons; [cbn [fst snd]; mvp|]); apply Forall_nil.

Section StepsBack.
Variable O : oracles.

Lemma back1 : back step1.
Proof. intros m1 m2 r2 Hi Hs. cbn. intros [= <-]. fin. apply allp_upd; [exact Hi | reflexivity]. Qed.

Lemma back2 : back step2.
Proof. unfold step2. apply back_stamp. apply (b_move_in secp). mvp. Qed.

Lemma back3 : back step3.
Proof.
  unfold step3. apply back_stamp, b_with_obj. intros o1 o2 r2 Hp Hs.
  bread (pbut (exc "dns")) TAny "bootstrap_dns" o1 o2 Hp Hs.
  intros _. fin. apply allp_upd; [exact Hp|]. apply pbut_plain, plain_arr1.
  exact (fv_ok_p _ _ _ _ _ Hp E1 (fun x H => pbo _ _ _ H eq_refl)).
Qed.

Lemma client4_plain a : plain a = true -> plain (client4 a) = true.
Proof. destruct a; cbn [client4]; auto. intros H. now apply plain_upd. Qed.

Lemma back4 : back step4.
Proof.
  unfold step4. apply back_stamp. intros o1 o2 r2 Hi Hs _.
  destruct (field_val TArr o1 "clients") as [|v|] eqn:E; try (fin; exact Hi).
  destruct (fv_ok_arr _ _ _ E) as (l & -> & G). cbn [zarr]. fin.
  apply allp_upd; [exact Hi|]. apply secp_plain, plain_map; [exact client4_plain|].
  exact (sco _ _ (allp_get _ _ _ _ Hi G) eq_refl).
Qed.

Lemma back5 : back (step5 O).
Proof.
  unfold step5. apply back_stamp. intros o1 o2 r2 Hi Hs.
  destruct (move_val TStr o2 [] "auth_name" "name") as [[a2 u2]|] eqn:M2; [|discriminate].
  destruct (b_move_val secp (pbut []) TStr "auth_name" "name" _ _ [] _ _ _ ltac:(mvp) Hi eq_refl Hs (osim_refl []) M2)
    as (a1 & u1 & -> & Ha & Hu & Sa & Su).
  bread secp TStr "auth_pass" a1 a2 Ha Sa.
  destruct (fv_ok_scalar _ _ _ _ E1 eq_refl) as [P1 U1]. rewrite (U1 _ G).
  destruct (o_bcrypt O (zstr v1)); [|discriminate]. intros _. fin.
  apply allp_upd; [now apply allp_del|]. apply secp_plain, plain_arr1, plain_upd; [exact Hu | reflexivity].
Qed.

Lemma nonempty_id_plain v : plain v = true -> Forall (fun x => plain x = true) (nonempty_id v).
Proof. unfold nonempty_id. destruct (String.eqb _ _); auto. Qed.

Lemma client6_back a b r2 : plain a = true -> sim a b -> client6 b = Ok r2 ->
  exists r1, client6 a = Ok r1 /\ plain r1 = true.
Proof.
  intros Pa S. destruct b; try discriminate. apply sim_obj_r in S. destruct S as (o & -> & Ho).
  cbn [client6]. rewrite plain_obj in Pa.
  pose proof (plain_fv_val TStr o "ip" eq_refl) as P1. pose proof (plain_fv_val TStr o "mac" eq_refl) as P2.
  bread (pbut []) TStr "ip" o m Pa Ho; bread (pbut []) TStr "mac" o m Pa Ho;
    intros _; fin; (apply plain_upd; [exact Pa|]); apply plain_arr_Forall, Forall_app; split;
    apply nonempty_id_plain; assumption.
Qed.

Lemma back6 : back step6.
Proof.
  unfold step6. apply back_stamp. intros o1 o2 r2 Hi Hs.
  bread secp TArr "clients" o1 o2 Hi Hs.
  destruct (fv_ok_arr _ _ _ E1) as (l1 & -> & G1). apply sim_arr_l in G. destruct G as (l2 & -> & F).
  cbn [zarr]. destruct (map_res client6 l2) as [cl2| |] eqn:E; cbn [bind]; try discriminate. intros _.
  pose proof (sco _ _ (allp_get _ _ _ _ Hi G1) eq_refl) as Pl.
  destruct (b_map_res (fun v => plain v = true) client6 client6_back _ _ _ Pl F E) as (cl1 & -> & Hc).
  cbn [bind]. fin. apply allp_upd; [exact Hi|]. now apply secp_plain, plain_arr_Forall.
Qed.

(** A section read at the top level: either nothing to do on both sides, or
    an object on both sides. *)
Ltac bsec k o1 o2 Hi Hs d1 d2 Hd S1 G1 :=
  bread secp TObj k o1 o2 Hi Hs;
  try match goal with
    | E : field_val TObj o1 k = FOk ?v, G : sim ?v _ |- _ =>
        destruct (fv_ok_obj _ _ _ E) as (d1 & -> & G1); apply sim_obj_l in G; destruct G as (d2 & -> & Hd);
        pose proof (allp_get _ _ _ _ Hi G1) as S1; cbn [zobj]
    end.

Lemma back7 : back step7.
Proof.
  unfold step7. apply back_stamp. intros o1 o2 r2 Hi Hs.
  bsec "dhcp" o1 o2 Hi Hs d1 d2 Hd S1 G1.
  destruct (moves moves7 d2 []) as [[a2 b2]|] eqn:M; [|discriminate]. intros _.
  destruct (b_moves (pbut []) (pbut []) moves7 ltac:(mvs) _ _ [] _ _ _ S1 eq_refl Hd (osim_refl []) M)
    as (a1 & b1 & -> & Ha & Hb & _ & _).
  fin. apply allp_upd; [exact Hi|]. apply (allp_upd (pbut [])); [exact Ha | now apply pbut_plain].
Qed.

Lemma back8 : back step8.
Proof.
  unfold step8. apply back_stamp, b_with_obj. intros o1 o2 r2 Hp Hs.
  bread (pbut (exc "dns")) TStr "bind_host" o1 o2 Hp Hs.
  intros _. fin. apply allp_upd; [now apply allp_del|].
  apply pbut_plain, plain_arr1. exact (proj1 (fv_ok_scalar _ _ _ _ E1 eq_refl)).
Qed.

Lemma back9 : back step9.
Proof. unfold step9. apply back_stamp, b_with_obj. apply (b_move_in (pbut (exc "dns"))). mvp. Qed.

Lemma quic_elem_back a b r2 : plain a = true -> sim a b -> quic_elem O b = Ok r2 ->
  exists r1, quic_elem O a = Ok r1 /\ plain r1 = true.
Proof.
  intros Pa S. destruct b; try discriminate. intros _.
  apply sim_str_r in S. destruct S as [->|[(z & -> & _)|(md & -> & _)]]; try discriminate. cbn. eauto.
Qed.

Lemma quic_field_back ex k : mem_b k ex = false -> bfol (pb ex) (pb ex) (quic_field O k).
Proof.
  intros Nk o1 o2 r2 Hp Hs. unfold quic_field.
  pose proof (b_read (pbut ex) TArr k o1 o2 Hp Hs
                (fun _ v H => plain_nohead _ (pbut_out _ _ _ Nk H))) as G.
  destruct (field_val TArr o1 k) as [|v1|] eqn:E1, (field_val TArr o2 k) as [|v2|] eqn:E2;
    cbn [fv2] in G; try contradiction; try discriminate; try triv.
  destruct (fv_ok_arr _ _ _ E1) as (l1 & -> & G1). apply sim_arr_l in G. destruct G as (l2 & -> & F).
  cbn [zarr]. destruct (map_res (quic_elem O) l2) as [cl2| |] eqn:E; cbn [bind]; try discriminate. intros _.
  pose proof (pbut_out _ _ _ Nk (allp_get _ _ _ _ Hp G1)) as Pl.
  destruct (b_map_res (fun v => plain v = true) _ quic_elem_back _ _ _ Pl F E) as (cl1 & -> & Hc).
  cbn [bind]. fin. apply allp_upd; [exact Hp|]. now apply pbut_plain, plain_arr_Forall.
Qed.

Lemma back10 : back (step10 O).
Proof.
  unfold step10. apply back_stamp, b_with_obj.
  apply (b_bind _ (pb (exc "dns"))); [apply quic_field_sim | |]; now apply quic_field_back.
Qed.

Lemma back11 : back step11.
Proof.
  unfold step11. apply back_stamp. intros o1 o2 r2 Hi Hs.
  pose proof (plain_fv_val TInt o1 "rlimit_nofile" eq_refl) as P1.
  bread secp TInt "rlimit_nofile" o1 o2 Hi Hs; intros _; fin;
    (apply allp_upd; [now apply allp_del|]); apply secp_plain; cbn [plain forallb snd];
    now rewrite P1.
Qed.

Lemma back12 : back step12.
Proof.
  unfold step12. apply back_stamp, b_with_obj. intros o1 o2 r2 Hp Hs.
  bread (pbut (exc "dns")) TInt "querylog_interval" o1 o2 Hp Hs; intros _; fin;
    (apply allp_upd; [exact Hp | reflexivity]).
Qed.

Lemma back13 : back step13.
Proof.
  unfold step13. apply back_stamp. intros o1 o2 r2 Hi Hs.
  bsec "dns" o1 o2 Hi Hs d1 d2 Hd S1 G1.
  bsec "dhcp" o1 o2 Hi Hs h1 h2 Hh T1 K1.
  destruct (move_val TStr d2 h2 _ _) as [[a2 b2]|] eqn:M; [|discriminate]. intros _.
  destruct (b_move_val (pbut (exc "dns")) (pbut []) TStr "local_domain_name" "local_domain_name" _ _ _ _ _ _ ltac:(mvp) S1 T1 Hd Hh M)
    as (a1 & b1 & -> & Ha & Hb & _ & _).
  fin. apply allp_upd; [apply allp_upd; [exact Hi | exact Ha] | exact Hb].
Qed.

Lemma plain_clients14 p rt : plain p = true -> plain (VObj rt) = true -> plain (clients14 p rt) = true.
Proof. intros H1 H2. unfold clients14. cbn [plain forallb snd]. cbn [plain] in H2. now rewrite H1, H2. Qed.

Lemma tail14_back p1 p2 : plain p1 = true -> bfol2 tinv tinv (tail14 p1) (tail14 p2).
Proof.
  intros Pp o1 o2 r2 Hi Hs. unfold tail14.
  bsec "dns" o1 o2 Hi Hs d1 d2 Hd S1 G1.
  - intros _. fin. apply allp_upd; [exact Hi|]. apply secp_plain, plain_clients14; [assumption | reflexivity].
  - destruct (move_val TBool d2 runtime0 _ _) as [[a2 b2]|] eqn:M; [|discriminate]. intros _.
    destruct (b_move_val (pbut (exc "dns")) (pbut []) TBool "resolve_clients" "rdns" _ _ runtime0 _ _ _ ltac:(mvp) S1 eq_refl Hd (osim_refl runtime0) M)
      as (a1 & b1 & -> & Ha & Hb & _ & _).
    fin. apply allp_upd; [apply allp_upd; [exact Hi|] | exact Ha].
    apply secp_plain, plain_clients14; assumption.
Qed.

Lemma back14 : back step14.
Proof.
  unfold step14. apply back_stamp. intros o1 o2 r2 Hi Hs.
  pose proof (b_read secp TArr "clients" o1 o2 Hi Hs ltac:(nh)) as G.
  destruct (field_val TArr o1 "clients") as [|v1|] eqn:E1, (field_val TArr o2 "clients") as [|v2|] eqn:E2;
    cbn [fv2] in G; try contradiction; try discriminate.
  - apply (tail14_back (VArr []) (VArr []) eq_refl _ _ _ Hi Hs).
  - apply (tail14_back v1 v2); [|exact Hi|exact Hs].
    exact (fv_ok_p _ _ _ _ _ Hi E1 (fun x H => sco _ _ H eq_refl)).
Qed.

Lemma moves15_ok : Forall (fun m => mv_ok (pbut (exc "dns")) (pbut ["interval"]) (fst (fst m)) (snd (fst m)) (snd m)) moves15.
Proof.
  repeat (apply Forall_cons; [cbn [fst snd]; first [mvp | apply mv_ok_free; [reflexivity | intros v; now apply pbut_in]]|]).
  apply Forall_nil.
Qed.

Lemma back15 : back step15.
Proof.
  unfold step15. apply back_stamp. intros o1 o2 r2 Hi Hs.
  bsec "dns" o1 o2 Hi Hs d1 d2 Hd S1 G1.
  destruct (moves moves15 d2 qlog0) as [[a2 b2]|] eqn:M; [|discriminate]. intros _.
  destruct (b_moves _ _ moves15 moves15_ok _ _ qlog0 _ _ _ S1 eq_refl Hd (osim_refl qlog0) M)
    as (a1 & b1 & -> & Ha & Hb & _ & _).
  fin. apply allp_upd; [apply allp_upd; [exact Hi | exact Hb] | exact Ha].
Qed.

Lemma back16 : back step16.
Proof.
  unfold step16. apply back_stamp. intros o1 o2 r2 Hi Hs.
  bsec "dns" o1 o2 Hi Hs d1 d2 Hd S1 G1.
  bread (pbut (exc "dns")) TInt "statistics_interval" d1 d2 S1 Hd.
  - intros _. fin. apply allp_upd; [exact Hi | reflexivity].
  - intros _. fin. apply allp_upd; [apply allp_upd; [exact Hi|] | now apply (allp_del (pbut (exc "dns")))].
    destruct (zint v1 =? 0)%Z; apply (allp_upd (pbut (exc "statistics"))); reflexivity.
Qed.

Lemma back17 : back step17.
Proof.
  unfold step17. apply back_stamp, b_with_obj. intros o1 o2 r2 Hp Hs _. fin.
  apply allp_upd; [exact Hp|]. apply pbut_plain. cbn [plain forallb snd].
  now rewrite (plain_fv_val TBool o1 "edns_client_subnet" eq_refl).
Qed.

Lemma back18 : back step18.
Proof.
  unfold step18. apply back_stamp, b_with_obj. intros o1 o2 r2 Hp Hs.
  destruct (move_val TBool o2 safe_search0 _ _) as [[a2 b2]|] eqn:M; [|discriminate]. intros _.
  destruct (b_move_val (pbut (exc "dns")) (pbut []) TBool "safesearch_enabled" "enabled" _ _ safe_search0 _ _ _ ltac:(mvp) Hp eq_refl Hs (osim_refl safe_search0) M)
    as (a1 & b1 & -> & Ha & Hb & _ & _).
  fin. apply allp_upd; [exact Ha | now apply pbut_plain].
Qed.

Lemma client19_plain a : plain a = true -> plain (client19 a) = true.
Proof.
  destruct a; cbn [client19]; auto. intros Pa. unfold move_val.
  destruct (field_val TBool m "safesearch_enabled") eqn:E.
  - now apply plain_upd.
  - apply plain_upd; [now apply plain_del|]. apply plain_upd; [reflexivity|].
    exact (proj1 (fv_ok_scalar _ _ _ _ E eq_refl)).
  - now apply plain_upd.
Qed.

Lemma back19 : back step19.
Proof.
  unfold step19. apply back_stamp, b_with_obj. intros o1 o2 r2 Hp Hs _.
  destruct (field_val TArr o1 "persistent") as [|v|] eqn:E; try (fin; exact Hp).
  destruct (fv_ok_arr _ _ _ E) as (l & -> & G). cbn [zarr]. fin.
  apply allp_upd; [exact Hp|]. apply pbut_plain, plain_map; [exact client19_plain|].
  exact (pbo _ _ _ (allp_get _ _ _ _ Hp G) eq_refl).
Qed.

Lemma back20 : back step20.
Proof.
  unfold step20. apply back_stamp, b_with_obj. intros o1 o2 r2 Hp Hs.
  bread (pbut (exc "statistics")) TInt "interval" o1 o2 Hp Hs; intros _; fin;
    (apply allp_upd; [exact Hp | reflexivity]).
Qed.

Lemma back21 : back step21.
Proof.
  unfold step21. apply back_stamp, b_with_obj. intros o1 o2 r2 Hp Hs.
  destruct (move_val TArr o2 _ _ _) as [[a2 b2]|] eqn:M; [|discriminate]. intros _.
  destruct (b_move_val (pbut (exc "dns")) (pbut []) TArr "blocked_services" "ids" _ _ [("schedule", schedule0)] _ _ _ ltac:(mvp) Hp eq_refl Hs
              (osim_refl [("schedule", schedule0)]) M) as (a1 & b1 & -> & Ha & Hb & _ & _).
  fin. apply allp_upd; [exact Ha | now apply pbut_plain].
Qed.

Lemma client22_back a b r2 : plain a = true -> sim a b -> client22 b = Ok r2 ->
  exists r1, client22 a = Ok r1 /\ plain r1 = true.
Proof.
  intros Pa S. destruct b; try discriminate. apply sim_obj_r in S. destruct S as (o & -> & Ho).
  cbn [client22]. pose proof Pa as Pa'. rewrite plain_obj in Pa.
  bread (pbut []) TArr "blocked_services" o m Pa Ho.
  intros _. fin. apply plain_upd; [exact Pa'|].
  pose proof (fv_ok_p _ _ _ _ _ Pa E1 (fun x H => pbo _ _ _ H eq_refl)) as Pv.
  cbn [plain forallb snd]. now rewrite Pv.
Qed.

Lemma back22 : back step22.
Proof.
  unfold step22. apply back_stamp, b_with_obj. intros o1 o2 r2 Hp Hs.
  bread (pbut (exc "clients")) TArr "persistent" o1 o2 Hp Hs.
  destruct (fv_ok_arr _ _ _ E1) as (l1 & -> & G1). apply sim_arr_l in G. destruct G as (l2 & -> & F).
  cbn [zarr]. destruct (map_res client22 l2) as [cl2| |] eqn:E; cbn [bind]; try discriminate. intros _.
  pose proof (pbo _ _ _ (allp_get _ _ _ _ Hp G1) eq_refl) as Pl.
  destruct (b_map_res (fun v => plain v = true) client22 client22_back _ _ _ Pl F E) as (cl1 & -> & Hc).
  cbn [bind]. fin. apply allp_upd; [exact Hp|]. now apply pbut_plain, plain_arr_Forall.
Qed.

Lemma back23 : back (step23 O).
Proof.
  unfold step23. apply back_stamp. intros o1 o2 r2 Hi Hs.
  bread secp TStr "bind_host" o1 o2 Hi Hs.
  destruct (fv_ok_scalar _ _ _ _ E1 eq_refl) as [P1 U1]. rewrite (U1 _ G).
  destruct (o_addr O (zstr v1)); [|discriminate].
  bread secp TInt "bind_port" o1 o2 Hi Hs; bread secp TInt "web_session_ttl" o1 o2 Hi Hs;
    intros _; fin; repeat apply allp_del; (apply allp_upd; [exact Hi | reflexivity]).
Qed.

Lemma back24 : back step24.
Proof.
  unfold step24. apply back_stamp. intros o1 o2 r2 Hi Hs.
  destruct (moves moves24 o2 []) as [[a2 b2]|] eqn:M; [|discriminate]. intros _.
  destruct (b_moves secp (pbut []) moves24 ltac:(mvs) _ _ [] _ _ _ Hi eq_refl Hs (osim_refl []) M)
    as (a1 & b1 & -> & Ha & Hb & _ & _).
  destruct b1 as [|e b1]; fin; [exact Ha|]. apply allp_upd; [exact Ha | now apply secp_plain].
Qed.

Lemma back25 : back step25.
Proof.
  unfold step25. apply back_stamp. intros o1 o2 r2 Hi Hs.
  bsec "http" o1 o2 Hi Hs h1 h2 Hh S1 G1.
  destruct (move_val TBool o2 pprof0 _ _) as [[a2 b2]|] eqn:M; [|discriminate]. intros _.
  destruct (b_move_val secp (pbut []) TBool "debug_pprof" "enabled" _ _ pprof0 _ _ _ ltac:(mvp) Hi eq_refl Hs (osim_refl pprof0) M)
    as (a1 & b1 & -> & Ha & Hb & _ & _).
  fin. apply allp_upd; [exact Ha|]. apply (allp_upd (pbut (exc "http"))); [exact S1 | now apply pbut_plain].
Qed.

Lemma moves26_ok : Forall (fun m => mv_ok (pbut (exc "dns")) (pbut []) (fst (fst m)) (snd (fst m)) (snd m)) moves26.
Proof. unfold moves26, same. mvs. Qed.

Lemma back26 : back step26.
Proof.
  unfold step26. apply back_stamp. intros o1 o2 r2 Hi Hs.
  bsec "dns" o1 o2 Hi Hs d1 d2 Hd S1 G1.
  destruct (moves moves26 d2 []) as [[a2 b2]|] eqn:M; [|discriminate]. intros _.
  destruct (b_moves _ _ moves26 moves26_ok _ _ [] _ _ _ S1 eq_refl Hd (osim_refl []) M)
    as (a1 & b1 & -> & Ha & Hb & _ & _).
  destruct b1 as [|e b1]; fin.
  - apply allp_upd; [exact Hi | exact Ha].
  - apply allp_upd; [apply allp_upd; [exact Hi | exact Ha] | now apply secp_plain].
Qed.

Lemma dot27_plain a : plain a = true -> plain (dot27 a) = true.
Proof. destruct a; cbn [dot27]; auto. now destruct (String.eqb _ _). Qed.

Lemma replace_dot_back k : mem_b "ignored" (exc k) = false -> bfol tinv tinv (replace_dot k).
Proof.
  intros Nk. unfold replace_dot. apply b_with_obj. intros o1 o2 r2 Hp Hs.
  pose proof (b_read (pbut (exc k)) TArr "ignored" o1 o2 Hp Hs
                (fun _ v H => plain_nohead _ (pbut_out _ _ _ Nk H))) as G.
  destruct (field_val TArr o1 "ignored") as [|v1|] eqn:E1, (field_val TArr o2 "ignored") as [|v2|] eqn:E2;
    cbn [fv2] in G; try contradiction; try discriminate; try triv.
  destruct (fv_ok_arr _ _ _ E1) as (l1 & -> & G1). cbn [zarr]. intros _. fin.
  apply allp_upd; [exact Hp|]. apply pbut_plain, plain_map; [exact dot27_plain|].
  exact (pbut_out _ _ _ Nk (allp_get _ _ _ _ Hp G1)).
Qed.

Lemma back27 : back step27.
Proof.
  unfold step27. apply back_stamp.
  apply (b_bind _ tinv); [apply replace_dot_sim | |]; now apply replace_dot_back.
Qed.

Lemma back28 : back step28.
Proof.
  unfold step28. apply back_stamp, b_with_obj. intros o1 o2 r2 Hp Hs _. fin.
  repeat apply allp_del. apply allp_upd; [exact Hp | reflexivity].
Qed.

Lemma filter29_back a b (r2 : list string) : plain a = true -> sim a b -> filter29 b = Ok r2 ->
  exists r1, filter29 a = Ok r1 /\ True.
Proof.
  intros Pa S. destruct b; try discriminate. apply sim_obj_r in S. destruct S as (o & -> & Ho). intros _.
  cbn [filter29]. destruct (field_val TStr o "url"); eauto.
Qed.

Lemma back29 : back (step29 O).
Proof.
  unfold step29. apply back_stamp. intros o1 o2 r2 Hi Hs.
  bread secp TArr "filters" o1 o2 Hi Hs.
  destruct (fv_ok_arr _ _ _ E1) as (l1 & -> & G1). apply sim_arr_l in G. destruct G as (l2 & -> & F).
  cbn [zarr]. destruct (map_res filter29 l2) as [ps2| |] eqn:E; cbn [bind]; try discriminate.
  pose proof (sco _ _ (allp_get _ _ _ _ Hi G1) eq_refl) as Pl.
  destruct (b_map_res (fun _ => True) filter29 filter29_back _ _ _ Pl F E) as (ps1 & -> & _).
  cbn [bind]. apply (b_with_obj2 "filtering"); [|exact Hi|exact Hs].
  intros f1 f2 q2 Hp Hf _. fin. apply allp_upd; [exact Hp | reflexivity].
Qed.

Lemma steps_back : Forall back (map snd (steps O)).
Proof.
  cbn.
  repeat (apply Forall_cons;
    [first [exact back1|exact back2|exact back3|exact back4|exact back5|exact back6|exact back7|exact back8
           |exact back9|exact back10|exact back11|exact back12|exact back13|exact back14|exact back15
           |exact back16|exact back17|exact back18|exact back19|exact back20|exact back21|exact back22
           |exact back23|exact back24|exact back25|exact back26|exact back27|exact back28|exact back29]|]).
  apply Forall_nil.
Qed.

End StepsBack.

(** ** Composition over the step table *)

Lemma run_steps_back l : Forall back l -> Forall step_sim l -> forall m1 m2 r2,
  tinv m1 -> osim m1 m2 -> run_steps l m2 = Ok r2 ->
  exists r1, run_steps l m1 = Ok r1 /\ tinv r1 /\ osim r1 r2.
Proof.
  induction l as [|s l IH]; intros B S m1 m2 r2 Hi Hs; cbn [run_steps].
  - intros [= <-]. eauto.
  - inversion B as [|? ? Bs Bl]; subst. inversion S as [|? ? Ss Sl]; subst.
    destruct (s (Some m2)) as [x2| |] eqn:E2; cbn [bind]; try discriminate. intros H.
    destruct (Bs _ _ _ Hi Hs E2) as (x1 & E1 & Hx). rewrite E1. cbn [bind].
    destruct (Ss _ _ _ Hs E1) as (x2' & E2' & Sx). rewrite E2 in E2'. injection E2' as <-.
    exact (IH Bl Sl _ _ _ Hx Sx H).
Qed.

Local Open Scope Z_scope.

Section UpgradeBack.
Variable O : oracles.

(** A range of steps that succeeds on the re-read file succeeds on the tree. *)
Lemma upgrade_back cur tgt m1 m2 r2 : tinv m1 -> osim m1 m2 -> upgrade O cur tgt m2 = Ok r2 ->
  exists r1, upgrade O cur tgt m1 = Ok r1 /\ tinv r1 /\ osim r1 r2.
Proof.
  unfold upgrade. apply run_steps_back.
  - apply Forall_firstn, Forall_skipn, steps_back.
  - apply Forall_firstn, Forall_skipn, steps_sim.
Qed.

(** Steps keep typed values where they belong. *)
Lemma upgrade_keeps_tinv cur tgt m r : tinv m -> upgrade O cur tgt m = Ok r -> tinv r.
Proof.
  intros Hi H. destruct (upgrade_back cur tgt m m r Hi (osim_refl m) H) as (r1 & E & Hr & _).
  rewrite H in E. now injection E as <-.
Qed.

(** Failure is path independent too: if the rest of the run succeeds on the
    file written at the split point, it succeeds in memory. *)
Lemma upgrade_fails_alike cur k tgt m b : tinv m ->
  upgrade O cur k m = Ok b -> upgrade O k tgt b = Err -> upgrade O k tgt (norm_obj b) = Err.
Proof.
  intros Hi U1 U2. destruct (upgrade O k tgt (norm_obj b)) as [c| |] eqn:E; [|reflexivity|].
  - destruct (upgrade_back k tgt b (norm_obj b) c (upgrade_keeps_tinv _ _ _ _ Hi U1) (osim_norm b) E)
      as (a & Ea & _). congruence.
  - exfalso. exact (upgrade_no_panic O _ _ _ E).
Qed.

(** Success on the re-read file gives success on the tree, and the same file. *)
Lemma upgrade_succeeds_alike cur tgt m c : tinv m -> upgrade O cur tgt (norm_obj m) = Ok c ->
  exists a, upgrade O cur tgt m = Ok a /\ norm_obj a = norm_obj c.
Proof.
  intros Hi H. destruct (upgrade_back cur tgt m (norm_obj m) c Hi (osim_norm m) H) as (a & Ea & _ & S).
  exists a. split; [exact Ea | now apply osim_norm_eq].
Qed.

Lemma migrate_cases top t :
  field_val TInt (input_map top) "schema_version" <> FErr -> version_of (input_map top) < t ->
  migrate O top t =
    if t >? last_version then OErr
    else match upgrade O (Z.to_nat (version_of (input_map top))) (Z.to_nat t) (input_map top) with
         | Ok m' => ONew m' | Err => OErr | Panic => OPanic
         end.
Proof.
  unfold migrate, version_of. fold (input_map top). intros N R.
  destruct (field_val TInt (input_map top) "schema_version") eqn:E; [| |congruence];
  cbn [fv_val] in *;
  (destruct (_ >? t) eqn:E1; [lia|]); (destruct (t >? last_version) eqn:E2; [reflexivity|]);
  (destruct (_ =? t) eqn:E3; [lia|]); reflexivity.
Qed.

Lemma plain_doc_tinv top : plain_doc top = true -> tinv (input_map top).
Proof. destruct top as [m|]; cbn [plain_doc input_map]; [apply plain_tinv | reflexivity]. Qed.

Theorem path_independent_unconditional top t k :
  plain_doc top = true -> version_of (input_map top) < k < t ->
  same_result (migrate O top t) (split_run O top k t).
Proof.
  intros Pl R. destruct (migrate O top t) eqn:E;
    try (rewrite <- E; apply path_independent_unconditional_partial; [exact R | congruence]).
  (* the one run fails *)
  assert (G : split_run O top k t = OErr); [|now rewrite G].
  unfold split_run.
  assert (V0 : 0 <= version_of (input_map top)) by (apply Z.mod_pos_bound; lia).
  destruct (field_val TInt (input_map top) "schema_version") eqn:F.
  3: { unfold migrate. fold (input_map top). now rewrite F. }
  all: assert (N : field_val TInt (input_map top) "schema_version" <> FErr) by congruence;
       rewrite (migrate_cases top t N ltac:(lia)) in E;
       rewrite (migrate_cases top k N ltac:(lia));
       unfold last_version in *;
       (destruct (k >? 29) eqn:Ek; [reflexivity|]);
       destruct (upgrade O (Z.to_nat (version_of (input_map top))) (Z.to_nat k) (input_map top)) as [b| |] eqn:U1;
       try reflexivity;
       [ | exfalso; exact (upgrade_no_panic O _ _ _ U1) ];
       (assert (S : get "schema_version" (norm_obj b) = Some (VInt k));
        [ rewrite get_norm_obj, (upgrade_stamped O (Z.to_nat (version_of (input_map top))) (Z.to_nat k) _ _ ltac:(lia) U1); cbn; do 2 f_equal; lia | ]);
       (assert (F2 : field_val TInt (norm_obj b) "schema_version" = FOk (VInt k));
        [ unfold field_val; now rewrite S | ]);
       (assert (V : version_of (norm_obj b) = k);
        [ unfold version_of; rewrite F2; cbn [fv_val zint]; apply Z.mod_small; lia | ]);
       rewrite (migrate_cases (Some (norm_obj b)) t); cbn [input_map]; [ | congruence | lia ];
       unfold last_version; rewrite V;
       (destruct (t >? 29) eqn:Et; [reflexivity|]);
       rewrite (upgrade_split O (Z.to_nat (version_of (input_map top))) (Z.to_nat k) (Z.to_nat t) (input_map top) ltac:(lia)), U1 in E;
       cbn [bind] in E;
       (destruct (upgrade O (Z.to_nat k) (Z.to_nat t) b) as [c| |] eqn:U2; try discriminate E);
       now rewrite (upgrade_fails_alike _ _ _ _ _ (plain_doc_tinv top Pl) U1 U2).
Qed.

End UpgradeBack.

(** The statement of [Proofs/MigrateSim.v], now a theorem. *)
Theorem path_independent_unconditional_holds : path_independent_unconditional_statement.
Proof. intros O top t k. apply path_independent_unconditional. Qed.

(** Non-vacuity of the failing case: a decoded document whose one run fails
    at step 23 (bind_host is not an address), split at 15, where the file holds
    the text of the duration step 12 left in memory; the invariant holds of
    the in-memory tree at the split point, which is not plain. *)
Definition failing_doc : obj :=
  [("schema_version", VInt 11); ("bind_host", VStr "nonsense"); ("dns", VObj [("querylog_interval", VInt 1)])].

Example failing_doc_fails_alike :
  plain_doc (Some failing_doc) = true /\
  migrate oracles0 (Some failing_doc) 29 = OErr /\
  split_run oracles0 (Some failing_doc) 15 29 = OErr /\
  exists b, migrate oracles0 (Some failing_doc) 15 = ONew b /\ tinvb b = true /\ plain (VObj b) = false /\
            get "querylog" b = Some (VObj [("ignored", VArr []); ("enabled", VBool true); ("file_enabled", VBool true);
                                           ("interval", VDur 86400000000000); ("size_memory", VInt 1000)]).
Proof.
  split; [reflexivity|]. split; [vm_compute; reflexivity|]. split; [vm_compute; reflexivity|].
  eexists. split; [vm_compute; reflexivity|]. repeat split; vm_compute; reflexivity.
Qed.

(** The invariant is what makes the difference: the typed document of
    [typed_input_path_dependent] violates it. *)
Example typed_doc_not_tinv : tinvb typed_doc = false.
Proof. reflexivity. Qed.

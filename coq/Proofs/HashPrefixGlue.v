(** C19, round 5: the glue between [DNSFilter.CheckHost] and the checkers
    (Model/HashPrefixGlue.v).

    - [glue_calls] does not look at the host; through [CheckHost] a checker is
      called exactly when the name is not the root query, protection and the
      service's switch are on and no earlier checker ended the request; what
      it is called with is the lower-case name;
    - the enumeration of the hashed names is empty exactly for the root query
      and for a name whose last-four-label cut IS its ICANN public suffix; a
      name with a private-section or default-rule suffix (a private suffix
      itself, a single label) always has its own cut in the enumeration;
    - composition: with checkers that are transparent for their databases,
      the reason [CheckHost] returns is a function of the switches and of
      "some enumerated name of the lower-case host is listed", for every host
      and over every history of requests;
    - the short cut of red-team change C19-I is refuted. *)
From Coq Require Import ZArith NArith List Bool Lia.
From AGH Require Import Base.Run Base.Bytes Model.HashPrefix Proofs.HashPrefix Model.HashPrefixGlue.
Import ListNotations.

(** * The test does not look at the host *)

Lemma glue_calls_host_independent s st qt h1 h2 : glue_calls s st qt h1 = glue_calls s st qt h2.
Proof. reflexivity. Qed.

(** ... nor at the type of the question (round 6). *)
Lemma glue_calls_qtype_independent s st q1 q2 h : glue_calls s st q1 h = glue_calls s st q2 h.
Proof. reflexivity. Qed.

Lemma glue_calls_spec s st qt h :
  glue_calls s st qt h = true <-> st_protection st = true /\ svc_enabled s st = true.
Proof. unfold glue_calls. apply andb_true_iff. Qed.

(** * Which requests reach the checkers *)
Section Calls.
  Context {C1 C2 : Type}.
  Variable sb : bytes -> C1 -> C1 * check_out.
  Variable pc : bytes -> C2 -> C2 * check_out.

  (** What the safe-browsing checker sees. *)
  Lemma glue_sb_called st qt spelled c1 c2 :
    match g_sb (snd (glue_check_host sb pc st qt spelled c1 c2)) with
    | Some (h, o) =>
        spelled <> [] /\ st_protection st = true /\ st_safebrowsing st = true /\
        h = lower spelled /\ o = snd (sb (lower spelled) c1)
    | None => spelled = [] \/ st_protection st = false \/ st_safebrowsing st = false
    end.
  Proof.
    unfold glue_check_host, glue_check_host_with, glue_parental, glue_calls, caller_name.
    destruct spelled as [|b s]; [cbn; auto|].
    set (host := lower (b :: s)).
    destruct (st_protection st) eqn:P; cbn [andb svc_enabled].
    2:{ cbn. auto. }
    destruct (st_safebrowsing st) eqn:S.
    - destruct (sb host c1) as [c1' o1] eqn:E1.
      assert (Ho : o1 = snd (sb host c1)) by now rewrite E1.
      destruct (o_err o1); [cbn; repeat split; auto; discriminate|].
      destruct (o_blocked o1); [cbn; repeat split; auto; discriminate|].
      destruct (st_parental st); [destruct (pc host c2)|]; cbn; repeat split; auto; discriminate.
    - destruct (st_parental st); [destruct (pc host c2)|]; cbn; auto.
  Qed.

  (** What the parental-control checker sees: the same name, unless safe
      browsing failed or blocked. *)
  Lemma glue_pc_called st qt spelled c1 c2 :
    let out := snd (glue_check_host sb pc st qt spelled c1 c2) in
    match g_pc out with
    | Some (h, o) =>
        spelled <> [] /\ st_protection st = true /\ st_parental st = true /\ h = lower spelled /\
        o = snd (pc (lower spelled) c2) /\
        match g_sb out with Some (_, o1) => o_err o1 = false /\ o_blocked o1 = false | None => True end
    | None =>
        spelled = [] \/ st_protection st = false \/ st_parental st = false \/
        exists h o1, g_sb out = Some (h, o1) /\ (o_err o1 = true \/ o_blocked o1 = true)
    end.
  Proof.
    unfold glue_check_host, glue_check_host_with, glue_parental, glue_calls, caller_name.
    destruct spelled as [|b s]; [cbn; auto|].
    set (host := lower (b :: s)).
    destruct (st_protection st) eqn:P; cbn [andb svc_enabled].
    2:{ cbn. auto. }
    destruct (st_safebrowsing st) eqn:S.
    - destruct (sb host c1) as [c1' o1] eqn:E1.
      destruct (o_err o1) eqn:Er.
      { cbn. right. right. right. exists host, o1. auto. }
      destruct (o_blocked o1) eqn:Bl.
      { cbn. right. right. right. exists host, o1. auto. }
      destruct (st_parental st); [destruct (pc host c2) as [c2' o2] eqn:E2|]; cbn; auto.
      try (repeat split; auto; try discriminate; now rewrite E2).
    - destruct (st_parental st); [destruct (pc host c2) as [c2' o2] eqn:E2|]; cbn; auto.
      try (repeat split; auto; try discriminate; now rewrite E2).
  Qed.
End Calls.

(** * When is nothing hashed *)

Lemma trim_host_nil host : trim_host host = [] -> host = [].
Proof.
  intros H. destruct (trim_host_spec host) as [[_ E]|(pre & _ & Hc)]; [congruence|].
  rewrite H in Hc. discriminate.
Qed.

Lemma trim_host_short host : (count dot host < 4)%nat -> trim_host host = host.
Proof.
  intros H. destruct (trim_host_spec host) as [[_ E]|(pre & E & Hc)]; [exact E|].
  exfalso. rewrite E, count_app in H. cbn [count] in H. rewrite N.eqb_refl in H. lia.
Qed.

(** The enumeration is empty exactly for the empty name and for a name whose
    cut to the last four labels is its ICANN public suffix.  (For a name of
    at most four labels: the name itself is an ICANN suffix.  The section
    flag decides: a name equal to a private-section suffix is hashed.) *)
Lemma names_to_hash_nil_iff pubsuf host :
  names_to_hash pubsuf host = [] <->
  host = [] \/ (snd (pubsuf host) = true /\ fst (pubsuf host) = trim_host host).
Proof.
  unfold names_to_hash. destruct (pubsuf host) as [ps ic]. cbn [fst snd].
  destruct (trim_host host) as [|b d] eqn:T.
  - apply trim_host_nil in T. cbn. tauto.
  - assert (Hn : host <> []) by (intros ->; discriminate).
    cbn [subdomains take_until_eq].
    destruct (eqb_bytes (b :: d) (if ic then ps else [])) eqn:E.
    + apply eqb_bytes_eq in E. destruct ic; [|discriminate]. split; auto.
    + apply eqb_bytes_neq in E. split; [discriminate|].
      intros [?|[-> ->]]; congruence.
Qed.

(** Otherwise the cut itself comes first. *)
Lemma names_to_hash_head pubsuf host :
  host <> [] -> ~ (snd (pubsuf host) = true /\ fst (pubsuf host) = trim_host host) ->
  exists r, names_to_hash pubsuf host = trim_host host :: r.
Proof.
  intros Hn Hs. unfold names_to_hash. destruct (pubsuf host) as [ps ic]. cbn [fst snd] in *.
  destruct (trim_host host) as [|b d] eqn:T; [apply trim_host_nil in T; congruence|].
  cbn [subdomains take_until_eq].
  destruct (eqb_bytes (b :: d) (if ic then ps else [])) eqn:E; [|eauto].
  apply eqb_bytes_eq in E. destruct ic; [|discriminate]. exfalso. apply Hs. auto.
Qed.

(** A non-empty name with a private-section or default-rule suffix, whatever
    the suffix is (the name itself, as for [github.io] or a single label): its
    cut is enumerated; with at most four labels that is the name itself. *)
Lemma non_icann_name_enumerated pubsuf host :
  host <> [] -> snd (pubsuf host) = false -> In (trim_host host) (names_to_hash pubsuf host).
Proof.
  intros Hn Hs. destruct (names_to_hash_head pubsuf host Hn) as (r & ->); [|now left].
  intros [H _]. congruence.
Qed.

Lemma non_icann_own_name_enumerated pubsuf host :
  host <> [] -> snd (pubsuf host) = false -> (count dot host < 4)%nat ->
  In host (names_to_hash pubsuf host).
Proof.
  intros Hn Hs Hc. rewrite <- (trim_host_short host Hc) at 1. now apply non_icann_name_enumerated.
Qed.

Lemma names_to_hash_empty_host pubsuf : names_to_hash pubsuf [] = [].
Proof. apply names_to_hash_nil_iff. now left. Qed.

(** * Composition with transparent checkers *)

(** A checker on states satisfying [inv] is transparent for the verdict [v]:
    a check that does not fail says [v host], a failing one says "not
    blocked", and [inv] is kept. *)
Definition checker_transparent {C} (inv : C -> Prop) (v : bytes -> bool)
    (chk : bytes -> C -> C * check_out) : Prop :=
  forall h c, inv c ->
    inv (fst (chk h c)) /\
    (o_err (snd (chk h c)) = false -> o_blocked (snd (chk h c)) = v h).

Definition svc_on (s : service) (st : settings) : bool := st_protection st && svc_enabled s st.

(** What [CheckHost] must answer, given the verdicts of the two databases. *)
Definition glue_verdict (v1 v2 : bytes -> bool) (st : settings) (spelled : bytes) : reason :=
  if svc_on SafeBrowsing st && v1 (lower spelled) then RSafeBrowsing
  else if svc_on Parental st && v2 (lower spelled) then RParental
  else RNotFiltered.

Section Compose.
  Context {C1 C2 : Type}.
  Variable inv1 : C1 -> Prop.
  Variable inv2 : C2 -> Prop.
  Variable v1 v2 : bytes -> bool.
  Variable sb : bytes -> C1 -> C1 * check_out.
  Variable pc : bytes -> C2 -> C2 * check_out.
  Hypothesis Hsb : checker_transparent inv1 v1 sb.
  Hypothesis Hpc : checker_transparent inv2 v2 pc.
  (** Nothing is hashed for the root query. *)
  Hypothesis Hv1 : v1 [] = false.
  Hypothesis Hv2 : v2 [] = false.

  Lemma glue_check_host_spec st qt spelled c1 c2 :
    inv1 c1 -> inv2 c2 ->
    let res := glue_check_host sb pc st qt spelled c1 c2 in
    inv1 (fst (fst res)) /\ inv2 (snd (fst res)) /\
    (g_err (snd res) = false -> g_reason (snd res) = glue_verdict v1 v2 st spelled) /\
    (g_err (snd res) = true -> g_reason (snd res) = RNotFiltered).
  Proof.
    intros I1 I2.
    unfold glue_check_host, glue_check_host_with, glue_parental, glue_verdict, svc_on, glue_calls, caller_name.
    destruct spelled as [|b s].
    { cbn [lower map fst snd g_err g_reason]. rewrite Hv1, Hv2, !andb_false_r. auto. }
    set (host := lower (b :: s)).
    destruct (st_protection st); cbn [andb svc_enabled].
    2:{ cbn. auto. }
    assert (P : forall c1' o1, inv1 c1' ->
      (st_safebrowsing st && v1 host = false) ->
      let res := (if st_parental st
                  then let '(c2', o2) := pc host c2 in
                       (c1', c2', {| g_reason := if o_err o2 then RNotFiltered
                                                 else if o_blocked o2 then RParental else RNotFiltered;
                                     g_err := o_err o2; g_sb := o1; g_pc := Some (host, o2) |})
                  else (c1', c2, {| g_reason := RNotFiltered; g_err := false; g_sb := o1; g_pc := None |})) in
      inv1 (fst (fst res)) /\ inv2 (snd (fst res)) /\
      (g_err (snd res) = false ->
       g_reason (snd res) = if st_safebrowsing st && v1 host then RSafeBrowsing
                            else if st_parental st && v2 host then RParental else RNotFiltered) /\
      (g_err (snd res) = true -> g_reason (snd res) = RNotFiltered)).
    { intros c1' o1 I1' V. rewrite V. destruct (st_parental st); cbn [andb].
      - destruct (Hpc host c2 I2) as [A B]. destruct (pc host c2) as [c2' o2]. cbn [fst snd] in *.
        cbn [g_err g_reason]. repeat split; auto.
        + intros E. rewrite E. rewrite <- (B E). now destruct (o_blocked o2).
        + now intros ->.
      - cbn. auto. }
    destruct (st_safebrowsing st) eqn:S.
    - destruct (Hsb host c1 I1) as [A B]. destruct (sb host c1) as [c1' o1]. cbn [fst snd] in *.
      destruct (o_err o1) eqn:Er.
      { cbn. repeat split; auto. discriminate. }
      specialize (B eq_refl).
      destruct (o_blocked o1) eqn:Bl.
      { cbn [fst snd g_err g_reason]. rewrite <- B. cbn. repeat split; auto. discriminate. }
      apply (P c1' (Some (host, o1)) A). now rewrite <- B.
    - apply (P c1 None I1). reflexivity.
  Qed.

  (** Over a history of requests through one DNSFilter (the checkers keep
      their state): every request that does not fail is answered by
      [glue_verdict], whatever was asked before. *)
  Theorem glue_run_spec : forall reqs c1 c2, inv1 c1 -> inv2 c2 ->
    Forall2 (fun (req : settings * qtype * bytes) out =>
               (g_err out = false -> g_reason out = glue_verdict v1 v2 (fst (fst req)) (snd req)) /\
               (g_err out = true -> g_reason out = RNotFiltered))
            reqs (glue_run sb pc reqs c1 c2).
  Proof.
    induction reqs as [|[[st qt] spelled] r IH]; intros c1 c2 I1 I2; cbn [glue_run]; [constructor|].
    pose proof (glue_check_host_spec st qt spelled c1 c2 I1 I2) as H. cbn zeta in H.
    destruct (glue_check_host sb pc st qt spelled c1 c2) as [[c1' c2'] out]. cbn [fst snd] in H.
    destruct H as (A & B & C & D). constructor; auto.
  Qed.
End Compose.

(** * The Checker of Model/HashPrefix.v is such a checker *)
Section Instance.
  Variable sha : bytes -> hash.
  Variable pubsuf : bytes -> bytes * bool.

  (** Some enumerated name of [h] is in the database. *)
  Definition listed (db : list hash) (h : bytes) : Prop :=
    exists n, In n (names_to_hash pubsuf h) /\ In (sha n) db.

  Lemma db_verdict_listed db h : db_verdict sha pubsuf db h = true <-> listed db h.
  Proof. apply db_verdict_spec. Qed.

  Lemma db_verdict_empty_host db : db_verdict sha pubsuf db [] = false.
  Proof.
    destruct (db_verdict sha pubsuf db []) eqn:E; auto.
    apply db_verdict_listed in E. destruct E as (n & H & _).
    rewrite names_to_hash_empty_host in H. destruct H.
  Qed.

  Lemma check_is_transparent suffix ct db svc order evs now :
    svc_ok db svc ->
    checker_transparent (cache_inv db) (db_verdict sha pubsuf db)
                        (check sha pubsuf suffix ct svc order evs now).
  Proof.
    intros Hs h c I.
    destruct (check_transparent sha pubsuf suffix ct db svc order evs now h c I Hs) as (A & B & _).
    auto.
  Qed.

  (** The reason as a proposition. *)
  Lemma glue_verdict_listed db1 db2 st spelled :
    let r := glue_verdict (db_verdict sha pubsuf db1) (db_verdict sha pubsuf db2) st spelled in
    (r = RSafeBrowsing <-> svc_on SafeBrowsing st = true /\ listed db1 (lower spelled)) /\
    (r = RParental <-> ~ (svc_on SafeBrowsing st = true /\ listed db1 (lower spelled)) /\
                       svc_on Parental st = true /\ listed db2 (lower spelled)) /\
    (r <> RNotFiltered <-> (svc_on SafeBrowsing st = true /\ listed db1 (lower spelled)) \/
                           (svc_on Parental st = true /\ listed db2 (lower spelled))).
  Proof.
    cbn zeta. unfold glue_verdict. rewrite <- !db_verdict_listed.
    destruct (svc_on SafeBrowsing st), (svc_on Parental st),
      (db_verdict sha pubsuf db1 (lower spelled)), (db_verdict sha pubsuf db2 (lower spelled));
      cbn [andb]; repeat split; try discriminate; try tauto; try congruence;
      intuition (try discriminate; try congruence).
  Qed.

  (** For every host, every pair of databases, exact caches and every
      settings: one request through the glue and the two Checkers. *)
  Theorem glue_blocks_iff_listed sfx1 sfx2 ct1 ct2 db1 db2 svc1 svc2 ord1 ord2 ev1 ev2 now1 now2
      st qt spelled c1 c2 :
    cache_inv db1 c1 -> cache_inv db2 c2 -> svc_ok db1 svc1 -> svc_ok db2 svc2 ->
    let res := glue_check_host (check sha pubsuf sfx1 ct1 svc1 ord1 ev1 now1)
                               (check sha pubsuf sfx2 ct2 svc2 ord2 ev2 now2) st qt spelled c1 c2 in
    cache_inv db1 (fst (fst res)) /\ cache_inv db2 (snd (fst res)) /\
    (g_err (snd res) = false ->
     g_reason (snd res) = glue_verdict (db_verdict sha pubsuf db1) (db_verdict sha pubsuf db2) st spelled) /\
    (g_err (snd res) = true -> g_reason (snd res) = RNotFiltered).
  Proof.
    intros I1 I2 S1 S2.
    apply (glue_check_host_spec (cache_inv db1) (cache_inv db2)); auto using check_is_transparent,
      db_verdict_empty_host.
  Qed.

  (** One service enabled for the request: blocked iff listed. *)
  Corollary glue_safebrowsing_iff_listed sfx1 sfx2 ct1 ct2 db1 db2 svc1 svc2 ord1 ord2 ev1 ev2 now1 now2
      st qt spelled c1 c2 :
    cache_inv db1 c1 -> cache_inv db2 c2 -> svc_ok db1 svc1 -> svc_ok db2 svc2 ->
    st_protection st = true -> st_safebrowsing st = true ->
    let out := snd (glue_check_host (check sha pubsuf sfx1 ct1 svc1 ord1 ev1 now1)
                                    (check sha pubsuf sfx2 ct2 svc2 ord2 ev2 now2) st qt spelled c1 c2) in
    g_err out = false -> (g_reason out = RSafeBrowsing <-> listed db1 (lower spelled)).
  Proof.
    intros I1 I2 S1 S2 P E.
    destruct (glue_blocks_iff_listed sfx1 sfx2 ct1 ct2 db1 db2 svc1 svc2 ord1 ord2 ev1 ev2 now1 now2
                st qt spelled c1 c2 I1 I2 S1 S2) as (_ & _ & H & _).
    cbn zeta in *. intros Er. rewrite (H Er).
    destruct (glue_verdict_listed db1 db2 st spelled) as (A & _). cbn zeta in A. rewrite A.
    unfold svc_on. rewrite P. cbn. rewrite E. tauto.
  Qed.

  Corollary glue_parental_iff_listed sfx1 sfx2 ct1 ct2 db1 db2 svc1 svc2 ord1 ord2 ev1 ev2 now1 now2
      st qt spelled c1 c2 :
    cache_inv db1 c1 -> cache_inv db2 c2 -> svc_ok db1 svc1 -> svc_ok db2 svc2 ->
    st_protection st = true -> st_safebrowsing st = false -> st_parental st = true ->
    let out := snd (glue_check_host (check sha pubsuf sfx1 ct1 svc1 ord1 ev1 now1)
                                    (check sha pubsuf sfx2 ct2 svc2 ord2 ev2 now2) st qt spelled c1 c2) in
    g_err out = false -> (g_reason out = RParental <-> listed db2 (lower spelled)).
  Proof.
    intros I1 I2 S1 S2 P E1 E2.
    destruct (glue_blocks_iff_listed sfx1 sfx2 ct1 ct2 db1 db2 svc1 svc2 ord1 ord2 ev1 ev2 now1 now2
                st qt spelled c1 c2 I1 I2 S1 S2) as (_ & _ & H & _).
    cbn zeta in *. intros Er. rewrite (H Er).
    destruct (glue_verdict_listed db1 db2 st spelled) as (_ & A & _). cbn zeta in A. rewrite A.
    unfold svc_on. rewrite P. cbn. rewrite E1, E2. intuition discriminate.
  Qed.

  (** In particular a listed name that is a private-section suffix itself, or
      a single label, or any other name of at most four labels whose suffix is
      not an ICANN one, is blocked. *)
  Corollary glue_listed_non_icann_name_blocks sfx1 sfx2 ct1 ct2 db1 db2 svc1 svc2 ord1 ord2 ev1 ev2 now1 now2
      st qt spelled c1 c2 :
    cache_inv db1 c1 -> cache_inv db2 c2 -> svc_ok db1 svc1 -> svc_ok db2 svc2 ->
    st_protection st = true -> st_safebrowsing st = true ->
    spelled <> [] -> snd (pubsuf (lower spelled)) = false -> (count dot (lower spelled) < 4)%nat ->
    In (sha (lower spelled)) db1 ->
    let out := snd (glue_check_host (check sha pubsuf sfx1 ct1 svc1 ord1 ev1 now1)
                                    (check sha pubsuf sfx2 ct2 svc2 ord2 ev2 now2) st qt spelled c1 c2) in
    g_err out = false -> g_reason out = RSafeBrowsing.
  Proof.
    intros I1 I2 S1 S2 P E Hn Hs Hc Hdb out Er.
    apply (glue_safebrowsing_iff_listed sfx1 sfx2 ct1 ct2 db1 db2 svc1 svc2 ord1 ord2 ev1 ev2 now1 now2
             st qt spelled c1 c2); auto.
    exists (lower spelled). split; auto. apply non_icann_own_name_enumerated; auto.
    destruct spelled; [congruence|discriminate].
  Qed.

  (** Histories: the caches of the two Checkers never change what the glue
      answers. *)
  Theorem glue_history_blocks_iff_listed sfx1 sfx2 ct1 ct2 db1 db2 svc1 svc2 ord1 ord2 ev1 ev2 now1 now2 :
    svc_ok db1 svc1 -> svc_ok db2 svc2 ->
    forall reqs c1 c2, cache_inv db1 c1 -> cache_inv db2 c2 ->
    Forall2 (fun (req : settings * qtype * bytes) out =>
               (g_err out = false ->
                g_reason out = glue_verdict (db_verdict sha pubsuf db1) (db_verdict sha pubsuf db2)
                                            (fst (fst req)) (snd req)) /\
               (g_err out = true -> g_reason out = RNotFiltered))
            reqs (glue_run (check sha pubsuf sfx1 ct1 svc1 ord1 ev1 now1)
                           (check sha pubsuf sfx2 ct2 svc2 ord2 ev2 now2) reqs c1 c2).
  Proof.
    intros S1 S2. apply glue_run_spec; auto using check_is_transparent, db_verdict_empty_host.
  Qed.
End Instance.

(** * Non-vacuity and the refuted short cut *)
Module GlueExamples.
  Local Open Scope N_scope.
  Definition github_io : bytes := [103;105;116;104;117;98;46;105;111].
  Definition intranet : bytes := [105;110;116;114;97;110;101;116].
  Definition com : bytes := [99;111;109].
  (* a toy suffix list: [com] is an ICANN suffix, [github.io] a private one,
     everything else falls under the default rule *)
  Definition pubsuf (h : bytes) : bytes * bool :=
    if eqb_bytes h com then (com, true)
    else if eqb_bytes h github_io then (github_io, false)
    else (h, false).
  Definition sha := Examples.sha.
  Definition db : list hash := [sha github_io; sha intranet; sha com].
  Definition sfx : bytes := [115;98;46].
  Definition on : settings :=
    {| st_protection := true; st_filtering := true; st_safebrowsing := true; st_parental := false |}.
  Definition chk := check sha pubsuf sfx (3600 * ns_sec)%Z (db_service db) [] [] 0%Z.
End GlueExamples.

Example glue_premises_satisfiable :
  Forall hash_wf GlueExamples.db /\ cache_inv GlueExamples.db [] /\
  svc_ok GlueExamples.db (db_service GlueExamples.db) /\
  snd (GlueExamples.pubsuf GlueExamples.github_io) = false /\
  fst (GlueExamples.pubsuf GlueExamples.github_io) = GlueExamples.github_io /\
  names_to_hash GlueExamples.pubsuf GlueExamples.github_io
    = [GlueExamples.github_io; [105;111]%N] /\
  names_to_hash GlueExamples.pubsuf GlueExamples.intranet = [GlueExamples.intranet] /\
  names_to_hash GlueExamples.pubsuf GlueExamples.com = [] /\
  g_reason (snd (glue_check_host GlueExamples.chk GlueExamples.chk GlueExamples.on 1%N
                   GlueExamples.github_io [] [])) = RSafeBrowsing /\
  g_reason (snd (glue_check_host GlueExamples.chk GlueExamples.chk GlueExamples.on 1%N
                   GlueExamples.intranet [] [])) = RSafeBrowsing /\
  g_reason (snd (glue_check_host GlueExamples.chk GlueExamples.chk GlueExamples.on 1%N
                   GlueExamples.com [] [])) = RNotFiltered.
Proof.
  assert (W : Forall hash_wf GlueExamples.db).
  { unfold GlueExamples.db. repeat constructor; cbn; try lia. }
  split; [exact W|]. split; [intros p it; discriminate|]. split; [now apply db_service_ok|].
  repeat split; vm_compute; reflexivity.
Qed.

(** The short cut of red-team change C19-I: the checkers are skipped when
    [EffectiveTLDPlusOne] fails.  A listed private-section suffix, enumerated
    by [hostnameToHashes] and blocked by the code, is not blocked. *)
Theorem glue_bare_suffix_shortcut_refuted :
  exists sha pubsuf db st host,
    st_protection st = true /\ st_safebrowsing st = true /\
    snd (pubsuf host) = false /\
    In host (names_to_hash pubsuf host) /\ In (sha host) db /\ Forall hash_wf db /\
    let chk := check sha pubsuf GlueExamples.sfx (3600 * ns_sec)%Z (db_service db) [] [] 0%Z in
    g_reason (snd (glue_check_host chk chk st 1%N host [] [])) = RSafeBrowsing /\
    g_reason (snd (glue_check_host_with (glue_calls_bare pubsuf) chk chk st 1%N host [] [])) = RNotFiltered /\
    g_sb (snd (glue_check_host_with (glue_calls_bare pubsuf) chk chk st 1%N host [] [])) = None.
Proof.
  exists GlueExamples.sha, GlueExamples.pubsuf, GlueExamples.db, GlueExamples.on, GlueExamples.github_io.
  split; [reflexivity|]. split; [reflexivity|]. split; [reflexivity|].
  split; [vm_compute; auto|]. split; [now left|].
  split; [apply glue_premises_satisfiable|].
  cbn zeta. repeat split; vm_compute; reflexivity.
Qed.

(** * Round 6: the type of the question

    [CheckHost] hands the question type to every host checker;
    [checkSafeBrowsing] and [checkParental] take it as the blank parameter.
    So the whole result of the path (both caches, what each checker was called
    with, reason, error) is the same for any two types, for any two checkers,
    over any history. *)
Theorem glue_check_host_ignores_qtype {C1 C2 : Type} (sb : bytes -> C1 -> C1 * check_out)
    (pc : bytes -> C2 -> C2 * check_out) st q1 q2 spelled c1 c2 :
  glue_check_host sb pc st q1 spelled c1 c2 = glue_check_host sb pc st q2 spelled c1 c2.
Proof. reflexivity. Qed.

(** Two histories that differ only in the types of the questions. *)
Definition drop_qtype (req : settings * qtype * bytes) : settings * bytes := (fst (fst req), snd req).

Theorem glue_run_ignores_qtype {C1 C2 : Type} (sb : bytes -> C1 -> C1 * check_out)
    (pc : bytes -> C2 -> C2 * check_out) : forall reqs1 reqs2 c1 c2,
  map drop_qtype reqs1 = map drop_qtype reqs2 ->
  glue_run sb pc reqs1 c1 c2 = glue_run sb pc reqs2 c1 c2.
Proof.
  induction reqs1 as [|[[st q1] sp] r1 IH]; intros [|[[st' q2] sp'] r2] c1 c2 E; try discriminate; auto.
  cbn [map drop_qtype fst snd] in E. injection E as -> -> E.
  cbn [glue_run]. rewrite (glue_check_host_ignores_qtype sb pc st' q1 q2 sp' c1 c2).
  destruct (glue_check_host sb pc st' q2 sp' c1 c2) as [[c1' c2'] out]. f_equal. now apply IH.
Qed.

(** In the terms of the property: a listed name is blocked whatever the type
    of the question (A, AAAA, HTTPS, TXT, MX, CNAME, SRV, SVCB, NS, PTR, ANY,
    a private-use type, ...), by the service that lists it. *)
Corollary glue_listed_blocks_every_qtype sha pubsuf sfx1 sfx2 ct1 ct2 db1 db2 svc1 svc2 ord1 ord2 ev1 ev2
    now1 now2 st spelled c1 c2 :
  cache_inv db1 c1 -> cache_inv db2 c2 -> svc_ok db1 svc1 -> svc_ok db2 svc2 ->
  st_protection st = true -> st_safebrowsing st = true -> listed sha pubsuf db1 (lower spelled) ->
  forall qt : qtype,
  let out := snd (glue_check_host (check sha pubsuf sfx1 ct1 svc1 ord1 ev1 now1)
                                  (check sha pubsuf sfx2 ct2 svc2 ord2 ev2 now2) st qt spelled c1 c2) in
  g_err out = false -> g_reason out = RSafeBrowsing.
Proof.
  intros I1 I2 S1 S2 P E L qt out Er.
  now apply (glue_safebrowsing_iff_listed sha pubsuf sfx1 sfx2 ct1 ct2 db1 db2 svc1 svc2 ord1 ord2 ev1 ev2
               now1 now2 st qt spelled c1 c2).
Qed.

(** The variant of red-team change C19-L (the lookup only for A, AAAA and
    HTTPS questions): the same listed name, the same switches, the same
    service: blocked for an A question, and for a TXT question (16) not looked
    up at all; the code blocks it for both. *)
Theorem glue_address_types_only_refuted :
  exists sha pubsuf db st host (qt : qtype),
    st_protection st = true /\ st_safebrowsing st = true /\
    In host (names_to_hash pubsuf host) /\ In (sha host) db /\ Forall hash_wf db /\
    is_block_host_qtype qt = false /\
    let chk := check sha pubsuf GlueExamples.sfx (3600 * ns_sec)%Z (db_service db) [] [] 0%Z in
    g_reason (snd (glue_check_host chk chk st qt host [] [])) = RSafeBrowsing /\
    g_reason (snd (glue_check_host_with glue_calls_addr chk chk st 1%N host [] [])) = RSafeBrowsing /\
    g_reason (snd (glue_check_host_with glue_calls_addr chk chk st qt host [] [])) = RNotFiltered /\
    g_sb (snd (glue_check_host_with glue_calls_addr chk chk st qt host [] [])) = None.
Proof.
  exists GlueExamples.sha, GlueExamples.pubsuf, GlueExamples.db, GlueExamples.on, GlueExamples.intranet, 16%N.
  split; [reflexivity|]. split; [reflexivity|].
  split; [vm_compute; auto|]. split; [right; now left|].
  split; [apply glue_premises_satisfiable|]. split; [reflexivity|].
  cbn zeta. repeat split; vm_compute; reflexivity.
Qed.

(** The same short cut restricted to the ICANN section would be harmless:
    whenever nothing is enumerated the checker's answer is "not blocked"
    without a question; stated for the fresh Checker. *)
Lemma nothing_enumerated_nothing_asked sha pubsuf suffix ct svc order evs now host c :
  names_to_hash pubsuf host = [] ->
  check sha pubsuf suffix ct svc order evs now host c
  = (c, {| o_blocked := false; o_err := false; o_question := None; o_sets_left := length evs |}).
Proof.
  intros H. unfold check, hostname_to_hashes. rewrite H. reflexivity.
Qed.

(** * The privacy clause through the glue *)
From AGH Require Import Model.HashPrefixLRU Proofs.HashPrefixHist.

(** Whatever a Checker behind the glue sends is what [Check] of the
    lower-case name sends: by [question_exact] the prefixes of the enumerated
    names of that name without a valid entry, nothing else; in particular
    nothing derived from the spelling of the request. *)
Theorem glue_safebrowsing_question_exact {C2 : Type} sha pubsuf sfx ct svc ord ev now
    (pc : bytes -> C2 -> C2 * check_out) st qt spelled c1 c2 h o q :
  g_sb (snd (glue_check_host (check sha pubsuf sfx ct svc ord ev now) pc st qt spelled c1 c2)) = Some (h, o) ->
  o_question o = Some q ->
  h = lower spelled /\
  unanswered sha pubsuf now c1 (lower spelled) <> [] /\
  q = question sfx (unanswered sha pubsuf now c1 (lower spelled)).
Proof.
  intros G Q.
  pose proof (glue_sb_called (check sha pubsuf sfx ct svc ord ev now) pc st qt spelled c1 c2) as H.
  rewrite G in H. destruct H as (_ & _ & _ & -> & ->). split; auto.
  now apply (question_exact sha pubsuf sfx ct svc ord ev now).
Qed.

Theorem glue_parental_question_exact {C1 : Type} sha pubsuf sfx ct svc ord ev now
    (sb : bytes -> C1 -> C1 * check_out) st qt spelled c1 c2 h o q :
  g_pc (snd (glue_check_host sb (check sha pubsuf sfx ct svc ord ev now) st qt spelled c1 c2)) = Some (h, o) ->
  o_question o = Some q ->
  h = lower spelled /\
  unanswered sha pubsuf now c2 (lower spelled) <> [] /\
  q = question sfx (unanswered sha pubsuf now c2 (lower spelled)).
Proof.
  intros G Q.
  pose proof (glue_pc_called sb (check sha pubsuf sfx ct svc ord ev now) st qt spelled c1 c2) as H.
  cbn zeta in H. rewrite G in H. destruct H as (_ & _ & _ & -> & -> & _). split; auto.
  now apply (question_exact sha pubsuf sfx ct svc ord ev now).
Qed.

(** C16: specification and proofs about Model/ClientID.v. *)
From Coq Require Import List NArith Bool Arith Lia.
From AGH Require Import Base.Run Base.Bytes Base.Dom Base.PathClean Model.ClientID.
Import ListNotations.
Local Open Scope N_scope.

(** * Declarative vocabulary *)

(** [cli] is [x].[host] with [x] a single non-empty label. *)
Definition immediate_sub (cli host x : bytes) : Prop :=
  x <> [] /\ mem dot x = false /\ cli = x ++ dot :: host.

(** The cleaned path is /dns-query/[x] (or dns-query/[x] for a request whose
    path does not start with a slash), [x] a single element. *)
Definition path_id (p x : bytes) : Prop :=
  (clean p = slash :: dns_query ++ slash :: x \/ clean p = dns_query ++ slash :: x) /\
  mem slash x = false.

(** The cleaned path is /dns-query itself: no ClientID in the path. *)
Definition path_plain (p : bytes) : Prop :=
  clean p = slash :: dns_query \/ clean p = dns_query.

Definition secure (p : proto) : Prop := p = DoH \/ p = DoT \/ p = DoQ.

(** The server-name stage is reached: DoT, DoQ, or DoH without id in the path. *)
Definition reaches_sni (p : proto) (h : option doh_req) : Prop :=
  p = DoT \/ p = DoQ \/ (p = DoH /\ exists r, h = Some r /\ path_plain (d_path r)).

(** * The server-name route *)

Lemma firstn_sub_label (x host : bytes) :
  firstn (length (x ++ dot :: host) - length host - 1) (x ++ dot :: host) = x.
Proof.
  rewrite app_length. cbn [length].
  replace (length x + S (length host) - length host - 1)%nat with (length x + 0)%nat by lia.
  rewrite firstn_app_2. cbn. apply app_nil_r.
Qed.

Lemma immediate_sub_neq cli host x : immediate_sub cli host x -> cli <> host.
Proof.
  intros (_ & _ & ->) H. apply (f_equal (@length _)) in H. rewrite app_length in H. cbn in H. lia.
Qed.

Lemma immediate_sub_unique cli host x y :
  immediate_sub cli host x -> immediate_sub cli host y -> x = y.
Proof. intros (_ & _ & ->) (_ & _ & H). eapply subdomain_label_unique, H. Qed.

Lemma from_server_name_sound host cli strict id :
  from_server_name host cli strict = CidOk id -> id <> [] ->
  exists x, immediate_sub cli host x /\ valid_label x /\ id = lower x.
Proof.
  unfold from_server_name. destruct (eqb_bytes host cli); [intros [= <-]; congruence|].
  destruct (is_immediate_subdomain cli host) eqn:E; cbn [negb].
  2:{ destruct strict; [discriminate|intros [= <-]; congruence]. }
  apply is_immediate_subdomain_spec in E as (x & Hx & Hm & ->).
  rewrite firstn_sub_label.
  destruct (validate_hostname_label x) eqn:V; [discriminate|].
  intros [= <-] _. exists x. split; [repeat split; auto|].
  split; [apply validate_hostname_label_spec, V|reflexivity].
Qed.

Lemma from_server_name_sub host cli strict x :
  immediate_sub cli host x ->
  from_server_name host cli strict =
    match validate_hostname_label x with
    | Some e => CidErr (ESniLabel e)
    | None => CidOk (lower x)
    end.
Proof.
  intros Hs. pose proof (immediate_sub_neq _ _ _ Hs) as Hne.
  unfold from_server_name.
  assert (eqb_bytes host cli = false) as -> by (apply eqb_bytes_neq; congruence).
  assert (is_immediate_subdomain cli host = true) as ->.
  { apply is_immediate_subdomain_spec. exists x. exact Hs. }
  cbn [negb]. destruct Hs as (_ & _ & ->). rewrite firstn_sub_label. reflexivity.
Qed.

Lemma from_server_name_outside host cli strict :
  cli <> host -> (forall x, ~ immediate_sub cli host x) ->
  from_server_name host cli strict = if strict then CidErr EMismatch else CidOk [].
Proof.
  intros Hne Hno. unfold from_server_name.
  assert (eqb_bytes host cli = false) as -> by (apply eqb_bytes_neq; congruence).
  destruct (is_immediate_subdomain cli host) eqn:E; [|reflexivity].
  apply is_immediate_subdomain_spec in E as (x & Hx). exfalso. apply (Hno x). exact Hx.
Qed.

(** * The path route *)

Lemma dns_query_no_slash : mem slash dns_query = false.
Proof. reflexivity. Qed.

Lemma dns_query_valid : validate_hostname_label dns_query = None.
Proof. reflexivity. Qed.

Lemma from_doh_path_sound p id :
  from_doh_path p = CidOk id -> id <> [] ->
  exists x, path_id p x /\ valid_label x /\ id = lower x.
Proof.
  unfold from_doh_path, path_id.
  pose proof (join_split slash (clean p)) as Hj.
  pose proof (split_no_sep slash (clean p)) as Hn.
  destruct (split slash (clean p)) as [|s0 r0] eqn:Es; [intros [=]|].
  assert (Hgen : forall pre parts,
    clean p = pre ++ join slash parts -> Forall (fun x => mem slash x = false) parts ->
    match parts with
    | [] => CidErr EPathShape
    | p0 :: r =>
        if negb (eqb_bytes p0 dns_query) then CidErr EPathShape
        else match r with
             | [] => CidOk []
             | [id] => match validate_hostname_label id with
                       | Some e => CidErr (EPathLabel e)
                       | None => CidOk (lower id)
                       end
             | _ :: _ :: _ => CidErr EPathExtra
             end
    end = CidOk id -> id <> [] ->
    exists x, (clean p = pre ++ dns_query ++ slash :: x) /\ mem slash x = false /\
              valid_label x /\ id = lower x).
  { intros pre parts Hc Hf. destruct parts as [|p0 r]; [discriminate|].
    destruct (eqb_bytes p0 dns_query) eqn:E0; cbn [negb]; [|discriminate].
    apply eqb_bytes_eq in E0. subst p0.
    destruct r as [|x [|y r]]; [intros [= <-]; congruence| |discriminate].
    destruct (validate_hostname_label x) eqn:V; [discriminate|]. intros [= <-] _.
    exists x. inversion Hf as [|? ? _ Hf']; subst. inversion Hf' as [|? ? Hx _]; subst.
    split; [exact Hc|]. split; [exact Hx|]. split; [apply validate_hostname_label_spec, V|reflexivity]. }
  destruct s0 as [|c s0].
  - (* rooted: first element empty, dropped *)
    intros H1 H2. inversion Hn as [|? ? _ Hn']; subst.
    destruct r0 as [|p0 r].
    + discriminate.
    + destruct (Hgen [slash] (p0 :: r)) as (x & Hx & Hm & Hv & Hl); auto.
      exists x. split; [split; [left; exact Hx|exact Hm]|split; assumption].
  - intros H1 H2.
    destruct (Hgen [] ((c :: s0) :: r0)) as (x & Hx & Hm & Hv & Hl); auto.
    exists x. split; [split; [right; exact Hx|exact Hm]|split; assumption].
Qed.

Lemma split_path_id x :
  mem slash x = false ->
  split slash (dns_query ++ slash :: x) = [dns_query; x].
Proof.
  intros Hx. rewrite split_app_sep by apply dns_query_no_slash. rewrite split_nosep by exact Hx.
  reflexivity.
Qed.

Lemma from_doh_path_id p x :
  path_id p x ->
  from_doh_path p =
    match validate_hostname_label x with
    | Some e => CidErr (EPathLabel e)
    | None => CidOk (lower x)
    end.
Proof.
  intros [[Hc|Hc] Hm]; unfold from_doh_path; rewrite Hc.
  - cbn [split]. unfold slash at 1. rewrite N.eqb_refl. rewrite (split_path_id x Hm).
    cbv beta iota zeta. rewrite eqb_bytes_refl. reflexivity.
  - rewrite (split_path_id x Hm). cbv beta iota zeta.
    replace (match dns_query with [] => [x] | _ :: _ => [dns_query; x] end) with [dns_query; x]
      by reflexivity.
    rewrite eqb_bytes_refl. reflexivity.
Qed.

Lemma from_doh_path_plain p : path_plain p -> from_doh_path p = CidOk [].
Proof. intros [Hc|Hc]; unfold from_doh_path; rewrite Hc; reflexivity. Qed.

(** * Main theorems *)

(** Lower-casing a valid label gives a valid, lower-case label. *)
Lemma lower_valid x : valid_label x -> valid_label (lower x) /\ lower (lower x) = lower x.
Proof. intros H. split; [apply valid_label_lower, H|apply lower_idem]. Qed.

Theorem sound p host strict sni h id :
  client_id_of p host strict sni h = CidOk id -> id <> [] ->
  secure p /\ valid_label id /\ lower id = id /\
  ((p = DoH /\ exists r x, h = Some r /\ path_id (d_path r) x /\ valid_label x /\ id = lower x) \/
   (reaches_sni p h /\ host <> [] /\
    exists cli x, server_name_of p sni h = inr cli /\ immediate_sub cli host x /\
                  valid_label x /\ id = lower x)).
Proof.
  intros H Hid.
  assert (Hsni : sni_stage p host strict sni h = CidOk id ->
                 host <> [] /\ exists cli x, server_name_of p sni h = inr cli /\
                   immediate_sub cli host x /\ valid_label x /\ id = lower x).
  { unfold sni_stage. destruct host as [|c host]; [intros [= <-]; congruence|].
    destruct (server_name_of p sni h) as [e|cli]; [discriminate|]. intros Hf.
    destruct (from_server_name_sound _ _ _ _ Hf Hid) as (x & H1 & H2 & H3).
    split; [discriminate|]. exists cli, x. auto. }
  assert (Hfin : forall x, valid_label x -> id = lower x -> valid_label id /\ lower id = id).
  { intros x Hv ->. apply lower_valid, Hv. }
  assert (Hpack : forall cli x, reaches_sni p h -> host <> [] -> secure p ->
            server_name_of p sni h = inr cli -> immediate_sub cli host x ->
            valid_label x -> id = lower x ->
            secure p /\ valid_label id /\ lower id = id /\
            ((p = DoH /\ exists r x, h = Some r /\ path_id (d_path r) x /\ valid_label x /\ id = lower x) \/
             (reaches_sni p h /\ host <> [] /\
              exists cli x, server_name_of p sni h = inr cli /\ immediate_sub cli host x /\
                            valid_label x /\ id = lower x))).
  { intros cli x Hr Hh Hsec H1 H2 H3 H4. destruct (Hfin x H3 H4) as [Hv Hl].
    split; [exact Hsec|]. split; [exact Hv|]. split; [exact Hl|].
    right. split; [exact Hr|]. split; [exact Hh|]. exists cli, x. auto. }
  destruct p; cbn in H; try (injection H as <-; congruence).
  - (* DoT *) destruct (Hsni H) as (Hh & cli & x & H1 & H2 & H3 & H4).
    apply (Hpack cli x); unfold reaches_sni, secure; auto.
  - (* DoQ *) destruct (Hsni H) as (Hh & cli & x & H1 & H2 & H3 & H4).
    apply (Hpack cli x); unfold reaches_sni, secure; auto.
  - (* DoH *) destruct h as [r|]; [|discriminate].
    destruct (from_doh_path (d_path r)) as [pid|e] eqn:Ep; [|discriminate].
    destruct pid as [|c pid].
    + destruct (Hsni H) as (Hh & cli & x & H1 & H2 & H3 & H4).
      apply (Hpack cli x); unfold secure; auto.
      right. right. split; auto. exists r. split; auto.
      (* the path had no id: it is /dns-query *)
      clear - Ep. unfold from_doh_path, path_plain in *.
      pose proof (join_split slash (clean (d_path r))) as Hj.
      destruct (split slash (clean (d_path r))) as [|s0 r0]; [discriminate|].
      destruct s0 as [|c s0].
      * destruct r0 as [|p0 r1]; [discriminate|].
        destruct (eqb_bytes p0 dns_query) eqn:E0; cbn [negb] in Ep; [|discriminate].
        apply eqb_bytes_eq in E0. subst.
        destruct r1 as [|x [|y r2]]; [left; rewrite <- Hj; reflexivity| |discriminate].
        destruct (validate_hostname_label x) eqn:V; [discriminate|].
        injection Ep as Ep. destruct x; [discriminate V|discriminate Ep].
      * destruct (eqb_bytes (c :: s0) dns_query) eqn:E0; cbn [negb] in Ep; [|discriminate].
        apply eqb_bytes_eq in E0. rewrite E0 in *.
        destruct r0 as [|x [|y r2]]; [right; rewrite <- Hj; reflexivity| |discriminate].
        destruct (validate_hostname_label x) eqn:V; [discriminate|].
        injection Ep as Ep. destruct x; [discriminate V|discriminate Ep].
    + injection H as <-.
      destruct (from_doh_path_sound _ _ Ep) as (x & H1 & H2 & H3); [discriminate|].
      destruct (Hfin x H2 H3) as [Hv Hl].
      split; [unfold secure; auto|]. split; [exact Hv|]. split; [exact Hl|].
      left. split; auto. exists r, x. auto.
Qed.

(** An invalid label where a ClientID is expected fails the request. *)
Theorem invalid_path_fails host strict sni r x :
  path_id (d_path r) x -> ~ valid_label x ->
  exists e, client_id_of DoH host strict sni (Some r) = CidErr (EPathLabel e).
Proof.
  intros Hp Hv. cbn. rewrite (from_doh_path_id _ _ Hp).
  destruct (validate_hostname_label x) eqn:V; [eauto|].
  apply validate_hostname_label_spec in V. contradiction.
Qed.

Lemma sni_stage_reached p host strict sni h :
  reaches_sni p h -> client_id_of p host strict sni h = sni_stage p host strict sni h.
Proof.
  intros [->|[->|(-> & r & -> & Hp)]]; try reflexivity.
  cbn. rewrite (from_doh_path_plain _ Hp). reflexivity.
Qed.

Theorem invalid_sni_fails p host strict sni h cli x :
  reaches_sni p h -> host <> [] -> server_name_of p sni h = inr cli ->
  immediate_sub cli host x -> ~ valid_label x ->
  exists e, client_id_of p host strict sni h = CidErr (ESniLabel e).
Proof.
  intros Hr Hh Hs Hi Hv. rewrite (sni_stage_reached _ _ _ _ _ Hr). unfold sni_stage.
  destruct host as [|c host]; [congruence|]. rewrite Hs.
  rewrite (from_server_name_sub _ _ _ _ Hi).
  destruct (validate_hostname_label x) eqn:V; [eauto|].
  apply validate_hostname_label_spec in V. contradiction.
Qed.

(** The positive direction: a valid label is attributed (lower-cased). *)
Theorem valid_path_attributed host strict sni r x :
  path_id (d_path r) x -> valid_label x ->
  client_id_of DoH host strict sni (Some r) = CidOk (lower x).
Proof.
  intros Hp Hv. cbn. rewrite (from_doh_path_id _ _ Hp).
  apply validate_hostname_label_spec in Hv. rewrite Hv.
  destruct x as [|c x]; [discriminate Hv|reflexivity].
Qed.

Theorem valid_sni_attributed p host strict sni h cli x :
  reaches_sni p h -> host <> [] -> server_name_of p sni h = inr cli ->
  immediate_sub cli host x -> valid_label x ->
  client_id_of p host strict sni h = CidOk (lower x).
Proof.
  intros Hr Hh Hs Hi Hv. rewrite (sni_stage_reached _ _ _ _ _ Hr). unfold sni_stage.
  destruct host as [|c host]; [congruence|]. rewrite Hs.
  rewrite (from_server_name_sub _ _ _ _ Hi).
  apply validate_hostname_label_spec in Hv. rewrite Hv. reflexivity.
Qed.

Theorem plain_none host strict sni h :
  client_id_of UDP host strict sni h = CidOk [] /\
  client_id_of TCP host strict sni h = CidOk [] /\
  client_id_of DNSCrypt host strict sni h = CidOk [].
Proof. repeat split. Qed.

(** Strict checking: a name that is neither the configured one nor an
    immediate subdomain of it is rejected. *)
Theorem strict_rejects p host sni h cli :
  reaches_sni p h -> host <> [] -> server_name_of p sni h = inr cli ->
  cli <> host -> (forall x, ~ immediate_sub cli host x) ->
  client_id_of p host true sni h = CidErr EMismatch.
Proof.
  intros Hr Hh Hs Hne Hno. rewrite (sni_stage_reached _ _ _ _ _ Hr). unfold sni_stage.
  destruct host as [|c host]; [congruence|]. rewrite Hs.
  apply (from_server_name_outside _ _ true Hne Hno).
Qed.

(** Lookalikes. *)
Definition lookalike (cli host : bytes) : Prop :=
  (* suffix without a dot boundary: evil-example.com, xexample.com *)
  (exists pre, pre <> [] /\ last pre 0 <> dot /\ cli = pre ++ host) \/
  (* deeper subdomain: x.y.example.com *)
  (exists x y, cli = x ++ dot :: y ++ dot :: host) \/
  (* the configured name as a prefix or in the middle: example.com.evil.net *)
  (exists a b, b <> [] /\ cli = a ++ host ++ b /\ has_suffix (dot :: host) cli = false).

Lemma lookalike_outside cli host :
  lookalike cli host -> cli <> host /\ forall x, ~ immediate_sub cli host x.
Proof.
  intros [(pre & Hp & Hl & ->)|[(x & y & ->)|(a & b & Hb & -> & Hs)]].
  - split.
    + intros H. apply (f_equal (@length _)) in H. rewrite app_length in H.
      destruct pre; [congruence|cbn in H; lia].
    + intros x (Hx & Hm & H).
      change (dot :: host) with ([dot] ++ host) in H. rewrite app_assoc in H.
      apply app_inv_tail in H. subst pre. rewrite last_last in Hl. congruence.
  - split.
    + intros H. apply (f_equal (@length _)) in H. rewrite app_length in H. cbn in H.
      rewrite app_length in H. cbn in H. lia.
    + intros z (Hz & Hm & H).
      replace (x ++ dot :: y ++ dot :: host) with ((x ++ dot :: y) ++ dot :: host) in H
        by (rewrite <- app_assoc; reflexivity).
      apply subdomain_label_unique in H. subst z. rewrite mem_app in Hm. cbn in Hm.
      rewrite orb_true_r in Hm. discriminate.
  - split.
    + intros H. apply (f_equal (@length _)) in H. rewrite !app_length in H.
      destruct b; [congruence|cbn in H; lia].
    + intros x (Hx & Hm & H). rewrite H in Hs.
      assert (has_suffix (dot :: host) (x ++ dot :: host) = true)
        by (apply has_suffix_spec; eauto).
      congruence.
Qed.

Theorem lookalike_no_id p host strict sni h cli id :
  reaches_sni p h -> host <> [] -> server_name_of p sni h = inr cli ->
  lookalike cli host ->
  client_id_of p host strict sni h = (if strict then CidErr EMismatch else CidOk []) /\
  (client_id_of p host strict sni h = CidOk id -> id = []).
Proof.
  intros Hr Hh Hs Hl. destruct (lookalike_outside _ _ Hl) as [Hne Hno].
  assert (E : client_id_of p host strict sni h = if strict then CidErr EMismatch else CidOk []).
  { rewrite (sni_stage_reached _ _ _ _ _ Hr). unfold sni_stage.
    destruct host as [|c host]; [congruence|]. rewrite Hs.
    apply from_server_name_outside; auto. }
  split; [exact E|]. rewrite E. destruct strict; [discriminate|intros [= <-]; reflexivity].
Qed.

(** The Host header is used without its port; when the request carries a TLS
    state, its server name wins over the Host header. *)
Lemma shp_nonbracket hp i c0 tl :
  hp = c0 :: tl -> (c0 =? lbr) = false -> last_index_byte colon hp = Some i ->
  split_host_port hp =
    if mem colon (firstn i hp) then ShpOther
    else if mem lbr hp then ShpOther
    else if mem rbr hp then ShpOther
    else ShpOk (firstn i hp) (skipn (i + 1) hp).
Proof. intros -> Hc Hi. unfold split_host_port. rewrite Hi, Hc. reflexivity. Qed.

Lemma host_port_stripped name port :
  name <> [] -> mem colon name = false -> mem lbr name = false -> mem rbr name = false ->
  mem colon port = false -> mem lbr port = false -> mem rbr port = false ->
  split_host (name ++ colon :: port) = Some name.
Proof.
  intros Hn H1 H2 H3 H4 H5 H6. unfold split_host.
  destruct name as [|c0 name'] eqn:En; [congruence|]. rewrite <- En in *.
  assert (Hc0 : (c0 =? lbr) = false).
  { apply N.eqb_neq. intros ->. rewrite En in H2. cbn in H2. discriminate. }
  rewrite (shp_nonbracket _ (length name) c0 (name' ++ colon :: port));
    [|rewrite En; reflexivity|exact Hc0|apply last_index_byte_app_last, H4].
  rewrite firstn_app, Nat.sub_diag, firstn_all. cbn [firstn]. rewrite app_nil_r.
  rewrite H1. rewrite !mem_app. unfold mem at 2 4. cbn [existsb].
  fold (mem lbr port). fold (mem rbr port).
  rewrite H2, H3, H5, H6. reflexivity.
Qed.

Lemma tls_name_wins r n : d_tls_sni r = Some n -> server_name_from_http r = inr n.
Proof. unfold server_name_from_http. intros ->. reflexivity. Qed.

(** * The premises are satisfiable (concrete, computed) *)

Definition ex_host : bytes := [101;120;97;109;112;108;101;46;99;111;109].          (* example.com *)
Definition ex_cli : bytes := [77;121;80;46] ++ ex_host.                              (* MyP.example.com *)
Definition ex_bad : bytes := [45;120;46] ++ ex_host.                                 (* -x.example.com *)
Definition ex_evil : bytes := [101;118;105;108;45] ++ ex_host.                       (* evil-example.com *)
Definition ex_path : bytes := [47;120;47;46;46;47;47] ++ dns_query ++ [47;77;121;80;47].  (* /x/..//dns-query/MyP/ *)
Definition ex_req p := {| d_path := p; d_tls_sni := None; d_host_hdr := ex_cli ++ [58;52;52;51] |}.

Example ex_sound_sni :
  client_id_of DoT ex_host true (Some ex_cli) None = CidOk [109;121;112].
Proof. reflexivity. Qed.
Example ex_sound_path :
  client_id_of DoH ex_host true None (Some (ex_req ex_path)) = CidOk [109;121;112].
Proof. reflexivity. Qed.
Example ex_sound_host_hdr :
  client_id_of DoH ex_host true None (Some (ex_req (slash :: dns_query))) = CidOk [109;121;112].
Proof. reflexivity. Qed.
Example ex_immediate_sub : immediate_sub ex_cli ex_host [77;121;80].
Proof. repeat split. discriminate. Qed.
Example ex_path_id : path_id ex_path [77;121;80].
Proof. split; [left|]; reflexivity. Qed.
Example ex_invalid : immediate_sub ex_bad ex_host [45;120] /\ ~ valid_label [45;120].
Proof.
  split; [repeat split; discriminate|]. rewrite <- validate_hostname_label_spec. discriminate.
Qed.
Example ex_invalid_fails :
  client_id_of DoQ ex_host false (Some ex_bad) None = CidErr (ESniLabel LBadRune).
Proof. reflexivity. Qed.
Example ex_lookalike : lookalike ex_evil ex_host.
Proof. left. exists [101;118;105;108;45]. repeat split; discriminate. Qed.
Example ex_strict :
  client_id_of DoT ex_host true (Some ex_evil) None = CidErr EMismatch /\
  client_id_of DoT ex_host false (Some ex_evil) None = CidOk [].
Proof. split; reflexivity. Qed.

(** C16: specification and proofs about Model/ClientID.v. *)
From Coq Require Import List NArith Bool Arith Lia.
From AGH Require Import Base.Run Base.Bytes Base.Dom Base.PathClean Model.GoLower Proofs.GoLower Model.ClientID.
Import ListNotations.
Local Open Scope N_scope.

(** * Declarative vocabulary *)

(** [cli] is [x].[host] with [x] a single non-empty label. *)
Definition immediate_sub (cli host x : bytes) : Prop :=
  x <> [] /\ mem dot x = false /\ cli = x ++ dot :: host.

(** The cleaned path is /dns-query/[x] (or dns-query/[x] for a request whose
    path does not start with a slash), [x] a single element. *)
Definition path_id (p x : bytes) : Prop :=
  (clean p = slash :: dns_query ++ slash :: x \/ clean p = dns_query ++ slash :: x) /\
  mem slash x = false.

(** The cleaned path is /dns-query itself: no ClientID in the path. *)
Definition path_plain (p : bytes) : Prop :=
  clean p = slash :: dns_query \/ clean p = dns_query.

Definition secure (p : proto) : Prop := p = DoH \/ p = DoT \/ p = DoQ.

(** The server-name stage is reached: DoT, DoQ, or DoH without id in the path. *)
Definition reaches_sni (p : proto) (h : option doh_req) : Prop :=
  p = DoT \/ p = DoQ \/ (p = DoH /\ exists r, h = Some r /\ path_plain (d_path r)).

(** * The server-name route *)

Lemma firstn_sub_label (x host : bytes) :
  firstn (length (x ++ dot :: host) - length host - 1) (x ++ dot :: host) = x.
Proof.
  rewrite app_length. cbn [length].
  replace (length x + S (length host) - length host - 1)%nat with (length x + 0)%nat by lia.
  rewrite firstn_app_2. cbn. apply app_nil_r.
Qed.

Lemma immediate_sub_neq cli host x : immediate_sub cli host x -> cli <> host.
Proof.
  intros (_ & _ & ->) H. apply (f_equal (@length _)) in H. rewrite app_length in H. cbn in H. lia.
Qed.

Lemma immediate_sub_unique cli host x y :
  immediate_sub cli host x -> immediate_sub cli host y -> x = y.
Proof. intros (_ & _ & ->) (_ & _ & H). eapply subdomain_label_unique, H. Qed.

Lemma from_server_name_sound host cli strict id :
  from_server_name host cli strict = CidOk id -> id <> [] ->
  exists x, immediate_sub cli host x /\ valid_label x /\ id = lower x.
Proof.
  unfold from_server_name. destruct (eqb_bytes host cli); [intros [= <-]; congruence|].
  destruct (is_immediate_subdomain cli host) eqn:E; cbn [negb].
  2:{ destruct strict; [discriminate|intros [= <-]; congruence]. }
  apply is_immediate_subdomain_spec in E as (x & Hx & Hm & ->).
  rewrite firstn_sub_label.
  destruct (validate_hostname_label x) eqn:V; [discriminate|].
  intros [= <-] _. exists x. split; [repeat split; auto|].
  split; [apply validate_hostname_label_spec, V|apply go_to_lower_validated, V].
Qed.

Lemma from_server_name_sub host cli strict x :
  immediate_sub cli host x ->
  from_server_name host cli strict =
    match validate_hostname_label x with
    | Some e => CidErr (ESniLabel e)
    | None => CidOk (lower x)
    end.
Proof.
  intros Hs. pose proof (immediate_sub_neq _ _ _ Hs) as Hne.
  unfold from_server_name.
  assert (eqb_bytes host cli = false) as -> by (apply eqb_bytes_neq; congruence).
  assert (is_immediate_subdomain cli host = true) as ->.
  { apply is_immediate_subdomain_spec. exists x. exact Hs. }
  cbn [negb]. destruct Hs as (_ & _ & ->). rewrite firstn_sub_label.
  destruct (validate_hostname_label x) eqn:V; [reflexivity|].
  rewrite (go_to_lower_validated _ V). reflexivity.
Qed.

Lemma from_server_name_outside host cli strict :
  cli <> host -> (forall x, ~ immediate_sub cli host x) ->
  from_server_name host cli strict = if strict then CidErr EMismatch else CidOk [].
Proof.
  intros Hne Hno. unfold from_server_name.
  assert (eqb_bytes host cli = false) as -> by (apply eqb_bytes_neq; congruence).
  destruct (is_immediate_subdomain cli host) eqn:E; [|reflexivity].
  apply is_immediate_subdomain_spec in E as (x & Hx). exfalso. apply (Hno x). exact Hx.
Qed.

(** * The path route *)

Lemma dns_query_no_slash : mem slash dns_query = false.
Proof. reflexivity. Qed.

Lemma dns_query_valid : validate_hostname_label dns_query = None.
Proof. reflexivity. Qed.

Lemma from_doh_path_sound p id :
  from_doh_path p = CidOk id -> id <> [] ->
  exists x, path_id p x /\ valid_label x /\ id = lower x.
Proof.
  unfold from_doh_path, path_id.
  pose proof (join_split slash (clean p)) as Hj.
  pose proof (split_no_sep slash (clean p)) as Hn.
  destruct (split slash (clean p)) as [|s0 r0] eqn:Es; [intros [=]|].
  assert (Hgen : forall pre parts,
    clean p = pre ++ join slash parts -> Forall (fun x => mem slash x = false) parts ->
    match parts with
    | [] => CidErr EPathShape
    | p0 :: r =>
        if negb (eqb_bytes p0 dns_query) then CidErr EPathShape
        else match r with
             | [] => CidOk []
             | [id] => match validate_hostname_label id with
                       | Some e => CidErr (EPathLabel e)
                       | None => CidOk (go_to_lower id)
                       end
             | _ :: _ :: _ => CidErr EPathExtra
             end
    end = CidOk id -> id <> [] ->
    exists x, (clean p = pre ++ dns_query ++ slash :: x) /\ mem slash x = false /\
              valid_label x /\ id = lower x).
  { intros pre parts Hc Hf. destruct parts as [|p0 r]; [discriminate|].
    destruct (eqb_bytes p0 dns_query) eqn:E0; cbn [negb]; [|discriminate].
    apply eqb_bytes_eq in E0. subst p0.
    destruct r as [|x [|y r]]; [intros [= <-]; congruence| |discriminate].
    destruct (validate_hostname_label x) eqn:V; [discriminate|]. intros [= <-] _.
    exists x. inversion Hf as [|? ? _ Hf']; subst. inversion Hf' as [|? ? Hx _]; subst.
    split; [exact Hc|]. split; [exact Hx|].
    split; [apply validate_hostname_label_spec, V|apply go_to_lower_validated, V]. }
  destruct s0 as [|c s0].
  - (* rooted: first element empty, dropped *)
    intros H1 H2. inversion Hn as [|? ? _ Hn']; subst.
    destruct r0 as [|p0 r].
    + discriminate.
    + destruct (Hgen [slash] (p0 :: r)) as (x & Hx & Hm & Hv & Hl); auto.
      exists x. split; [split; [left; exact Hx|exact Hm]|split; assumption].
  - intros H1 H2.
    destruct (Hgen [] ((c :: s0) :: r0)) as (x & Hx & Hm & Hv & Hl); auto.
    exists x. split; [split; [right; exact Hx|exact Hm]|split; assumption].
Qed.

Lemma split_path_id x :
  mem slash x = false ->
  split slash (dns_query ++ slash :: x) = [dns_query; x].
Proof.
  intros Hx. rewrite split_app_sep by apply dns_query_no_slash. rewrite split_nosep by exact Hx.
  reflexivity.
Qed.

Lemma from_doh_path_id p x :
  path_id p x ->
  from_doh_path p =
    match validate_hostname_label x with
    | Some e => CidErr (EPathLabel e)
    | None => CidOk (lower x)
    end.
Proof.
  assert (Hl : match validate_hostname_label x with
               | Some e => CidErr (EPathLabel e)
               | None => CidOk (go_to_lower x)
               end =
               match validate_hostname_label x with
               | Some e => CidErr (EPathLabel e)
               | None => CidOk (lower x)
               end).
  { destruct (validate_hostname_label x) eqn:V; [reflexivity|].
    rewrite (go_to_lower_validated _ V). reflexivity. }
  intros [[Hc|Hc] Hm]; unfold from_doh_path; rewrite Hc.
  - cbn [split]. unfold slash at 1. rewrite N.eqb_refl. rewrite (split_path_id x Hm).
    cbv beta iota zeta. rewrite eqb_bytes_refl. exact Hl.
  - rewrite (split_path_id x Hm). cbv beta iota zeta.
    replace (match dns_query with [] => [x] | _ :: _ => [dns_query; x] end) with [dns_query; x]
      by reflexivity.
    rewrite eqb_bytes_refl. exact Hl.
Qed.

Lemma from_doh_path_plain p : path_plain p -> from_doh_path p = CidOk [].
Proof. intros [Hc|Hc]; unfold from_doh_path; rewrite Hc; reflexivity. Qed.

(** * Main theorems *)

(** Lower-casing a valid label gives a valid, lower-case label. *)
Lemma lower_valid x : valid_label x -> valid_label (lower x) /\ lower (lower x) = lower x.
Proof. intros H. split; [apply valid_label_lower, H|apply lower_idem]. Qed.

Theorem sound p host strict sni h id :
  client_id_of p host strict sni h = CidOk id -> id <> [] ->
  secure p /\ valid_label id /\ lower id = id /\
  ((p = DoH /\ exists r x, h = Some r /\ path_id (d_path r) x /\ valid_label x /\ id = lower x) \/
   (reaches_sni p h /\ host <> [] /\
    exists cli x, server_name_of p sni h = inr cli /\ immediate_sub cli host x /\
                  valid_label x /\ id = lower x)).
Proof.
  intros H Hid.
  assert (Hsni : sni_stage p host strict sni h = CidOk id ->
                 host <> [] /\ exists cli x, server_name_of p sni h = inr cli /\
                   immediate_sub cli host x /\ valid_label x /\ id = lower x).
  { unfold sni_stage. destruct host as [|c host]; [intros [= <-]; congruence|].
    destruct (server_name_of p sni h) as [e|cli]; [discriminate|]. intros Hf.
    destruct (from_server_name_sound _ _ _ _ Hf Hid) as (x & H1 & H2 & H3).
    split; [discriminate|]. exists cli, x. auto. }
  assert (Hfin : forall x, valid_label x -> id = lower x -> valid_label id /\ lower id = id).
  { intros x Hv ->. apply lower_valid, Hv. }
  assert (Hpack : forall cli x, reaches_sni p h -> host <> [] -> secure p ->
            server_name_of p sni h = inr cli -> immediate_sub cli host x ->
            valid_label x -> id = lower x ->
            secure p /\ valid_label id /\ lower id = id /\
            ((p = DoH /\ exists r x, h = Some r /\ path_id (d_path r) x /\ valid_label x /\ id = lower x) \/
             (reaches_sni p h /\ host <> [] /\
              exists cli x, server_name_of p sni h = inr cli /\ immediate_sub cli host x /\
                            valid_label x /\ id = lower x))).
  { intros cli x Hr Hh Hsec H1 H2 H3 H4. destruct (Hfin x H3 H4) as [Hv Hl].
    split; [exact Hsec|]. split; [exact Hv|]. split; [exact Hl|].
    right. split; [exact Hr|]. split; [exact Hh|]. exists cli, x. auto. }
  destruct p; cbn in H; try (injection H as <-; congruence).
  - (* DoT *) destruct (Hsni H) as (Hh & cli & x & H1 & H2 & H3 & H4).
    apply (Hpack cli x); unfold reaches_sni, secure; auto.
  - (* DoQ *) destruct (Hsni H) as (Hh & cli & x & H1 & H2 & H3 & H4).
    apply (Hpack cli x); unfold reaches_sni, secure; auto.
  - (* DoH *) destruct h as [r|]; [|discriminate].
    destruct (from_doh_path (d_path r)) as [pid|e] eqn:Ep; [|discriminate].
    destruct pid as [|c pid].
    + destruct (Hsni H) as (Hh & cli & x & H1 & H2 & H3 & H4).
      apply (Hpack cli x); unfold secure; auto.
      right. right. split; auto. exists r. split; auto.
      (* the path had no id: it is /dns-query *)
      clear - Ep. unfold from_doh_path, path_plain in *.
      pose proof (join_split slash (clean (d_path r))) as Hj.
      destruct (split slash (clean (d_path r))) as [|s0 r0]; [discriminate|].
      destruct s0 as [|c s0].
      * destruct r0 as [|p0 r1]; [discriminate|].
        destruct (eqb_bytes p0 dns_query) eqn:E0; cbn [negb] in Ep; [|discriminate].
        apply eqb_bytes_eq in E0. subst.
        destruct r1 as [|x [|y r2]]; [left; rewrite <- Hj; reflexivity| |discriminate].
        destruct (validate_hostname_label x) eqn:V; [discriminate|].
        injection Ep as Ep. rewrite (go_to_lower_validated _ V) in Ep.
        destruct x; [discriminate V|discriminate Ep].
      * destruct (eqb_bytes (c :: s0) dns_query) eqn:E0; cbn [negb] in Ep; [|discriminate].
        apply eqb_bytes_eq in E0. rewrite E0 in *.
        destruct r0 as [|x [|y r2]]; [right; rewrite <- Hj; reflexivity| |discriminate].
        destruct (validate_hostname_label x) eqn:V; [discriminate|].
        injection Ep as Ep. rewrite (go_to_lower_validated _ V) in Ep.
        destruct x; [discriminate V|discriminate Ep].
    + injection H as <-.
      destruct (from_doh_path_sound _ _ Ep) as (x & H1 & H2 & H3); [discriminate|].
      destruct (Hfin x H2 H3) as [Hv Hl].
      split; [unfold secure; auto|]. split; [exact Hv|]. split; [exact Hl|].
      left. split; auto. exists r, x. auto.
Qed.

(** An invalid label where a ClientID is expected fails the request. *)
Theorem invalid_path_fails host strict sni r x :
  path_id (d_path r) x -> ~ valid_label x ->
  exists e, client_id_of DoH host strict sni (Some r) = CidErr (EPathLabel e).
Proof.
  intros Hp Hv. cbn. rewrite (from_doh_path_id _ _ Hp).
  destruct (validate_hostname_label x) eqn:V; [eauto|].
  apply validate_hostname_label_spec in V. contradiction.
Qed.

Lemma sni_stage_reached p host strict sni h :
  reaches_sni p h -> client_id_of p host strict sni h = sni_stage p host strict sni h.
Proof.
  intros [->|[->|(-> & r & -> & Hp)]]; try reflexivity.
  cbn. rewrite (from_doh_path_plain _ Hp). reflexivity.
Qed.

Theorem invalid_sni_fails p host strict sni h cli x :
  reaches_sni p h -> host <> [] -> server_name_of p sni h = inr cli ->
  immediate_sub cli host x -> ~ valid_label x ->
  exists e, client_id_of p host strict sni h = CidErr (ESniLabel e).
Proof.
  intros Hr Hh Hs Hi Hv. rewrite (sni_stage_reached _ _ _ _ _ Hr). unfold sni_stage.
  destruct host as [|c host]; [congruence|]. rewrite Hs.
  rewrite (from_server_name_sub _ _ _ _ Hi).
  destruct (validate_hostname_label x) eqn:V; [eauto|].
  apply validate_hostname_label_spec in V. contradiction.
Qed.

(** The positive direction: a valid label is attributed (lower-cased). *)
Theorem valid_path_attributed host strict sni r x :
  path_id (d_path r) x -> valid_label x ->
  client_id_of DoH host strict sni (Some r) = CidOk (lower x).
Proof.
  intros Hp Hv. cbn. rewrite (from_doh_path_id _ _ Hp).
  apply validate_hostname_label_spec in Hv. rewrite Hv.
  destruct x as [|c x]; [discriminate Hv|reflexivity].
Qed.

Theorem valid_sni_attributed p host strict sni h cli x :
  reaches_sni p h -> host <> [] -> server_name_of p sni h = inr cli ->
  immediate_sub cli host x -> valid_label x ->
  client_id_of p host strict sni h = CidOk (lower x).
Proof.
  intros Hr Hh Hs Hi Hv. rewrite (sni_stage_reached _ _ _ _ _ Hr). unfold sni_stage.
  destruct host as [|c host]; [congruence|]. rewrite Hs.
  rewrite (from_server_name_sub _ _ _ _ Hi).
  apply validate_hostname_label_spec in Hv. rewrite Hv. reflexivity.
Qed.

Theorem plain_none host strict sni h :
  client_id_of UDP host strict sni h = CidOk [] /\
  client_id_of TCP host strict sni h = CidOk [] /\
  client_id_of DNSCrypt host strict sni h = CidOk [].
Proof. repeat split. Qed.

(** Strict checking: a name that is neither the configured one nor an
    immediate subdomain of it is rejected. *)
Theorem strict_rejects p host sni h cli :
  reaches_sni p h -> host <> [] -> server_name_of p sni h = inr cli ->
  cli <> host -> (forall x, ~ immediate_sub cli host x) ->
  client_id_of p host true sni h = CidErr EMismatch.
Proof.
  intros Hr Hh Hs Hne Hno. rewrite (sni_stage_reached _ _ _ _ _ Hr). unfold sni_stage.
  destruct host as [|c host]; [congruence|]. rewrite Hs.
  apply (from_server_name_outside _ _ true Hne Hno).
Qed.

(** Lookalikes. *)
Definition lookalike (cli host : bytes) : Prop :=
  (* suffix without a dot boundary: evil-example.com, xexample.com *)
  (exists pre, pre <> [] /\ last pre 0 <> dot /\ cli = pre ++ host) \/
  (* deeper subdomain: x.y.example.com *)
  (exists x y, cli = x ++ dot :: y ++ dot :: host) \/
  (* the configured name as a prefix or in the middle: example.com.evil.net *)
  (exists a b, b <> [] /\ cli = a ++ host ++ b /\ has_suffix (dot :: host) cli = false).

Lemma lookalike_outside cli host :
  lookalike cli host -> cli <> host /\ forall x, ~ immediate_sub cli host x.
Proof.
  intros [(pre & Hp & Hl & ->)|[(x & y & ->)|(a & b & Hb & -> & Hs)]].
  - split.
    + intros H. apply (f_equal (@length _)) in H. rewrite app_length in H.
      destruct pre; [congruence|cbn in H; lia].
    + intros x (Hx & Hm & H).
      change (dot :: host) with ([dot] ++ host) in H. rewrite app_assoc in H.
      apply app_inv_tail in H. subst pre. rewrite last_last in Hl. congruence.
  - split.
    + intros H. apply (f_equal (@length _)) in H. rewrite app_length in H. cbn in H.
      rewrite app_length in H. cbn in H. lia.
    + intros z (Hz & Hm & H).
      replace (x ++ dot :: y ++ dot :: host) with ((x ++ dot :: y) ++ dot :: host) in H
        by (rewrite <- app_assoc; reflexivity).
      apply subdomain_label_unique in H. subst z. rewrite mem_app in Hm. cbn in Hm.
      rewrite orb_true_r in Hm. discriminate.
  - split.
    + intros H. apply (f_equal (@length _)) in H. rewrite !app_length in H.
      destruct b; [congruence|cbn in H; lia].
    + intros x (Hx & Hm & H). rewrite H in Hs.
      assert (has_suffix (dot :: host) (x ++ dot :: host) = true)
        by (apply has_suffix_spec; eauto).
      congruence.
Qed.

Theorem lookalike_no_id p host strict sni h cli id :
  reaches_sni p h -> host <> [] -> server_name_of p sni h = inr cli ->
  lookalike cli host ->
  client_id_of p host strict sni h = (if strict then CidErr EMismatch else CidOk []) /\
  (client_id_of p host strict sni h = CidOk id -> id = []).
Proof.
  intros Hr Hh Hs Hl. destruct (lookalike_outside _ _ Hl) as [Hne Hno].
  assert (E : client_id_of p host strict sni h = if strict then CidErr EMismatch else CidOk []).
  { rewrite (sni_stage_reached _ _ _ _ _ Hr). unfold sni_stage.
    destruct host as [|c host]; [congruence|]. rewrite Hs.
    apply from_server_name_outside; auto. }
  split; [exact E|]. rewrite E. destruct strict; [discriminate|intros [= <-]; reflexivity].
Qed.

(** The Host header is used without its port; when the request carries a TLS
    state, its server name wins over the Host header. *)
Lemma shp_nonbracket hp i c0 tl :
  hp = c0 :: tl -> (c0 =? lbr) = false -> last_index_byte colon hp = Some i ->
  split_host_port hp =
    if mem colon (firstn i hp) then ShpOther
    else if mem lbr hp then ShpOther
    else if mem rbr hp then ShpOther
    else ShpOk (firstn i hp) (skipn (i + 1) hp).
Proof. intros -> Hc Hi. unfold split_host_port. rewrite Hi, Hc. reflexivity. Qed.

Lemma host_port_stripped name port :
  name <> [] -> mem colon name = false -> mem lbr name = false -> mem rbr name = false ->
  mem colon port = false -> mem lbr port = false -> mem rbr port = false ->
  split_host (name ++ colon :: port) = Some name.
Proof.
  intros Hn H1 H2 H3 H4 H5 H6. unfold split_host.
  destruct name as [|c0 name'] eqn:En; [congruence|]. rewrite <- En in *.
  assert (Hc0 : (c0 =? lbr) = false).
  { apply N.eqb_neq. intros ->. rewrite En in H2. cbn in H2. discriminate. }
  rewrite (shp_nonbracket _ (length name) c0 (name' ++ colon :: port));
    [|rewrite En; reflexivity|exact Hc0|apply last_index_byte_app_last, H4].
  rewrite firstn_app, Nat.sub_diag, firstn_all. cbn [firstn]. rewrite app_nil_r.
  rewrite H1. rewrite !mem_app. unfold mem at 2 4. cbn [existsb].
  fold (mem lbr port). fold (mem rbr port).
  rewrite H2, H3, H5, H6. reflexivity.
Qed.

Lemma tls_name_wins r n : d_tls_sni r = Some n -> server_name_from_http r = inr n.
Proof. unfold server_name_from_http. intros ->. reflexivity. Qed.

(** * The premises are satisfiable (concrete, computed) *)

Definition ex_host : bytes := [101;120;97;109;112;108;101;46;99;111;109].          (* example.com *)
Definition ex_cli : bytes := [77;121;80;46] ++ ex_host.                              (* MyP.example.com *)
Definition ex_bad : bytes := [45;120;46] ++ ex_host.                                 (* -x.example.com *)
Definition ex_evil : bytes := [101;118;105;108;45] ++ ex_host.                       (* evil-example.com *)
Definition ex_path : bytes := [47;120;47;46;46;47;47] ++ dns_query ++ [47;77;121;80;47].  (* /x/..//dns-query/MyP/ *)
Definition ex_req p := {| d_path := p; d_tls_sni := None; d_host_hdr := ex_cli ++ [58;52;52;51] |}.

Example ex_sound_sni :
  client_id_of DoT ex_host true (Some ex_cli) None = CidOk [109;121;112].
Proof. reflexivity. Qed.
Example ex_sound_path :
  client_id_of DoH ex_host true None (Some (ex_req ex_path)) = CidOk [109;121;112].
Proof. reflexivity. Qed.
Example ex_sound_host_hdr :
  client_id_of DoH ex_host true None (Some (ex_req (slash :: dns_query))) = CidOk [109;121;112].
Proof. reflexivity. Qed.
Example ex_immediate_sub : immediate_sub ex_cli ex_host [77;121;80].
Proof. repeat split. discriminate. Qed.
Example ex_path_id : path_id ex_path [77;121;80].
Proof. split; [left|]; reflexivity. Qed.
Example ex_invalid : immediate_sub ex_bad ex_host [45;120] /\ ~ valid_label [45;120].
Proof.
  split; [repeat split; discriminate|]. rewrite <- validate_hostname_label_spec. discriminate.
Qed.
Example ex_invalid_fails :
  client_id_of DoQ ex_host false (Some ex_bad) None = CidErr (ESniLabel LBadRune).
Proof. reflexivity. Qed.
Example ex_lookalike : lookalike ex_evil ex_host.
Proof. left. exists [101;118;105;108;45]. repeat split; discriminate. Qed.
Example ex_strict :
  client_id_of DoT ex_host true (Some ex_evil) None = CidErr EMismatch /\
  client_id_of DoT ex_host false (Some ex_evil) None = CidOk [].
Proof. split; reflexivity. Qed.

(** * Where the DoH server name comes from (TLS state vs. Host header)

    [d_tls_sni r = Some n] is "r.TLS != nil with ServerName n" ([Some []] is a
    TLS connection WITHOUT SNI); [None] is "r.TLS == nil" (plain HTTP behind a
    proxy).  The two must not be confused: with a TLS state the Host header is
    never read, even when the server name is empty. *)

(** Which input the client's server name was read from. *)
Definition name_source (p : proto) (sni : option bytes) (h : option doh_req) (cli : bytes) : Prop :=
  match p with
  | DoH => exists r, h = Some r /\
      match d_tls_sni r with
      | Some n => cli = n
      | None => (d_host_hdr r = [] /\ cli = []) \/
                (d_host_hdr r <> [] /\ split_host (d_host_hdr r) = Some cli)
      end
  | DoT | DoQ => sni = Some cli
  | UDP | TCP | DNSCrypt => cli = []
  end.

Lemma server_name_source p sni h cli :
  server_name_of p sni h = inr cli <-> name_source p sni h cli.
Proof.
  destruct p; cbn [server_name_of name_source];
    try (split; [intros [= <-]; reflexivity|intros ->; reflexivity]).
  - destruct sni; split; try discriminate; intros [= ->]; reflexivity.
  - destruct sni; split; try discriminate; intros [= ->]; reflexivity.
  - destruct h as [r|]; [|split; [discriminate|intros (r & [=] & _)]].
    unfold server_name_from_http. split.
    + intros H. exists r. split; [reflexivity|].
      destruct (d_tls_sni r) as [n|]; [injection H as ->; reflexivity|].
      destruct (d_host_hdr r) as [|c hh] eqn:Eh; [injection H as <-; left; auto|].
      destruct (split_host (c :: hh)); [injection H as ->|discriminate].
      right. split; [discriminate|reflexivity].
    + intros (r' & [= <-] & H).
      destruct (d_tls_sni r) as [n|]; [subst; reflexivity|].
      destruct H as [[-> ->]|[Hne Hs]]; [reflexivity|].
      destruct (d_host_hdr r) as [|c hh]; [congruence|]. rewrite Hs. reflexivity.
Qed.

(** [sound] with the origin of the name made explicit. *)
Theorem sound_source p host strict sni h id :
  client_id_of p host strict sni h = CidOk id -> id <> [] ->
  secure p /\ valid_label id /\ lower id = id /\
  ((p = DoH /\ exists r x, h = Some r /\ path_id (d_path r) x /\ valid_label x /\ id = lower x) \/
   (reaches_sni p h /\ host <> [] /\
    exists cli x, name_source p sni h cli /\ immediate_sub cli host x /\
                  valid_label x /\ id = lower x)).
Proof.
  intros H Hid. destruct (sound _ _ _ _ _ _ H Hid) as (H1 & H2 & H3 & [H4|(H4 & H5 & cli & x & H6 & H7)]).
  - split; [exact H1|]. split; [exact H2|]. split; [exact H3|]. left. exact H4.
  - split; [exact H1|]. split; [exact H2|]. split; [exact H3|]. right.
    split; [exact H4|]. split; [exact H5|]. exists cli, x.
    split; [apply server_name_source, H6|exact H7].
Qed.

Definition doh_tls (path n hh : bytes) : doh_req :=
  {| d_path := path; d_tls_sni := Some n; d_host_hdr := hh |}.
Definition doh_plain (path hh : bytes) : doh_req :=
  {| d_path := path; d_tls_sni := None; d_host_hdr := hh |}.

(** With a TLS state the result does not depend on the Host header at all
    (for every protocol, path, server name incl. the empty one, strictness). *)
Theorem tls_ignores_host p host strict sni path n host1 host2 :
  client_id_of p host strict sni (Some (doh_tls path n host1)) =
  client_id_of p host strict sni (Some (doh_tls path n host2)).
Proof. destruct p; reflexivity. Qed.

(** A returned id on a DoH request with a TLS state is the path id or the
    label before the configured name in the TLS server name. *)
Theorem sound_doh_tls host strict sni path n hh id :
  client_id_of DoH host strict sni (Some (doh_tls path n hh)) = CidOk id -> id <> [] ->
  (exists x, path_id path x /\ valid_label x /\ id = lower x) \/
  (path_plain path /\ host <> [] /\
   exists x, immediate_sub n host x /\ valid_label x /\ id = lower x).
Proof.
  intros H Hid.
  destruct (sound_source _ _ _ _ _ _ H Hid) as (_ & _ & _ & [(_ & r & x & [= <-] & Hx)|(Hr & Hh & cli & x & Hs & Hx)]).
  - left. exists x. exact Hx.
  - right. destruct Hr as [[=]|[[=]|(_ & r & [= <-] & Hp)]].
    split; [exact Hp|]. split; [exact Hh|].
    destruct Hs as (r & [= <-] & Hs). cbn in Hs. subst cli. exists x. exact Hx.
Qed.

Lemma no_immediate_sub_of_empty host x : ~ immediate_sub [] host x.
Proof. intros (_ & _ & H). destruct x; discriminate H. Qed.

Lemma from_server_name_empty host strict :
  host <> [] -> from_server_name host [] strict = if strict then CidErr EMismatch else CidOk [].
Proof.
  intros Hh. apply from_server_name_outside; [congruence|]. intros x. apply no_immediate_sub_of_empty.
Qed.

(** DoH over TLS without SNI: the empty name is what is checked.  Whatever the
    Host header says, no id can come from the name; strict checking rejects
    the request unless no server name is configured; an id in the path is
    treated as usual. *)
Theorem doh_tls_empty_sni host strict sni path hh :
  (path_plain path ->
   client_id_of DoH host strict sni (Some (doh_tls path [] hh)) =
     match host with
     | [] => CidOk []
     | _ :: _ => if strict then CidErr EMismatch else CidOk []
     end) /\
  (forall x, path_id path x ->
   client_id_of DoH host strict sni (Some (doh_tls path [] hh)) =
     match validate_hostname_label x with
     | Some e => CidErr (EPathLabel e)
     | None => CidOk (lower x)
     end) /\
  (forall id, client_id_of DoH host strict sni (Some (doh_tls path [] hh)) = CidOk id -> id <> [] ->
   exists x, path_id path x /\ valid_label x /\ id = lower x).
Proof.
  split; [|split].
  - intros Hp. cbn. rewrite (from_doh_path_plain _ Hp). unfold sni_stage.
    destruct host as [|c host]; [reflexivity|]. cbn [server_name_of server_name_from_http doh_tls d_tls_sni].
    apply from_server_name_empty. discriminate.
  - intros x Hp. cbn. rewrite (from_doh_path_id _ _ Hp).
    destruct (validate_hostname_label x) eqn:V; [reflexivity|].
    destruct x as [|c x]; [discriminate V|reflexivity].
  - intros id H Hid. destruct (sound_doh_tls _ _ _ _ _ _ _ H Hid) as [Hx|(_ & _ & x & Hx & _)]; [exact Hx|].
    exfalso. exact (no_immediate_sub_of_empty _ _ Hx).
Qed.

(** Plain-HTTP DoH (r.TLS == nil, e.g. behind a TLS-terminating proxy): the
    Host header without its port is the client's server name; an empty Host is
    the empty name; a Host that net.SplitHostPort rejects for another reason
    than a missing port fails the request. *)
Theorem doh_plain_host host strict sni path hh :
  path_plain path -> host <> [] ->
  client_id_of DoH host strict sni (Some (doh_plain path hh)) =
    match hh with
    | [] => if strict then CidErr EMismatch else CidOk []
    | _ :: _ =>
        match split_host hh with
        | Some name => from_server_name host name strict
        | None => CidErr EHostParse
        end
    end.
Proof.
  intros Hp Hh. cbn. rewrite (from_doh_path_plain _ Hp). unfold sni_stage.
  destruct host as [|c host]; [congruence|].
  cbn [server_name_of server_name_from_http doh_plain d_tls_sni d_host_hdr].
  destruct hh as [|c0 hh]; [apply from_server_name_empty; discriminate|].
  destruct (split_host (c0 :: hh)); reflexivity.
Qed.

(** Bracketed (IPv6) Host with a port: the brackets and the port are removed. *)
Lemma split_host_bracket a port :
  mem lbr a = false -> mem rbr a = false ->
  mem colon port = false -> mem lbr port = false -> mem rbr port = false ->
  split_host (lbr :: a ++ rbr :: colon :: port) = Some a.
Proof.
  intros H1 H2 H3 H4 H5. unfold split_host, split_host_port.
  assert (Hl : last_index_byte colon (lbr :: a ++ rbr :: colon :: port) = Some (S (length a) + 1)%nat).
  { replace (lbr :: a ++ rbr :: colon :: port) with ((lbr :: a ++ [rbr]) ++ colon :: port)
      by (cbn [app]; rewrite <- app_assoc; reflexivity).
    rewrite last_index_byte_app_last by exact H3. cbn [length]. rewrite app_length. reflexivity. }
  rewrite Hl.
  assert (Hi : index_byte rbr (lbr :: a ++ rbr :: colon :: port) = Some (S (length a))).
  { change (lbr :: a ++ rbr :: colon :: port) with ((lbr :: a) ++ rbr :: colon :: port).
    rewrite index_byte_app_first; [reflexivity|].
    unfold mem. cbn [existsb]. fold (mem rbr a). rewrite H2. reflexivity. }
  replace (lbr =? lbr) with true by reflexivity. rewrite Hi.
  assert (Nat.eqb (S (length a) + 1) (length (lbr :: a ++ rbr :: colon :: port)) = false) as ->.
  { apply Nat.eqb_neq. cbn [length]. rewrite app_length. cbn [length]. lia. }
  rewrite Nat.eqb_refl.
  assert (skipn 1 (lbr :: a ++ rbr :: colon :: port) = a ++ rbr :: colon :: port) as -> by reflexivity.
  assert (mem lbr (a ++ rbr :: colon :: port) = false) as ->.
  { rewrite mem_app, H1. unfold mem at 1. cbn [existsb]. fold (mem lbr port). rewrite H4. reflexivity. }
  assert (skipn (S (length a) + 1) (lbr :: a ++ rbr :: colon :: port) = colon :: port) as ->.
  { replace (S (length a) + 1)%nat with (S (length (a ++ [rbr]))) by (rewrite app_length; cbn; lia).
    cbn [skipn]. replace (a ++ rbr :: colon :: port) with ((a ++ [rbr]) ++ colon :: port)
      by (rewrite <- app_assoc; reflexivity).
    rewrite skipn_app, skipn_all, Nat.sub_diag. reflexivity. }
  assert (mem rbr (colon :: port) = false) as ->.
  { unfold mem. cbn [existsb]. fold (mem rbr port). rewrite H5. reflexivity. }
  replace (S (length a) - 1)%nat with (length a + 0)%nat by lia.
  rewrite firstn_app_2. cbn [firstn]. rewrite app_nil_r. reflexivity.
Qed.

(** host:port:port (too many colons, no brackets) is rejected. *)
Lemma split_host_two_colons a b c :
  a <> [] -> mem lbr a = false -> mem colon c = false ->
  split_host (a ++ colon :: b ++ colon :: c) = None.
Proof.
  intros Ha Hl Hc. unfold split_host.
  destruct a as [|c0 a'] eqn:Ea; [congruence|]. rewrite <- Ea in *.
  assert (Hc0 : (c0 =? lbr) = false).
  { apply N.eqb_neq. intros ->. rewrite Ea in Hl. cbn in Hl. discriminate. }
  rewrite (shp_nonbracket _ (length (a ++ colon :: b)) c0 (a' ++ colon :: b ++ colon :: c)).
  - replace (a ++ colon :: b ++ colon :: c) with ((a ++ colon :: b) ++ colon :: c)
      by (rewrite <- app_assoc; reflexivity).
    rewrite firstn_app, Nat.sub_diag, firstn_all. cbn [firstn]. rewrite app_nil_r.
    rewrite mem_app. unfold mem at 2. cbn [existsb]. rewrite N.eqb_refl, orb_true_r. reflexivity.
  - rewrite Ea. reflexivity.
  - exact Hc0.
  - replace (a ++ colon :: b ++ colon :: c) with ((a ++ colon :: b) ++ colon :: c)
      by (rewrite <- app_assoc; reflexivity).
    apply last_index_byte_app_last, Hc.
Qed.

(** Concrete instances (computed): the premises above are satisfiable and the
    attack spellings give what the theorems say. *)
Definition ex_victim : bytes := [118;105;99;116;105;109;46] ++ ex_host.             (* victim.example.com *)
Example ex_tls_empty_sni_host_sub :
  client_id_of DoH ex_host false None (Some (doh_tls (slash :: dns_query) [] ex_victim)) = CidOk [] /\
  client_id_of DoH ex_host true None (Some (doh_tls (slash :: dns_query) [] ex_victim)) = CidErr EMismatch /\
  client_id_of DoH ex_host true None (Some (doh_tls (slash :: dns_query) [] ex_host)) = CidErr EMismatch /\
  client_id_of DoH [] true None (Some (doh_tls (slash :: dns_query) [] ex_victim)) = CidOk [] /\
  client_id_of DoH ex_host true None (Some (doh_tls ex_path [] ex_victim)) = CidOk [109;121;112].
Proof. repeat split. Qed.
Example ex_tls_sni_vs_host :
  client_id_of DoH ex_host true None (Some (doh_tls (slash :: dns_query) ex_cli ex_victim)) = CidOk [109;121;112].
Proof. reflexivity. Qed.
Example ex_plain_host :
  client_id_of DoH ex_host true None (Some (doh_plain (slash :: dns_query) ex_victim)) = CidOk [118;105;99;116;105;109] /\
  client_id_of DoH ex_host true None (Some (doh_plain (slash :: dns_query) (ex_victim ++ [58;56;48]))) = CidOk [118;105;99;116;105;109] /\
  client_id_of DoH ex_host true None (Some (doh_plain (slash :: dns_query) (ex_victim ++ [58;49;58;50]))) = CidErr EHostParse /\
  client_id_of DoH ex_host true None (Some (doh_plain (slash :: dns_query) [91;58;58;49;93;58;56;48])) = CidErr EMismatch /\
  client_id_of DoH ex_host true None (Some (doh_plain (slash :: dns_query) [])) = CidErr EMismatch.
Proof. repeat split. Qed.
Example ex_path_plain : path_plain (slash :: dns_query).
Proof. left. reflexivity. Qed.
Example ex_split_host_bracket : split_host [91;58;58;49;93;58;56;48] = Some [58;58;49].
Proof. reflexivity. Qed.

(** The Host header is reported as the origin only when there is no TLS state. *)
Lemma from_host_only_without_tls r : name_from_host r = true -> d_tls_sni r = None.
Proof. unfold name_from_host. destruct (d_tls_sni r); [discriminate|reflexivity]. Qed.

(** * Round 5: the label is validated AS SENT

    strings.ToLower is Unicode aware (Model/GoLower.v): were the label
    lower-cased first, "<U+212A>ate" would validate as "kate".  The code
    validates first; what follows holds for every byte string, valid UTF-8
    or not. *)

(** A returned ClientID is the lower-casing of a label that was a valid
    host-name label -- hence pure ASCII -- in the bytes the client sent. *)
Theorem label_valid_as_sent p host strict sni h id :
  client_id_of p host strict sni h = CidOk id -> id <> [] ->
  exists x, valid_label x /\ is_ascii x = true /\ id = go_to_lower x /\ id = lower x /\
    ((p = DoH /\ exists r, h = Some r /\ path_id (d_path r) x) \/
     (reaches_sni p h /\ host <> [] /\
      exists cli, server_name_of p sni h = inr cli /\ immediate_sub cli host x)).
Proof.
  intros H Hid. destruct (sound _ _ _ _ _ _ H Hid) as (_ & _ & _ & [(Hp & r & x & Hh & Hx & Hv & Hl)|(Hr & Hh & cli & x & Hs & Hx & Hv & Hl)]).
  - exists x. split; [exact Hv|]. split; [apply valid_label_is_ascii, Hv|].
    split; [rewrite (go_to_lower_valid _ Hv); exact Hl|]. split; [exact Hl|].
    left. split; [exact Hp|]. exists r. auto.
  - exists x. split; [exact Hv|]. split; [apply valid_label_is_ascii, Hv|].
    split; [rewrite (go_to_lower_valid _ Hv); exact Hl|]. split; [exact Hl|].
    right. split; [exact Hr|]. split; [exact Hh|]. exists cli. auto.
Qed.

(** The other order, for comparison: lower-case first, validate the result. *)
Definition from_server_name_lower_first (host cli : bytes) (strict : bool) : cid_res :=
  if eqb_bytes host cli then CidOk []
  else if negb (is_immediate_subdomain cli host) then
    (if strict then CidErr EMismatch else CidOk [])
  else
    let id := go_to_lower (firstn (length cli - length host - 1) cli) in
    match validate_hostname_label id with
    | Some e => CidErr (ESniLabel e)
    | None => CidOk id
    end.

Definition from_doh_path_lower_first (path : bytes) : cid_res :=
  let parts := split slash (clean path) in
  let parts := match parts with [] :: r => r | _ => parts end in
  match parts with
  | [] => CidErr EPathShape
  | p0 :: r =>
      if negb (eqb_bytes p0 dns_query) then CidErr EPathShape
      else match r with
           | [] => CidOk []
           | [id] =>
               match validate_hostname_label (go_to_lower id) with
               | Some e => CidErr (EPathLabel e)
               | None => CidOk (go_to_lower id)
               end
           | _ :: _ :: _ => CidErr EPathExtra
           end
  end.

(** Outcome up to the kind of error (a label can change its length under
    Unicode lower-casing, so "too long" and "bad rune" may swap). *)
Definition ok_id (r : cid_res) : option bytes :=
  match r with CidOk id => Some id | CidErr _ => None end.

Lemma label_orders_agree x :
  has_special x = false ->
  ok_id (match validate_hostname_label (go_to_lower x) with
         | Some e => CidErr (ESniLabel e) | None => CidOk (go_to_lower x) end) =
  ok_id (match validate_hostname_label x with
         | Some e => CidErr (ESniLabel e) | None => CidOk (go_to_lower x) end).
Proof.
  intros Hs. pose proof (lower_first_exact x Hs) as Hex.
  rewrite <- !validate_hostname_label_spec in Hex.
  destruct (validate_hostname_label x) eqn:V.
  - destruct (validate_hostname_label (go_to_lower x)) eqn:V'; [reflexivity|].
    destruct Hex as [Hex _]. specialize (Hex eq_refl). discriminate.
  - destruct Hex as [_ Hex]. rewrite (Hex eq_refl). reflexivity.
Qed.

(** The two orders give the same ClientID / the same failure on every name
    whose label is free of U+212A and U+0130 ... *)
Theorem lower_first_agrees host cli strict :
  (forall x, immediate_sub cli host x -> has_special x = false) ->
  ok_id (from_server_name_lower_first host cli strict) = ok_id (from_server_name host cli strict).
Proof.
  intros Hsp. unfold from_server_name_lower_first, from_server_name.
  destruct (eqb_bytes host cli); [reflexivity|].
  destruct (is_immediate_subdomain cli host) eqn:E; cbn [negb]; [|reflexivity].
  apply is_immediate_subdomain_spec in E as (x & Hx & Hm & ->).
  rewrite firstn_sub_label.
  apply label_orders_agree, Hsp. repeat split; auto.
Qed.

(** ... and differ on a label with the Kelvin sign: strict check off,
    "<U+212A>ate.example.com" is an ERROR in the code's order and the
    ClientID "kate" in the other one. *)
Definition ex_kelvin_cli : bytes := kelvin_ate ++ dot :: ex_host.

Theorem lower_first_refuted :
  immediate_sub ex_kelvin_cli ex_host kelvin_ate /\ ~ valid_label kelvin_ate /\
  from_server_name ex_host ex_kelvin_cli false = CidErr (ESniLabel LBadRune) /\
  client_id_of DoT ex_host false (Some ex_kelvin_cli) None = CidErr (ESniLabel LBadRune) /\
  from_server_name_lower_first ex_host ex_kelvin_cli false = CidOk kate /\
  from_doh_path (slash :: dns_query ++ slash :: kelvin_ate) = CidErr (EPathLabel LBadRune) /\
  from_doh_path_lower_first (slash :: dns_query ++ slash :: kelvin_ate) = CidOk kate.
Proof.
  split; [split; [discriminate|split; reflexivity]|]. split.
  { rewrite <- validate_hostname_label_spec. vm_compute. discriminate. }
  vm_compute. repeat split; reflexivity.
Qed.

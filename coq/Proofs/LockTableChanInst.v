(** C05, round 7: the instance on the table regenerated from the current
    source; fails to build when a blocking channel operation under a lock has
    no justification. *)
From Coq Require Import List String Bool.
From AGH Require Import Base.Conc Model.LockBalance Proofs.LockTableChan Gen.LockTableChan.
Import ListNotations.

Theorem no_blocking_channel_op_under_lock : chan_ok chan_rows chan_justified = true.
Proof. vm_compute; reflexivity. Qed.

Theorem current_source_channel_ops_justified :
  forall r, In r chan_rows -> exists reason, In (chan_key r, reason) chan_justified.
Proof. exact (chan_ok_justified _ _ no_blocking_channel_op_under_lock). Qed.

(** Composition of the pipeline (Model/Pipeline.v) with the hash-prefix
    checker of property C19 (Model/HashPrefix.v): the safe-browsing /
    parental verdict, an oracle in the layer-A theorems of C01, is the
    checker's verdict; a name one of whose enumerated forms has its full
    hash in the service's database is blocked by the pipeline when the
    service is enabled for the client and nothing in front of it decides. *)
From Coq Require Import List NArith ZArith Bool.
From AGH Require Import Base.Run Base.NetAddr Base.RuleEngine Model.Pipeline Proofs.Pipeline.
From AGH Require Import Model.HashPrefix Proofs.HashPrefix.
From AGH Require Model.Rewrites.
Import ListNotations.
Local Open Scope N_scope.

Definition sb_result : result := plain_result FilteredSafeBrowsing true [] [(0, None)].
Definition par_result : result := plain_result FilteredParental true [] [(0, None)].

Section Engines.
  Variable allow_eng block_eng : ufreq -> dnsresult * bool.
  Variable sb par : bytes -> bool.
  Variable ss : bytes -> N -> option ssverdict.
  Variable srt : list Rewrites.entry -> list Rewrites.entry.

  (** Protection on, no stage in front of filtering answers, none of the
      administrator's rewrites applies, the rule lists and the blocked
      services are silent about the name. *)
  Definition reaches_hash_checks (c : cfg) (q : request) : Prop :=
    let st := request_settings c q in
    protection_on c = true /\ (exists dhcp, prefilter c q = PContinue dhcp) /\ host_of q <> [] /\
    rewrites_pass srt c st (host_of q) (q_qtype q) /\ hosts_silent c st (host_of q) (q_qtype q) /\
    lists_silent allow_eng block_eng st (host_of q) (q_qtype q) /\
    first_service (st_services st) (host_of q) = None.

  Definition sb_blocked_by_spec (c : cfg) (q : request) : Prop :=
    reaches_hash_checks c q /\ st_safebrowsing (request_settings c q) = true /\ sb (host_of q) = true.

  Definition par_blocked_by_spec (c : cfg) (q : request) : Prop :=
    reaches_hash_checks c q /\
    (st_safebrowsing (request_settings c q) = false \/ sb (host_of q) = false) /\
    st_parental (request_settings c q) = true /\ par (host_of q) = true.

  Lemma reaches_first_match c q :
    reaches_hash_checks c q ->
    verdict allow_eng block_eng sb par ss srt c q =
    Some (let st := request_settings c q in
          let h := host_of q in
          if matched (check_safebrowsing sb st h) then check_safebrowsing sb st h
          else if matched (check_parental par st h) then check_parental par st h
          else if matched (check_safesearch ss c st h (q_qtype q)) then check_safesearch ss c st h (q_qtype q)
          else no_result).
  Proof.
    intros (Hp & _ & Hh & Hrw & Hhs & Hl & Hsv). unfold verdict. unfold host_of in *.
    rewrite (check_host_unfold allow_eng block_eng sb par ss srt _ _ _ _ (lower_nonempty _ Hh) Hrw).
    f_equal. rewrite first_match_unfold.
    unfold hosts_silent in Hhs. rewrite Hhs.
    rewrite (match_host_silent _ _ _ _ _ Hl).
    unfold match_services. rewrite Hsv.
    destruct (negb (st_protection (request_settings c q))); reflexivity.
  Qed.

  Lemma verdict_sb c q : sb_blocked_by_spec c q -> verdict allow_eng block_eng sb par ss srt c q = Some sb_result.
  Proof.
    intros (Hr & Hs & Ho). rewrite (reaches_first_match c q Hr). cbv zeta.
    destruct Hr as (Hp & _). unfold check_safebrowsing.
    rewrite request_settings_protection, Hp, Hs, Ho. reflexivity.
  Qed.

  Lemma verdict_par c q : par_blocked_by_spec c q -> verdict allow_eng block_eng sb par ss srt c q = Some par_result.
  Proof.
    intros (Hr & Hn & Hs & Ho). rewrite (reaches_first_match c q Hr). cbv zeta.
    destruct Hr as (Hp & _). unfold check_safebrowsing, check_parental.
    rewrite request_settings_protection, Hp, Hs, Ho. cbn [andb].
    destruct Hn as [-> | ->]; [reflexivity | rewrite andb_false_r; reflexivity].
  Qed.

  (** What the pipeline does with such a request: the verdict reaches the
      query log, the answer is the block page's (filter_message), the only
      question that may go upstream is the one for a block page given as a
      name: never the client's name. *)
  Lemma hash_blocked_outcome c up q res :
    (exists dhcp, prefilter c q = PContinue dhcp) ->
    verdict allow_eng block_eng sb par ss srt c q = Some res ->
    is_rewritten_cname res = false -> r_filtered res = true ->
    let o := process allow_eng block_eng sb par ss srt c up q in
    o_result o = res /\
    o_resp o = Some (fst (filter_message c up (q_name q) (q_qtype q) res)) /\
    o_calls o = blockpage_calls c (q_qtype q) res /\
    o_qname o = q_name q.
  Proof.
    intros [dhcp Hpre] Hv Hc Hf. cbv zeta. rewrite process_unfold. unfold process_spec. rewrite Hpre.
    fold (verdict allow_eng block_eng sb par ss srt c q). rewrite Hv.
    unfold verdict_outcome. rewrite Hc, Hf. cbn [o_result o_resp o_calls o_qname].
    rewrite filter_message_calls. auto.
  Qed.

  Theorem sb_listed_is_blocked c up q :
    sb_blocked_by_spec c q ->
    let o := process allow_eng block_eng sb par ss srt c up q in
    o_result o = sb_result /\
    o_resp o = Some (fst (filter_message c up (q_name q) (q_qtype q) sb_result)) /\
    o_calls o = blockpage_calls c (q_qtype q) sb_result /\
    o_qname o = q_name q.
  Proof.
    intros H. apply hash_blocked_outcome; try reflexivity; [|apply verdict_sb; exact H].
    destruct H as ((_ & Hpre & _) & _). exact Hpre.
  Qed.

  Theorem par_listed_is_blocked c up q :
    par_blocked_by_spec c q ->
    let o := process allow_eng block_eng sb par ss srt c up q in
    o_result o = par_result /\
    o_resp o = Some (fst (filter_message c up (q_name q) (q_qtype q) par_result)) /\
    o_calls o = blockpage_calls c (q_qtype q) par_result /\
    o_qname o = q_name q.
  Proof.
    intros H. apply hash_blocked_outcome; try reflexivity; [|apply verdict_par; exact H].
    destruct H as ((_ & Hpre & _) & _). exact Hpre.
  Qed.
End Engines.

(** * With the checker of C19 in the oracle's place *)
Section HashPrefix.
  Variable sha : bytes -> hash.
  Variable pubsuf : bytes -> bytes * bool.
  Variable suffix : bytes.
  Variable cache_time : Z.

  (** What the pipeline's safe-browsing oracle is: the outcome of
      [hashprefix.Checker.Check] as DNSFilter.CheckHost calls it, for any
      cache contents consistent with the service's database, any iteration
      order and evictions, any instant, whenever the lookup does not fail
      (a failed lookup is "not blocked": C19_cache_invariant). *)
  Theorem checker_verdict_is_db_verdict db svc order evs now host cch :
    cache_inv db cch -> svc_ok db svc ->
    let res := check sha pubsuf suffix cache_time svc order evs now host cch in
    o_err (snd res) = false -> o_blocked (snd res) = db_verdict sha pubsuf db host.
  Proof. intros Hc Hs. exact (proj1 (proj2 (check_transparent sha pubsuf suffix cache_time db svc order evs now host cch Hc Hs))). Qed.

  (** The composition: the service's database lists the full hash of one of
      the forms of the name that are checked (the name itself, its parent
      domains down to the registrable one); safe browsing is on for the
      client; nothing in front decides  ==>  the pipeline reports
      FilteredSafeBrowsing, answers with the block page, and sends nothing
      upstream but (at most) the question for a block page given as a name. *)
  Theorem listed_hash_is_blocked allow_eng block_eng par ss srt db c up q :
    reaches_hash_checks allow_eng block_eng srt c q ->
    st_safebrowsing (request_settings c q) = true ->
    (exists n, In n (names_to_hash pubsuf (host_of q)) /\ In (sha n) db) ->
    let o := process allow_eng block_eng (db_verdict sha pubsuf db) par ss srt c up q in
    o_result o = sb_result /\
    o_resp o = Some (fst (filter_message c up (q_name q) (q_qtype q) sb_result)) /\
    o_calls o = blockpage_calls c (q_qtype q) sb_result /\
    o_qname o = q_name q.
  Proof.
    intros Hr Hs Hdb. apply sb_listed_is_blocked. split; [exact Hr|]. split; [exact Hs|].
    apply db_verdict_spec. exact Hdb.
  Qed.

  (** ... and conversely a name none of whose forms is listed is not blocked
      by safe browsing, whatever the cache holds. *)
  Theorem unlisted_hash_not_blocked_by_sb allow_eng block_eng par ss srt db c q res :
    (forall n, In n (names_to_hash pubsuf (host_of q)) -> ~ In (sha n) db) ->
    verdict allow_eng block_eng (db_verdict sha pubsuf db) par ss srt c q = Some res ->
    reaches_hash_checks allow_eng block_eng srt c q ->
    r_reason res <> FilteredSafeBrowsing.
  Proof.
    intros Hno Hv Hr. rewrite (reaches_first_match _ _ _ _ _ _ c q Hr) in Hv. cbv zeta in Hv.
    assert (E : db_verdict sha pubsuf db (host_of q) = false).
    { destruct (db_verdict sha pubsuf db (host_of q)) eqn:E; [|reflexivity].
      apply db_verdict_spec in E. destruct E as (n & H1 & H2). destruct (Hno n H1 H2). }
    unfold check_safebrowsing in Hv at 1 2. rewrite E, andb_false_r in Hv. cbn [matched no_result r_reason] in Hv.
    injection Hv as <-.
    unfold check_parental, check_safesearch.
    repeat match goal with
           | |- context [if ?b then _ else _] => destruct b
           | |- context [match ?x with _ => _ end] => destruct x
           end; cbn; discriminate.
  Qed.
End HashPrefix.

(** The block-page table: for an address question the answer of a listed
    name never carries the client's name upstream. *)
Lemma sb_blockpage_calls c qt :
  blockpage_calls c qt sb_result =
  if addr_question qt then match c_sb_host c with BHName n => [(fqdn n, qt)] | _ => [] end else [].
Proof. reflexivity. Qed.

(** * The premises are satisfiable *)
Definition exsb_cfg : cfg := ex_cfg_with MDefault None [] (BHName [98;108;111;99;107;46;112;97;103;101]).  (* block.page *)
Definition exsb_sha (b : bytes) : hash := b.
Definition exsb_pubsuf (_ : bytes) : bytes * bool := ([116;101;115;116], true).   (* test *)
Definition exsb_db : list hash := [b_x_test].

Example ex_reaches_hash_checks :
  reaches_hash_checks (match_request []) (match_request []) Rewrites.isort exsb_cfg ex_query_other.
Proof.
  unfold reaches_hash_checks. cbv zeta. repeat split; try (vm_compute; reflexivity).
  - eexists. vm_compute. reflexivity.
  - vm_compute. discriminate.
  - right. repeat split; try (vm_compute; reflexivity). left. vm_compute. reflexivity.
Qed.

Example ex_sb_premises :
  sb_blocked_by_spec (match_request []) (match_request []) (db_verdict exsb_sha exsb_pubsuf exsb_db)
                     Rewrites.isort exsb_cfg ex_query_other /\
  (exists n, In n (names_to_hash exsb_pubsuf (host_of ex_query_other)) /\ In (exsb_sha n) exsb_db).
Proof.
  split.
  - split; [exact ex_reaches_hash_checks|]. split; vm_compute; reflexivity.
  - exists b_x_test. split; vm_compute; auto.
Qed.

Example ex_listed_outcome :
  o_calls (process (match_request []) (match_request []) (db_verdict exsb_sha exsb_pubsuf exsb_db) (fun _ => false) no_ss
             Rewrites.isort exsb_cfg (fun _ _ => Some ex_answer) ex_query_other)
  = [([98;108;111;99;107;46;112;97;103;101;46], 1)].
Proof. vm_compute. reflexivity. Qed.

(** Print-then-parse identities of the duration texts (C18), for every
    duration, by structural reasoning on the printers:

    - [duration_string_roundtrip]: Go's [time.ParseDuration] undoes
      [time.Duration.String] on all of int64 (including -2^63);
    - [tu_string_roundtrip]: the same through [timeutil.Duration.String]
      (trailing "0s" / "0m0s" cut);
    - [ms_text_roundtrip]: the JSON millisecond number text, |d| < 10^26
      (the integer part must fit the 20 digits of [fmt_int]).

    The printer is brought to a normal form ([fmt_int acc v = dg v ++ acc];
    the fraction either absent or a point and digits that read back as
    [f / 10^k] with [f * 10^(prec-k)] the fractional value), each round of
    [parse_loop] is executed symbolically on "number, fraction, unit", and the
    value is reassembled from hours, minutes, seconds and the fraction. *)
From Coq Require Import ZArith NArith List Bool Lia.
From AGH Require Import Base.Run Model.Schedule Model.ScheduleText Proofs.Schedule Proofs.ScheduleText.
Import ListNotations.
Local Open Scope Z_scope.
Ltac Zify.zify_post_hook ::= Z.to_euclidean_division_equations.

(** * Powers of ten *)

Fixpoint p10 (n : nat) : Z := match n with O => 1 | S n => 10 * p10 n end.

Lemma p10_pos n : 0 < p10 n.
Proof. induction n; cbn [p10]; lia. Qed.

Lemma p10_add a b : p10 (a + b) = p10 a * p10 b.
Proof. induction a; cbn [p10 Nat.add]; [lia|]. rewrite IHa. lia. Qed.

Lemma mod_p10_S v n : v mod p10 (S n) = v mod 10 + 10 * ((v / 10) mod p10 n).
Proof. cbn [p10]. apply Z.rem_mul_r; [lia|apply p10_pos]. Qed.

Lemma div_p10_S v n : v / p10 (S n) = v / 10 / p10 n.
Proof. cbn [p10]. rewrite Z.div_div; [reflexivity|lia|apply p10_pos]. Qed.

(** * Digits *)

Lemma digit_ch_is_digit k : 0 <= k <= 9 -> is_digit (digit_ch k) = true.
Proof.
  intros H. unfold is_digit, digit_ch. apply andb_true_intro; split; apply N.leb_le; lia.
Qed.

Lemma digit_val_ch k : 0 <= k <= 9 -> digit_val (digit_ch k) = k.
Proof. intros H. unfold digit_val, digit_ch. lia. Qed.

Lemma is_digit_range c : is_digit c = true -> (48 <= c <= 57)%N.
Proof. unfold is_digit. rewrite andb_true_iff, !N.leb_le. tauto. Qed.

Definition hd_digit (l : bytes) : Prop :=
  match l with c :: _ => is_digit c = true | [] => False end.

(** [] or a head that is not a digit: where [leading_int] and
    [leading_fraction] stop. *)
Definition hd_nondigit (l : bytes) : Prop :=
  match l with c :: _ => is_digit c = false | [] => True end.

(** * fmt_int: normal form and what leading_int reads back *)

Definition dg (v : Z) : bytes := fmt_int [] v.

Lemma fmt_int_loop_S fuel v acc :
  fmt_int_loop (S fuel) v acc =
  if v <=? 0 then acc else fmt_int_loop fuel (v / 10) (digit_ch (v mod 10) :: acc).
Proof. reflexivity. Qed.

Lemma fmt_int_loop_app fuel : forall v acc,
  fmt_int_loop fuel v acc = fmt_int_loop fuel v [] ++ acc.
Proof.
  induction fuel as [|fuel IH]; intros v acc; cbn [fmt_int_loop]; [reflexivity|].
  destruct (v <=? 0); [reflexivity|].
  rewrite (IH _ (_ :: acc)), (IH _ [_]). rewrite <- app_assoc. reflexivity.
Qed.

Lemma fmt_int_app acc v : fmt_int acc v = dg v ++ acc.
Proof.
  unfold dg, fmt_int. destruct (v =? 0); [reflexivity|]. apply fmt_int_loop_app.
Qed.

Lemma fmt_int_loop_hd fuel : forall v acc,
  hd_digit acc -> hd_digit (fmt_int_loop fuel v acc).
Proof.
  induction fuel as [|fuel IH]; intros v acc H; cbn [fmt_int_loop]; [exact H|].
  destruct (Z.leb_spec v 0); [exact H|].
  apply IH. cbn [hd_digit]. apply digit_ch_is_digit. lia.
Qed.

Lemma dg_hd v : 0 <= v -> hd_digit (dg v).
Proof.
  intros H. unfold dg, fmt_int. destruct (Z.eqb_spec v 0); [reflexivity|].
  change 20%nat with (S 19). rewrite fmt_int_loop_S.
  destruct (Z.leb_spec v 0); [lia|].
  apply fmt_int_loop_hd. cbn [hd_digit]. apply digit_ch_is_digit. lia.
Qed.

Lemma dg_cons v : 0 <= v -> exists c t, dg v = c :: t /\ is_digit c = true.
Proof.
  intros H. pose proof (dg_hd v H) as Hd. destruct (dg v) as [|c t]; [destruct Hd|].
  exists c, t. split; [reflexivity|exact Hd].
Qed.

Lemma dg_length v : 0 <= v -> (1 <= length (dg v))%nat.
Proof.
  intros H. destruct (dg_cons v H) as (c & t & -> & _). cbn [length]. lia.
Qed.

Lemma dg_0 : dg 0 = [ch_0].
Proof. reflexivity. Qed.

Lemma leading_int_step c s x :
  is_digit c = true -> 0 <= x -> x * 10 + digit_val c <= two63 -> 0 <= digit_val c ->
  leading_int (c :: s) x = leading_int s (x * 10 + digit_val c).
Proof.
  intros Hc Hx Hb Hd. cbn [leading_int]. rewrite Hc.
  destruct (Z.ltb_spec (two63 / 10) x) as [H|H]; [unfold two63 in *; lia|].
  cbv zeta.
  destruct (Z.ltb_spec two63 (x * 10 + digit_val c)) as [H'|H']; [lia|]. reflexivity.
Qed.

Lemma leading_int_stop s x : hd_nondigit s -> leading_int s x = Some (x, s).
Proof.
  destruct s as [|c s]; cbn [hd_nondigit leading_int]; [reflexivity|].
  intros ->. reflexivity.
Qed.

Lemma leading_int_fmt_loop fuel : forall v acc,
  0 <= v < p10 fuel -> v <= two63 ->
  leading_int (fmt_int_loop fuel v acc) 0 = leading_int acc v.
Proof.
  induction fuel as [|fuel IH]; intros v acc Hv Hb; cbn [fmt_int_loop].
  - cbn [p10] in Hv. replace v with 0 by lia. reflexivity.
  - destruct (Z.leb_spec v 0) as [H|H]; [replace v with 0 by lia; reflexivity|].
    cbn [p10] in Hv. rewrite IH by lia.
    rewrite leading_int_step.
    + rewrite digit_val_ch by lia. f_equal. lia.
    + apply digit_ch_is_digit. lia.
    + lia.
    + rewrite digit_val_ch by lia. lia.
    + rewrite digit_val_ch by lia. lia.
Qed.

Lemma leading_int_dg v s :
  0 <= v <= two63 -> hd_nondigit s -> leading_int (dg v ++ s) 0 = Some (v, s).
Proof.
  intros Hv Hs. rewrite <- fmt_int_app. unfold fmt_int.
  destruct (Z.eqb_spec v 0) as [->|Hn].
  - rewrite leading_int_step; try (vm_compute; congruence).
    change (0 * 10 + digit_val ch_0) with 0. apply leading_int_stop, Hs.
  - rewrite leading_int_fmt_loop; [apply leading_int_stop, Hs| |lia].
    change (p10 20) with 100000000000000000000. unfold two63 in Hv. lia.
Qed.

(** * fmt_frac: what leading_fraction reads back *)

Definition big18 := 1000000000000000000.

Lemma fmt_frac_loop_S prec v print acc :
  fmt_frac_loop (S prec) v print acc =
  fmt_frac_loop prec (v / 10) (print || negb (v mod 10 =? 0))
    (if print || negb (v mod 10 =? 0) then digit_ch (v mod 10) :: acc else acc).
Proof. reflexivity. Qed.

Lemma fmt_frac_loop_val prec : forall v print acc,
  snd (fst (fmt_frac_loop prec v print acc)) = v / p10 prec.
Proof.
  induction prec as [|prec IH]; intros.
  - cbn [fmt_frac_loop fst snd p10]. rewrite Z.div_1_r. reflexivity.
  - rewrite fmt_frac_loop_S, IH, div_p10_S. reflexivity.
Qed.

Lemma leading_fraction_step c s x scale :
  is_digit c = true -> 0 <= x -> 0 <= digit_val c <= 9 -> x * 10 + 9 <= big18 ->
  leading_fraction (c :: s) x scale false
  = leading_fraction s (x * 10 + digit_val c) (scale * 10) false.
Proof.
  intros Hc Hx Hd Hb. cbn [leading_fraction]. rewrite Hc.
  destruct (Z.ltb_spec ((two63 - 1) / 10) x) as [H|H]; [unfold two63, big18 in *; lia|].
  cbv zeta.
  destruct (Z.ltb_spec two63 (x * 10 + digit_val c)) as [H'|H'];
    [unfold two63, big18 in *; lia|]. reflexivity.
Qed.

Lemma leading_fraction_stop s x scale :
  hd_nondigit s -> leading_fraction s x scale false = (x, scale, s).
Proof.
  destruct s as [|c s]; cbn [hd_nondigit leading_fraction]; [reflexivity|].
  intros ->. reflexivity.
Qed.

(** Once printing has started every digit is printed. *)
Lemma frac_true prec : forall v x scale acc,
  0 <= v -> 0 <= x -> x * p10 prec + p10 prec <= big18 ->
  snd (fmt_frac_loop prec v true acc) = true /\
  leading_fraction (fst (fst (fmt_frac_loop prec v true acc))) x scale false
  = leading_fraction acc (x * p10 prec + v mod p10 prec) (scale * p10 prec) false.
Proof.
  induction prec as [|prec IH]; intros v x scale acc Hv Hx Hb.
  - cbn [fmt_frac_loop fst snd p10]. split; [reflexivity|]. f_equal; lia.
  - rewrite fmt_frac_loop_S. cbn [orb].
    pose proof (p10_pos prec) as HP. cbn [p10] in Hb.
    destruct (IH (v / 10) x scale (digit_ch (v mod 10) :: acc)) as [H1 H2]; [lia|lia|lia|].
    split; [exact H1|]. rewrite H2.
    rewrite leading_fraction_step.
    + rewrite digit_val_ch by lia. rewrite mod_p10_S. cbn [p10]. f_equal; lia.
    + apply digit_ch_is_digit. lia.
    + lia.
    + rewrite digit_val_ch by lia. lia.
    + lia.
Qed.

(** Trailing zeros are skipped: either the whole fraction is zero and
    nothing is printed, or the printed digits read back as [f] over [10^k]
    with [f * 10^(prec-k)] the fraction. *)
Lemma frac_false prec : forall v acc,
  0 <= v -> p10 prec <= big18 ->
  (v mod p10 prec = 0 /\ fmt_frac_loop prec v false acc = (acc, v / p10 prec, false)) \/
  (snd (fmt_frac_loop prec v false acc) = true /\
   exists k j f, (k + j = prec)%nat /\ 0 < f /\ f * p10 j = v mod p10 prec /\
     leading_fraction (fst (fst (fmt_frac_loop prec v false acc))) 0 1 false
     = leading_fraction acc f (p10 k) false).
Proof.
  induction prec as [|prec IH]; intros v acc Hv Hb.
  - left. cbn [fmt_frac_loop p10]. rewrite Z.div_1_r. split; [lia|reflexivity].
  - rewrite fmt_frac_loop_S. cbn [orb].
    pose proof (p10_pos prec) as HP. cbn [p10] in Hb.
    destruct (Z.eqb_spec (v mod 10) 0) as [Hz|Hz]; cbn [negb].
    + destruct (IH (v / 10) acc) as [[H1 H2]|[H1 (k & j & f & Hkj & Hf & Hfj & Hl)]]; [lia|lia| |].
      * left. rewrite mod_p10_S, div_p10_S. split; [lia|exact H2].
      * right. split; [exact H1|]. exists k, (S j), f.
        rewrite mod_p10_S. cbn [p10]. repeat split; [lia|lia|lia|exact Hl].
    + right.
      destruct (frac_true prec (v / 10) 0 1 (digit_ch (v mod 10) :: acc)) as [H1 H2]; [lia|lia|lia|].
      split; [exact H1|].
      exists (S prec), O, (((v / 10) mod p10 prec) * 10 + v mod 10).
      rewrite mod_p10_S. cbn [p10]. repeat split; [lia|lia|lia|].
      rewrite H2. rewrite leading_fraction_step.
      * rewrite digit_val_ch by lia. f_equal; lia.
      * apply digit_ch_is_digit. lia.
      * lia.
      * rewrite digit_val_ch by lia. lia.
      * lia.
Qed.

Lemma fmt_frac_spec acc v prec :
  0 <= v -> p10 prec <= big18 ->
  snd (fmt_frac acc v prec) = v / p10 prec /\
  ((v mod p10 prec = 0 /\ fst (fmt_frac acc v prec) = acc) \/
   (exists r k j f, fst (fmt_frac acc v prec) = ch_dot :: r /\
      (k + j = prec)%nat /\ 0 < f /\ f * p10 j = v mod p10 prec /\
      leading_fraction r 0 1 false = leading_fraction acc f (p10 k) false)).
Proof.
  intros Hv Hb. unfold fmt_frac.
  pose proof (fmt_frac_loop_val prec v false acc) as Hval.
  pose proof (frac_false prec v acc Hv Hb) as H.
  destruct (fmt_frac_loop prec v false acc) as [[a w] p]. cbn [fst snd] in *.
  split; [exact Hval|].
  destruct H as [[H1 H2]|[H1 (k & j & f & Hkj & Hf & Hfj & Hl)]].
  - left. injection H2 as -> _ ->. split; [exact H1|reflexivity].
  - right. subst p. exists a, k, j, f. repeat split; assumption.
Qed.

Ltac len := repeat first [rewrite app_length | progress cbn [length]]; lia.

(** * The unit text *)

Definition is_stop (c : N) : bool := (c =? ch_dot)%N || is_digit c.
Definition hd_stop (l : bytes) : Prop :=
  match l with c :: _ => is_stop c = true | [] => True end.

Lemma span_unit_app ub rest :
  forallb (fun c => negb (is_stop c)) ub = true -> hd_stop rest ->
  span_unit (ub ++ rest) = (ub, rest).
Proof.
  induction ub as [|c ub IH]; cbn [forallb app]; intros H Hr.
  - destruct rest as [|c r]; cbn [span_unit]; [reflexivity|].
    cbn [hd_stop] in Hr. unfold is_stop in Hr. rewrite Hr. reflexivity.
  - apply andb_true_iff in H as [H1 H2]. cbn [span_unit].
    apply negb_true_iff in H1. unfold is_stop in H1. rewrite H1.
    rewrite IH by assumption. reflexivity.
Qed.

Lemma hd_digit_stop l : hd_digit l -> hd_stop l.
Proof.
  destruct l as [|c l]; cbn [hd_digit hd_stop]; [tauto|].
  intros H. unfold is_stop. rewrite H. apply orb_true_r.
Qed.

(** * One round of the main loop, symbolically *)

Lemma parse_round fuel c0 s0 v s1 f scale s2 post ub0 ubt rest unit d val :
  is_digit c0 = true ->
  leading_int (c0 :: s0) 0 = Some (v, s1) ->
  length (c0 :: s0) <> length s1 ->
  match s1 with
  | c1 :: s1' =>
      if (c1 =? ch_dot)%N then
        let '(f, scale, r) := leading_fraction s1' 0 1 false in
        (f, scale, r, negb (length s1' =? length r)%nat)
      else (0, 1, s1, false)
  | [] => (0, 1, s1, false)
  end = (f, scale, s2, post) ->
  span_unit s2 = (ub0 :: ubt, rest) ->
  lookup_unit unit_map (ub0 :: ubt) = Some unit ->
  0 <= v <= two63 / unit -> 0 <= d ->
  val = (if 0 <? f then frac_part f unit scale else 0) -> 0 <= val ->
  d + v * unit + val <= two63 ->
  parse_loop (S fuel) (c0 :: s0) d = parse_loop fuel rest (d + v * unit + val).
Proof.
  intros Hc Hli Hlen Hm Hsp Hlk Hv Hd Hval Hval0 Hsum.
  cbn [parse_loop]. rewrite Hc, orb_true_r. cbn [negb]. rewrite Hli.
  rewrite (proj2 (Nat.eqb_neq _ _) Hlen). cbn [negb].
  rewrite Hm. cbn [andb]. rewrite Hsp, Hlk.
  destruct (Z.ltb_spec (two63 / unit) v) as [H|_]; [lia|].
  replace (if 0 <? f then v * unit + frac_part f unit scale else v * unit)
    with (v * unit + val) by (subst val; destruct (0 <? f); lia).
  assert (H0 : 0 <= v * unit).
  { destruct (Z.le_gt_cases 0 unit) as [Hu|Hu]; [apply Z.mul_nonneg_nonneg; lia|].
    unfold two63 in Hv. nia. }
  destruct (Z.ltb_spec two63 (v * unit + val)) as [H|_]; [lia|]. rewrite andb_false_r.
  rewrite Z.add_assoc.
  rewrite Z.mod_small by (unfold two63, two64 in *; lia).
  destruct (Z.ltb_spec two63 (d + v * unit + val)) as [H|_]; [lia|]. reflexivity.
Qed.

Definition unit_ok (ub : bytes) (unit : Z) : Prop :=
  ub <> [] /\ forallb (fun c => negb (is_stop c)) ub = true /\
  lookup_unit unit_map ub = Some unit /\ 0 < unit.

Lemma two63_div_le unit : 0 < unit -> two63 / unit <= two63.
Proof. intros H. apply Z.div_le_upper_bound; [exact H|]. unfold two63. nia. Qed.

(** A number, then the unit. *)
Lemma round_nofrac fuel v ub unit rest d :
  unit_ok ub unit -> hd_stop rest ->
  0 <= v <= two63 / unit -> 0 <= d -> d + v * unit <= two63 ->
  parse_loop (S fuel) (dg v ++ ub ++ rest) d = parse_loop fuel rest (d + v * unit).
Proof.
  intros (Hne & Hub & Hlk & Hpos) Hr Hv Hd Hsum.
  pose proof (two63_div_le unit Hpos) as Hdiv.
  destruct ub as [|u0 ut]; [congruence|clear Hne].
  pose proof Hub as Hub'. cbn [forallb] in Hub'. apply andb_true_iff in Hub' as [Hu0 _].
  apply negb_true_iff in Hu0. unfold is_stop in Hu0. apply orb_false_iff in Hu0 as [Hdot Hdig].
  destruct (dg_cons v) as (c & t & E & Hc); [lia|].
  pose proof (leading_int_dg v ((u0 :: ut) ++ rest)) as Hli.
  rewrite E in *. cbn [app] in *.
  replace (d + v * unit) with (d + v * unit + 0) by lia.
  eapply parse_round with (f := 0) (scale := 1).
  - exact Hc.
  - apply Hli; [lia|exact Hdig].
  - len.
  - cbv beta iota. rewrite Hdot. reflexivity.
  - apply (span_unit_app (u0 :: ut) rest Hub Hr).
  - exact Hlk.
  - lia.
  - exact Hd.
  - reflexivity.
  - lia.
  - lia.
Qed.

Lemma frac_part_p10 f k j : frac_part f (p10 (k + j)) (p10 k) = f * p10 j.
Proof.
  unfold frac_part. rewrite p10_add. pose proof (p10_pos k).
  rewrite (Z.mul_comm (p10 k)), Z.mod_mul by lia. change (0 =? 0) with true. cbv iota.
  rewrite Z.div_mul by lia. reflexivity.
Qed.

(** A number, a point, fraction digits, then the unit. *)
Lemma round_dot fuel v r ub rest d f k j :
  unit_ok ub (p10 (k + j)) -> hd_stop rest ->
  leading_fraction r 0 1 false = leading_fraction (ub ++ rest) f (p10 k) false ->
  0 < f ->
  0 <= v <= two63 / p10 (k + j) -> 0 <= d -> d + v * p10 (k + j) + f * p10 j <= two63 ->
  parse_loop (S fuel) (dg v ++ ch_dot :: r) d
  = parse_loop fuel rest (d + v * p10 (k + j) + f * p10 j).
Proof.
  intros (Hne & Hub & Hlk & Hpos) Hr Hlf Hf Hv Hd Hsum.
  pose proof (two63_div_le _ Hpos) as Hdiv.
  destruct ub as [|u0 ut]; [congruence|clear Hne].
  pose proof Hub as Hub'. cbn [forallb] in Hub'. apply andb_true_iff in Hub' as [Hu0 _].
  apply negb_true_iff in Hu0. unfold is_stop in Hu0. apply orb_false_iff in Hu0 as [Hdot Hdig].
  destruct (dg_cons v) as (c & t & E & Hc); [lia|].
  pose proof (leading_int_dg v (ch_dot :: r)) as Hli.
  rewrite E in *. cbn [app] in *.
  pose proof (p10_pos j) as Hj.
  eapply parse_round.
  - exact Hc.
  - apply Hli; [lia|reflexivity].
  - len.
  - cbv beta iota. rewrite N.eqb_refl. rewrite Hlf. rewrite leading_fraction_stop by exact Hdig. reflexivity.
  - apply (span_unit_app (u0 :: ut) rest Hub Hr).
  - exact Hlk.
  - lia.
  - exact Hd.
  - destruct (Z.ltb_spec 0 f); [|lia]. rewrite frac_part_p10. reflexivity.
  - nia.
  - lia.
Qed.

(** A number, the fraction as [fmt_frac] prints it, then the unit. *)
Lemma round_frac fuel v w prec ub rest d :
  unit_ok ub (p10 prec) -> hd_stop rest -> p10 prec <= big18 -> 0 <= w ->
  0 <= v <= two63 / p10 prec -> 0 <= d -> d + v * p10 prec + w mod p10 prec <= two63 ->
  parse_loop (S fuel) (dg v ++ fst (fmt_frac (ub ++ rest) w prec)) d
  = parse_loop fuel rest (d + v * p10 prec + w mod p10 prec).
Proof.
  intros Hu Hr Hb Hw Hv Hd Hsum.
  destruct (fmt_frac_spec (ub ++ rest) w prec Hw Hb) as [_ [[H1 H2]|(r & k & j & f & E & Hkj & Hf & Hfj & Hl)]].
  - rewrite H2, H1 in *. rewrite Z.add_0_r in *. apply round_nofrac; assumption.
  - rewrite E. subst prec. rewrite <- Hfj in *. apply round_dot with (ub := ub); assumption.
Qed.

Lemma parse_loop_nil fuel d : parse_loop fuel [] d = inr d.
Proof. destruct fuel; reflexivity. Qed.

(** The units. *)
Lemma unit_ns : unit_ok [ch_n; ch_s] 1.
Proof. repeat split; try discriminate; vm_compute; reflexivity. Qed.
Lemma unit_us : unit_ok micro_s (p10 3).
Proof. repeat split; try discriminate; vm_compute; reflexivity. Qed.
Lemma unit_ms : unit_ok [ch_m; ch_s] (p10 6).
Proof. repeat split; try discriminate; vm_compute; reflexivity. Qed.
Lemma unit_s : unit_ok [ch_s] (p10 9).
Proof. repeat split; try discriminate; vm_compute; reflexivity. Qed.
Lemma unit_m : unit_ok [ch_m] ns_min.
Proof. repeat split; try discriminate; vm_compute; reflexivity. Qed.
Lemma unit_h : unit_ok [ch_h] ns_hour.
Proof. repeat split; try discriminate; vm_compute; reflexivity. Qed.

(** * The printed body (without sign) and what the main loop makes of it *)

Definition dur_body (u : Z) : bytes :=
  if u <? ns_sec then
    if u =? 0 then [ch_0; ch_s]
    else if u <? 1000 then fmt_int [ch_n; ch_s] u
    else if u <? 1000000 then let (acc, v) := fmt_frac micro_s u 3 in fmt_int acc v
    else let (acc, v) := fmt_frac [ch_m; ch_s] u 6 in fmt_int acc v
  else
    let (acc, v) := fmt_frac [ch_s] u 9 in
    let acc := fmt_int acc (v mod 60) in
    let v := v / 60 in
    if 0 <? v then
      let acc := fmt_int (ch_m :: acc) (v mod 60) in
      let v := v / 60 in
      if 0 <? v then fmt_int (ch_h :: acc) v else acc
    else acc.

Lemma duration_string_body d :
  duration_string d
  = if d <? 0 then ch_minus :: dur_body (Z.abs d) else dur_body (Z.abs d).
Proof. reflexivity. Qed.

Definition parses (body : bytes) (u : Z) : Prop :=
  hd_digit body /\ (2 <= length body)%nat /\
  forall fuel, (length body <= fuel)%nat -> parse_loop fuel body 0 = inr u.

Lemma parses_intro n body u :
  hd_digit body -> (2 <= length body)%nat -> (n <= length body)%nat ->
  (forall fuel, (n <= fuel)%nat -> parse_loop fuel body 0 = inr u) -> parses body u.
Proof. intros H1 H2 H3 H4. repeat split; try assumption. intros fuel Hf. apply H4. lia. Qed.

Lemma hd_digit_app a b : hd_digit a -> hd_digit (a ++ b).
Proof. destruct a; [intros []|]. cbn [app hd_digit]. tauto. Qed.

Lemma hd_dg_app v b : 0 <= v -> hd_digit (dg v ++ b).
Proof. intros H. apply hd_digit_app, dg_hd, H. Qed.

Lemma frac_nonempty acc v prec :
  acc <> [] -> 0 <= v -> p10 prec <= big18 ->
  (1 <= length (fst (fmt_frac acc v prec)))%nat.
Proof.
  intros Ha Hv Hb.
  destruct (fmt_frac_spec acc v prec Hv Hb) as [_ [[_ ->]|(r & k & j & f & -> & _)]].
  - destruct acc; [congruence|]. cbn [length]. lia.
  - cbn [length]. lia.
Qed.

Lemma fmt_frac_int acc u prec :
  0 <= u -> p10 prec <= big18 ->
  (let (a, v) := fmt_frac acc u prec in fmt_int a v)
  = dg (u / p10 prec) ++ fst (fmt_frac acc u prec).
Proof.
  intros Hu Hb. destruct (fmt_frac_spec acc u prec Hu Hb) as [Hs _].
  destruct (fmt_frac acc u prec) as [a w]. cbn [fst snd] in *. subst w. apply fmt_int_app.
Qed.

Lemma p10_3 : p10 3 = 1000. Proof. reflexivity. Qed.
Lemma p10_6 : p10 6 = 1000000. Proof. reflexivity. Qed.
Lemma p10_9 : p10 9 = 1000000000. Proof. reflexivity. Qed.

(** One-round bodies: a number with a fraction and a unit, nothing after. *)
Lemma single_parses ub prec u :
  unit_ok ub (p10 prec) -> p10 prec <= big18 -> 0 <= u <= two63 ->
  parses (dg (u / p10 prec) ++ fst (fmt_frac ub u prec)) u.
Proof.
  intros Hu Hb Hr. pose proof (p10_pos prec) as HP.
  assert (Hne : ub <> []) by apply Hu.
  pose proof (frac_nonempty ub u prec Hne ltac:(lia) Hb) as Hl.
  assert (Hq : 0 <= u / p10 prec) by (apply Z.div_pos; lia).
  pose proof (dg_length _ Hq) as Hl'.
  apply (parses_intro 1).
  - apply hd_dg_app. exact Hq.
  - len.
  - len.
  - intros [|fuel] Hf; [lia|]. rewrite <- (app_nil_r ub).
    rewrite round_frac; try assumption; try exact I; try lia.
    + rewrite parse_loop_nil. f_equal. lia.
    + split; [exact Hq|]. apply Z.div_le_mono; lia.
Qed.

(** Bodies from one second on: hours, minutes, seconds with the fraction. *)
Definition sec_part (u : Z) : bytes := dg (u / ns_sec mod 60) ++ fst (fmt_frac [ch_s] u 9).
Definition min_part (u : Z) (tail : bytes) : bytes := dg (u / ns_sec / 60 mod 60) ++ ch_m :: tail.
Definition hour_part (u : Z) (tail : bytes) : bytes := dg (u / ns_sec / 60 / 60) ++ ch_h :: tail.

Definition sec_body (u : Z) : bytes :=
  if 0 <? u / ns_sec / 60 then
    if 0 <? u / ns_sec / 60 / 60 then hour_part u (min_part u (sec_part u))
    else min_part u (sec_part u)
  else sec_part u.

Lemma dur_body_sec u : ns_sec <= u -> dur_body u = sec_body u.
Proof.
  intros H. unfold dur_body, sec_body, hour_part, min_part, sec_part.
  destruct (Z.ltb_spec u ns_sec) as [H'|_]; [lia|].
  assert (Hu : 0 <= u) by (unfold ns_sec in H; lia).
  destruct (fmt_frac_spec [ch_s] u 9 Hu ltac:(vm_compute; congruence)) as [Hs _].
  destruct (fmt_frac [ch_s] u 9) as [a w]. cbn [fst snd] in *. subst w.
  change (p10 9) with ns_sec. cbv zeta. rewrite !fmt_int_app. reflexivity.
Qed.

Lemma round_s fuel u d :
  0 <= u -> 0 <= d -> d + (u / ns_sec mod 60) * ns_sec + u mod ns_sec <= two63 ->
  parse_loop (S fuel) (sec_part u) d = inr (d + (u / ns_sec mod 60) * ns_sec + u mod ns_sec).
Proof.
  intros Hu Hd Hsum. unfold sec_part. change [ch_s] with ([ch_s] ++ []).
  change ns_sec with (p10 9) in *.
  rewrite round_frac; try assumption; try exact I.
  - apply parse_loop_nil.
  - exact unit_s.
  - vm_compute; congruence.
  - rewrite p10_9. unfold two63. lia.
Qed.

Lemma round_m fuel u tail d :
  hd_stop tail -> 0 <= u -> 0 <= d -> d + (u / ns_sec / 60 mod 60) * ns_min <= two63 ->
  parse_loop (S fuel) (min_part u tail) d
  = parse_loop fuel tail (d + (u / ns_sec / 60 mod 60) * ns_min).
Proof.
  intros Ht Hu Hd Hsum. unfold min_part. change (ch_m :: tail) with ([ch_m] ++ tail).
  apply round_nofrac; try assumption.
  - exact unit_m.
  - unfold two63, ns_min, ns_sec. lia.
Qed.

Lemma round_h fuel u tail d :
  hd_stop tail -> 0 <= u <= two63 -> 0 <= d -> d + (u / ns_sec / 60 / 60) * ns_hour <= two63 ->
  parse_loop (S fuel) (hour_part u tail) d
  = parse_loop fuel tail (d + (u / ns_sec / 60 / 60) * ns_hour).
Proof.
  intros Ht Hu Hd Hsum. unfold hour_part. change (ch_h :: tail) with ([ch_h] ++ tail).
  apply round_nofrac; try assumption.
  - exact unit_h.
  - unfold two63, ns_hour, ns_sec in *. lia.
Qed.

Lemma sec_part_hd u : 0 <= u -> hd_digit (sec_part u).
Proof. intros H. apply hd_dg_app. unfold ns_sec. lia. Qed.
Lemma min_part_hd u t : 0 <= u -> hd_digit (min_part u t).
Proof. intros H. apply hd_dg_app. unfold ns_sec. lia. Qed.
Lemma hour_part_hd u t : 0 <= u -> hd_digit (hour_part u t).
Proof. intros H. apply hd_dg_app. unfold ns_sec. lia. Qed.

Lemma sec_part_len u : 0 <= u -> (2 <= length (sec_part u))%nat.
Proof.
  intros H. unfold sec_part.
  pose proof (frac_nonempty [ch_s] u 9 ltac:(discriminate) H ltac:(vm_compute; congruence)).
  pose proof (dg_length (u / ns_sec mod 60) ltac:(unfold ns_sec; lia)). len.
Qed.
Lemma min_part_len u t : 0 <= u -> (2 + length t <= length (min_part u t))%nat.
Proof.
  intros H. unfold min_part.
  pose proof (dg_length (u / ns_sec / 60 mod 60) ltac:(unfold ns_sec; lia)). len.
Qed.
Lemma hour_part_len u t : 0 <= u -> (2 + length t <= length (hour_part u t))%nat.
Proof.
  intros H. unfold hour_part.
  pose proof (dg_length (u / ns_sec / 60 / 60) ltac:(unfold ns_sec; lia)). len.
Qed.

Lemma sec_body_parses u : ns_sec <= u <= two63 -> parses (sec_body u) u.
Proof.
  intros Hr. assert (Hu : 0 <= u) by (unfold ns_sec in Hr; lia).
  pose proof (sec_part_len u Hu) as Ls.
  pose proof (min_part_len u (sec_part u) Hu) as Lm.
  pose proof (hour_part_len u (min_part u (sec_part u)) Hu) as Lh.
  unfold sec_body.
  destruct (Z.ltb_spec 0 (u / ns_sec / 60)) as [Hm|Hm];
    [destruct (Z.ltb_spec 0 (u / ns_sec / 60 / 60)) as [Hh|Hh]|].
  - apply (parses_intro 3); [apply hour_part_hd, Hu|lia|lia|].
    intros [|[|[|fuel]]] Hf; try lia.
    rewrite round_h; [|apply hd_digit_stop, min_part_hd, Hu|lia|lia|unfold two63, ns_hour, ns_sec in *; lia].
    rewrite round_m; [|apply hd_digit_stop, sec_part_hd, Hu|lia|unfold ns_hour, ns_sec; lia|unfold two63, ns_hour, ns_min, ns_sec in *; lia].
    rewrite round_s; [|lia|unfold ns_hour, ns_min, ns_sec; lia|unfold two63, ns_hour, ns_min, ns_sec in *; lia].
    f_equal. unfold ns_hour, ns_min, ns_sec. lia.
  - apply (parses_intro 2); [apply min_part_hd, Hu|lia|lia|].
    intros [|[|fuel]] Hf; try lia.
    rewrite round_m; [|apply hd_digit_stop, sec_part_hd, Hu|lia|lia|unfold two63, ns_hour, ns_min, ns_sec in *; lia].
    rewrite round_s; [|lia|unfold ns_hour, ns_min, ns_sec; lia|unfold two63, ns_hour, ns_min, ns_sec in *; lia].
    f_equal. unfold ns_hour, ns_min, ns_sec in *. lia.
  - apply (parses_intro 1); [apply sec_part_hd, Hu|lia|lia|].
    intros [|fuel] Hf; try lia.
    rewrite round_s; [|lia|lia|unfold two63, ns_hour, ns_min, ns_sec in *; lia].
    f_equal. unfold ns_hour, ns_min, ns_sec in *. lia.
Qed.

Lemma dur_body_parses u : 0 < u <= two63 -> parses (dur_body u) u.
Proof.
  intros Hr. destruct (Z.le_gt_cases ns_sec u) as [Hs|Hs].
  - rewrite dur_body_sec by exact Hs. apply sec_body_parses. lia.
  - unfold dur_body. destruct (Z.ltb_spec u ns_sec) as [_|H]; [|lia].
    destruct (Z.eqb_spec u 0) as [H|_]; [lia|].
    destruct (Z.ltb_spec u 1000) as [H3|H3]; [|destruct (Z.ltb_spec u 1000000) as [H6|H6]].
    + rewrite fmt_int_app. pose proof (dg_length u ltac:(lia)) as Hl.
      apply (parses_intro 1); [apply hd_dg_app; lia|len|len|].
      intros [|fuel] Hf; [lia|]. change [ch_n; ch_s] with ([ch_n; ch_s] ++ []).
      rewrite (round_nofrac fuel u [ch_n; ch_s] 1 [] 0); [|exact unit_ns|exact I|unfold two63 in *; lia|lia|lia].
      rewrite parse_loop_nil. f_equal. lia.
    + rewrite fmt_frac_int by (try (vm_compute; congruence); lia).
      apply single_parses; [exact unit_us|vm_compute; congruence|lia].
    + rewrite fmt_frac_int by (try (vm_compute; congruence); lia).
      apply single_parses; [exact unit_ms|vm_compute; congruence|lia].
Qed.

(** * parse_duration around the main loop *)

Lemma eqb_bytes_len2 body : (2 <= length body)%nat -> eqb_bytes body [ch_0] = false.
Proof.
  destruct body as [|a [|b t]]; cbn [length]; try lia. intros _.
  unfold eqb_bytes. cbn [eqb_list]. apply andb_false_r.
Qed.

Lemma parse_duration_pos body u :
  parses body u -> u < two63 -> parse_duration body = inr u.
Proof.
  intros (Hh & Hl & Hp) Hu. destruct body as [|c t]; [destruct Hh|]. cbn [hd_digit] in Hh.
  apply is_digit_range in Hh as Hc. unfold parse_duration.
  replace (c =? ch_minus)%N with false by (symmetry; apply N.eqb_neq; unfold ch_minus; lia).
  replace (c =? ch_plus)%N with false by (symmetry; apply N.eqb_neq; unfold ch_plus; lia).
  rewrite eqb_bytes_len2 by exact Hl. rewrite Hp by lia.
  destruct (Z.ltb_spec (two63 - 1) u); [lia|reflexivity].
Qed.

Lemma parse_duration_neg body u :
  parses body u -> parse_duration (ch_minus :: body) = inr (- u).
Proof.
  intros (Hh & Hl & Hp). destruct body as [|c t]; [destruct Hh|].
  unfold parse_duration. rewrite N.eqb_refl.
  rewrite eqb_bytes_len2 by exact Hl. rewrite Hp by lia. reflexivity.
Qed.

(** * time.Duration.String then time.ParseDuration *)

Theorem duration_string_roundtrip d :
  - two63 <= d < two63 -> parse_duration (duration_string d) = inr d.
Proof.
  intros Hd. rewrite duration_string_body.
  destruct (Z.ltb_spec d 0) as [Hn|Hn].
  - rewrite (parse_duration_neg _ (Z.abs d)); [f_equal; lia|].
    apply dur_body_parses. lia.
  - destruct (Z.eq_dec d 0) as [->|Hz]; [vm_compute; reflexivity|].
    rewrite (parse_duration_pos _ (Z.abs d)); [f_equal; lia| |lia].
    apply dur_body_parses. lia.
Qed.

(** * timeutil.Duration.String: the trailing "0s" / "0m0s" cut *)

Lemma cut_tail_app (X Y : bytes) n : length Y = n -> cut_tail n (X ++ Y) = X.
Proof.
  intros H. unfold cut_tail. rewrite app_length.
  replace (length X + length Y - n)%nat with (length X) by lia.
  rewrite firstn_app, firstn_all, Nat.sub_diag, firstn_O. apply app_nil_r.
Qed.

Lemma min_part_app u t x : min_part u (t ++ x) = min_part u t ++ x.
Proof. unfold min_part. rewrite <- app_assoc. reflexivity. Qed.
Lemma hour_part_app u t x : hour_part u (t ++ x) = hour_part u t ++ x.
Proof. unfold hour_part. rewrite <- app_assoc. reflexivity. Qed.

(** Whole seconds with a zero seconds field print "0s" last. *)
Lemma sec_part_zero u :
  0 <= u -> u mod ns_sec = 0 -> u / ns_sec mod 60 = 0 -> sec_part u = [ch_0; ch_s].
Proof.
  intros Hu H1 H2. unfold sec_part. rewrite H2, dg_0.
  destruct (fmt_frac_spec [ch_s] u 9 Hu ltac:(vm_compute; congruence))
    as [_ [[_ ->]|(r & k & j & f & _ & _ & Hf & Hfj & _)]]; [reflexivity|].
  change (p10 9) with ns_sec in Hfj. pose proof (p10_pos j). nia.
Qed.

Lemma cut2_body u :
  ns_sec <= u <= two63 -> u mod ns_sec = 0 -> u / ns_sec mod 60 = 0 ->
  dur_body u
  = (if 0 <? u / ns_sec / 60 / 60 then hour_part u (min_part u []) else min_part u [])
    ++ [ch_0; ch_s].
Proof.
  intros Hr H1 H2. assert (Hu : 0 <= u) by (unfold ns_sec in Hr; lia).
  rewrite dur_body_sec by lia. unfold sec_body. rewrite sec_part_zero by assumption.
  destruct (Z.ltb_spec 0 (u / ns_sec / 60)) as [_|H]; [|unfold ns_sec in *; lia].
  change [ch_0; ch_s] with ([] ++ [ch_0; ch_s]) at 1 2.
  rewrite min_part_app, hour_part_app. destruct (0 <? u / ns_sec / 60 / 60); reflexivity.
Qed.

Lemma cut2_parses u :
  ns_sec <= u <= two63 -> u mod ns_sec = 0 -> u / ns_sec mod 60 = 0 ->
  parses (if 0 <? u / ns_sec / 60 / 60 then hour_part u (min_part u []) else min_part u []) u.
Proof.
  intros Hr H1 H2. assert (Hu : 0 <= u) by (unfold ns_sec in Hr; lia).
  pose proof (min_part_len u [] Hu) as Lm.
  pose proof (hour_part_len u (min_part u []) Hu) as Lh.
  destruct (Z.ltb_spec 0 (u / ns_sec / 60 / 60)) as [Hh|Hh].
  - apply (parses_intro 2); [apply hour_part_hd, Hu|lia|lia|].
    intros [|[|fuel]] Hf; try lia.
    rewrite round_h; [|apply hd_digit_stop, min_part_hd, Hu|lia|lia|unfold two63, ns_hour, ns_sec in *; lia].
    rewrite round_m; [|exact I|lia|unfold ns_hour, ns_sec; lia|unfold two63, ns_hour, ns_min, ns_sec in *; lia].
    rewrite parse_loop_nil. f_equal. unfold ns_hour, ns_min, ns_sec in *. lia.
  - apply (parses_intro 1); [apply min_part_hd, Hu|lia|lia|].
    intros [|fuel] Hf; try lia.
    rewrite round_m; [|exact I|lia|lia|unfold two63, ns_hour, ns_min, ns_sec in *; lia].
    rewrite parse_loop_nil. f_equal. unfold ns_hour, ns_min, ns_sec in *. lia.
Qed.

(** With a zero minutes field too the hours are positive and "0m0s" is last. *)
Lemma cut4_body u :
  ns_sec <= u <= two63 -> u mod ns_sec = 0 -> u / ns_sec mod 60 = 0 ->
  u / ns_sec / 60 mod 60 = 0 ->
  dur_body u = hour_part u [] ++ [ch_0; ch_m; ch_0; ch_s].
Proof.
  intros Hr H1 H2 H3. rewrite cut2_body by assumption.
  destruct (Z.ltb_spec 0 (u / ns_sec / 60 / 60)) as [_|H]; [|unfold ns_sec in *; lia].
  unfold hour_part, min_part. rewrite H3, dg_0. rewrite <- !app_assoc. reflexivity.
Qed.

Lemma cut4_parses u :
  ns_sec <= u <= two63 -> u mod ns_sec = 0 -> u / ns_sec mod 60 = 0 ->
  u / ns_sec / 60 mod 60 = 0 ->
  parses (hour_part u []) u.
Proof.
  intros Hr H1 H2 H3. assert (Hu : 0 <= u) by (unfold ns_sec in Hr; lia).
  pose proof (hour_part_len u [] Hu) as Lh.
  apply (parses_intro 1); [apply hour_part_hd, Hu|lia|lia|].
  intros [|fuel] Hf; try lia.
  rewrite round_h; [|exact I|lia|lia|unfold two63, ns_hour, ns_sec in *; lia].
  rewrite parse_loop_nil. f_equal. unfold ns_hour, ns_min, ns_sec in *. lia.
Qed.

Lemma signed_cut_parse d B T n :
  - two63 <= d < two63 ->
  dur_body (Z.abs d) = B ++ T -> length T = n -> parses B (Z.abs d) ->
  parse_duration (cut_tail n (duration_string d)) = inr d.
Proof.
  intros Hd HB HT HP. rewrite duration_string_body, HB. destruct (Z.ltb_spec d 0).
  - rewrite app_comm_cons, cut_tail_app by assumption.
    rewrite (parse_duration_neg _ (Z.abs d)) by assumption. f_equal; lia.
  - rewrite cut_tail_app by assumption.
    rewrite (parse_duration_pos _ (Z.abs d)); [f_equal; lia|assumption|lia].
Qed.

Theorem tu_string_roundtrip d :
  - two63 <= d < two63 -> parse_duration (tu_string d) = inr d.
Proof.
  intros Hd. unfold tu_string. cbv zeta.
  destruct (Z.eqb_spec (Z.quot d ns_sec) 0) as [|N1]; cbn [orb];
    [apply duration_string_roundtrip, Hd|].
  destruct (Z.eqb_spec (Z.quot d ns_sec * ns_sec) d) as [N2|]; cbn [negb orb];
    [|apply duration_string_roundtrip, Hd].
  destruct (Z.eqb_spec (Z.rem (Z.quot d ns_sec) 60) 0) as [N3|]; cbn [negb];
    [|apply duration_string_roundtrip, Hd].
  assert (Hr : ns_sec <= Z.abs d <= two63) by (unfold ns_sec, two63 in *; lia).
  assert (H1 : Z.abs d mod ns_sec = 0) by (unfold ns_sec in *; lia).
  assert (H2 : Z.abs d / ns_sec mod 60 = 0) by (unfold ns_sec in *; lia).
  destruct (Z.eqb_spec (Z.quot (Z.rem (Z.quot d ns_sec) 3600) 60) 0) as [N4|N4]; cbn [negb].
  - assert (H3 : Z.abs d / ns_sec / 60 mod 60 = 0) by (unfold ns_sec in *; lia).
    eapply signed_cut_parse; [exact Hd|apply cut4_body; assumption|reflexivity|].
    apply cut4_parses; assumption.
  - eapply signed_cut_parse; [exact Hd|apply cut2_body; assumption|reflexivity|].
    apply cut2_parses; assumption.
Qed.

(** The whole minutes of a day, from the general statement. *)
Corollary yaml_minute_roundtrip' k :
  0 <= k <= 1440 -> parse_duration (tu_string (k * ns_min)) = inr (k * ns_min).
Proof.
  intros Hk. apply tu_string_roundtrip. unfold ns_min, ns_sec, two63. lia.
Qed.

(** * The JSON millisecond number text *)

Lemma digits_acc_step c s x k :
  is_digit c = true -> digits_acc (c :: s) x k = digits_acc s (x * 10 + digit_val c) (k + 1).
Proof. intros H. cbn [digits_acc]. rewrite H. reflexivity. Qed.

Lemma digits_acc_stop s x k : hd_nondigit s -> digits_acc s x k = (x, k, s).
Proof.
  destruct s as [|c s]; cbn [hd_nondigit digits_acc]; [reflexivity|]. intros ->. reflexivity.
Qed.

Lemma digits_acc_fmt_loop fuel : forall v acc k0,
  0 <= v < p10 fuel ->
  exists n, 0 <= n /\ (0 < v -> 0 < n) /\
    digits_acc (fmt_int_loop fuel v acc) 0 k0 = digits_acc acc v (k0 + n).
Proof.
  induction fuel as [|fuel IH]; intros v acc k0 Hv.
  - cbn [p10] in Hv. exists 0. replace v with 0 by lia. rewrite Z.add_0_r.
    repeat split; [lia|lia].
  - rewrite fmt_int_loop_S. cbn [p10] in Hv.
    destruct (Z.leb_spec v 0) as [H|H].
    + exists 0. replace v with 0 by lia. rewrite Z.add_0_r. repeat split; [lia|lia].
    + destruct (IH (v / 10) (digit_ch (v mod 10) :: acc) k0 ltac:(lia)) as (n & Hn & _ & E).
      exists (n + 1). rewrite E, digits_acc_step by (apply digit_ch_is_digit; lia).
      rewrite digit_val_ch by lia. repeat split; [lia|lia|]. f_equal; lia.
Qed.

Lemma digits_acc_dg v s :
  0 <= v < p10 20 -> hd_nondigit s ->
  exists n, 0 < n /\ digits_acc (dg v ++ s) 0 0 = (v, n, s).
Proof.
  intros Hv Hs. rewrite <- fmt_int_app. unfold fmt_int.
  destruct (Z.eqb_spec v 0) as [->|Hn].
  - exists 1. split; [lia|]. rewrite digits_acc_step by reflexivity.
    apply digits_acc_stop, Hs.
  - destruct (digits_acc_fmt_loop 20 v s 0 Hv) as (n & _ & Hn' & E).
    exists n. split; [lia|]. rewrite E. apply digits_acc_stop, Hs.
Qed.

Lemma frac_true_snd prec : forall v acc, snd (fmt_frac_loop prec v true acc) = true.
Proof.
  induction prec as [|p IHp]; intros v acc; [reflexivity|].
  rewrite fmt_frac_loop_S. cbn [orb]. apply IHp.
Qed.

Lemma frac_true_acc prec : forall v x k0 acc,
  0 <= v ->
  digits_acc (fst (fst (fmt_frac_loop prec v true acc))) x k0
  = digits_acc acc (x * p10 prec + v mod p10 prec) (k0 + Z.of_nat prec).
Proof.
  induction prec as [|prec IH]; intros v x k0 acc Hv.
  - cbn [fmt_frac_loop fst snd p10]. f_equal; lia.
  - rewrite fmt_frac_loop_S. cbn [orb]. rewrite IH by lia.
    rewrite digits_acc_step by (apply digit_ch_is_digit; lia).
    rewrite digit_val_ch by lia. rewrite mod_p10_S. cbn [p10]. f_equal; lia.
Qed.

Lemma frac_false_acc prec : forall v acc,
  0 <= v ->
  (v mod p10 prec = 0 /\ fmt_frac_loop prec v false acc = (acc, v / p10 prec, false)) \/
  (snd (fmt_frac_loop prec v false acc) = true /\
   exists k j f, (k + j = prec)%nat /\ 0 < f /\ f * p10 j = v mod p10 prec /\
     forall x k0, digits_acc (fst (fst (fmt_frac_loop prec v false acc))) x k0
                  = digits_acc acc (x * p10 k + f) (k0 + Z.of_nat k)).
Proof.
  induction prec as [|prec IH]; intros v acc Hv.
  - left. cbn [fmt_frac_loop p10]. rewrite Z.div_1_r. split; [lia|reflexivity].
  - rewrite fmt_frac_loop_S. cbn [orb]. pose proof (p10_pos prec) as HP.
    destruct (Z.eqb_spec (v mod 10) 0) as [Hz|Hz]; cbn [negb].
    + destruct (IH (v / 10) acc) as [[H1 H2]|[H1 (k & j & f & Hkj & Hf & Hfj & Hl)]]; [lia| |].
      * left. rewrite mod_p10_S, div_p10_S. split; [lia|exact H2].
      * right. split; [exact H1|]. exists k, (S j), f.
        rewrite mod_p10_S. cbn [p10]. repeat split; [lia|lia|lia|exact Hl].
    + right. split; [apply frac_true_snd|].
      exists (S prec), O, (((v / 10) mod p10 prec) * 10 + v mod 10).
      rewrite mod_p10_S. cbn [p10]. repeat split; [lia|lia|lia|].
      intros x k0. rewrite frac_true_acc by lia.
      rewrite digits_acc_step by (apply digit_ch_is_digit; lia).
      rewrite digit_val_ch by lia. f_equal; lia.
Qed.

Definition ms_bound := 100000000000000000000000000.

Lemma ms_bound_eq : ms_bound = 10 ^ 26.
Proof. reflexivity. Qed.

Theorem ms_text_roundtrip d :
  Z.abs d < ms_bound -> parse_ms_text (print_ms_text d) = Some d.
Proof.
  intros Hd. set (u := Z.abs d) in *. assert (Hu : 0 <= u) by (subst u; lia).
  assert (HV : 0 <= u / p10 6 < p10 20).
  { change (p10 6) with 1000000. change (p10 20) with 100000000000000000000.
    unfold ms_bound in Hd. lia. }
  assert (Hbody : print_ms_text d =
    if d <? 0 then ch_minus :: dg (u / p10 6) ++ fst (fmt_frac [] u 6)
    else dg (u / p10 6) ++ fst (fmt_frac [] u 6)).
  { unfold print_ms_text. fold u.
    destruct (fmt_frac_spec [] u 6 Hu ltac:(vm_compute; congruence)) as [Hs _].
    destruct (fmt_frac [] u 6) as [a w]. cbn [fst snd] in *. subst w. cbv zeta.
    rewrite fmt_int_app. reflexivity. }
  assert (Hparse : forall neg,
    (let '(x, k1, s2) := digits_acc (dg (u / p10 6) ++ fst (fmt_frac [] u 6)) 0 0 in
     let '(num, k2, s3) :=
       match s2 with
       | c :: r => if (c =? ch_dot)%N then digits_acc r x 0 else (x, 0, s2)
       | [] => (x, 0, s2)
       end in
     match s3 with
     | _ :: _ => None
     | [] => if k1 + k2 =? 0 then None
             else let v := Z.quot (num * ns_per_msec) (10 ^ k2) in
                  Some (if neg : bool then - v else v)
     end) = Some (if neg then - u else u)).
  { intros neg. unfold fmt_frac.
    pose proof (frac_false_acc 6 u [] Hu) as H.
    destruct (fmt_frac_loop 6 u false []) as [[a w] p]. cbn [fst snd] in *.
    destruct H as [[H1 H2]|[H1 (k & j & f & Hkj & Hf & Hfj & Hl)]].
    - injection H2 as -> _ ->.
      destruct (digits_acc_dg (u / p10 6) [] HV I) as (n & Hn & ->).
      destruct (Z.eqb_spec (n + 0) 0) as [|_]; [lia|]. cbv zeta.
      change (10 ^ 0) with 1. rewrite Z.quot_1_r.
      replace (u / p10 6 * ns_per_msec) with u; [reflexivity|].
      unfold ns_per_msec. change (p10 6) with 1000000 in *. lia.
    - subst p.
      destruct (digits_acc_dg (u / p10 6) (ch_dot :: a) HV eq_refl) as (n & Hn & ->).
      rewrite N.eqb_refl, Hl. cbn [digits_acc].
      destruct (Z.eqb_spec (n + (0 + Z.of_nat k)) 0) as [|_]; [lia|]. cbv zeta.
      assert (E : Z.quot ((u / p10 6 * p10 k + f) * ns_per_msec) (10 ^ (0 + Z.of_nat k)) = u).
      { assert (Hp : 10 ^ (0 + Z.of_nat k) = p10 k).
        { rewrite Z.add_0_l. clear. induction k as [|k IH]; [reflexivity|].
          rewrite Nat2Z.inj_succ, Z.pow_succ_r by lia. cbn [p10]. rewrite IH. reflexivity. }
        rewrite Hp. change ns_per_msec with (p10 6). rewrite <- Hkj at 2. rewrite p10_add.
        pose proof (p10_pos k). pose proof (p10_pos j).
        replace ((u / p10 6 * p10 k + f) * (p10 k * p10 j))
          with ((u / p10 6 * p10 k + f) * p10 j * p10 k) by ring.
        rewrite Z.quot_mul by lia.
        rewrite Z.mul_add_distr_r, Hfj. rewrite <- Hkj at 1. rewrite p10_add.
        rewrite <- Z.mul_assoc, <- p10_add, Hkj. pose proof (p10_pos 6). lia. }
      rewrite E. reflexivity. }
  rewrite Hbody.
  destruct (dg_cons (u / p10 6) ltac:(lia)) as (c & t & Edg & Hc).
  apply is_digit_range in Hc as Hc'.
  destruct (Z.ltb_spec d 0) as [Hn|Hn].
  - replace (Some d) with (Some (if true then - u else u)) by (cbv iota; f_equal; subst u; lia).
    exact (Hparse true).
  - replace (Some d) with (Some (if false then - u else u)) by (cbv iota; f_equal; subst u; lia).
    specialize (Hparse false). rewrite Edg in *. cbn [app] in *.
    unfold parse_ms_text.
    replace (c =? ch_minus)%N with false by (symmetry; apply N.eqb_neq; unfold ch_minus; lia).
    replace (c =? ch_plus)%N with false by (symmetry; apply N.eqb_neq; unfold ch_plus; lia).
    exact Hparse.
Qed.

(** The whole minutes of a day for the JSON text, from the general
    statement. *)
Corollary json_minute_roundtrip' k :
  0 <= k <= 1440 -> parse_ms_text (print_ms_text (k * ns_min)) = Some (k * ns_min).
Proof.
  intros Hk. apply ms_text_roundtrip. unfold ms_bound, ns_min, ns_sec. lia.
Qed.

(** The reflective check over the 1441 minutes ([yaml_minutes_computed],
    [json_minutes_computed] in Proofs/ScheduleText.v) and the structural
    theorems agree, as they must: a cross-check of the two routes. *)
Lemma minute_routes_agree k :
  0 <= k <= 1440 ->
  yaml_minute_ok k = true /\ json_minute_ok k = true.
Proof.
  intros Hk. unfold yaml_minute_ok, json_minute_ok.
  rewrite yaml_minute_roundtrip', json_minute_roundtrip' by exact Hk.
  rewrite Z.eqb_refl. split; reflexivity.
Qed.

(** * Documents: the text layer is transparent

    For every week whose bounds are int64 values (validated or not), writing
    the YAML document and reading its texts back rebuilds exactly those
    bounds, so the decoder's verdict is the one of the validation of the
    stored ranges; likewise for the JSON document (bounds below 10^26 ns in
    absolute value, the exact-decimal model of the float formatting being
    claimed only below 10^15). *)
Definition int64_range (r : day_range) : Prop :=
  - two63 <= dr_start r < two63 /\ - two63 <= dr_end r < two63.
Definition ms_range (r : day_range) : Prop :=
  Z.abs (dr_start r) < ms_bound /\ Z.abs (dr_end r) < ms_bound.

Lemma text_transparent parse print w :
  (forall r, In r w -> parse (print (dr_start r)) = inr (dr_start r) /\
                       parse (print (dr_end r)) = inr (dr_end r)) ->
  unmarshal_fields parse (length (marshal_text print w))
    (flatten_days 0 (marshal_text print w))
  = match unmarshal_ranges w with
    | inl (i, e) => inl (TRange i e)
    | inr w => inr w
    end.
Proof.
  intros Hp. unfold unmarshal_fields.
  assert (Hl : length (marshal_text print w) = length w) by apply map_length.
  rewrite Hl.
  pose proof (apply_fields_marshal parse print w Hp []) as H.
  cbn [app length] in H. rewrite H. reflexivity.
Qed.

Lemma yaml_text_transparent w :
  Forall int64_range w ->
  unmarshal_yaml_text (marshal_yaml_text w)
  = match unmarshal_ranges w with
    | inl (i, e) => inl (TRange i e)
    | inr w => inr w
    end.
Proof.
  intros Hw. apply text_transparent. intros r Hr.
  rewrite Forall_forall in Hw. destruct (Hw r Hr) as [Hs He].
  unfold parse_yaml_dur. rewrite !tu_string_roundtrip by assumption. split; reflexivity.
Qed.

Lemma json_text_transparent w :
  Forall ms_range w ->
  unmarshal_json_text (marshal_json_text w)
  = match unmarshal_ranges w with
    | inl (i, e) => inl (TRange i e)
    | inr w => inr w
    end.
Proof.
  intros Hw. apply text_transparent. intros r Hr.
  rewrite Forall_forall in Hw. destruct (Hw r Hr) as [Hs He].
  unfold parse_json_dur. rewrite !ms_text_roundtrip by assumption. split; reflexivity.
Qed.

Lemma range_ok_int64 r : range_ok r -> int64_range r /\ ms_range r.
Proof.
  unfold range_ok, int64_range, ms_range, ns_day, ns_sec, two63, ms_bound.
  intros [[-> ->]|H]; lia.
Qed.

(** The round trips of validated schedules, this time resting on the
    structural theorems and not on the enumeration of the minutes. *)
Lemma yaml_text_roundtrip_structural w :
  weekly_ok w -> unmarshal_yaml_text (marshal_yaml_text w) = inr w.
Proof.
  intros Hw. rewrite yaml_text_transparent.
  - unfold unmarshal_ranges. rewrite first_error_none by exact Hw. reflexivity.
  - eapply Forall_impl; [|exact Hw]. intros r Hr. apply range_ok_int64, Hr.
Qed.

Lemma json_text_roundtrip_structural w :
  weekly_ok w -> unmarshal_json_text (marshal_json_text w) = inr w.
Proof.
  intros Hw. rewrite json_text_transparent.
  - unfold unmarshal_ranges. rewrite first_error_none by exact Hw. reflexivity.
  - eapply Forall_impl; [|exact Hw]. intros r Hr. apply range_ok_int64, Hr.
Qed.

(** Non-vacuity: a week that is NOT validated (an end off the whole minute by
    one nanosecond, a negative start of -2^63) still reads back as written and
    is then rejected for the first bad day. *)
Definition ex_odd_week : weekly :=
  [ {| dr_start := 0; dr_end := ns_day |};
    {| dr_start := ns_hour; dr_end := 2 * ns_hour + 1 |};
    {| dr_start := - two63; dr_end := two63 - 1 |} ].

Lemma ex_odd_week_transparent :
  Forall int64_range ex_odd_week /\
  unmarshal_yaml_text (marshal_yaml_text ex_odd_week) = inl (TRange 1 EEndNotMin).
Proof.
  split.
  - repeat constructor; vm_compute; congruence.
  - rewrite yaml_text_transparent; [vm_compute; reflexivity|].
    repeat constructor; vm_compute; congruence.
Qed.

Print Assumptions duration_string_roundtrip.
Print Assumptions tu_string_roundtrip.
Print Assumptions ms_text_roundtrip.

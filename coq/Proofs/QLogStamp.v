(** C20 proofs: which bytes readQLogTimestamp takes for the stamp of a line
    json.Marshal wrote (Model/QLogBytes.v [read_qlog_ts], Model/QLogCodec.v
    [encode]).

    readJSONValue cuts the text after the FIRST occurrence of the marker
    quote T quote colon quote, up to the next quote byte.  A marker-like
    text inside a string value (a domain name, a client id, an upstream, a
    rule text) cannot be that first occurrence, wherever the value stands:
    encoding/json writes every quote byte of a value behind a backslash, so
    inside a value the byte after the T of a would-be marker is a backslash,
    not a quote; the closing quote of a value is followed by a comma or a
    bracket, not by T; a key of another name differs before its closing
    quote.  This is the discipline [qesc] / [skipb] of Proofs/QLogCodecLoc.v
    (C07), instantiated here with the key T; it also covers a value ending in
    a backslash (written as two backslashes, then the closing quote).

    Lines json.Marshal wrote also hold no line break (it is escaped), which is
    what the byte-level reader theorems ask of a line.

    Everything is proved (closed under the global context). *)
From Coq Require Import ZArith NArith List Bool Lia Ascii String.
From AGH Require Import Base.Run Model.QLogFile Model.QLog Model.QLogCodec Model.QLogBytes
  Proofs.QLogCodec Proofs.QLogCodecLoc Proofs.QLogBytes.
Import ListNotations.
Local Open Scope N_scope.

Definition kT : bytes := [84].
Lemma kT_ok : key_up kT. Proof. split; [reflexivity|discriminate]. Qed.
Lemma pT_eq : pT = kpat kT. Proof. reflexivity. Qed.

(** ** The T field of a line json.Marshal wrote *)

(** Whatever the other fields hold, the value read for the marker T is the
    escaped time text up to its closing quote. *)
Theorem located_T : forall e, located (encode e) pT (slot e sT).
Proof.
  intro e. rewrite pT_eq. unfold encode.
  apply (located_nth kT _ 0%nat (slot e sT)); [reflexivity|]. cbn [firstn]. constructor.
Qed.

(** The same when the struct is laid out in another order: any fields may
    stand before T as long as none of them holds the marker outside escaped
    text ([skipb]); in particular any string fields under other keys. *)
Theorem located_T_any_order : forall pre post s,
  Forall (skipb kT) pre -> located (obj (pre ++ fld "T" (quote s) :: post)) pT s.
Proof.
  intros pre post s Hpre. rewrite pT_eq.
  apply (located_nth kT _ (List.length pre) s).
  - rewrite nth_error_app2, Nat.sub_diag by lia. reflexivity.
  - rewrite firstn_app, Nat.sub_diag, firstn_all. cbn [firstn]. rewrite app_nil_r. exact Hpre.
Qed.

(** A string field under a key other than T (the key free of quotes), with
    ANY value, holds no first occurrence of the marker. *)
Lemma skipT_string_field k v : forallb no34 k = true -> k <> kT ->
  skipb kT (34 :: k ++ 34 :: 58 :: quote v).
Proof. intros Hk Hne. apply (skipb_kv kT kT_ok); auto. apply (skipb_quote kT kT_ok). Qed.

Corollary located_T_behind_strings : forall (kvs : list (bytes * bytes)) post s,
  Forall (fun kv => forallb no34 (fst kv) = true /\ fst kv <> kT) kvs ->
  located (obj (map (fun kv => 34 :: fst kv ++ 34 :: 58 :: quote (snd kv)) kvs ++ fld "T" (quote s) :: post)) pT s.
Proof.
  intros kvs post s H. apply located_T_any_order. rewrite Forall_map.
  eapply Forall_impl; [|exact H]. intros [k v] [H1 H2]. apply skipT_string_field; auto.
Qed.

(** A text free of quotes is read whole. *)
Lemma until_quote_no34 t rest : forallb no34 t = true -> until_quote (t ++ 34 :: rest) = Some t.
Proof.
  induction t as [|b t IH]; intro H; [reflexivity|].
  cbn [forallb] in H. apply andb_true_iff in H as [Hb Ht].
  cbn [app until_quote]. unfold no34 in Hb. apply negb_true_iff in Hb. rewrite Hb, IH by exact Ht. reflexivity.
Qed.

Lemma time_text_no34 t : time_text t = true -> forallb no34 t = true.
Proof.
  unfold time_text. apply forallb_imp. intros b Hb. destruct (time_char_facts b Hb) as (_ & _ & H & _).
  unfold no34. apply negb_true_iff, N.eqb_neq. exact H.
Qed.

(** The raw value read for T is the time text itself. *)
Theorem read_T_encode e : time_text (slot e sT) = true -> read_json_value (encode e) pT = slot e sT.
Proof.
  intro Ht. destruct (located_T e) as [rest H].
  rewrite (enc_str_time _ Ht), (until_quote_no34 _ _ (time_text_no34 _ Ht)) in H. congruence.
Qed.

(** *** readQLogTimestamp of a line written by json.Marshal is time.Parse of
    the T field, whatever the host, client id, upstream, rule texts ... hold. *)
Theorem read_qlog_ts_encode (o : bytes -> Z) e :
  time_text (slot e sT) = true -> slot e sT <> [] ->
  read_qlog_ts o (encode e) = o (slot e sT).
Proof.
  intros Ht Hne. unfold read_qlog_ts. rewrite (read_T_encode e Ht).
  destruct (slot e sT); [congruence|reflexivity].
Qed.

(** The premises are satisfiable, with the marker (and a complete decoy
    stamp) inside the host, the client id, the upstream and a rule text, and
    a host ending in a backslash. *)
Definition decoy : bytes := B """T"":""2001-01-01T00:00:00Z"",".
Definition decoy_entry (host : bytes) : centry :=
  set_rules (set_slot (set_slot (set_slot (set_slot blank sT (B "2024-03-01T12:00:00.5Z")) sQH host)
                                sCID (decoy ++ [92])) sUp decoy)
            [{| cr_text := decoy; cr_ip := []; cr_id := 1%Z |}].
Definition ex_o (v : bytes) : Z :=
  if eqb_bytes v (B "2024-03-01T12:00:00.5Z") then 1709294400500000000%Z
  else if eqb_bytes v (B "2001-01-01T00:00:00Z") then 978307200000000000%Z else 0%Z.

Example read_qlog_ts_decoys :
  let e1 := decoy_entry decoy in
  let e2 := decoy_entry (B "x\") in
  let e3 := decoy_entry (B "\\""T"":""2001-01-01T00:00:00Z") in
  time_text (slot e1 sT) = true /\
  read_qlog_ts ex_o (encode e1) = 1709294400500000000%Z /\
  read_qlog_ts ex_o (encode e2) = 1709294400500000000%Z /\
  read_qlog_ts ex_o (encode e3) = 1709294400500000000%Z.
Proof. vm_compute. auto. Qed.

(** The escaping is what the claim rests on: a writer that copies a value
    between quotes as it is lets a host field standing before T (the order of
    legacy files: IP first) capture the stamp. *)
Definition raw_quote (s : bytes) : bytes := 34 :: s ++ [34].
Example unescaped_writer_refuted :
  let line := obj [fld "QH" (raw_quote decoy); fld "T" (quote (B "2024-03-01T12:00:00.5Z"))] in
  read_qlog_ts ex_o line = 978307200000000000%Z.
Proof. vm_compute. reflexivity. Qed.

(** ... and with encoding/json's escaping the same layout reads T. *)
Example escaped_writer_reads_T :
  let line := obj [fld "QH" (quote decoy); fld "T" (quote (B "2024-03-01T12:00:00.5Z"))] in
  read_qlog_ts ex_o line = 1709294400500000000%Z.
Proof. vm_compute. reflexivity. Qed.

(** ** A line json.Marshal wrote holds no line break

    Stronger: every byte of it is at least 32 (control characters of string
    values are escaped; everything else the encoder writes is printable ASCII
    or part of a multi-byte rune).  Needs the numbers of a rewrite result to
    be number texts ([rw_numbers_ok]: [RNumber s] is written as [s]). *)
Definition ge32 (b : N) : bool := 32 <=? b.
Definition pr (s : bytes) : Prop := forallb ge32 s = true.

Lemma pr_app a b : pr a -> pr b -> pr (a ++ b).
Proof. unfold pr. rewrite forallb_app. intros -> ->. reflexivity. Qed.

Lemma pr_cons x a : ge32 x = true -> pr a -> pr (x :: a).
Proof. unfold pr. cbn [forallb]. intros -> ->. reflexivity. Qed.

Lemma pr_nlfree s : pr s -> nlfree s.
Proof.
  unfold pr, nlfree. apply forallb_imp. intros b Hb. unfold ge32 in Hb. apply N.leb_le in Hb.
  unfold notnl, nl. apply negb_true_iff, N.eqb_neq. lia.
Qed.

Lemma hexd_ge32 x : ge32 (hexd x) = true.
Proof. unfold ge32, hexd. destruct (x <? 10); apply N.leb_le; lia. Qed.

Lemma pr_esc_byte b : pr (esc_byte b).
Proof.
  unfold esc_byte.
  destruct ((b =? 34) || (b =? 92)) eqn:E1.
  { apply orb_true_iff in E1 as [E|E]; apply N.eqb_eq in E; subst; reflexivity. }
  destruct (b =? 8); [reflexivity|]. destruct (b =? 12); [reflexivity|].
  destruct (b =? 10); [reflexivity|]. destruct (b =? 13); [reflexivity|].
  destruct (b =? 9); [reflexivity|].
  destruct ((b <? 32) || (b =? 60) || (b =? 62) || (b =? 38)) eqn:E2.
  - unfold pr. cbn [forallb]. rewrite !hexd_ge32. reflexivity.
  - apply orb_false_iff in E2 as [E2 _]. apply orb_false_iff in E2 as [E2 _]. apply orb_false_iff in E2 as [E2 _].
    apply N.ltb_ge in E2. unfold pr, ge32. cbn [forallb]. apply andb_true_iff. split; [apply N.leb_le; lia|reflexivity].
Qed.

Lemma ge32_hi b : 128 <= b -> ge32 b = true.
Proof. intro H. apply N.leb_le. lia. Qed.

Theorem pr_enc_str : forall s, pr (enc_str s).
Proof.
  intro s. induction s as [|b r H IHs|b0 b1 r H H0 IHs|b0 b1 b2 r H H0 IHs|b0 b1 b2 b3 r H H0 IHs|b0 r H H0 H1 IHs] using enc_ind.
  - reflexivity.
  - rewrite enc_str_1 by auto. apply pr_app; auto using pr_esc_byte.
  - rewrite enc_str_2 by auto. destruct (u8len_2 _ _ _ H0) as [Ha Hb]. bool_hyps.
    apply pr_cons; [apply ge32_hi; lia|]. apply pr_cons; [apply ge32_hi; lia|]. exact IHs.
  - rewrite enc_str_3 by auto. destruct (u8len_3 _ _ _ _ H0) as (Ha & Hb & Hc & Hd). unfold esc3.
    destruct ((b0 =? 226) && (b1 =? 128) && ((b2 =? 168) || (b2 =? 169))).
    + apply pr_app; auto. destruct (b2 =? 168); reflexivity.
    + assert (H1 : 224 <= b0) by (bool_hyps; lia).
      assert (H2 : 128 <= b1) by (bool_hyps; unfold lo2 in *; destruct (b0 =? 224); [lia|]; destruct (b0 =? 240); lia).
      assert (H3 : 128 <= b2) by (bool_hyps; lia).
      apply pr_app; auto. unfold pr. cbn [forallb]. rewrite !ge32_hi by lia. reflexivity.
  - rewrite enc_str_4 by auto. destruct (u8len_4 _ _ _ _ _ H0) as (Ha & Hb & Hc & Hd & He & Hf).
    assert (H1 : 240 <= b0) by (bool_hyps; lia).
    assert (H2 : 128 <= b1) by (bool_hyps; unfold lo2 in *; destruct (b0 =? 224); [lia|]; destruct (b0 =? 240); lia).
    assert (H3 : 128 <= b2) by (bool_hyps; lia).
    assert (H4 : 128 <= b3) by (bool_hyps; lia).
    repeat (apply pr_cons; [apply ge32_hi; lia|]). exact IHs.
  - rewrite H0. apply pr_app; auto. reflexivity.
Qed.

Lemma pr_quote s : pr (quote s).
Proof. unfold quote. apply pr_cons; [reflexivity|]. apply pr_app; [apply pr_enc_str|reflexivity]. Qed.

Lemma pr_range a : forallb (in_r 45 57) a = true -> pr a.
Proof. apply forallb_imp. intros b H. unfold in_r in H. bool_hyps. apply N.leb_le. lia. Qed.

Lemma pr_dec z : pr (dec_bytes z).
Proof. apply pr_range, dec_bytes_range. Qed.

Lemma pr_join fs : Forall pr fs -> pr (join_fields fs).
Proof.
  induction 1 as [|f fs Hf _ IH]; [reflexivity|]. cbn [join_fields].
  destruct (is_nil f); [exact IH|]. destruct (join_fields fs) as [|n l]; [exact Hf|].
  apply pr_app; [exact Hf|]. apply pr_cons; [reflexivity|exact IH].
Qed.

Lemma pr_obj fs : Forall pr fs -> pr (obj fs).
Proof. intro H. unfold obj. apply pr_cons; [reflexivity|]. apply pr_app; [apply pr_join, H|reflexivity]. Qed.

Lemma pr_arr fs : Forall pr fs -> pr (arr fs).
Proof. intro H. unfold arr. apply pr_cons; [reflexivity|]. apply pr_app; [apply pr_join, H|reflexivity]. Qed.

Lemma pr_fld k v : pr (B k) -> pr v -> pr (fld k v).
Proof.
  intros Hk Hv. unfold fld. apply pr_cons; [reflexivity|]. apply pr_app; [exact Hk|].
  apply pr_cons; [reflexivity|]. apply pr_cons; [reflexivity|exact Hv].
Qed.

Lemma pr_fld_str_opt k s : pr (B k) -> pr (fld_str_opt k s).
Proof. intro Hk. unfold fld_str_opt. destruct (is_nil s); [reflexivity|]. apply pr_fld; [exact Hk|apply pr_quote]. Qed.

Lemma pr_fld_int_opt k z : pr (B k) -> pr (fld_int_opt k z).
Proof. intro Hk. unfold fld_int_opt. destruct (z =? 0)%Z; [reflexivity|]. apply pr_fld; [exact Hk|apply pr_dec]. Qed.

Lemma pr_fld_true_opt k b : pr (B k) -> pr (fld_true_opt k b).
Proof. intro Hk. unfold fld_true_opt. destruct b; [|reflexivity]. apply pr_fld; [exact Hk|reflexivity]. Qed.

Lemma Forall_pr_map {A} (f : A -> bytes) l : (forall x, In x l -> pr (f x)) -> Forall pr (map f l).
Proof. intro H. rewrite Forall_map, Forall_forall. exact H. Qed.

Ltac fldP :=
  first [ reflexivity
        | apply pr_fld_str_opt; reflexivity
        | apply pr_fld_int_opt; reflexivity
        | apply pr_fld_true_opt; reflexivity
        | apply pr_fld; [reflexivity|] ].

Lemma pr_rule r : pr (enc_rule r).
Proof. unfold enc_rule. apply pr_obj. split_fields; fldP. apply pr_quote. Qed.

Lemma pr_rrv v : rrv_num_ok v = true -> pr (enc_rrv v).
Proof.
  destruct v as [s|s|b| |]; cbn [rrv_num_ok enc_rrv]; intro H; try reflexivity.
  - apply pr_quote.
  - revert H. apply forallb_imp. intros c Hc. unfold is_numchar, in_r in Hc.
    apply N.leb_le.
    repeat (apply orb_true_iff in Hc as [Hc|Hc]); try (apply N.eqb_eq in Hc; lia).
    bool_hyps. lia.
  - destruct b; reflexivity.
Qed.

Lemma pr_resp m : Forall (fun kv : Z * list rrv => forallb rrv_num_ok (snd kv) = true) m -> pr (enc_resp m).
Proof.
  intro H. unfold enc_resp. apply pr_obj. apply Forall_pr_map.
  intros kv Hin. rewrite Forall_forall in H. specialize (H kv Hin).
  apply pr_cons; [reflexivity|]. apply pr_app; [apply pr_dec|].
  apply pr_cons; [reflexivity|]. apply pr_cons; [reflexivity|].
  destruct (snd kv) as [|v vs] eqn:E; [reflexivity|].
  apply pr_arr. apply Forall_pr_map. intros x Hx. apply pr_rrv.
  rewrite forallb_forall in H. apply H, Hx.
Qed.

Lemma pr_rw w : Forall (fun kv : Z * list rrv => forallb rrv_num_ok (snd kv) = true) (rw_resp w) -> pr (enc_rw w).
Proof.
  intro H. unfold enc_rw. apply pr_obj. split_fields.
  - destruct (is_nil (rw_resp w)); fldP. apply pr_resp, H.
  - fldP.
Qed.

Lemma pr_result e : rw_numbers_ok e -> pr (enc_result e).
Proof.
  intro H. unfold enc_result. apply pr_obj. split_fields.
  - unfold rw_numbers_ok in H. destruct (ce_rw e) as [w|]; fldP. apply pr_rw, H.
  - fldP.
  - fldP.
  - destruct (is_nil (ce_iplist e)); fldP. apply pr_arr. apply Forall_pr_map. intros x _. apply pr_quote.
  - destruct (is_nil (ce_rules e)); fldP. apply pr_arr. apply Forall_pr_map. intros x _. apply pr_rule.
  - fldP.
  - fldP.
Qed.

Theorem pr_encode e : rw_numbers_ok e -> pr (encode e).
Proof.
  intro H. unfold encode. apply pr_obj. split_fields; fldP.
  all: first [apply pr_quote | apply pr_result, H | apply pr_dec].
Qed.

(** *** A line json.Marshal wrote holds no line break. *)
Corollary encode_nlfree e : rw_numbers_ok e -> nlfree (encode e).
Proof. intro H. apply pr_nlfree, pr_encode, H. Qed.

(** *** A file of marshalled entries, each shorter than the entry limit,
    is a file the byte-level theorems speak about, and the stamps the reader
    sees in it are time.Parse of the T fields. *)
Theorem encoded_file_ok me (es : list centry) :
  Forall (fun e => rw_numbers_ok e /\ (blen (encode e) < me)%Z) es ->
  blines_ok me (map encode es).
Proof.
  intro H. unfold blines_ok. rewrite Forall_map. eapply Forall_impl; [|exact H].
  intros e [H1 H2]. split; [apply encode_nlfree, H1|]. split; [|exact H2].
  unfold encode, obj, blen. cbn [List.length]. lia.
Qed.

Theorem encoded_file_stamps (o : bytes -> Z) (es : list centry) :
  Forall (fun e => time_text (slot e sT) = true /\ slot e sT <> []) es ->
  absf o (map encode es) = map (fun e => (blen (encode e), o (slot e sT))) es.
Proof.
  intro H. unfold absf. rewrite map_map. apply map_ext_in. intros e He.
  rewrite Forall_forall in H. destruct (H e He) as [H1 H2].
  rewrite read_qlog_ts_encode by auto. reflexivity.
Qed.

Theorem encoded_file (o : bytes -> Z) me (es : list centry) :
  Forall (fun e => rw_numbers_ok e /\ (blen (encode e) < me)%Z) es ->
  Forall (fun e => time_text (slot e sT) = true /\ slot e sT <> []) es ->
  blines_ok me (map encode es) /\
  absf o (map encode es) = map (fun e => (blen (encode e), o (slot e sT))) es.
Proof. intros H1 H2. split; [exact (encoded_file_ok me es H1)|exact (encoded_file_stamps o es H2)]. Qed.

(** Proofs about the blocked-services HTTP handlers (C18): the pause schedule
    in effect after any history of requests is the one of the last accepted
    update (or the configured one); the deprecated set endpoint never touches
    it; a rejected request changes nothing; GET reports what an accepted
    update stored, and what GET reports reads back as the same schedule. *)
From Coq Require Import ZArith List Bool Lia.
From AGH Require Import Base.Run Model.Schedule Model.ScheduleText Model.BlockedSvcHttp.
From AGH Require Import Proofs.Schedule Proofs.ScheduleText.
Import ListNotations.
Local Open Scope Z_scope.

(** * Declarative vocabulary *)

(** What an update body asks for: the decoded "schedule" member, or the empty
    week in zone Local when the member is absent or null. *)
Definition sent_sched (sch : option sched_doc) : option sched :=
  match sch with None => Some empty_weekly | Some d => decode_sched d end.

(** The update is accepted and asks for [sc]: the schedule member decodes and
    every id is in the service table. *)
Definition update_accepted (known : list bytes) (sch : option sched_doc) (ids : list bytes)
    (sc : sched) : Prop :=
  sent_sched sch = Some sc /\ ids_known known ids = true.

Definition accepted_update (known : list bytes) (o : op) (sc : sched) : Prop :=
  exists sch ids, o = OUpdate sch ids /\ update_accepted known sch ids sc.

Definition no_accepted_update (known : list bytes) (ops : list op) : Prop :=
  forall o sc, In o ops -> ~ accepted_update known o sc.

Definition is_update (o : op) : bool :=
  match o with OUpdate _ _ => true | _ => false end.

(** A stored schedule is well formed: seven validated ranges. *)
Definition sched_ok (sc : sched) : Prop :=
  length (sc_days sc) = 7%nat /\ weekly_ok (sc_days sc).

(** The update body made of what GET reported. *)
Definition doc_of_get (g : list bytes * bytes * list text_day) : sched_doc :=
  let '(_, z, days) := g in {| sd_zone := Some z; sd_fields := flatten_days 0 days |}.

(** * Single requests *)

Lemma update_accepted_step known sch ids sc s :
  update_accepted known sch ids sc ->
  step known (OUpdate sch ids) s = (st_ok, {| bs_ids := ids; bs_sched := sc |}).
Proof.
  intros [Hs Hk]. unfold step. destruct sch as [d|]; cbn [sent_sched] in Hs.
  - rewrite Hs, Hk. reflexivity.
  - injection Hs as <-. rewrite Hk. reflexivity.
Qed.

Lemma update_step_cases known sch ids s :
  (exists sc, update_accepted known sch ids sc /\
              step known (OUpdate sch ids) s = (st_ok, {| bs_ids := ids; bs_sched := sc |})) \/
  ((forall sc, ~ update_accepted known sch ids sc) /\
   snd (step known (OUpdate sch ids) s) = s /\ fst (step known (OUpdate sch ids) s) <> st_ok).
Proof.
  destruct (sent_sched sch) as [sc|] eqn:Es.
  - destruct (ids_known known ids) eqn:Ek.
    + left. exists sc. assert (H : update_accepted known sch ids sc) by (split; assumption).
      split; [exact H|]. apply update_accepted_step. exact H.
    + right. split; [intros sc' [_ H]; congruence|].
      unfold step. destruct sch as [d|]; cbn [sent_sched] in Es.
      * rewrite Es, Ek. cbn. split; [reflexivity|discriminate].
      * rewrite Ek. cbn. split; [reflexivity|discriminate].
  - right. split; [intros sc' [H _]; congruence|].
    unfold step. destruct sch as [d|]; cbn [sent_sched] in Es; [|discriminate].
    rewrite Es. cbn. split; [reflexivity|discriminate].
Qed.

(** Any request that is not an update leaves the schedule as it is. *)
Lemma non_update_keeps_schedule known o s :
  is_update o = false -> bs_sched (snd (step known o s)) = bs_sched s.
Proof. destruct o; cbn; intros H; try reflexivity; discriminate. Qed.

Lemma legacy_set_keeps_schedule known ids s :
  bs_sched (snd (step known (OSet ids) s)) = bs_sched s /\
  bs_ids (snd (step known (OSet ids) s)) = ids /\
  fst (step known (OSet ids) s) = st_ok.
Proof. cbn. repeat split. Qed.

(** A request that is not answered 200 changes nothing. *)
Lemma failed_request_is_noop known o s :
  fst (step known o s) <> st_ok -> snd (step known o s) = s.
Proof.
  destruct o as [|sch ids| |ids|]; try (intros _; reflexivity).
  - destruct (update_step_cases known sch ids s) as [(sc & _ & E)|(_ & E & _)].
    + rewrite E. cbn. intros H; exfalso; apply H; reflexivity.
    + intros _. exact E.
  - cbn. intros H; exfalso; apply H; reflexivity.
Qed.

Lemma failed_update_is_noop known sch ids s :
  (forall sc, ~ update_accepted known sch ids sc) ->
  snd (step known (OUpdate sch ids) s) = s /\ fst (step known (OUpdate sch ids) s) <> st_ok.
Proof.
  intros H. destruct (update_step_cases known sch ids s) as [(sc & Ha & _)|(_ & E)].
  - exfalso. exact (H sc Ha).
  - exact E.
Qed.

Lemma not_accepted_keeps_schedule known o s :
  (forall sc, ~ accepted_update known o sc) -> bs_sched (snd (step known o s)) = bs_sched s.
Proof.
  intros H. destruct o as [|sch ids| |ids|]; try reflexivity.
  destruct (failed_update_is_noop known sch ids s) as [E _].
  - intros sc Ha. apply (H sc). exists sch, ids. split; [reflexivity|exact Ha].
  - rewrite E. reflexivity.
Qed.

(** * Histories *)

Lemma run_app known s ops1 ops2 :
  run known s (ops1 ++ ops2) = run known (run known s ops1) ops2.
Proof. revert s; induction ops1 as [|o ops1 IH]; intros s; cbn; [reflexivity|apply IH]. Qed.

Lemma no_update_keeps_schedule known ops : forall s,
  no_accepted_update known ops -> bs_sched (run known s ops) = bs_sched s.
Proof.
  induction ops as [|o ops IH]; intros s H; cbn [run]; [reflexivity|].
  rewrite IH.
  - apply not_accepted_keeps_schedule. intros sc. apply H. left; reflexivity.
  - intros o' sc Hin. apply H. right; exact Hin.
Qed.

(** The schedule in effect after a history is the one of the last accepted
    update. *)
Lemma schedule_is_last_update known s ops1 o ops2 sc :
  accepted_update known o sc -> no_accepted_update known ops2 ->
  bs_sched (run known s (ops1 ++ o :: ops2)) = sc.
Proof.
  intros (sch & ids & -> & Ha) Hn. rewrite run_app. cbn [run].
  rewrite no_update_keeps_schedule by exact Hn.
  rewrite (update_accepted_step known sch ids sc _ Ha). reflexivity.
Qed.

Lemma legacy_sets_are_not_updates known ops :
  forallb (fun o => negb (is_update o)) ops = true -> no_accepted_update known ops.
Proof.
  intros H o sc Hin (sch & ids & -> & _).
  rewrite forallb_forall in H. specialize (H _ Hin). discriminate.
Qed.

Lemma update_then_legacy_sets known s ops1 sch ids sc ops2 :
  update_accepted known sch ids sc ->
  forallb (fun o => negb (is_update o)) ops2 = true ->
  bs_sched (run known s (ops1 ++ OUpdate sch ids :: ops2)) = sc.
Proof.
  intros Ha Hn. apply schedule_is_last_update.
  - exists sch, ids. split; [reflexivity|exact Ha].
  - apply legacy_sets_are_not_updates. exact Hn.
Qed.

(** * Stored schedules are validated schedules of seven days *)

Lemma upd_length {A} (l : list A) n f : length (upd l n f) = length l.
Proof. revert n; induction l as [|x l IH]; intros [|n]; cbn; auto. Qed.

Lemma apply_fields_length parse fs : forall w w',
  apply_fields parse w fs = inr w' -> length w' = length w.
Proof.
  induction fs as [|[[i e] t] fs IH]; intros w w' H; cbn in H.
  - injection H as <-. reflexivity.
  - destruct (parse t) as [c|v]; [discriminate|].
    apply IH in H. rewrite H. apply upd_length.
Qed.

Lemma decode_sched_spec d sc :
  decode_sched d = Some sc <->
  sd_zone d = Some (sc_zone sc) /\
  unmarshal_fields parse_json_dur 7 (sd_fields d) = inr (sc_days sc).
Proof.
  unfold decode_sched, unmarshal_fields.
  destruct (apply_fields parse_json_dur (repeat zero_range 7) (sd_fields d)) as [c|w].
  - split; [discriminate|]. intros [_ H]; discriminate.
  - destruct (sd_zone d) as [z|].
    + destruct (unmarshal_ranges w) as [[i e]|w'].
      * split; [discriminate|]. intros [_ H]; discriminate.
      * split.
        -- intros H; injection H as <-. cbn. split; reflexivity.
        -- destruct sc as [z' w'']; cbn. intros [Hz Hw]. injection Hz as <-. injection Hw as <-.
           reflexivity.
    + split; [discriminate|]. intros [H _]; discriminate.
Qed.

Lemma decode_sched_ok d sc : decode_sched d = Some sc -> sched_ok sc.
Proof.
  intros H. apply decode_sched_spec in H. destruct H as [_ H]. split.
  - unfold unmarshal_fields in H.
    destruct (apply_fields parse_json_dur (repeat zero_range 7) (sd_fields d)) as [c|w] eqn:Ea;
      [discriminate|].
    destruct (unmarshal_ranges w) as [[i e]|w'] eqn:Eu; [discriminate|].
    injection H as H. apply unmarshal_accepts_only_valid in Eu. destruct Eu as [-> _].
    rewrite <- H. apply apply_fields_length in Ea. rewrite Ea. apply repeat_length.
  - eapply unmarshal_fields_only_valid. exact H.
Qed.

Lemma empty_weekly_ok : sched_ok empty_weekly.
Proof.
  split; [reflexivity|]. unfold weekly_ok, empty_weekly; cbn [sc_days repeat].
  repeat (apply Forall_cons; [left; split; reflexivity|]). apply Forall_nil.
Qed.

Lemma sent_sched_ok sch sc : sent_sched sch = Some sc -> sched_ok sc.
Proof.
  destruct sch as [d|]; cbn.
  - apply decode_sched_ok.
  - intros H; injection H as <-. apply empty_weekly_ok.
Qed.

Lemma step_keeps_sched_ok known o s :
  sched_ok (bs_sched s) -> sched_ok (bs_sched (snd (step known o s))).
Proof.
  intros H. destruct o as [|sch ids| |ids|]; try exact H.
  destruct (update_step_cases known sch ids s) as [(sc & [Hs _] & E)|(_ & E & _)].
  - rewrite E. cbn. eapply sent_sched_ok. exact Hs.
  - rewrite E. exact H.
Qed.

Lemma stored_schedule_valid known ops : forall s,
  sched_ok (bs_sched s) -> sched_ok (bs_sched (run known s ops)).
Proof.
  induction ops as [|o ops IH]; intros s H; cbn [run]; [exact H|].
  apply IH. apply step_keeps_sched_ok. exact H.
Qed.

(** * GET after an update; what GET reports reads back *)

(** What GET reports about a well-formed stored schedule, sent back as an
    update body under the reported zone name, decodes to the same schedule
    (the JSON text round trip of Proofs/ScheduleText.v). *)
Lemma get_reads_back s :
  sched_ok (bs_sched s) -> decode_sched (doc_of_get (get s)) = Some (bs_sched s).
Proof.
  intros [Hl Hw]. apply decode_sched_spec. unfold get, doc_of_get; cbn [sd_zone sd_fields].
  split; [reflexivity|].
  pose proof (json_text_roundtrip _ Hw) as H. unfold unmarshal_json_text in H.
  assert (Hlen : length (marshal_json_text (sc_days (bs_sched s))) = 7%nat).
  { unfold marshal_json_text, marshal_text. rewrite map_length. exact Hl. }
  rewrite Hlen in H. exact H.
Qed.

Lemma get_after_update_roundtrip known d ids sc s :
  update_accepted known (Some d) ids sc ->
  let s' := snd (step known (OUpdate (Some d) ids) s) in
  get s' = (ids, sc_zone sc, marshal_json_text (sc_days sc)) /\
  sd_zone d = Some (sc_zone sc) /\
  unmarshal_fields parse_json_dur 7 (sd_fields d) = inr (sc_days sc) /\
  sched_ok sc /\
  forall s2, snd (step known (OUpdate (Some (doc_of_get (get s'))) ids) s2) = s'.
Proof.
  intros Ha. pose proof Ha as [Hs Hk]. cbn [sent_sched] in Hs.
  rewrite (update_accepted_step known (Some d) ids sc s Ha). cbn [snd].
  pose proof (decode_sched_ok _ _ Hs) as Hok.
  apply decode_sched_spec in Hs. destruct Hs as [Hz Hf].
  repeat split; try assumption; try apply Hok.
  intros s2. set (s' := {| bs_ids := ids; bs_sched := sc |}).
  assert (Ha' : update_accepted known (Some (doc_of_get (get s'))) ids sc).
  { split; [|exact Hk]. cbn [sent_sched]. apply (get_reads_back s'). exact Hok. }
  rewrite (update_accepted_step known _ ids sc s2 Ha'). reflexivity.
Qed.

(** * The pause verdict *)

Lemma legacy_set_keeps_verdict known ids s off t :
  contains (sc_days (bs_sched (snd (step known (OSet ids) s)))) off t =
  contains (sc_days (bs_sched s)) off t.
Proof. reflexivity. Qed.

(** After a legacy set the pause is in effect exactly per the wall clock of
    the ranges configured before it. *)
Lemma legacy_set_wall_clock known ids s off t :
  contains (sc_days (bs_sched (snd (step known (OSet ids) s)))) off t = true <->
  in_effect (sc_days (bs_sched s)) off t.
Proof. rewrite legacy_set_keeps_verdict. apply contains_wall_clock. Qed.

Lemma is_full_range_true r : is_full_range r = true -> r = full_day.
Proof.
  destruct r as [a b]. unfold is_full_range; cbn [dr_start dr_end].
  rewrite andb_true_iff, !Z.eqb_eq. intros [-> ->]. reflexivity.
Qed.

(** A week of seven full days pauses at every instant in every zone, a week
    of zero ranges at none. *)
Lemma week_const_spec w b : week_const w = Some b -> forall off t, contains w off t = b.
Proof.
  unfold week_const. intros H off t.
  destruct ((length w =? 7)%nat && forallb is_full_range w) eqn:Ef.
  - injection H as <-. apply andb_true_iff in Ef. destruct Ef as [Hl Hf].
    apply Nat.eqb_eq in Hl. apply full_day_contains. unfold day_of.
    pose proof (wall_weekday_range off t) as Hr.
    apply is_full_range_true. rewrite forallb_forall in Hf. apply Hf. apply nth_In. lia.
  - destruct (forallb is_zero_range w) eqn:Ez; [|discriminate]. injection H as <-.
    apply empty_day_contains. unfold day_of.
    destruct (nth_in_or_default (Z.to_nat (wall_weekday off t)) w zero_range) as [Hin|Hd].
    + rewrite forallb_forall in Ez. apply Ez in Hin. apply is_zero_range_true in Hin.
      rewrite Hin. cbn. lia.
    + rewrite Hd. cbn. lia.
Qed.

(** Blocking after a legacy set: the services of the new list are applied
    exactly outside the pause configured before it. *)
Lemma apply_after_legacy_set known ids s off t :
  let s' := snd (step known (OSet ids) s) in
  apply known s' (contains (sc_days (bs_sched s')) off t) =
  if contains (sc_days (bs_sched s)) off t then [] else filter (id_known known) ids.
Proof. reflexivity. Qed.

(** * Non-vacuity *)

Definition ex_known : list bytes := [[97]; [98]]%N.
Definition ex_doc : sched_doc :=
  {| sd_zone := Some [85; 84; 67]%N;
     sd_fields := [(1%nat, false, [54; 48; 48; 48; 48]%N);
                   (1%nat, true, [49; 50; 48; 48; 48; 48]%N)] |}.
Definition ex_sched : sched :=
  {| sc_zone := [85; 84; 67]%N;
     sc_days := [zero_range; {| dr_start := ns_min; dr_end := 2 * ns_min |}; zero_range;
                 zero_range; zero_range; zero_range; zero_range] |}.

Lemma ex_update_accepted : update_accepted ex_known (Some ex_doc) [[97]%N] ex_sched.
Proof. split; vm_compute; reflexivity. Qed.

Lemma ex_update_rejected :
  (forall sc, ~ update_accepted ex_known (Some ex_doc) [[99]%N] sc) /\
  (forall sc, ~ update_accepted ex_known
                  (Some {| sd_zone := None; sd_fields := sd_fields ex_doc |}) [[97]%N] sc).
Proof. split; intros sc [H1 H2]; vm_compute in H1, H2; discriminate. Qed.

(** A history: update, then two legacy sets (one with an id outside the
    table) and a rejected update; the schedule is the update's. *)
Lemma ex_history :
  let s0 := {| bs_ids := []; bs_sched := empty_weekly |} in
  let ops := [OUpdate (Some ex_doc) [[97]%N]; OSet [[98]%N]; OSet [[120]%N];
              OUpdate (Some ex_doc) [[99]%N]] in
  bs_sched (run ex_known s0 ops) = ex_sched /\ bs_ids (run ex_known s0 ops) = [[120]%N] /\
  sched_ok ex_sched /\
  week_const (repeat full_day 7) = Some true /\ week_const (sc_days empty_weekly) = Some false.
Proof.
  cbn zeta. split; [vm_compute; reflexivity|]. split; [vm_compute; reflexivity|].
  split; [eapply decode_sched_ok; apply ex_update_accepted|].
  split; vm_compute; reflexivity.
Qed.

(** C05, round 4: lease names that flow from the admin API into DNS answers.

    dnsforward.processDHCPAddrs answers a PTR query for a leased address with
    <lease hostname>.<local domain>.  "Every in-flight query still receives a
    well-formed response" therefore needs every name the DHCP server stores to
    give a name that fits on the wire: every label 1..63 octets, the whole name
    at most 255 octets in wire format ([wire_ok]; miekg/dns refuses to pack a
    label over 63 octets or an empty one, and no client can parse a name over
    255).

    Over the DHCPv4 model of C10 (Model/Dhcp4.v, which carries hostnames
    through normalizeHostname and netutil.ValidateHostname, [valid_hostname]):

    - [static_add_stores_valid], [static_update_stores_valid]: the name stored
      by an accepted add / update of a static lease is empty (add only) or
      satisfies the validator;
    - [hosts_valid_reachable]: in every state reachable by any history of
      DHCP messages, static-lease requests and restarts, every lease of the
      table and every lease of the database file has an empty or valid name;
    - [valid_name_wire_ok]: a valid name with a valid local domain appended
      fits on the wire PROVIDED the two together stay within 253 octets;
    - [valid_name_too_long_refuted]: without that proviso it does not: a name
      of 250 octets is valid and, with ".lan", takes 256 octets on the wire
      (found on the real code by the lease harness; repaired by /repo c41b419);
    - [ptr_answer_wire_ok]: with the guard of /repo c41b419 (fix draft 26) in
      processDHCPAddrs (the composed name must pass netutil.ValidateDomainName,
      [valid_domain_name]) EVERY answer fits, whatever the lease table holds.

    ASCII only: names stored through the API are ASCII after normalisation
    ([valid_hostname] is stated for ASCII names, see Model/Dhcp4.v). *)
From Coq Require Import List ZArith NArith Bool Lia.
From AGH Require Import Base.Run Model.Dhcp4 Proofs.Dhcp4 Proofs.Dhcp4Names.
Import ListNotations.
Local Open Scope N_scope.

(** * Names on the wire *)

Definition label_fits (l : bytes) : bool := negb (is_nil l) && (length l <=? 63)%nat.

(** a dot-separated name without trailing dot: every label fits and the wire
    form (one length octet per label, the labels, the root octet) has at most
    255 octets; without empty labels that is the length of the text plus 2 *)
Definition wire_ok (n : bytes) : bool :=
  forallb label_fits (split_dot [] n) && (length n + 2 <=? 255)%nat.

Definition ptr_target (host sfx : bytes) : bytes := host ++ 46 :: sfx.

Definition lan : bytes := [108; 97; 110].

Lemma split_dot_acc : forall s cur,
  split_dot cur s = (rev cur ++ hd [] (split_dot [] s)) :: tl (split_dot [] s).
Proof.
  induction s as [|c s IH]; intros cur; cbn [split_dot].
  - cbn. rewrite app_nil_r. reflexivity.
  - destruct (c =? 46).
    + cbn. rewrite app_nil_r. reflexivity.
    + rewrite (IH (c :: cur)), (IH [c]). cbn [rev hd tl app]. rewrite <- app_assoc. reflexivity.
Qed.

Lemma split_dot_app : forall a b cur,
  split_dot cur (a ++ 46 :: b) = split_dot cur a ++ split_dot [] b.
Proof.
  induction a as [|c a IH]; intros b cur; cbn [app split_dot].
  - rewrite N.eqb_refl. reflexivity.
  - destruct (c =? 46); [rewrite IH; reflexivity|apply IH].
Qed.

Lemma forallb_impl {A} (f g : A -> bool) l :
  (forall x, f x = true -> g x = true) -> forallb f l = true -> forallb g l = true.
Proof.
  intros H. induction l as [|a l IH]; cbn; auto.
  intros E. apply andb_true_iff in E as [E1 E2]. rewrite (H a E1), (IH E2). reflexivity.
Qed.

Lemma valid_label_fits l : valid_label l = true -> label_fits l = true.
Proof.
  unfold valid_label, label_fits. destruct l as [|c r]; [discriminate|].
  intros H. repeat (apply andb_true_iff in H as [H ?]). cbn [is_nil negb andb]. exact H.
Qed.

Lemma valid_hostname_parts h : valid_hostname h = true ->
  forallb label_fits (split_dot [] h) = true /\ (length h <= 253)%nat /\ h <> [].
Proof.
  unfold valid_hostname. intros H.
  apply andb_true_iff in H as [H H3]. apply andb_true_iff in H as [H1 H2].
  apply andb_true_iff in H3 as [H3 _].
  split; [eapply forallb_impl; [apply valid_label_fits|exact H3]|].
  split; [apply Nat.leb_le; exact H2|].
  intros ->. discriminate.
Qed.

(** A valid name with a valid local domain appended fits on the wire when the
    two together stay within 253 octets. *)
Theorem valid_name_wire_ok h sfx :
  valid_hostname h = true -> valid_hostname sfx = true ->
  (length h + length sfx + 1 <= 253)%nat ->
  wire_ok (ptr_target h sfx) = true.
Proof.
  intros Hh Hs Hl.
  destruct (valid_hostname_parts h Hh) as (Lh & _ & _).
  destruct (valid_hostname_parts sfx Hs) as (Ls & _ & _).
  unfold wire_ok, ptr_target. rewrite split_dot_app, forallb_app, Lh, Ls. cbn [andb].
  apply Nat.leb_le. rewrite app_length. cbn [length]. lia.
Qed.

(** ... and only then.  The name the lease harness found on the real code. *)
Definition long_name : bytes :=
  repeat 97 63 ++ 46 :: repeat 97 63 ++ 46 :: repeat 97 63 ++ 46 :: repeat 101 58.

Theorem valid_name_too_long_refuted :
  exists h, valid_hostname h = true /\ valid_hostname lan = true /\
            wire_ok (ptr_target h lan) = false.
Proof. exists long_name. vm_compute. repeat split. Qed.

Example valid_name_wire_ok_example :
  valid_hostname [112; 114; 105; 110; 116; 101; 114] = true /\
  wire_ok (ptr_target [112; 114; 105; 110; 116; 101; 114] lan) = true.
Proof. vm_compute. split; reflexivity. Qed.

(** * The guard in processDHCPAddrs (/repo c41b419, fix draft 26) *)

(** netutil.ValidateDomainName on an ASCII name: not empty, at most 253
    octets, every label 1..63 octets; the last label by the rules of a
    top-level label (letters, digits, hyphens inside, not all digits). *)
Definition valid_tld (l : bytes) : bool :=
  valid_label l && negb (forallb is_digit l).

Definition valid_domain_name (n : bytes) : bool :=
  negb (is_nil n) && (length n <=? 253)%nat &&
  let ls := split_dot [] n in
  forallb label_fits ls && valid_tld (last ls []).

(** processDHCPAddrs with the guard: [None] = the lease is treated as nameless
    and the query goes on to the private PTR resolvers. *)
Definition ptr_answer (host sfx : bytes) : option bytes :=
  if is_nil host then None
  else let t := ptr_target host sfx in
       if valid_domain_name t then Some t else None.

(** Whatever name the lease table holds (any octets, validated or not), an
    answer that is given fits on the wire. *)
Theorem ptr_answer_wire_ok host sfx t :
  ptr_answer host sfx = Some t -> wire_ok t = true.
Proof.
  unfold ptr_answer. destruct (is_nil host); [discriminate|].
  destruct (valid_domain_name (ptr_target host sfx)) eqn:V; [|discriminate].
  intros E; inversion E; subst t. unfold valid_domain_name in V.
  apply andb_true_iff in V as [V V3]. apply andb_true_iff in V as [_ V2].
  apply andb_true_iff in V3 as [V3 _].
  unfold wire_ok. rewrite V3. cbn [andb]. apply Nat.leb_le. apply Nat.leb_le in V2. lia.
Qed.

(** The guard is not vacuous: ordinary names are answered, the long name and
    the names of seeded change C05-H (an empty label, a 64-octet label, a
    trailing dot) are not. *)
Example ptr_answer_examples :
  ptr_answer [112; 114; 105; 110; 116; 101; 114] lan = Some [112; 114; 105; 110; 116; 101; 114; 46; 108; 97; 110] /\
  ptr_answer long_name lan = None /\
  ptr_answer [102; 46; 46; 100] lan = None /\
  ptr_answer (repeat 97 64) lan = None /\
  ptr_answer [102; 46] lan = None.
Proof. vm_compute. repeat split. Qed.

(** * What the static-lease API stores *)

Definition name_ok (h : bytes) : Prop := h = [] \/ valid_hostname h = true.

Theorem static_add_stores_valid c mac ip host s s' :
  static_add c mac ip host s = (s', RApi true) ->
  exists h, name_ok h /\ In (Lease ip mac h true exp_zero) (leases s').
Proof.
  unfold static_add.
  destruct (ip =? c_gw c); [intros H; inversion H|].
  destruct (negb (valid_mac mac)); [intros H; inversion H|].
  destruct (if is_nil host then Some [] else
            match normalize host with
            | Some n => if valid_hostname n then Some n else None
            | None => None
            end) as [h|] eqn:Eh; [|intros H; inversion H].
  assert (Hok : name_ok h).
  { destruct (is_nil host); [inversion Eh; left; reflexivity|].
    destruct (normalize host) as [n|]; [|discriminate].
    destruct (valid_hostname n) eqn:V; [|discriminate]. inversion Eh; subst. right. exact V. }
  destruct (rm_dynamic_lease c mac ip h s) as [s1 e]. destruct e; [intros H; inversion H|].
  destruct (add_lease c (Lease ip mac h true exp_zero) s1) as [s2|] eqn:Ea; [|intros H; inversion H].
  intros H; inversion H; subst s'. exists h. split; [exact Hok|].
  apply add_lease_some in Ea as (EL & _). cbn [store leases]. rewrite EL.
  apply in_app_iff. right. left. reflexivity.
Qed.

Lemma validate_static_valid c mac ip host s h :
  validate_static c mac ip host s = Some h -> valid_hostname h = true.
Proof.
  unfold validate_static. destruct (normalize host) as [n|]; [|discriminate].
  destruct (valid_hostname n) eqn:V; cbn [negb]; [|discriminate].
  repeat match goal with |- (if ?b then _ else _) = _ -> _ => destruct b; [discriminate|] end.
  intros H; inversion H; subst. exact V.
Qed.

Theorem static_update_stores_valid c mac ip host s s' :
  static_update c mac ip host s = (s', RApi true) ->
  exists h, valid_hostname h = true /\ In (Lease ip mac h true exp_zero) (leases s').
Proof.
  unfold static_update.
  destruct (find_lease mac (leases s)) as [[i found]|]; [|intros H; inversion H].
  destruct (validate_static c mac ip host s) as [h|] eqn:Ev; [|intros H; inversion H].
  destruct (rm_lease c (l_ip found) (l_mac found) (l_host found) s) as [s1|]; [|intros H; inversion H].
  destruct (add_lease c (Lease ip mac h true exp_zero) s1) as [s2|] eqn:Ea; [|intros H; inversion H].
  intros H; inversion H; subst s'. exists h. split; [eapply validate_static_valid; eauto|].
  apply add_lease_some in Ea as (EL & _). cbn [store leases]. rewrite EL.
  apply in_app_iff. right. left. reflexivity.
Qed.

(** * Every name of the lease table and of the database file, in every
    reachable state *)

Definition HV (L : list lease) : Prop := forall l, In l L -> name_ok (l_host l).

(** every lease of [L'] has the name of a lease of [L] or a name that is fine
    by itself *)
Definition SrcH (L L' : list lease) : Prop :=
  forall l', In l' L' -> (exists l, In l L /\ l_host l = l_host l') \/ name_ok (l_host l').

Lemma HV_src L L' : HV L -> SrcH L L' -> HV L'.
Proof.
  intros H S l' Hl'. destruct (S l' Hl') as [(l & Hl & E)|Ok]; [|exact Ok].
  rewrite <- E. apply H; exact Hl.
Qed.

Lemma SrcH_refl L : SrcH L L.
Proof. intros l Hl. left. exists l. split; auto. Qed.

Lemma SrcH_trans A B C : SrcH A B -> SrcH B C -> SrcH A C.
Proof.
  intros H1 H2 l Hl. destruct (H2 l Hl) as [(b & Hb & E)|Ok]; auto.
  destruct (H1 b Hb) as [(a & Ha & E')|Ok].
  - left. exists a. split; auto. congruence.
  - right. rewrite <- E. exact Ok.
Qed.

Lemma SrcH_add c l s s' :
  add_lease c l s = Some s' -> name_ok (l_host l) -> SrcH (leases s) (leases s').
Proof.
  intros Ea Ok l' Hl'. apply add_lease_some in Ea as (EL & _). rewrite EL in Hl'.
  apply in_app_iff in Hl' as [H|[<-|[]]]; auto. left. exists l'. split; auto.
Qed.

Lemma SrcH_thin L L' :
  (forall l', In l' L' -> In l' L \/ l_host l' = []) -> SrcH L L'.
Proof.
  intros H l' Hl'. destruct (H l' Hl') as [?|E]; [left; exists l'; split; auto|right; left; exact E].
Qed.

Lemma SrcH_rm_dynamic c mac ip host s :
  SrcH (leases s) (leases (fst (rm_dynamic_lease c mac ip host s))).
Proof.
  unfold rm_dynamic_lease. pose proof (rm_dyn_in c mac ip host (leases s) (ix s)) as H.
  destruct (rm_dyn c mac ip host (leases s) (ix s)) as [[ls x] e]. cbn in *.
  apply SrcH_thin; auto.
Qed.

Lemma SrcH_rm_index c i s : SrcH (leases s) (leases (rm_lease_by_index c i s)).
Proof.
  unfold rm_lease_by_index. destruct (nth_error (leases s) i) as [l|] eqn:E; [|apply SrcH_refl].
  destruct (nth_error_split' _ _ _ E) as (l1 & l2 & EL & <-). cbn. rewrite EL, remove_nth_split.
  apply SrcH_thin. intros l' H. left. apply in_app_iff in H. apply in_app_iff. cbn. tauto.
Qed.

Lemma SrcH_update_nth i f L :
  (forall l, l_host (f l) = l_host l \/ name_ok (l_host (f l))) -> SrcH L (update_nth i f L).
Proof.
  intros Hf. revert i; induction L as [|a L IH]; intros i l'; destruct i; cbn; try tauto.
  - intros [E|H].
    + subst l'. destruct (Hf a) as [S|S]; [left; exists a; split; auto|right; auto].
    + left; exists l'; split; auto.
  - intros [E|H].
    + subst l'. left; exists a; split; auto.
    + destruct (IH i l' H) as [(l & Hl & E)|Ok]; auto. left. exists l; auto.
Qed.

Lemma SrcH_reserve c now mac s : SrcH (leases s) (leases (fst (reserve c now mac s))).
Proof.
  unfold reserve. destruct (next_ip c s) as [ip|].
  - destruct (add_lease c _ s) as [s'|] eqn:Ea; cbn; [|apply SrcH_refl].
    eapply SrcH_add; eauto. left. reflexivity.
  - destruct (find_expired now (leases s)) as [[i l]|]; cbn; [|apply SrcH_refl].
    apply SrcH_update_nth. intros l0. left. reflexivity.
Qed.

Lemma SrcH_blocklist c now i s : SrcH (leases s) (leases (blocklist c now i s)).
Proof.
  unfold blocklist. destruct (nth_error (leases s) i) as [l|] eqn:E; [|apply SrcH_refl]. cbn [leases].
  apply SrcH_update_nth. intros l0. right. left. reflexivity.
Qed.

Lemma SrcH_allocate c now busy mac : forall fuel s,
  SrcH (leases s) (leases (fst (allocate fuel c now busy mac s))).
Proof.
  induction fuel as [|f IH]; intros s; cbn [allocate]; [apply SrcH_refl|].
  pose proof (SrcH_reserve c now mac s) as R.
  destruct (reserve c now mac s) as [s1 r]; cbn [fst] in *.
  destruct r; auto.
  destruct (mem_ip (ip_at s1 i) busy); auto.
  eapply SrcH_trans; [exact R|]. eapply SrcH_trans; [apply SrcH_blocklist|apply IH].
Qed.

Lemma vhfc_ok x ip : name_ok (valid_hostname_for_client x ip).
Proof.
  unfold valid_hostname_for_client.
  match goal with |- name_ok (if valid_hostname ?n then _ else _) => destruct (valid_hostname n) eqn:V end;
    [right; exact V|left; reflexivity].
Qed.

Lemma SrcH_commit c now i host s : SrcH (leases s) (leases (commit c now i host s)).
Proof.
  unfold commit. destruct (nth_error (leases s) i) as [l|] eqn:E; [|apply SrcH_refl]. cbn [leases].
  intros l' Hl'.
  destruct (nth_error_split' _ _ _ E) as (l1 & l2 & EL & <-).
  rewrite EL, update_nth_split in Hl'. apply in_app_iff in Hl' as [H|[<-|H]].
  - left. exists l'. split; [rewrite EL, in_app_iff; auto|reflexivity].
  - cbn [set_exp set_host l_host].
    set (h := if is_some _ then _ else _).
    assert (Hh : h = l_host l \/ name_ok h).
    { unfold h. destruct (is_some (hidx (ix s) (valid_hostname_for_client host (l_ip l)))).
      - destruct (is_nil (l_host l)); auto.
        destruct (is_some (hidx (ix s) (gen_hostname (l_ip l)))); [right; left; reflexivity|].
        right. right. apply valid_gen.
      - right. apply vhfc_ok. }
    destruct Hh as [Hh|Hh]; [|right; exact Hh].
    left. exists l. split; [rewrite EL, in_app_iff; cbn; auto|symmetry; exact Hh].
  - left. exists l'. split; [rewrite EL, in_app_iff; cbn; auto|reflexivity].
Qed.

Lemma SrcH_rm_lease c ip mac host s s1 :
  rm_lease c ip mac host s = Some s1 -> SrcH (leases s) (leases s1) /\ disk s1 = disk s.
Proof.
  intros H. apply rm_lease_some in H as [[-> _]|(l1 & l & l2 & _ & _ & _ & -> & _)].
  - split; [apply SrcH_refl|reflexivity].
  - split; [apply SrcH_rm_index|].
    unfold rm_lease_by_index. destruct (nth_error (leases s) (length l1)); reflexivity.
Qed.

(** the database file *)
Lemma in_insert_by_host l x sorted :
  In x (insert_by_host l sorted) -> x = l \/ In x sorted.
Proof.
  induction sorted as [|y r IH]; cbn.
  - intros [<-|[]]; auto.
  - destruct (bytes_ltb (l_host y) (l_host l)); cbn.
    + intros [<-|H]; auto. destruct (IH H); auto.
    + intros [<-|[<-|H]]; auto.
Qed.

Lemma in_store_list ls x : In x (store_list ls) -> exists l, In l ls /\ l_host l = l_host x.
Proof.
  unfold store_list, sort_by_host. induction ls as [|a ls IH]; cbn; [tauto|].
  intros H. apply in_insert_by_host in H as [->|H].
  - exists a. split; [left; reflexivity|]. unfold db_lease. reflexivity.
  - destruct (IH H) as (l & Hl & E). exists l. split; [right; exact Hl|exact E].
Qed.

Definition Inv (s : state) : Prop := HV (leases s) /\ HV (disk s).

Lemma Inv_store s : HV (leases s) -> Inv (store s).
Proof.
  intros H. split; [exact H|]. cbn [store disk]. intros x Hx.
  apply in_store_list in Hx as (l & Hl & E). rewrite <- E. apply H; exact Hl.
Qed.

Lemma Inv_load c d : HV d -> Inv (load c d).
Proof.
  intros Hd. unfold load.
  assert (G : forall d' s, HV d' -> Inv s -> Inv (fold_left (load_step c) d' s)).
  { induction d' as [|a d' IH]; intros s Hd' Hs; cbn; auto. apply IH.
    - intros l Hl. apply Hd'. right. exact Hl.
    - unfold load_step. destruct (valid_mac (l_mac a)); auto.
      destruct (add_lease c (reload_lease a) s) as [s'|] eqn:Ea; auto.
      destruct Hs as [H1 H2]. pose proof Ea as Ea'.
      apply add_lease_some in Ea' as (EL & ED & _). split.
      + eapply HV_src; [exact H1|]. eapply SrcH_add; eauto.
        unfold reload_lease. destruct (negb (l_static a) && negb (is_nil (l_host a))); cbn [set_host l_host].
        * apply vhfc_ok.
        * apply Hd'. left. reflexivity.
      + rewrite ED. exact H2. }
  apply G; [exact Hd|]. split; [intros l []|exact Hd].
Qed.

Theorem step_hosts_valid c s now busy o : Inv s -> Inv (fst (step c s now busy o)).
Proof.
  intros [H HD]. destruct o; cbn [step fst].
  - (* discover *)
    unfold discover. destruct (find_lease mac (leases s)) as [[? ?]|]; cbn [fst]; [apply Inv_store; exact H|].
    pose proof (SrcH_allocate c now busy mac (alloc_fuel c s) s) as R.
    destruct (allocate _ c now busy mac s) as [s' r]; cbn [fst] in *.
    destruct r; cbn [fst]; apply Inv_store; exact (HV_src _ _ H R).
  - (* request *)
    unfold request. destruct (request_lease c mac sid reqip ciaddr s) as [r|[i l]]; cbn [fst]; [split; assumption|].
    destruct (l_static l); cbn [fst]; apply Inv_store; [exact H|].
    eapply HV_src; [exact H|apply SrcH_commit].
  - (* decline *)
    unfold decline. destruct (find_index _ (leases s)) as [[? old]|]; cbn [fst]; [|apply Inv_store; exact H].
    pose proof (SrcH_rm_dynamic c (l_mac old) (l_ip old) (l_host old) s) as R1.
    destruct (rm_dynamic_lease c (l_mac old) (l_ip old) (l_host old) s) as [s1 e]; cbn [fst] in *.
    assert (H1 : HV (leases s1)) by exact (HV_src _ _ H R1).
    destruct e; cbn [fst]; [apply Inv_store; exact H1|].
    pose proof (SrcH_allocate c now busy mac (alloc_fuel c s1) s1) as R2.
    destruct (allocate _ c now busy mac s1) as [s2 r]; cbn [fst] in *.
    assert (H2 : HV (leases s2)) by exact (HV_src _ _ H1 R2).
    destruct r; cbn [fst]; apply Inv_store; auto.
    eapply HV_src; [exact H2|apply SrcH_commit].
  - (* release *)
    unfold release. destruct (find_index _ (leases s)) as [[? old]|]; cbn [fst]; [|apply Inv_store; exact H].
    pose proof (SrcH_rm_dynamic c (l_mac old) (l_ip old) (l_host old) s) as R1.
    destruct (rm_dynamic_lease c (l_mac old) (l_ip old) (l_host old) s) as [s1 e]; cbn [fst] in *.
    destruct e; cbn [fst]; apply Inv_store; exact (HV_src _ _ H R1).
  - (* static add *)
    unfold static_add. destruct (ip =? c_gw c); cbn [fst]; [split; assumption|].
    destruct (negb (valid_mac mac)); cbn [fst]; [split; assumption|].
    destruct (if is_nil host then Some [] else _) as [h|] eqn:Eh; cbn [fst]; [|split; assumption].
    assert (Hok : name_ok h).
    { destruct (is_nil host); [inversion Eh; left; reflexivity|].
      destruct (normalize host) as [n|]; [|discriminate].
      destruct (valid_hostname n) eqn:V; [|discriminate]. inversion Eh; subst. right. exact V. }
    pose proof (SrcH_rm_dynamic c mac ip h s) as R1.
    destruct (rm_dynamic_lease c mac ip h s) as [s1 e]; cbn [fst] in *.
    assert (H1 : HV (leases s1)) by exact (HV_src _ _ H R1).
    destruct e; cbn [fst]; [apply Inv_store; exact H1|].
    destruct (add_lease c _ s1) as [s2|] eqn:Ea; cbn [fst]; apply Inv_store; auto.
    eapply HV_src; [exact H1|]. eapply SrcH_add; eauto.
  - (* static update *)
    unfold static_update. destruct (find_lease mac (leases s)) as [[? found]|]; cbn [fst]; [|split; assumption].
    destruct (validate_static c mac ip host s) as [h|] eqn:Ev; cbn [fst]; [|split; assumption].
    destruct (rm_lease c _ _ _ s) as [s1|] eqn:Er; cbn [fst]; [|split; assumption].
    destruct (SrcH_rm_lease _ _ _ _ _ _ Er) as [R1 D1].
    assert (H1 : HV (leases s1)) by exact (HV_src _ _ H R1).
    destruct (add_lease c _ s1) as [s2|] eqn:Ea; cbn [fst].
    + apply Inv_store. eapply HV_src; [exact H1|]. eapply SrcH_add; eauto.
      right. eapply validate_static_valid; eauto.
    + split; [exact H1|rewrite D1; exact HD].
  - (* static remove *)
    unfold static_remove. destruct (negb (valid_mac mac)); cbn [fst]; [split; assumption|].
    destruct (rm_lease c ip mac host s) as [s1|] eqn:Er; cbn [fst]; [|split; assumption].
    destruct (SrcH_rm_lease _ _ _ _ _ _ Er) as [R1 _].
    apply Inv_store. exact (HV_src _ _ H R1).
  - (* tick *) split; assumption.
  - (* restart *) apply Inv_load. exact HD.
Qed.

(** Any history of DHCP messages, static-lease requests, clock ticks and
    restarts, from the empty server: every lease in the table and in the
    database file has an empty name or one that passes the validator. *)
Theorem hosts_valid_reachable c h :
  HV (leases (run c h empty_state)) /\ HV (disk (run c h empty_state)).
Proof.
  assert (G : forall s, Inv s -> Inv (run c h s)).
  { unfold run. induction h as [|[[now busy] o] h IH]; intros s H; cbn; auto.
    apply IH, step_hosts_valid; auto. }
  apply G. split; intros l [].
Qed.

(** Consequence for the answers (with the local domain within the length
    proviso): the PTR target built from any lease of a reachable state fits. *)
Corollary reachable_ptr_targets_fit c h sfx l :
  In l (leases (run c h empty_state)) -> l_host l <> [] ->
  valid_hostname sfx = true -> (length (l_host l) + length sfx + 1 <= 253)%nat ->
  wire_ok (ptr_target (l_host l) sfx) = true.
Proof.
  intros Hl Hne Hs Hlen. destruct (proj1 (hosts_valid_reachable c h) l Hl) as [E|V]; [contradiction|].
  apply valid_name_wire_ok; assumption.
Qed.

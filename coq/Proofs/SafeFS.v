(** C17: specification and proofs about Model/SafeFS.v. *)
From Coq Require Import List NArith Bool Lia.
From AGH Require Import Base.Run Base.Bytes Base.PathClean Base.Glob Model.SafeFS Proofs.GlobCase.
Import ListNotations.
Local Open Scope N_scope.

(** * The property's predicate *)

(** Some configured pattern matches [p] (in the sense of filepath.Match). *)
Definition safe (pats : list bytes) (p : bytes) : Prop :=
  exists g, In g pats /\ glob_match g p = GOk true.

(** An event is what [reader] chose for its location under the configured
    patterns: every opening goes through the check. *)
Definition ev_ok (w : world) (e : event) : Prop := snd e = reader (w_pats w) (fst e).

(** The same, with the byte-exactness of the match spelled out (letter case
    is significant): for a matching pattern without classes and escapes the
    path is aligned with the pattern piece by piece -- every literal pattern
    byte stands for exactly that byte -- and if the pattern has no upper-case
    letter, no upper-case letter of the path lies in a literal position. *)
Definition byte_exact (g p : bytes) : Prop :=
  plain_pattern g = true ->
  exists pieces, aligned g p pieces /\
    (no_upper g = true ->
     Forall (fun pc => is_lit (fst pc) = true -> no_upper (snd pc) = true) pieces).

Definition safe_exact (pats : list bytes) (p : bytes) : Prop :=
  exists g, In g pats /\ glob_match g p = GOk true /\ byte_exact g p /\
            (forallb is_lit g = true -> p = g).

Lemma match_byte_exact g p : glob_match g p = GOk true -> byte_exact g p.
Proof.
  intros Hm Hp. destruct (no_upper g) eqn:Hu.
  - destruct (glob_case_exact _ _ Hp Hm Hu) as (ps & Ha & Hf). exists ps. auto.
  - destruct (glob_match_aligned _ _ Hp Hm) as (ps & Ha). exists ps. split; [exact Ha|discriminate].
Qed.

Lemma safe_is_exact pats p : safe pats p -> safe_exact pats p.
Proof.
  intros (g & Hin & Hm). exists g. repeat split; auto.
  - apply match_byte_exact, Hm.
  - intros Hl. apply glob_literal_exact; assumption.
Qed.

Lemma safe_exact_safe pats p : safe_exact pats p -> safe pats p.
Proof. intros (g & Hin & Hm & _). exists g. auto. Qed.

(** * reader and validate_url *)

Lemma any_match_yes pats p : any_match pats p = PmYes -> safe pats p.
Proof.
  induction pats as [|g r IH]; cbn [any_match]; [discriminate|].
  destruct (glob_match g p) as [[|]| |] eqn:E; try discriminate.
  - intros _. exists g. split; [left; reflexivity|exact E].
  - intros H. destruct (IH H) as (g' & Hin & Hm). exists g'. split; [right; exact Hin|exact Hm].
Qed.

Lemma any_match_no pats p : any_match pats p = PmNo -> ~ safe pats p.
Proof.
  induction pats as [|g r IH]; cbn [any_match].
  - intros _ (g & [] & _).
  - destruct (glob_match g p) as [[|]| |] eqn:E; try discriminate.
    intros H (g' & [<-|Hin] & Hm); [congruence|]. apply (IH H). exists g'. auto.
Qed.

Lemma path_matches_any_yes pats p :
  path_matches_any pats p = PmYes ->
  pats <> [] /\ is_abs p = true /\ clean p = p /\ safe pats p.
Proof.
  unfold path_matches_any. destruct pats as [|g r]; [discriminate|].
  destruct (is_abs p && eqb_bytes (clean p) p) eqn:E; cbn [negb]; [|discriminate].
  apply andb_true_iff in E as [E1 E2]. apply eqb_bytes_eq in E2.
  intros H. repeat split; auto; [discriminate|apply any_match_yes, H].
Qed.

Lemma reader_open pats loc p :
  reader pats loc = OpenFile p ->
  is_abs loc = true /\ p = clean loc /\ safe pats p.
Proof.
  unfold reader. destruct (is_abs loc) eqn:Ea; cbn [negb]; [|discriminate].
  destruct (path_matches_any pats (clean loc)) eqn:E; try discriminate.
  intros [= <-]. apply path_matches_any_yes in E as (_ & _ & _ & Hs). auto.
Qed.

Lemma reader_relative pats loc : is_abs loc = false -> reader pats loc = HttpGet loc.
Proof. unfold reader. intros ->. reflexivity. Qed.

Lemma reader_no_patterns loc p : reader [] loc <> OpenFile p.
Proof. unfold reader. destruct (is_abs loc); cbn; discriminate. Qed.

Lemma reader_unsafe pats loc :
  is_abs loc = true -> ~ safe pats (clean loc) -> exists k, reader pats loc = Reject k.
Proof.
  intros Ha Hn. destruct (reader pats loc) as [p|u|k] eqn:E; [| |eauto].
  - apply reader_open in E as (_ & -> & Hs). contradiction.
  - unfold reader in E. rewrite Ha in E. cbn in E.
    destruct (path_matches_any pats (clean loc)); discriminate.
Qed.

(** The path handed to the matcher is always clean and absolute, so
    pathMatchesAny's own panic (path not absolute/clean) cannot happen. *)
Lemma reader_never_unclean loc :
  is_abs loc = true ->
  is_abs (clean loc) && eqb_bytes (clean (clean loc)) (clean loc) = true.
Proof.
  intros Ha. rewrite clean_is_abs, Ha, clean_idem. apply eqb_bytes_refl.
Qed.

Lemma validate_accepts_abs pats ex uok loc :
  validate_url pats ex uok loc = None -> is_abs loc = true ->
  ex (clean loc) = true /\ safe pats (clean loc).
Proof.
  unfold validate_url. intros H Ha. rewrite Ha in H.
  destruct (ex (clean loc)); cbn [negb] in H; [|discriminate].
  destruct (path_matches_any pats (clean loc)) eqn:E; try discriminate.
  apply path_matches_any_yes in E as (_ & _ & _ & Hs). auto.
Qed.

Lemma validate_accepts_rel pats ex uok loc :
  validate_url pats ex uok loc = None -> is_abs loc = false -> uok loc = true.
Proof.
  unfold validate_url. intros H Ha. rewrite Ha in H. destruct (uok loc); [reflexivity|discriminate].
Qed.

(** What validation accepts is exactly what the reader will open (same
    predicate at add / set-url time and at download time). *)
Lemma validate_reader_agree pats ex uok loc :
  is_abs loc = true -> validate_url pats ex uok loc = None ->
  reader pats loc = OpenFile (clean loc).
Proof.
  unfold validate_url, reader. intros Ha. rewrite Ha. cbn [negb].
  destruct (ex (clean loc)); cbn [negb]; [|discriminate].
  destruct (path_matches_any pats (clean loc)); try discriminate. reflexivity.
Qed.

(** * Events of the entry points *)

Lemma update_event w f : fst (update w f) = (f_url f, reader (w_pats w) (f_url f)).
Proof. reflexivity. Qed.

Lemma update_ev_ok w f : ev_ok w (fst (update w f)).
Proof. reflexivity. Qed.

Lemma add_events w st loc white st' s evs :
  add w st loc white = (st', s, evs) -> Forall (ev_ok w) evs.
Proof.
  unfold add. destruct (validate_url _ _ _ loc) as [k|].
  - destruct k; intros [= <- <- <-]; constructor.
  - destruct (url_exists st loc); [intros [= <- <- <-]; constructor|].
    destruct (update w _) as [ev r] eqn:E.
    assert (Hev : ev_ok w ev) by (change ev with (fst (ev, r)); rewrite <- E; apply update_ev_ok).
    destruct r; intros [= <- <- <-]; repeat constructor; exact Hev.
Qed.

Lemma set_url_events w st old new en white st' s evs :
  set_url w st old new en white = (st', s, evs) -> Forall (ev_ok w) evs.
Proof.
  unfold set_url. destruct (validate_url _ _ _ new) as [k|].
  - destruct k; intros [= <- <- <-]; constructor.
  - destruct (find_first old (get_list st white)) as [f|]; [|intros [= <- <- <-]; constructor].
    destruct (negb (eqb_bytes (f_url f) new) && url_exists st new);
      [intros [= <- <- <-]; constructor|].
    destruct en; [|intros [= <- <- <-]; constructor].
    destruct (negb (eqb_bytes (f_url f) new) || negb (Bool.eqb (f_enabled f) true));
      [|intros [= <- <- <-]; constructor].
    destruct (update w _) as [ev r] eqn:E.
    assert (Hev : ev_ok w ev) by (change ev with (fst (ev, r)); rewrite <- E; apply update_ev_ok).
    destruct r; intros [= <- <- <-]; repeat constructor; exact Hev.
Qed.

Lemma refresh_pass_events w l : Forall (ev_ok w) (snd (fst (refresh_pass w l))).
Proof.
  induction l as [|f r IH]; cbn [refresh_pass]; [constructor|].
  destruct (f_enabled f).
  - destruct (update w f) as [ev res] eqn:E.
    assert (Hev : ev_ok w ev) by (change ev with (fst (ev, res)); rewrite <- E; apply update_ev_ok).
    destruct (refresh_pass w r) as [[rs evs] dead]. cbn in IH.
    destruct res; cbn; try (constructor; [exact Hev|exact IH]).
    constructor; [exact Hev|constructor].
  - destruct (refresh_pass w r) as [[rs evs] dead]. exact IH.
Qed.

Lemma refresh_events w st white st' s evs :
  refresh w st white = (st', s, evs) -> Forall (ev_ok w) evs.
Proof.
  unfold refresh. pose proof (refresh_pass_events w (get_list st white)) as H.
  destruct (refresh_pass w (get_list st white)) as [[rs evs'] dead]. intros [= <- <- <-]. exact H.
Qed.

Lemma refresh_pass_sel_events w sel l : Forall (ev_ok w) (snd (fst (refresh_pass_sel w sel l))).
Proof.
  induction l as [|f r IH]; cbn [refresh_pass_sel]; [constructor|].
  destruct (sel f).
  - destruct (update w f) as [ev res] eqn:E.
    assert (Hev : ev_ok w ev) by (change ev with (fst (ev, res)); rewrite <- E; apply update_ev_ok).
    destruct (refresh_pass_sel w sel r) as [[rs evs] dead]. cbn in IH.
    destruct res; cbn; try (constructor; [exact Hev|exact IH]).
    constructor; [exact Hev|constructor].
  - destruct (refresh_pass_sel w sel r) as [[rs evs] dead]. exact IH.
Qed.

(** Only selected entries are looked at. *)
Lemma refresh_pass_sel_selected w sel l :
  Forall (fun e => exists f, In f l /\ sel f = true /\ fst e = f_url f)
         (snd (fst (refresh_pass_sel w sel l))).
Proof.
  induction l as [|f r IH]; cbn [refresh_pass_sel]; [constructor|].
  assert (Hmono : forall evs : list event,
            Forall (fun e => exists f, In f r /\ sel f = true /\ fst e = f_url f) evs ->
            Forall (fun e => exists f0, In f0 (f :: r) /\ sel f0 = true /\ fst e = f_url f0) evs).
  { intros evs H. eapply Forall_impl; [|exact H]. intros e (f0 & H1 & H2 & H3).
    exists f0. split; [right; exact H1|auto]. }
  destruct (sel f) eqn:Es.
  - destruct (update w f) as [ev res] eqn:E.
    assert (Hev : exists f0, In f0 (f :: r) /\ sel f0 = true /\ fst ev = f_url f0).
    { exists f. split; [left; reflexivity|]. split; [exact Es|].
      change ev with (fst (ev, res)). rewrite <- E. reflexivity. }
    destruct (refresh_pass_sel w sel r) as [[rs evs] dead]. cbn in IH.
    destruct res; cbn; try (constructor; [exact Hev|apply Hmono, IH]).
    constructor; [exact Hev|constructor].
  - destruct (refresh_pass_sel w sel r) as [[rs evs] dead]. cbn in *. apply Hmono, IH.
Qed.

Lemma periodic_events w st due st' s evs :
  periodic w st due = (st', s, evs) -> Forall (ev_ok w) evs.
Proof.
  unfold periodic. pose proof (refresh_pass_sel_events w (is_due due) (s_block st)) as H1.
  destruct (refresh_pass_sel w (is_due due) (s_block st)) as [[rs evs1] dead]. cbn in H1.
  destruct dead; [intros [= <- <- <-]; exact H1|].
  set (st1 := set_list st false _).
  pose proof (refresh_pass_sel_events w (is_due due) (s_allow st1)) as H2.
  destruct (refresh_pass_sel w (is_due due) (s_allow st1)) as [[rs2 evs2] dead2]. cbn in H2.
  intros [= <- <- <-]. apply Forall_app. split; assumption.
Qed.

Lemma step_events w st o st' s evs : step w st o = (st', s, evs) -> Forall (ev_ok w) evs.
Proof.
  destruct o; cbn; [apply add_events|apply set_url_events|apply refresh_events|apply periodic_events].
Qed.

Lemma run_events w ops : forall st,
  Forall (fun out => Forall (ev_ok w) (snd out)) (snd (run w st ops)).
Proof.
  induction ops as [|o r IH]; intros st; cbn; [constructor|].
  destruct (step w st o) as [[st1 s] evs] eqn:E. specialize (IH st1).
  destruct (run w st1 r) as [st2 outs]. cbn in *. constructor; [|exact IH].
  cbn. eapply step_events, E.
Qed.

(** * Main theorems *)

(** For every world, every starting state (configured, planted or reached by
    any earlier history) and every history of add / set-url / refresh: a file
    is opened only for an absolute location, the file is the cleaned location,
    and a configured pattern matches it. *)
Theorem open_implies_safe w st ops s evs loc p :
  In (s, evs) (snd (run w st ops)) -> In (loc, OpenFile p) evs ->
  is_abs loc = true /\ p = clean loc /\ safe (w_pats w) p /\ safe_exact (w_pats w) p.
Proof.
  intros Hout Hev. pose proof (run_events w ops st) as H.
  rewrite Forall_forall in H. specialize (H _ Hout). cbn in H.
  rewrite Forall_forall in H. specialize (H _ Hev). unfold ev_ok in H. cbn in H.
  symmetry in H. apply reader_open in H as (H1 & H2 & H3).
  repeat split; auto. apply safe_is_exact, H3.
Qed.

(** Letter case at the level of the single decision: a location whose cleaned
    path has an upper-case letter is never opened under patterns that are all
    literal and lower-case, and under any plain lower-case pattern only if the
    letter lies where the pattern has a [*] or a [?]. *)
Theorem reader_case_sensitive pats loc p :
  reader pats loc = OpenFile p ->
  exists g, In g pats /\ glob_match g p = GOk true /\ byte_exact g p /\
            (forallb is_lit g = true -> p = g).
Proof. intros H. apply reader_open in H as (_ & _ & Hs). apply safe_is_exact, Hs. Qed.

Theorem literal_lower_patterns_no_upper pats loc p :
  Forall (fun g => forallb is_lit g = true /\ no_upper g = true) pats ->
  reader pats loc = OpenFile p -> no_upper p = true.
Proof.
  intros Hf H. destruct (reader_case_sensitive _ _ _ H) as (g & Hin & _ & _ & He).
  rewrite Forall_forall in Hf. destruct (Hf _ Hin) as [Hl Hu]. rewrite (He Hl). exact Hu.
Qed.

Theorem no_patterns_no_file w st ops s evs loc p :
  w_pats w = [] -> In (s, evs) (snd (run w st ops)) -> ~ In (loc, OpenFile p) evs.
Proof.
  intros Hp Hout Hev. destruct (open_implies_safe _ _ _ _ _ _ _ Hout Hev) as (_ & _ & (g & Hin & _) & _).
  rewrite Hp in Hin. exact Hin.
Qed.

Theorem relative_never_file w st ops s evs loc src :
  In (s, evs) (snd (run w st ops)) -> In (loc, src) evs -> is_abs loc = false ->
  src = HttpGet loc.
Proof.
  intros Hout Hev Ha. pose proof (run_events w ops st) as H.
  rewrite Forall_forall in H. specialize (H _ Hout). cbn in H.
  rewrite Forall_forall in H. specialize (H _ Hev). unfold ev_ok in H. cbn in H.
  rewrite H. apply reader_relative, Ha.
Qed.

(** Anything that does not start with '/' is not absolute: relative paths and
    every scheme-prefixed string (file:, ftp:, ...). *)
Lemma scheme_not_abs c rest : c <> slash -> is_abs (c :: rest) = false.
Proof. intros H. cbn. apply N.eqb_neq, H. Qed.

(** * Refresh re-checks *)

Lemma refresh_pass_shape w l :
  map fst (fst (fst (refresh_pass w l))) = l /\
  Forall (fun x => snd x = UErr \/ snd x = snd (update w (fst x))) (fst (fst (refresh_pass w l))).
Proof.
  induction l as [|f r [IH1 IH2]]; cbn [refresh_pass]; [split; constructor|].
  destruct (f_enabled f).
  - destruct (update w f) as [ev res] eqn:E.
    destruct (refresh_pass w r) as [[rs evs] dead]. cbn in IH1, IH2.
    assert (Hres : res = snd (update w f)) by (rewrite E; reflexivity).
    destruct res; cbn; try (split; [f_equal; exact IH1|constructor; [right; exact Hres|exact IH2]]).
    (* panic: everything from here on is left alone *)
    split.
    + f_equal. rewrite map_map. cbn. apply map_id.
    + constructor; [left; reflexivity|]. apply Forall_forall. intros x Hx.
      apply in_map_iff in Hx as (g & <- & _). left. reflexivity.
  - destruct (refresh_pass w r) as [[rs evs] dead]. cbn in *.
    split; [f_equal; exact IH1|constructor; [left; reflexivity|exact IH2]].
Qed.

Lemma update_unsafe w f :
  is_abs (f_url f) = true -> ~ safe (w_pats w) (clean (f_url f)) ->
  snd (update w f) = UErr \/ snd (update w f) = UPanic.
Proof.
  intros Ha Hn. destruct (reader_unsafe _ _ Ha Hn) as [k Hk].
  unfold update. rewrite Hk. cbn. destruct k; auto.
Qed.

(** The refresh path applies the same predicate immediately before opening:
    an entry whose location is absolute but not safe (planted in the
    configuration, or made unsafe by a configuration change) is never read;
    it stays exactly as it was, and the event recorded for it is a rejection. *)
Theorem recheck_at_refresh w st white st' s evs f :
  refresh w st white = (st', s, evs) ->
  In f (get_list st white) -> is_abs (f_url f) = true ->
  ~ safe (w_pats w) (clean (f_url f)) ->
  In f (get_list st' white) /\
  forall src, In (f_url f, src) evs -> exists k, src = Reject k.
Proof.
  intros Hr Hin Ha Hn. split.
  - unfold refresh in Hr. pose proof (refresh_pass_shape w (get_list st white)) as [H1 H2].
    destruct (refresh_pass w (get_list st white)) as [[rs evs'] dead]. cbn in H1, H2.
    injection Hr as <- _ _.
    assert (Hl : get_list (set_list st white (map (apply_refresh dead) rs)) white =
                 map (apply_refresh dead) rs) by (destruct white; reflexivity).
    rewrite Hl. rewrite <- H1 in Hin. apply in_map_iff in Hin as ([f0 r0] & Hf & Hx). cbn in Hf. subst f0.
    apply in_map_iff. exists (f, r0). split; [|exact Hx].
    rewrite Forall_forall in H2. specialize (H2 _ Hx). cbn [fst snd] in H2.
    pose proof (update_unsafe w f Ha Hn) as Hu'. unfold update in Hu'. cbn [snd] in Hu'.
    destruct Hu' as [Hu|Hu]; rewrite Hu in H2; destruct H2 as [->| ->]; reflexivity.
  - intros src Hev. pose proof (refresh_events _ _ _ _ _ _ Hr) as H.
    rewrite Forall_forall in H. specialize (H _ Hev). unfold ev_ok in H. cbn in H. subst src.
    apply reader_unsafe; assumption.
Qed.

(** The periodic path (timer of updatesLoop, not forced): every location it
    looks at goes through the same [reader] decision, only entries that are
    enabled and due are looked at, and an entry with an absolute, unsafe
    location is rejected, never opened. *)
Theorem recheck_at_periodic w st due st' s evs loc src :
  periodic w st due = (st', s, evs) -> In (loc, src) evs ->
  src = reader (w_pats w) loc /\ In loc due /\
  (is_abs loc = true -> ~ safe (w_pats w) (clean loc) -> exists k, src = Reject k).
Proof.
  intros Hp Hev. pose proof (periodic_events _ _ _ _ _ _ Hp) as H.
  rewrite Forall_forall in H. specialize (H _ Hev). unfold ev_ok in H. cbn in H.
  split; [exact H|]. split.
  - unfold periodic in Hp.
    pose proof (refresh_pass_sel_selected w (is_due due) (s_block st)) as H1.
    destruct (refresh_pass_sel w (is_due due) (s_block st)) as [[rs evs1] dead]. cbn in H1.
    assert (Hdue : forall l, Forall (fun e : event => exists f, In f l /\ is_due due f = true /\ fst e = f_url f) evs ->
                   In loc due).
    { intros l Hl. rewrite Forall_forall in Hl. destruct (Hl _ Hev) as (f & _ & Hs & Hu).
      cbn in Hu. subst loc. unfold is_due in Hs. apply andb_true_iff in Hs as [_ Hs].
      unfold mem_bytes in Hs. apply existsb_exists in Hs as (x & Hx & He).
      apply eqb_bytes_eq in He. subst x. exact Hx. }
    destruct dead; [injection Hp as _ _ <-; eapply Hdue, H1|].
    set (st1 := set_list st false _) in Hp.
    pose proof (refresh_pass_sel_selected w (is_due due) (s_allow st1)) as H2.
    destruct (refresh_pass_sel w (is_due due) (s_allow st1)) as [[rs2 evs2] dead2]. cbn in H2.
    injection Hp as _ _ <-. apply (Hdue (s_block st ++ s_allow st1)).
    apply Forall_app. split; (eapply Forall_impl; [|eassumption]); intros e (f & Hi & Hr);
      exists f; (split; [apply in_or_app; auto|exact Hr]).
  - intros Ha Hn. subst src. apply reader_unsafe; assumption.
Qed.

(** * No traversal *)

(** The opened path has no empty, "." or ".." element. *)
Theorem opened_path_clean pats loc p :
  reader pats loc = OpenFile p ->
  p = [slash] \/
  exists segs, segs <> [] /\ split slash p = [] :: segs /\ Forall real segs.
Proof.
  intros H. apply reader_open in H as (Ha & -> & _). apply clean_abs_no_dots, Ha.
Qed.

(** * The premises are satisfiable (concrete, computed) *)

Definition ex_pats : list bytes := [[47;115;47;42]].                         (* /s/*  *)
Definition ex_files : list (bytes * N) := [([47;115;47;97], 1); ([47;120;47;98], 2)].   (* /s/a  /x/b *)
Definition ex_world : world :=
  {| w_pats := ex_pats; w_files := ex_files; w_dirs := [[47;115]; [47;120]]; w_http := []; w_urlok := [] |}.
Definition ex_loc_in : bytes := [47;115;47;46;47;97].                        (* /s/./a *)
Definition ex_loc_out : bytes := [47;115;47;46;46;47;120;47;98].             (* /s/../x/b *)
Definition ex_planted : state :=
  {| s_block := [{| f_url := ex_loc_out; f_enabled := true; f_loaded := 0; f_sum := 0 |}]; s_allow := [] |}.

Example ex_open : reader ex_pats ex_loc_in = OpenFile [47;115;47;97].
Proof. reflexivity. Qed.
Example ex_traversal_rejected : reader ex_pats ex_loc_out = Reject RUnsafe.
Proof. reflexivity. Qed.
Example ex_history :
  snd (run ex_world ex_planted [OAdd ex_loc_in false; OAdd ex_loc_out false; ORefresh false]) =
  [(SOk 0, [(ex_loc_in, OpenFile [47;115;47;97])]);
   (SRejected RUnsafe, []);
   (SOk 0, [(ex_loc_out, Reject RUnsafe); (ex_loc_in, OpenFile [47;115;47;97])])].
Proof. reflexivity. Qed.
Example ex_unsafe_planted : ~ safe ex_pats (clean ex_loc_out).
Proof. apply any_match_no. reflexivity. Qed.

(** With a class-free pattern, the opened path has exactly as many separators
    as the pattern: "/safe/*" admits only paths directly inside a directory
    at that depth, and since the path has no ".." element (above), no spelling
    of a location gets from there to another directory. *)
Theorem no_traversal pats loc p g :
  reader pats loc = OpenFile p ->
  (p = [slash] \/ exists segs, segs <> [] /\ split slash p = [] :: segs /\ Forall real segs) /\
  (In g pats -> plain_pattern g = true -> glob_match g p = GOk true ->
   count sep p = count sep g).
Proof.
  intros H. split; [eapply opened_path_clean, H|].
  intros _ Hp Hm. apply glob_match_slashes; assumption.
Qed.

Example ex_traversal_star :
  glob_match [47;115;47;42] [47;115;47;120;47;46;46;47;46;46;47;101] (* /s/* vs /s/x/../../e *) = GOk false.
Proof. reflexivity. Qed.

(** The typical configuration "dir/*": if that is the only pattern, whatever
    is opened lies directly inside [dir] -- for every spelling of the location. *)
Theorem dir_star_only d loc p :
  forallb is_lit d = true ->
  reader [d ++ [sep; c_star]] loc = OpenFile p ->
  exists x, p = d ++ sep :: x /\ mem sep x = false /\ p = clean loc.
Proof.
  intros Hd H. apply reader_open in H as (_ & Hc & (g & [<-|[]] & Hm)).
  destruct (glob_dir_star _ _ Hd Hm) as (x & Hx & Hs). exists x. auto.
Qed.

Example ex_dir_star_premise : forallb is_lit [47;115] = true /\
  reader [[47;115] ++ [sep; c_star]] ex_loc_in = OpenFile [47;115;47;97].
Proof. split; reflexivity. Qed.

(** Letter case: the premises are satisfiable, and the variants in another
    letter case are rejected (computed). *)
Definition ex_pats_case : list bytes := [[47;115;47;42;46;116]; [47;120;47;98]].      (* /s/*.t  /x/b *)
Example ex_case_open : reader ex_pats_case [47;115;47;97;46;116] = OpenFile [47;115;47;97;46;116].  (* /s/a.t *)
Proof. reflexivity. Qed.
Example ex_case_star_upper : reader ex_pats_case [47;115;47;65;46;116] = OpenFile [47;115;47;65;46;116]. (* /s/A.t: under the star *)
Proof. reflexivity. Qed.
Example ex_case_dir_rejected : reader ex_pats_case [47;83;47;97;46;116] = Reject RUnsafe.   (* /S/a.t *)
Proof. reflexivity. Qed.
Example ex_case_ext_rejected : reader ex_pats_case [47;115;47;97;46;84] = Reject RUnsafe.   (* /s/a.T *)
Proof. reflexivity. Qed.
Example ex_case_exact_rejected : reader ex_pats_case [47;88;47;98] = Reject RUnsafe.        (* /X/b *)
Proof. reflexivity. Qed.
Example ex_literal_lower_premise :
  Forall (fun g => forallb is_lit g = true /\ no_upper g = true) [[47;120;47;98]] /\
  reader [[47;120;47;98]] [47;120;47;46;47;98] = OpenFile [47;120;47;98].
Proof. split; [repeat constructor|reflexivity]. Qed.

(** The periodic path on the planted example: the unsafe entry is due and
    rejected, the safe one is not due and not looked at. *)
Example ex_periodic :
  snd (run ex_world {| s_block := s_block ex_planted ++
                          [{| f_url := ex_loc_in; f_enabled := true; f_loaded := 0; f_sum := 0 |}];
                       s_allow := [] |}
           [OPeriodic [ex_loc_out]; OPeriodic [ex_loc_in]]) =
  [(SOk 0, [(ex_loc_out, Reject RUnsafe)]);
   (SOk 0, [(ex_loc_in, OpenFile [47;115;47;97])])].
Proof. reflexivity. Qed.

From AGH Require Import Base.Run Base.Bytes Base.PathClean Base.Glob Model.SafeFS.
Lemma relative_never_file pats loc : is_abs loc = false -> reader pats loc = HttpGet loc.
Proof. unfold reader. intros ->. reflexivity. Qed.

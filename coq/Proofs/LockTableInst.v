(** C05: the checks on the table generated from the CURRENT source
    (Gen/LockTable.v is rewritten by tools/locktable on every run), evaluated
    by vm_compute, and the two liftings instantiated with it. *)
From Coq Require Import List String Bool Arith.
From AGH Require Import Base.Conc Model.Guards Proofs.Conc Proofs.LockTable Proofs.LockTablePairs Proofs.LockTableWhole Gen.LockTable.
Import ListNotations.
Local Open Scope string_scope.
Local Open Scope list_scope.

(** the access sites / nested acquisitions that are checked: everything except
    the keys listed as known findings of C05 in KNOWN_FINDINGS.txt *)
Definition checked_accesses : list access := checked known_keys accesses.
Definition checked_lock_order : list order_pair := checked_order known_keys lock_order.
(** fields without a write site anywhere in the table (known findings included) *)
Definition ro (f : field) : bool := never_written accesses f.
Definition ranks : list (string * nat) := computed_ranks checked_lock_order.

Definition bad_access_report : list (string * string) :=
  map (fun a => (access_key a, a_pos a)) (bad_accesses known_keys accesses).
Definition bad_order_report : list (string * string) :=
  map (fun o => (order_key o, o_pos o)) (bad_orders (rank_of ranks) known_keys lock_order).

Lemma accesses_guarded : forallb (access_ok_ro ro) checked_accesses = true.
Proof. vm_compute. reflexivity. Qed.

Lemma order_ranked : forallb (order_ok (rank_of ranks)) checked_lock_order = true.
Proof. vm_compute. reflexivity. Qed.

Lemma nothing_unresolved : unresolved = [].
Proof. reflexivity. Qed.

Lemma discipline_holds :
  forallb (access_ok_ro ro) checked_accesses = true /\
  forallb (order_ok (rank_of ranks)) checked_lock_order = true /\
  unresolved = [].
Proof. exact (conj accesses_guarded (conj order_ranked nothing_unresolved)). Qed.

Lemma no_race : forall progs,
  Forall (fun p => conforms checked_accesses [] p = true) progs ->
  forall s, reachable (init progs) s -> ~ race s.
Proof. exact (table_race_free_ro ro checked_accesses accesses_guarded). Qed.

Lemma no_deadlock : forall progs,
  Forall (fun p => conforms_order checked_lock_order [] p = true) progs ->
  forall s, reachable (init progs) s -> ~ deadlocked s.
Proof. exact (table_deadlock_free (rank_of ranks) checked_lock_order order_ranked). Qed.

(** Explicit, pairwise: whatever the threads do elsewhere (they only have to
    release nothing they do not hold; they may run through the sites listed as
    findings), no interleaving reaches a state in which two distinct threads
    are at conflicting access sites of the checked table. *)
Lemma checked_sites_exclusive :
  forall progs, Forall (fun p => balanced [] p = true) progs ->
  forall s, reachable (init progs) s ->
  forall pre t1 mid t2 post, threads s = pre ++ t1 :: mid ++ t2 :: post ->
  forall p1 p2 d1 d2,
    nth_error progs (List.length pre) = Some p1 ->
    nth_error progs (List.length pre + S (List.length mid)) = Some p2 ->
    p1 = d1 ++ rest t1 -> p2 = d2 ++ rest t2 ->
  forall a1 a2, In a1 checked_accesses -> In a2 checked_accesses ->
    a_field a1 = a_field a2 -> (a_write a1 || a_write a2) = true ->
    subset_held (a_held a1) (held_after [] d1) = true ->
    subset_held (a_held a2) (held_after [] d2) = true ->
    False.
Proof. exact (sites_exclusive ro checked_accesses accesses_guarded). Qed.

(** Every cycle of the acquired-while-held relation extracted from the source,
    re-entrant acquisitions included, goes through a pair listed as a known
    finding. *)
(** [order_ranked] with [checked_lock_order] unfolded, re-evaluated rather than
    converted (the unifier would otherwise normalise the table symbolically) *)
Lemma order_ranked_unfolded :
  forallb (order_ok (rank_of ranks)) (checked_order known_keys lock_order) = true.
Proof. vm_compute. reflexivity. Qed.

Lemma lock_cycles_listed :
  forall c, incl c lock_order -> cycle c ->
  exists o, In o c /\ listed known_keys (order_key o) = true.
Proof. exact (only_listed_cycles (rank_of ranks) known_keys lock_order order_ranked_unfolded). Qed.

(** Whole-table form (round 3).  Threads conform to the WHOLE extracted table,
    listed findings included. *)
Lemma accesses_guarded_unfolded :
  forallb (access_ok_ro ro) (checked known_keys accesses) = true.
Proof. vm_compute. reflexivity. Qed.

(** A deadlock is reachable only if some thread goes through a listed pair: its
    program acquires [l] while holding [y] and every pair (y, l) of the
    extracted relation is a listed finding. *)
Lemma deadlock_goes_through_listed_pair :
  forall progs, Forall (fun p => conforms_order lock_order [] p = true) progs ->
  forall s, reachable (init progs) s -> deadlocked s ->
  exists p, In p progs /\ uses_listed known_keys lock_order [] p.
Proof. exact (deadlock_uses_listed_pair (rank_of ranks) known_keys lock_order order_ranked_unfolded). Qed.

(** Nothing listed (the case of the current source): any number of threads
    conforming to the whole extracted table, any schedule: no race, no
    deadlock; and the extracted acquired-while-held relation is acyclic. *)
Definition current_source_safe_statement : Prop := whole_table_safe_statement accesses lock_order.

Lemma current_source_safe_both :
  (known_keys = [] -> current_source_safe_statement) /\
  (if nothing_listed known_keys then current_source_safe_statement else True).
Proof.
  exact (whole_table_safe_unless_listed ro (rank_of ranks) known_keys accesses lock_order
           accesses_guarded_unfolded order_ranked_unfolded).
Qed.

Lemma current_source_safe : known_keys = [] -> current_source_safe_statement.
Proof. exact (proj1 current_source_safe_both). Qed.

Lemma current_source_safe_now :
  if nothing_listed known_keys then current_source_safe_statement else True.
Proof. exact (proj2 current_source_safe_both). Qed.

(** Non-vacuity on the real table: a thread shaped like POST /control/clients/add
    conforms to the whole table, accesses and order. *)
Example conforming_whole_thread :
  let p := [Acq "home.homeContext.controlLock" W; Acq "client.Storage.mu" W;
            Wr "client.index.nameToUID"; Rel "client.Storage.mu" W;
            Rel "home.homeContext.controlLock" W] in
  conforms accesses [] p = true /\ conforms_order lock_order [] p = true.
Proof. vm_compute. split; reflexivity. Qed.

(** Non-vacuity on the real table: a thread shaped like POST /control/clients/add
    (control lock, client-storage mutex, update an index map, release) conforms. *)
Example conforming_thread :
  conforms checked_accesses []
    [Acq "home.homeContext.controlLock" W; Acq "client.Storage.mu" W;
     Wr "client.index.nameToUID"; Rel "client.Storage.mu" W;
     Rel "home.homeContext.controlLock" W] = true.
Proof. vm_compute. reflexivity. Qed.

Example conforming_order_thread :
  conforms_order checked_lock_order []
    [Acq "home.homeContext.controlLock" W; Acq "client.Storage.mu" W;
     Rel "client.Storage.mu" W; Rel "home.homeContext.controlLock" W] = true.
Proof. vm_compute. reflexivity. Qed.

(** C05: the checks on the table generated from the CURRENT source
    (Gen/LockTable.v is rewritten by tools/locktable on every run), evaluated
    by vm_compute, and the two liftings instantiated with it. *)
From Coq Require Import List String Bool Arith.
From AGH Require Import Base.Conc Model.Guards Proofs.Conc Proofs.LockTable Gen.LockTable.
Import ListNotations.
Local Open Scope string_scope.
Local Open Scope list_scope.

(** the access sites / nested acquisitions that are checked: everything except
    the keys listed as known findings of C05 in KNOWN_FINDINGS.txt *)
Definition checked_accesses : list access := checked known_keys accesses.
Definition checked_lock_order : list order_pair := checked_order known_keys lock_order.
(** fields without a write site anywhere in the table (known findings included) *)
Definition ro (f : field) : bool := never_written accesses f.
Definition ranks : list (string * nat) := computed_ranks checked_lock_order.

Definition bad_access_report : list (string * string) :=
  map (fun a => (access_key a, a_pos a)) (bad_accesses known_keys accesses).
Definition bad_order_report : list (string * string) :=
  map (fun o => (order_key o, o_pos o)) (bad_orders (rank_of ranks) known_keys lock_order).

Lemma accesses_guarded : forallb (access_ok_ro ro) checked_accesses = true.
Proof. vm_compute. reflexivity. Qed.

Lemma order_ranked : forallb (order_ok (rank_of ranks)) checked_lock_order = true.
Proof. vm_compute. reflexivity. Qed.

Lemma nothing_unresolved : unresolved = [].
Proof. reflexivity. Qed.

Lemma discipline_holds :
  forallb (access_ok_ro ro) checked_accesses = true /\
  forallb (order_ok (rank_of ranks)) checked_lock_order = true /\
  unresolved = [].
Proof. exact (conj accesses_guarded (conj order_ranked nothing_unresolved)). Qed.

Lemma no_race : forall progs,
  Forall (fun p => conforms checked_accesses [] p = true) progs ->
  forall s, reachable (init progs) s -> ~ race s.
Proof. exact (table_race_free_ro ro checked_accesses accesses_guarded). Qed.

Lemma no_deadlock : forall progs,
  Forall (fun p => conforms_order checked_lock_order [] p = true) progs ->
  forall s, reachable (init progs) s -> ~ deadlocked s.
Proof. exact (table_deadlock_free (rank_of ranks) checked_lock_order order_ranked). Qed.

(** Non-vacuity on the real table: a thread shaped like POST /control/clients/add
    (control lock, client-storage mutex, update an index map, release) conforms. *)
Example conforming_thread :
  conforms checked_accesses []
    [Acq "home.homeContext.controlLock" W; Acq "client.Storage.mu" W;
     Wr "client.index.nameToUID"; Rel "client.Storage.mu" W;
     Rel "home.homeContext.controlLock" W] = true.
Proof. vm_compute. reflexivity. Qed.

Example conforming_order_thread :
  conforms_order checked_lock_order []
    [Acq "home.homeContext.controlLock" W; Acq "client.Storage.mu" W;
     Rel "client.Storage.mu" W; Rel "home.homeContext.controlLock" W] = true.
Proof. vm_compute. reflexivity. Qed.

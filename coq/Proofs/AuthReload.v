(** C11, round 4: cookies of sessions that were loaded from sessions.db.

    C11's quantifier lists the cookie classes no cookie / unknown / expired /
    valid.  Until now "expired" meant a session put into [Auth.sessions] by
    the harness.  A session can also get there through [InitAuth] ->
    [loadSessions] at start-up ([restart] of Model/Session.v, which belongs to
    C12 and is used here as it is): then what the request is judged by must
    be the record stored under the presented token, not anything its
    neighbours in the bucket carry.

    [reloaded_authenticates]: against a freshly loaded table a cookie
    authenticates exactly when it is the lower-case hex spelling of a stored
    token whose OWN record was unexpired at the load and is unexpired now.
    [reloaded_expired_refused]: hence a cookie whose own record has run out is
    refused by every chain with optionalAuth, whatever else is stored.
    [reload_shared_refuted]: a loader that lets the loaded entries share one
    decoded value (each then carries the last record's expiry) accepts it. *)
From AGH Require Import Base.Run Model.Session Model.AuthHttp Proofs.Session Proofs.AuthHttp.
From stdpp Require Import gmap.
Local Open Scope N_scope.

(** What is in sessions.db when the process starts: nothing in memory. *)
Definition stored (d : gmap bytes sess) : sstate := {| ss_mem := ∅; ss_disk := d |}.

Theorem reloaded_authenticates ttl now0 t tok st :
  authenticates ttl t tok (restart now0 st) = true <->
  exists raw s, tok = hex_encode raw /\ ss_disk st !! raw = Some s /\
                u32 now0 < s_expire s /\ u32 t < s_expire s.
Proof.
  rewrite authenticates_spec. split.
  - intros (s & Hs & Ht). apply restart_mem_Some in Hs as (raw & -> & Hd & Hl). eauto 8.
  - intros (raw & s & -> & Hd & Hl & Ht). exists s. split; auto. apply restart_mem_Some. eauto.
Qed.

Theorem reloaded_expired_refused {A R} ws e (w : world A) r tok st0 now0 :
  In WOptionalAuth ws -> e_auth_required e = true -> is_public (r_path r) = false ->
  w_sess w = restart now0 st0 -> r_cookie r = CTok tok ->
  (forall raw s, hex_encode raw = tok -> ss_disk st0 !! raw = Some s -> s_expire s <= u32 (e_now e)) ->
  exists w' (a : answer R), blocks (apply_chain ws) e w r w' a /\ session_effect e w r w'.
Proof.
  intros Hin Hreq Hpub Hw Hc Hexp. apply guarded_chain_blocks; auto.
  unfold authenticated. rewrite Hc, Hw.
  destruct (authenticates (e_ttl e) (e_now e) tok (restart now0 st0)) eqn:E; [|reflexivity].
  apply reloaded_authenticates in E as (raw & s & -> & Hd & _ & Ht).
  specialize (Hexp raw s eq_refl Hd). lia.
Qed.

(** The other direction: an unexpired own record does authenticate, whatever
    the neighbours are (the refusal above is not bought by refusing all). *)
Theorem reloaded_live_accepted ttl now0 t raw s st :
  ss_disk st !! raw = Some s -> u32 now0 < s_expire s -> u32 t < s_expire s ->
  authenticates ttl t (hex_encode raw) (restart now0 st) = true.
Proof. intros. apply reloaded_authenticates. eauto 8. Qed.

(** ** The slip: one decoded value shared by all loaded entries

    [loadSessions] with the [session] value hoisted out of the ForEach
    callback: every record is decoded into the same struct, the liveness test
    sees the record's own expiry, but the map entries all point at that one
    struct, which ends up holding the record decoded LAST (bbolt iterates in
    key order).  [recs]: the bucket in key order. *)
Definition restart_shared (now : N) (recs : list (bytes * sess)) : sstate :=
  let shared := List.last (map snd recs) {| s_user := []; s_expire := 0 |} in
  let live := List.filter (fun kv => u32 now <? s_expire (snd kv)) recs in
  {| ss_mem := list_to_map (map (fun kv => (hex_encode (fst kv), shared)) live);
     ss_disk := list_to_map live |}.

Definition ex_recs : list (bytes * sess) :=
  [([0], {| s_user := [97]; s_expire := 1002 |});          (* runs out at 1002 *)
   ([1], {| s_user := [98]; s_expire := 5000 |})].         (* a fresh login of somebody else *)

Example reload_shared_refuted :
  let st := stored (list_to_map ex_recs) in
  (* loaded at 1000, presented at 1003: its own record ran out at 1002 *)
  authenticates 3600 1003 (hex_encode [0]) (restart 1000 st) = false /\
  authenticates 3600 1003 (hex_encode [1]) (restart 1000 st) = true /\
  authenticates 3600 1003 (hex_encode [0]) (restart_shared 1000 ex_recs) = true.
Proof. vm_compute. auto. Qed.

(** Non-vacuity of [reloaded_expired_refused]: the example request with the
    cookie of record [0], at 1003, against the table loaded at 1000. *)
Definition ex_reload_env : env :=
  {| e_first_run := false; e_auth_present := true; e_accounts := e_accounts ex_env; e_bcrypt := e_bcrypt ex_env;
     e_https := false; e_force_https := false; e_now := 1003; e_ttl := 3600 |}.

Example reloaded_premises_satisfiable :
  let st0 := stored (list_to_map ex_recs) in
  let w := {| w_app := 0%nat; w_sess := restart 1000 st0 |} in
  e_auth_required ex_reload_env = true /\ is_public (r_path (ex_req (CTok (hex_encode [0])))) = false /\
  (forall raw s, hex_encode raw = hex_encode [0] -> ss_disk st0 !! raw = Some s -> s_expire s <= u32 (e_now ex_reload_env)) /\
  snd (apply_chain (http_register_chain str_POST) ex_handler ex_reload_env w (ex_req (CTok (hex_encode [0])))) = AStatus 403 /\
  snd (apply_chain (http_register_chain str_POST) ex_handler ex_reload_env w (ex_req (CTok (hex_encode [1])))) = AHandler tt.
Proof.
  cbv zeta. split; [reflexivity|]. split; [reflexivity|]. split.
  - intros raw s He. apply (inj hex_encode) in He. subst raw. vm_compute. intros [= <-]. discriminate.
  - split; vm_compute; reflexivity.
Qed.

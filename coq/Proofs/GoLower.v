(** C16 (round 5): what Go's Unicode-aware strings.ToLower can and cannot do
    to a host-name label (Model/GoLower.v).

    - on ASCII input it is the byte-wise [lower] of Base/Bytes.v, in
      particular on every valid label ([go_to_lower_valid]);
    - the only runes outside ASCII whose lower case is ASCII are U+212A
      (Kelvin sign, -> k) and U+0130 (-> i) ([rune_lower_ascii_image], over the
      whole table of unicode.CaseRanges);
    - an invalid byte becomes U+FFFD, three bytes >= 128;
    - hence lower-casing BEFORE validating accepts exactly the labels that
      are valid as sent plus labels that contain one of the two special runes
      ([lower_first_valid_inv], [lower_first_exact]); a label with the Kelvin
      sign is such a witness ([kelvin_witness]). *)
From Coq Require Import List NArith ZArith Bool Arith Lia.
From AGH Require Import Base.Run Base.Bytes Base.Dom Model.GoLower.
Import ListNotations.
Local Open Scope N_scope.

(** * ASCII *)

Lemma go_to_lower_ascii s : is_ascii s = true -> go_to_lower s = lower s.
Proof. unfold go_to_lower. intros ->. reflexivity. Qed.

Lemma valid_inner_ascii b : valid_inner b = true -> b < 128.
Proof.
  unfold valid_inner, valid_outer, is_lower, is_upper, is_digit, hyphen. intros H.
  repeat (apply orb_true_iff in H as [H|H]);
    try (apply andb_true_iff in H as [_ H]; apply N.leb_le in H; lia).
  apply N.eqb_eq in H. lia.
Qed.

Lemma valid_label_is_ascii l : valid_label l -> is_ascii l = true.
Proof.
  intros (_ & _ & _ & _ & H). unfold is_ascii. rewrite forallb_forall in *. intros b Hb.
  apply N.ltb_lt, valid_inner_ascii, H, Hb.
Qed.

(** On a valid label strings.ToLower is the byte-wise ASCII lower-casing. *)
Lemma go_to_lower_valid l : valid_label l -> go_to_lower l = lower l.
Proof. intros H. apply go_to_lower_ascii, valid_label_is_ascii, H. Qed.

Lemma go_to_lower_validated l : validate_hostname_label l = None -> go_to_lower l = lower l.
Proof. intros H. apply go_to_lower_valid, validate_hostname_label_spec, H. Qed.

Lemma go_to_lower_nil : go_to_lower [] = [].
Proof. reflexivity. Qed.

(** * Decoding *)

Ltac boolprop :=
  repeat match goal with
  | H : in_range _ _ _ = true |- _ => unfold in_range in H
  | H : is_cont _ = true |- _ => unfold is_cont, in_range in H
  | H : _ && _ = true |- _ => apply andb_true_iff in H as [? ?]
  | H : (_ <=? _) = true |- _ => apply N.leb_le in H
  | H : (_ <? _) = true |- _ => apply N.ltb_lt in H
  | H : (_ <? _) = false |- _ => apply N.ltb_ge in H
  | H : (_ =? _) = true |- _ => apply N.eqb_eq in H
  | H : (_ =? _) = false |- _ => apply N.eqb_neq in H
  end.

(** A rune below 128 comes from one byte below 128: every multi-byte form and
    the replacement rune are at least 128. *)
Lemma decode1_ascii b t :
  fst (decode1 (b :: t)) < 128 -> b < 128 /\ decode1 (b :: t) = (b, 1%nat).
Proof.
  unfold decode1. destruct (b <? 128) eqn:E0; [intros _; boolprop; auto|].
  unfold rune_error. boolprop.
  destruct (in_range 194 223 b) eqn:E2.
  { destruct t as [|b1 t]; cbn [fst]; [lia|]. destruct (is_cont b1) eqn:C1; cbn [fst]; [|lia].
    boolprop. lia. }
  destruct (in_range 224 239 b) eqn:E3.
  { destruct t as [|b1 [|b2 t]]; cbn [fst]; try lia.
    destruct (in_range (if b =? 224 then 160 else 128) (if b =? 237 then 159 else 191) b1 && is_cont b2) eqn:C;
      cbn [fst]; [|lia].
    boolprop. destruct (b =? 224) eqn:Eb; boolprop; lia. }
  destruct (in_range 240 244 b) eqn:E4; cbn [fst]; [|lia].
  destruct t as [|b1 [|b2 [|b3 t]]]; cbn [fst]; try lia.
  destruct (in_range (if b =? 240 then 144 else 128) (if b =? 244 then 143 else 191) b1 && is_cont b2 && is_cont b3) eqn:C;
    cbn [fst]; [|lia].
  boolprop. destruct (b =? 240) eqn:Eb; boolprop; lia.
Qed.

Lemma runes_fuel_ascii fuel : forall s,
  (length s <= fuel)%nat -> Forall (fun c => c < 128) (runes_fuel fuel s) -> is_ascii s = true.
Proof.
  induction fuel as [|f IH]; intros [|b t] Hlen; cbn [length] in Hlen; try reflexivity; try lia.
  cbn [runes_fuel]. destruct (decode1 (b :: t)) as [r w] eqn:D. intros HF.
  inversion HF as [|? ? Hr HF']; subst.
  destruct (decode1_ascii b t) as [Hb Hd]; [rewrite D; exact Hr|].
  rewrite D in Hd. injection Hd as -> ->. cbn [skipn] in HF'.
  cbn [is_ascii forallb]. apply N.ltb_lt in Hb. rewrite Hb. cbn [andb].
  apply IH; [lia|exact HF'].
Qed.

(** A string with a byte >= 128 has a rune >= 128. *)
Lemma runes_ascii s : Forall (fun c => c < 128) (runes s) -> is_ascii s = true.
Proof. apply runes_fuel_ascii. lia. Qed.

Lemma runes_fuel_of_ascii fuel : forall s,
  (length s <= fuel)%nat -> is_ascii s = true -> runes_fuel fuel s = s.
Proof.
  induction fuel as [|f IH]; intros [|b t] Hlen; cbn [length] in Hlen; try reflexivity; try lia.
  cbn [is_ascii forallb]. intros H. apply andb_true_iff in H as [Hb Ht].
  cbn [runes_fuel decode1]. rewrite Hb. cbn [skipn]. f_equal. apply IH; [lia|exact Ht].
Qed.

Lemma runes_of_ascii s : is_ascii s = true -> runes s = s.
Proof. apply runes_fuel_of_ascii. lia. Qed.

(** * Encoding *)

Ltac Zify.zify_post_hook ::= Z.to_euclidean_division_equations.

Lemma encode_rune_high r :
  128 <= r -> encode_rune r <> [] /\ Forall (fun b => 128 <= b) (encode_rune r).
Proof.
  intros Hr. unfold encode_rune.
  assert ((r <? 128) = false) as -> by (apply N.ltb_ge; exact Hr).
  assert (T : forall l, Forall (fun b => 128 <= b) l -> l <> [] -> l <> [] /\ Forall (fun b => 128 <= b) l) by auto.
  destruct (r <? 2048); [apply T; [repeat (apply Forall_cons; [lia|]); apply Forall_nil|discriminate]|].
  destruct ((max_rune <? r) || in_range 55296 57343 r);
    [apply T; [repeat (apply Forall_cons; [lia|]); apply Forall_nil|discriminate]|].
  destruct (r <? 65536); (apply T; [repeat (apply Forall_cons; [lia|]); apply Forall_nil|discriminate]).
Qed.

(** * unicode.ToLower: which runes get an ASCII lower case *)

Definition entry_ok (e : N * N * Z) : bool :=
  let '(lo, hi, d) := e in
  (hi <? 128) ||
  ((128 <=? lo) &&
   (upper_lower d || (128 <=? Z.of_N lo + d)%Z ||
    ((lo =? hi) && ((lo =? kelvin_sign) || (lo =? dotted_capital_i))))).

(** Checked over the whole table (328 ranges). *)
Lemma case_ranges_ok : forallb entry_ok case_ranges = true.
Proof. vm_compute. reflexivity. Qed.

Theorem rune_lower_ascii_image r :
  rune_lower r < 128 -> r < 128 \/ r = kelvin_sign \/ r = dotted_capital_i.
Proof.
  unfold rune_lower. destruct (r <? 128) eqn:E0; [intros _; left; boolprop; exact E0|].
  boolprop. unfold range_of. destruct (find _ case_ranges) as [[[lo hi] d]|] eqn:F; [|lia].
  apply find_some in F as [Hin Hr]. cbn [fst snd] in Hr.
  pose proof case_ranges_ok as Hok. rewrite forallb_forall in Hok. specialize (Hok _ Hin).
  unfold entry_ok in Hok. boolprop.
  apply orb_true_iff in Hok as [Hok|Hok]; [boolprop; lia|].
  apply andb_true_iff in Hok as [Hlo Hok]. boolprop.
  apply orb_true_iff in Hok as [Hok|Hok].
  - apply orb_true_iff in Hok as [Hok|Hok].
    + rewrite Hok. lia.
    + destruct (upper_lower d); [lia|]. apply Z.leb_le in Hok. lia.
  - apply andb_true_iff in Hok as [Heq Hsp]. boolprop. intros _. right.
    apply orb_true_iff in Hsp as [Hsp|Hsp]; boolprop; [left|right]; lia.
Qed.

(** ... and those two do: the premise cannot be weakened. *)
Example rune_lower_kelvin : rune_lower kelvin_sign = 107 /\ rune_lower dotted_capital_i = 105.
Proof. vm_compute. split; reflexivity. Qed.

(** * Lower-casing before validating *)

Lemma valid_outer_lower_inv b : valid_outer (lower_byte b) = true -> valid_outer b = true.
Proof.
  unfold lower_byte. destruct (is_upper b) eqn:E; [|auto]. intros _.
  unfold valid_outer. rewrite E. apply orb_true_iff. left. apply orb_true_r.
Qed.

Lemma valid_inner_lower_inv b : valid_inner (lower_byte b) = true -> valid_inner b = true.
Proof.
  unfold valid_inner. intros H. apply orb_true_iff in H as [H|H].
  - unfold lower_byte in H. destruct (is_upper b) eqn:E.
    + unfold is_upper in E. unfold hyphen in H. boolprop. lia.
    + rewrite H. reflexivity.
  - rewrite (valid_outer_lower_inv _ H). apply orb_true_r.
Qed.

Lemma valid_label_lower_inv l : valid_label (lower l) -> valid_label l.
Proof.
  unfold valid_label. rewrite lower_length. intros (H1 & H2 & H3 & H4 & H5).
  destruct l as [|c r]; [exfalso; apply H1; reflexivity|].
  split; [discriminate|]. split; [exact H2|]. split; [|split].
  - cbn in H3 |- *. apply valid_outer_lower_inv, H3.
  - unfold lower in H4. change 0 with (lower_byte 0) in H4 at 1. rewrite last_map in H4.
    apply valid_outer_lower_inv, H4.
  - unfold lower in H5. rewrite forallb_forall in *. intros x Hx.
    apply valid_inner_lower_inv, H5, in_map, Hx.
Qed.

Lemma has_special_false s :
  has_special s = false -> forall c, In c (runes s) -> c <> kelvin_sign /\ c <> dotted_capital_i.
Proof.
  unfold has_special. intros H c Hc.
  destruct ((c =? kelvin_sign) || (c =? dotted_capital_i)) eqn:E.
  - assert (existsb (fun c => (c =? kelvin_sign) || (c =? dotted_capital_i)) (runes s) = true) as Hx
      by (apply existsb_exists; eauto). congruence.
  - apply orb_false_iff in E as [E1 E2]. boolprop. auto.
Qed.

(** The label that is valid after strings.ToLower was valid as sent, or it
    contains U+212A or U+0130 -- for every byte string, valid UTF-8 or not. *)
Theorem lower_first_valid_inv s :
  valid_label (go_to_lower s) -> valid_label s \/ has_special s = true.
Proof.
  unfold go_to_lower. destruct (is_ascii s) eqn:EA.
  { intros H. left. apply valid_label_lower_inv, H. }
  intros H. destruct (has_special s) eqn:ES; [right; reflexivity|]. exfalso.
  assert (Hall : Forall (fun c => c < 128) (runes s)).
  { apply Forall_forall. intros c Hc.
    destruct (N.lt_ge_cases (rune_lower c) 128) as [Hl|Hl].
    - destruct (rune_lower_ascii_image c Hl) as [?|[?|?]]; auto;
        destruct (has_special_false s ES c Hc); contradiction.
    - destruct (encode_rune_high _ Hl) as [Hne HF].
      destruct (encode_rune (rune_lower c)) as [|b0 bs] eqn:Eenc; [congruence|].
      inversion HF as [|? ? Hb0 _]; subst.
      assert (Hin : In b0 (flat_map (fun c => encode_rune (rune_lower c)) (runes s))).
      { apply in_flat_map. exists c. split; [exact Hc|]. rewrite Eenc. left. reflexivity. }
      pose proof (valid_label_ascii _ b0 H Hin). lia. }
  apply runes_ascii in Hall. congruence.
Qed.

Theorem lower_first_exact s :
  has_special s = false -> (valid_label (go_to_lower s) <-> valid_label s).
Proof.
  intros ES. split.
  - intros H. destruct (lower_first_valid_inv s H) as [?|?]; [assumption|congruence].
  - intros H. rewrite (go_to_lower_valid _ H). apply valid_label_lower, H.
Qed.

(** "<U+212A>ate" is not a label, its lower-casing is the label "kate". *)
Definition kelvin_ate : bytes := [226; 132; 170; 97; 116; 101].
Definition kate : bytes := [107; 97; 116; 101].

Theorem kelvin_witness :
  validate_hostname_label kelvin_ate = Some LBadRune /\
  go_to_lower kelvin_ate = kate /\ validate_hostname_label kate = None /\
  has_special kelvin_ate = true.
Proof. vm_compute. repeat split; reflexivity. Qed.

(** Invalid UTF-8 stays outside every label: each offending byte becomes
    U+FFFD. *)
Example invalid_utf8_replaced :
  go_to_lower [65; 255; 66] = [97; 239; 191; 189; 98] /\
  go_to_lower [226; 132] = [239; 191; 189; 239; 191; 189] /\
  go_to_lower [192; 175] = [239; 191; 189; 239; 191; 189] /\
  go_to_lower [237; 160; 128] = [239; 191; 189; 239; 191; 189; 239; 191; 189].
Proof. vm_compute. repeat split; reflexivity. Qed.

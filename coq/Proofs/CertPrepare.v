(** C16 (round 5): the names the strict check compares with are those of the
    certificate of the LAST Prepare, whatever was configured before
    (Model/CertPrepare.v). *)
From Coq Require Import List NArith Bool Arith Lia.
From AGH Require Import Base.Run Base.Bytes Base.Dom Model.ClientID Model.CertNames Proofs.ClientID
  Proofs.CertNames Model.CertPrepare.
Import ListNotations.
Local Open Scope N_scope.

Definition serves_tls (c : tls_conf) : Prop := tc_has_cert c = true /\ tc_listen c = true.

Lemma run_prepares_snoc a st pre c :
  run_prepares a st (pre ++ [c]) = prepare_tls a (run_prepares a st pre) c.
Proof. unfold run_prepares. rewrite fold_left_app. reflexivity. Qed.

Lemma prepare_tls_serving st c : serves_tls c ->
  prepare_tls false st c =
    {| ts_dns_names := if tc_strict c then collect_names (tc_cert c) else ts_dns_names st;
       ts_has_ip := tc_cert_has_ip c; ts_strict := tc_strict c; ts_installed := true |}.
Proof.
  intros [H1 H2]. unfold prepare_tls, collect_names. rewrite H1, H2. cbn [negb orb].
  destruct (tc_strict c); [|reflexivity]. destruct (c_dns_names (tc_cert c)); reflexivity.
Qed.

(** After ANY sequence of Prepare calls, from any state: with the strict
    check on, the name list is the one of the current certificate alone. *)
Theorem names_follow_current_cert st pre c :
  serves_tls c -> tc_strict c = true ->
  ts_dns_names (run_prepares false st (pre ++ [c])) = collect_names (tc_cert c).
Proof.
  intros Hs Hst. rewrite run_prepares_snoc, (prepare_tls_serving _ _ Hs). cbn. rewrite Hst. reflexivity.
Qed.

(** Hence the handshake verdict is a function of the current configuration:
    the fresh-server function [handshake_accepts] of round 3. *)
Theorem handshake_follows_current_cert st pre c sni v6 :
  serves_tls c ->
  let st' := run_prepares false st (pre ++ [c]) in
  ts_installed st' = true /\
  on_get_certificate st' sni v6 = handshake_accepts (tc_strict c) (tc_cert c) sni v6.
Proof.
  intros Hs. cbv zeta. rewrite run_prepares_snoc, (prepare_tls_serving _ _ Hs).
  unfold on_get_certificate, handshake_accepts. cbn. split; [reflexivity|].
  destruct (tc_strict c); reflexivity.
Qed.

(** A name that only an EARLIER certificate covers is refused. *)
Theorem earlier_cert_name_rejected st pre c sni v6 :
  serves_tls c -> tc_strict c = true -> ~ cert_covers (tc_cert c) sni ->
  on_get_certificate (run_prepares false st (pre ++ [c])) sni v6 = false.
Proof.
  intros Hs Hst Hno. destruct (handshake_follows_current_cert st pre c sni v6 Hs) as [_ ->].
  rewrite Hst. destruct (handshake_accepts true (tc_cert c) sni v6) eqn:E; [|reflexivity].
  apply strict_cert_names in E as [_ Hc]. contradiction.
Qed.

Theorem accepted_covered_by_current_cert st pre c sni v6 :
  serves_tls c -> tc_strict c = true ->
  (on_get_certificate (run_prepares false st (pre ++ [c])) sni v6 = true <->
   sni_wellformed sni v6 = true /\ cert_covers (tc_cert c) sni).
Proof.
  intros Hs Hst. destruct (handshake_follows_current_cert st pre c sni v6 Hs) as [_ ->].
  rewrite Hst. apply strict_cert_names.
Qed.

(** Without a certificate or without a DoT / DoQ address the new proxy gets no
    TLS configuration: the stale list is kept but nothing reads it. *)
Theorem not_serving_not_installed st pre c :
  ~ serves_tls c -> ts_installed (run_prepares false st (pre ++ [c])) = false.
Proof.
  intros Hn. rewrite run_prepares_snoc. unfold prepare_tls, serves_tls in *.
  destruct (tc_has_cert c), (tc_listen c); cbn; try reflexivity. exfalso. auto.
Qed.

Theorem has_ip_follows_current_cert st pre c :
  serves_tls c -> ts_has_ip (run_prepares false st (pre ++ [c])) = tc_cert_has_ip c.
Proof. intros Hs. rewrite run_prepares_snoc, (prepare_tls_serving _ _ Hs). reflexivity. Qed.

(** * Witnesses *)

Definition b_old : bytes := [100;110;115;46;111;108;100;46;116;101;115;116].        (* dns.old.test *)
Definition b_new : bytes := [100;110;115;46;110;101;119;46;116;101;115;116].        (* dns.new.test *)
Definition b_alice_old : bytes := [97;108;105;99;101;46] ++ b_old.                   (* alice.dns.old.test *)
Definition b_alice_new : bytes := [97;108;105;99;101;46] ++ b_new.
Definition cert_old : cert := {| c_dns_names := [b_old; star :: dot :: b_old]; c_common_name := [] |}.
Definition cert_new : cert := {| c_dns_names := [b_new; star :: dot :: b_new]; c_common_name := [] |}.
Definition conf_of (c : cert) (strict : bool) : tls_conf :=
  {| tc_has_cert := true; tc_listen := true; tc_strict := strict; tc_cert := c; tc_cert_has_ip := false |}.

Lemma old_not_covered_by_new : ~ cert_covers cert_new b_old.
Proof.
  intros [H|(d & x & Hx & H & E)].
  - cbn in H. destruct H as [H|[H|[]]]; discriminate.
  - cbn in H. destruct H as [H|[H|[]]]; try discriminate.
    injection H as <-. apply (f_equal (@length _)) in E. rewrite app_length in E. cbn in E. lia.
Qed.

(** The premises are satisfiable and the conclusion is not vacuous: after
    old -> new the new names pass and the old ones do not. *)
Example ex_cert_change :
  let st := run_prepares false tls_state0 [conf_of cert_old true; conf_of cert_new true] in
  on_get_certificate st b_new false = true /\ on_get_certificate st b_alice_new false = true /\
  on_get_certificate st b_old false = false /\ on_get_certificate st b_alice_old false = false.
Proof. vm_compute. repeat split; reflexivity. Qed.

(** The appending variant keeps the names of every certificate the server
    ever had: the old names still pass after the change. *)
Theorem appending_refuted :
  exists c1 c2 sni,
    serves_tls c2 /\ tc_strict c2 = true /\ ~ cert_covers (tc_cert c2) sni /\
    on_get_certificate (run_prepares true tls_state0 [c1; c2]) sni false = true.
Proof.
  exists (conf_of cert_old true), (conf_of cert_new true), b_old.
  split; [split; reflexivity|]. split; [reflexivity|]. split; [apply old_not_covered_by_new|].
  vm_compute. reflexivity.
Qed.

(** The same certificate again only adds duplicates (why a test with one
    certificate cannot tell the two variants apart). *)
Example appending_same_cert_invisible :
  forall sni, In sni [b_old; b_alice_old; b_new; b_alice_new; []] ->
  on_get_certificate (run_prepares true tls_state0 [conf_of cert_old true; conf_of cert_old true]) sni false =
  on_get_certificate (run_prepares false tls_state0 [conf_of cert_old true; conf_of cert_old true]) sni false.
Proof. intros sni H. cbn in H. repeat destruct H as [<-|H]; try (vm_compute; reflexivity). destruct H. Qed.

(** A lenient Prepare leaves the list stale (and unread); the next strict one
    replaces it. *)
Example lenient_keeps_stale_list :
  ts_dns_names (run_prepares false tls_state0 [conf_of cert_old true; conf_of cert_new false]) =
    collect_names cert_old /\
  on_get_certificate (run_prepares false tls_state0 [conf_of cert_old true; conf_of cert_new false]) b_old false = true /\
  ts_dns_names (run_prepares false tls_state0 [conf_of cert_old true; conf_of cert_new false; conf_of cert_new true]) =
    collect_names cert_new.
Proof. vm_compute. repeat split; reflexivity. Qed.

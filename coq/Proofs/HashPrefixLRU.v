(** C19, round 4: the library cache (Model/HashPrefixLRU.v) refines the finite
    map with evictions of Model/HashPrefix.v, stays within its size, and the
    Checker on it has the transparency property of Proofs/HashPrefixHist.v,
    for all histories. *)
From Coq Require Import ZArith NArith List Bool Lia.
From AGH Require Import Base.Run Base.Bytes Model.HashPrefix Model.HashPrefixBytes Model.HashPrefixLRU
  Proofs.HashPrefix Proofs.HashPrefixBytes Proofs.HashPrefixHist.
Import ListNotations.
Local Open Scope Z_scope.

#[local] Arguments prefix_of : simpl never.

(** * Association lists *)

(** The same finite map. *)
Definition ceq (c1 c2 : cache) : Prop := forall p, cget p c1 = cget p c2.

Lemma ceq_refl c : ceq c c.
Proof. intros p; reflexivity. Qed.

Lemma ceq_trans a b c : ceq a b -> ceq b c -> ceq a c.
Proof. intros H1 H2 p. now rewrite H1. Qed.

Lemma ceq_sym a b : ceq a b -> ceq b a.
Proof. intros H p. now rewrite H. Qed.

Lemma cget_app p a b :
  cget p (a ++ b) = match cget p a with Some x => Some x | None => cget p b end.
Proof.
  unfold cget. induction a as [|[k v] a IH]; cbn [app find fst]; auto.
  destruct (eqb_bytes k p); auto.
Qed.

Lemma cget_single p q it : cget p [(q, it)] = if eqb_bytes q p then Some it else None.
Proof. unfold cget. cbn. destruct (eqb_bytes q p); auto. Qed.

Lemma cdel_app p a b : cdel p (a ++ b) = cdel p a ++ cdel p b.
Proof. unfold cdel. apply filter_app. Qed.

Lemma cget_None_notin p c : cget p c = None <-> ~ In p (map fst c).
Proof.
  unfold cget. induction c as [|[k v] c IH]; cbn [find map fst In]; [tauto|].
  destruct (eqb_bytes k p) eqn:E.
  - apply eqb_bytes_eq in E. subst. split; [discriminate|]. intros H. exfalso. apply H. now left.
  - apply eqb_bytes_neq in E. rewrite IH. tauto.
Qed.

Lemma cdel_notin p c : ~ In p (map fst c) -> cdel p c = c.
Proof.
  unfold cdel. induction c as [|[k v] c IH]; cbn [filter map fst In]; auto.
  intros H. destruct (eqb_bytes k p) eqn:E.
  - apply eqb_bytes_eq in E. subst. exfalso. apply H. now left.
  - cbn [negb]. f_equal. apply IH. tauto.
Qed.

Lemma in_cdel q p c : In q (map fst (cdel p c)) -> In q (map fst c) /\ q <> p.
Proof.
  unfold cdel. intros H. apply in_map_iff in H. destruct H as ([k v] & <- & H).
  apply filter_In in H. destruct H as [H1 H2]. cbn [fst] in *. split.
  - apply in_map_iff. now exists (k, v).
  - apply negb_true_iff in H2. now apply eqb_bytes_neq in H2.
Qed.

Lemma nodup_cdel p c : NoDup (map fst c) -> NoDup (map fst (cdel p c)).
Proof.
  unfold cdel. induction c as [|[k v] c IH]; cbn [filter map fst]; auto.
  intros H. inversion H as [|? ? Hn Hd]; subst.
  destruct (negb (eqb_bytes k p)); cbn [map fst]; auto.
  constructor; auto. intros Hin. apply Hn. now apply (in_cdel k p c).
Qed.

Lemma nodup_snoc {A} (l : list A) x : NoDup l -> ~ In x l -> NoDup (l ++ [x]).
Proof.
  intros Hl Hx. induction Hl as [|a l Ha Hl IH]; cbn [app].
  - constructor; auto. constructor.
  - constructor.
    + rewrite in_app_iff. cbn [In]. intros [H|[H|[]]]; auto. subst. apply Hx. now left.
    + apply IH. intros H. apply Hx. now right.
Qed.

Lemma cache_bytes_cons k v c : cache_bytes ((k, v) :: c) = entry_bytes k v + cache_bytes c.
Proof. reflexivity. Qed.

Lemma cache_bytes_app a b : cache_bytes (a ++ b) = cache_bytes a + cache_bytes b.
Proof.
  induction a as [|[k v] a IH]; [reflexivity|].
  rewrite <- app_comm_cons, !cache_bytes_cons, IH. lia.
Qed.

(** Deleting a key takes the bytes of its (only) element away. *)
Lemma cache_bytes_cdel_exact p c : NoDup (map fst c) ->
  cache_bytes (cdel p c) = match cget p c with
                           | Some it => cache_bytes c - entry_bytes p it
                           | None => cache_bytes c
                           end.
Proof.
  induction c as [|[k v] c IH]; intros Hd; [reflexivity|].
  cbn [map fst] in Hd. inversion Hd as [|? ? Hn Hd']; subst.
  unfold cget, cdel. cbn [find filter fst]. destruct (eqb_bytes k p) eqn:E; cbn [negb snd].
  - apply eqb_bytes_eq in E. subst k. fold (cdel p c). rewrite cdel_notin by auto.
    rewrite cache_bytes_cons. lia.
  - fold (cdel p c). fold (cget p c). rewrite !cache_bytes_cons, IH by auto.
    destruct (cget p c); lia.
Qed.

(** * One operation of the library cache *)

(** The key index is a function, the counter is the sum of the elements, and
    the sum is within the size. *)
Definition lru_ok (max : Z) (l : lru) : Prop :=
  NoDup (map fst (l_items l)) /\ l_size l = cache_bytes (l_items l) /\
  cache_bytes (l_items l) <= eff_max max.

Lemma eff_max_pos max : 0 <= max -> 0 < eff_max max.
Proof. unfold eff_max, max_uint. destruct (Z.eqb_spec max 0); lia. Qed.

Lemma lru_empty_ok max : 0 <= max -> lru_ok max lru_empty.
Proof.
  intros H. repeat split; cbn; try constructor. pose proof (eff_max_pos max H). lia.
Qed.

(** Moving an element to the hot end. *)
Lemma touch_ceq p it c : cget p c = Some it -> ceq (cdel p c ++ [(p, it)]) c.
Proof.
  intros H q. rewrite cget_app, cget_single. destruct (eqb_bytes p q) eqn:E.
  - apply eqb_bytes_eq in E. subst q. now rewrite cget_cdel_eq.
  - apply eqb_bytes_neq in E. rewrite cget_cdel_ne by auto. destruct (cget q c); auto.
Qed.

Lemma touch_nodup p (it : citem) c : NoDup (map fst c) -> NoDup (map fst (cdel p c ++ [(p, it)])).
Proof.
  intros H. rewrite map_app. cbn [map fst]. apply nodup_snoc; [now apply nodup_cdel|].
  intros Hin. apply in_cdel in Hin. tauto.
Qed.

Lemma touch_bytes p it c : NoDup (map fst c) -> cget p c = Some it ->
  cache_bytes (cdel p c ++ [(p, it)]) = cache_bytes c.
Proof.
  intros Hd Hg. rewrite cache_bytes_app, cache_bytes_cdel_exact, Hg by auto.
  rewrite cache_bytes_cons. cbn [cache_bytes fold_right]. lia.
Qed.

(** [Get] returns what the map holds and changes only the order. *)
Lemma lru_get_ok max p l : lru_ok max l ->
  lru_ok max (fst (lru_get p l)) /\
  ceq (l_items (fst (lru_get p l))) (l_items l) /\
  snd (lru_get p l) = cget p (l_items l).
Proof.
  intros (Hd & Hs & Hb). unfold lru_get. destruct (cget p (l_items l)) as [it|] eqn:G; cbn [fst snd].
  - split; [|split; [now apply touch_ceq|reflexivity]].
    unfold lru_ok. cbn [l_items l_size]. rewrite touch_bytes by auto.
    split; [now apply touch_nodup|]. auto.
  - split; [|split]; auto; [repeat split; auto|apply ceq_refl].
Qed.

(** [Del] is deletion in the map. *)
Lemma lru_del_ok max p l : lru_ok max l ->
  lru_ok max (lru_del p l) /\ ceq (l_items (lru_del p l)) (cdel p (l_items l)).
Proof.
  intros (Hd & Hs & Hb). unfold lru_del. pose proof (cache_bytes_cdel_exact p (l_items l) Hd) as E.
  destruct (cget p (l_items l)) as [it|] eqn:G.
  - split; [|apply ceq_refl]. unfold lru_ok. cbn [l_items l_size].
    split; [now apply nodup_cdel|]. split; [lia|].
    pose proof (entry_bytes_nonneg p it). lia.
  - split; [repeat split; auto|]. apply cget_None_notin in G. rewrite cdel_notin by auto.
    apply ceq_refl.
Qed.

(** The eviction loop deletes a beginning of the usage list: as long as the
    new element does not fit, and no longer. *)
Lemma lru_evict_spec emax add : forall items size,
  size = cache_bytes items ->
  exists dropped items' ,
    lru_evict emax add size items = (cache_bytes items', items', map fst dropped) /\
    items = dropped ++ items' /\
    (items' = [] \/ cache_bytes items' + add <= emax) /\
    (forall d1 x, dropped = d1 ++ [x] -> cache_bytes (x :: items') + add > emax).
Proof.
  induction items as [|[k v] r IH]; intros size Hs.
  - exists [], []. cbn. subst. repeat split; auto. intros [|? ?] x H; discriminate.
  - cbn [lru_evict]. destruct (size + add >? emax) eqn:C.
    + destruct (IH (size - entry_bytes k v)) as (dr & it' & E & Hr & Hex & Hmin).
      { subst size. rewrite cache_bytes_cons. lia. }
      exists ((k, v) :: dr), it'. rewrite E. cbn [map fst app]. subst r.
      repeat split; auto. intros d1 x Hd. destruct d1 as [|y d1]; cbn [app] in Hd.
      * injection Hd as <- Hd'. destruct dr; [|discriminate]. cbn [app] in *.
        apply Z.gtb_lt in C. subst size. lia.
      * injection Hd as _ Hd'. eapply Hmin; eauto.
    + exists [], ((k, v) :: r). subst size. repeat split; auto.
      * right. rewrite Z.gtb_ltb in C. apply Z.ltb_ge in C. lia.
      * intros [|? ?] x H; discriminate.
Qed.

(** On an empty usage list the loop condition is false (the Go loop does not
    reach the sentinel). *)
Lemma lru_evict_stops emax add : add <= emax -> ~ (cache_bytes [] + add > emax).
Proof. cbn. lia. Qed.

Lemma evict_dropped d : forall r, NoDup (map fst (d ++ r)) -> evict (map fst d) (d ++ r) = r.
Proof.
  unfold evict. induction d as [|[k v] d IH]; intros r H; cbn [map fst fold_left app]; auto.
  cbn [app map fst] in H. inversion H as [|? ? Hn Hd]; subst.
  unfold cdel at 2. cbn [filter fst]. rewrite eqb_bytes_refl. cbn [negb].
  fold (cdel k (d ++ r)). rewrite cdel_notin by auto. now apply IH.
Qed.

Lemma nodup_app_r {A} (a b : list A) : NoDup (a ++ b) -> NoDup b.
Proof. induction a; cbn [app]; auto. intros H. inversion H; auto. Qed.

(** [Set]: the map gets the element (or not, if it is larger than the cache)
    after the deletion of the keys of the event; the cache stays well-formed
    and within its size. *)
Lemma lru_set_ok max p it l : 0 <= max -> lru_ok max l ->
  let l' := fst (lru_set max p it l) in
  let e := snd (lru_set max p it l) in
  lru_ok max l' /\ ceq (l_items l') (cset_o e p it (l_items l)) /\
  (snd e = false -> l' = l /\ fst e = [] /\ entry_bytes p it > eff_max max).
Proof.
  intros Hm (Hd & Hs & Hb). unfold lru_set. cbv zeta.
  destruct (entry_bytes p it >? eff_max max) eqn:R; cbn [fst snd].
  - split; [repeat split; auto|]. split; [apply ceq_refl|]. intros _. apply Z.gtb_lt in R.
    repeat split; auto. lia.
  - destruct (lru_evict_spec (eff_max max) (entry_bytes p it) (l_items l) (l_size l) Hs)
      as (dr & items1 & E & Hitems & Hex & _).
    rewrite E. cbn [fst snd].
    assert (Hd1 : NoDup (map fst items1)).
    { rewrite Hitems, map_app in Hd. now apply nodup_app_r in Hd. }
    pose proof (cache_bytes_cdel_exact p items1 Hd1) as Ec.
    assert (Hfit : cache_bytes items1 + entry_bytes p it <= eff_max max).
    { destruct Hex as [->|H]; auto. cbn. rewrite Z.gtb_ltb in R. apply Z.ltb_ge in R. lia. }
    split; [|split; [|discriminate]].
    + unfold lru_ok. cbn [l_items l_size]. split; [now apply touch_nodup|].
      rewrite cache_bytes_app, cache_bytes_cons. cbn [cache_bytes fold_right].
      fold (cache_bytes (cdel p items1)). rewrite Ec.
      destruct (cget p items1) as [old|]; split; try lia.
      pose proof (entry_bytes_nonneg p old). lia.
    + unfold cset_o. cbn [fst snd l_items]. fold (evict (map fst dr) (l_items l)).
      rewrite Hitems, evict_dropped by (rewrite <- Hitems; exact Hd).
      intros q. rewrite cget_app, cget_single.
      destruct (eqb_bytes p q) eqn:Eq.
      * apply eqb_bytes_eq in Eq. subst q. rewrite cget_cdel_eq. fold (cset p it items1).
        now rewrite cget_cset_eq.
      * apply eqb_bytes_neq in Eq. fold (cset p it items1). rewrite cget_cset_ne by auto.
        rewrite cget_cdel_ne by auto. destruct (cget q items1); auto.
Qed.

(** The size condition that round 3 asked of every recorded [Set]
    ([set_fits]) is a property of the library cache. *)
Lemma lru_set_fits max p it l : 0 < max -> lru_ok max l ->
  set_fits max (snd (lru_set max p it l)) p it (l_items l) = true.
Proof.
  intros Hm (Hd & Hs & Hb). unfold lru_set, set_fits. cbv zeta.
  assert (Em : eff_max max = max) by (unfold eff_max; destruct (Z.eqb_spec max 0); lia).
  rewrite Em in *. destruct (Z.eqb_spec max 0) as [|_]; [lia|].
  destruct (entry_bytes p it >? max) eqn:R; cbn [fst snd]; auto.
  destruct (lru_evict_spec max (entry_bytes p it) (l_items l) (l_size l) Hs)
    as (dr & items1 & E & Hitems & Hex & Hmin).
  rewrite E. cbn [fst snd].
  assert (Hfit : cache_bytes items1 + entry_bytes p it <= max).
  { destruct Hex as [->|H]; auto. cbn. rewrite Z.gtb_ltb in R. apply Z.ltb_ge in R. lia. }
  rewrite Hitems at 1. rewrite evict_dropped by (rewrite <- Hitems; exact Hd).
  replace (cache_bytes items1 + entry_bytes p it <=? max) with true by (symmetry; apply Z.leb_le; lia).
  cbn [andb]. destruct dr as [|x dr] using rev_ind; [reflexivity|].
  clear IHdr. rewrite map_app. cbn [map]. rewrite removelast_last.
  replace (match map fst dr ++ [fst x] with [] => true | _ :: _ => false end) with false
    by (destruct (map fst dr); reflexivity).
  cbn [orb]. apply negb_true_iff. apply Z.leb_gt.
  specialize (Hmin dr x eq_refl).
  rewrite Hitems, <- app_assoc. cbn [app].
  rewrite evict_dropped; [lia|]. rewrite Hitems, <- app_assoc in Hd. exact Hd.
Qed.

(** * The map model does not see the order *)

Lemma fic_loop_ceq now c1 c2 : ceq c1 c2 -> forall n idx arr i,
  fic_loop now c1 n idx arr i = fic_loop now c2 n idx arr i.
Proof.
  intros H. induction n as [|n IH]; intros idx arr i; cbn [fic_loop]; auto.
  rewrite H. destruct (cget _ c2) as [it|]; auto.
  destruct (expired now it); auto. destruct (find_match _ _); auto.
Qed.

Lemma cdel_ceq p c1 c2 : ceq c1 c2 -> ceq (cdel p c1) (cdel p c2).
Proof.
  intros H q. destruct (eqb_bytes p q) eqn:E.
  - apply eqb_bytes_eq in E. subst. now rewrite !cget_cdel_eq.
  - apply eqb_bytes_neq in E. now rewrite !cget_cdel_ne.
Qed.

Lemma cset_ceq p it c1 c2 : ceq c1 c2 -> ceq (cset p it c1) (cset p it c2).
Proof.
  intros H q. destruct (eqb_bytes p q) eqn:E.
  - apply eqb_bytes_eq in E. subst. now rewrite !cget_cset_eq.
  - apply eqb_bytes_neq in E. now rewrite !cget_cset_ne.
Qed.

Lemma cset_o_ceq e p it c1 c2 : ceq c1 c2 -> ceq (cset_o e p it c1) (cset_o e p it c2).
Proof.
  intros H. unfold cset_o.
  assert (He : ceq (fold_left (fun c q => cdel q c) (fst e) c1) (fold_left (fun c q => cdel q c) (fst e) c2)).
  { revert c1 c2 H. induction (fst e) as [|q qs IH]; intros c1 c2 H; cbn [fold_left]; auto.
    apply IH. now apply cdel_ceq. }
  destruct (snd e); auto. now apply cset_ceq.
Qed.

(** * [findInCache] / [storeInCache] / [Check] on the library cache *)

Section Sim.
  Variable max : Z.
  Hypothesis Hmax : 0 <= max.

  Lemma fic_loop_lru_sim now : forall n idx arr i l, lru_ok max l ->
    lru_ok max (fst (fic_loop_lru now n idx arr i l)) /\
    ceq (l_items (fst (fic_loop_lru now n idx arr i l))) (l_items l) /\
    snd (fic_loop_lru now n idx arr i l) = fic_loop now (l_items l) n idx arr i.
  Proof.
    induction n as [|n IH]; intros idx arr i l Hl; cbn [fic_loop_lru fic_loop fst snd].
    - split; auto. split; [apply ceq_refl|reflexivity].
    - destruct (lru_get_ok max (prefix_of (nth idx arr [])) l Hl) as (Hl1 & Hc1 & Hv).
      destruct (lru_get (prefix_of (nth idx arr [])) l) as [l1 r]. cbn [fst snd] in *. subst r.
      assert (Hrec : forall idx' arr' i',
                lru_ok max (fst (fic_loop_lru now n idx' arr' i' l1)) /\
                ceq (l_items (fst (fic_loop_lru now n idx' arr' i' l1))) (l_items l) /\
                snd (fic_loop_lru now n idx' arr' i' l1) = fic_loop now (l_items l) n idx' arr' i').
      { intros idx' arr' i'. destruct (IH idx' arr' i' l1 Hl1) as (A & B & C).
        split; auto. split; [eapply ceq_trans; eauto|].
        rewrite C. now apply fic_loop_ceq. }
      destruct (cget (prefix_of (nth idx arr [])) (l_items l)) as [it|]; [|apply Hrec].
      destruct (expired now it); [apply Hrec|].
      destruct (find_match arr (c_hashes it)); [|apply Hrec].
      cbn [fst snd]. auto.
  Qed.

  Lemma store_pos_lru_sim exp resp : forall ps l c rest, lru_ok max l -> ceq (l_items l) c ->
    let r := store_pos_lru max exp resp ps l in
    lru_ok max (fst r) /\
    ceq (l_items (fst r)) (fst (store_pos exp resp ps (snd r ++ rest) c)) /\
    snd (store_pos exp resp ps (snd r ++ rest) c) = rest.
  Proof.
    induction ps as [|p ps IH]; intros l c rest Hl Hc; cbn [store_pos_lru store_pos fst snd app].
    - auto.
    - set (it := {| c_expiry := exp; c_hashes := filter (fun h => eqb_bytes (prefix_of h) p) resp |}).
      destruct (lru_set_ok max p it l Hmax Hl) as (Hl1 & Hc1 & _).
      destruct (lru_set max p it l) as [l1 e]. cbn [fst snd] in *.
      specialize (IH l1 (cset_o e p it c) rest Hl1).
      destruct (store_pos_lru max exp resp ps l1) as [l2 es]. cbn [fst snd app pop] in *.
      apply IH. eapply ceq_trans; [exact Hc1|]. now apply cset_o_ceq.
  Qed.

  Lemma store_neg_lru_sim exp keys : forall to_req l c rest, lru_ok max l -> ceq (l_items l) c ->
    let r := store_neg_lru max exp keys to_req l in
    lru_ok max (fst r) /\
    ceq (l_items (fst r)) (fst (store_neg exp keys to_req (snd r ++ rest) c)) /\
    snd (store_neg exp keys to_req (snd r ++ rest) c) = rest.
  Proof.
    induction to_req as [|h to_req IH]; intros l c rest Hl Hc; cbn [store_neg_lru store_neg fst snd app].
    - auto.
    - destruct (lru_get_ok max (prefix_of h) l Hl) as (Hl1 & Hc1 & Hv).
      destruct (lru_get (prefix_of h) l) as [l1 v]. cbn [fst snd] in *. subst v.
      rewrite <- (Hc (prefix_of h)).
      assert (Hc' : ceq (l_items l1) c) by (eapply ceq_trans; eauto).
      destruct (cget (prefix_of h) (l_items l)); [now apply IH|].
      destruct (mem_hash (prefix_of h) keys); [now apply IH|].
      set (it := {| c_expiry := exp; c_hashes := [] |}).
      destruct (lru_set_ok max (prefix_of h) it l1 Hmax Hl1) as (Hl2 & Hc2 & _).
      destruct (lru_set max (prefix_of h) it l1) as [l2 e]. cbn [fst snd] in *.
      specialize (IH l2 (cset_o e (prefix_of h) it c) rest Hl2).
      destruct (store_neg_lru max exp keys to_req l2) as [l3 es]. cbn [fst snd app pop] in *.
      apply IH. eapply ceq_trans; [exact Hc2|]. now apply cset_o_ceq.
  Qed.

  Lemma store_pos_ceq exp resp : forall ps evs c1 c2, ceq c1 c2 ->
    ceq (fst (store_pos exp resp ps evs c1)) (fst (store_pos exp resp ps evs c2)) /\
    snd (store_pos exp resp ps evs c1) = snd (store_pos exp resp ps evs c2).
  Proof.
    induction ps as [|p ps IH]; intros evs c1 c2 H; cbn [store_pos fst snd]; auto.
    destruct (pop evs) as [e evs']. apply IH. now apply cset_o_ceq.
  Qed.

  Lemma store_in_cache_lru_sim exp to_req resp order l c : lru_ok max l -> ceq (l_items l) c ->
    let r := store_in_cache_lru max exp to_req resp order l in
    lru_ok max (fst r) /\
    ceq (l_items (fst r)) (fst (store_in_cache exp to_req resp order (snd r) c)) /\
    snd (store_in_cache exp to_req resp order (snd r) c) = [].
  Proof.
    intros Hl Hc. unfold store_in_cache_lru, store_in_cache. cbv zeta.
    set (keys := dedup (map prefix_of resp)).
    set (ps := filter (fun p => mem_hash p keys) order).
    destruct (store_pos_lru max exp resp ps l) as [l1 es1] eqn:E1.
    destruct (store_neg_lru max exp keys to_req l1) as [l2 es2] eqn:E2. cbn [fst snd].
    pose proof (store_pos_lru_sim exp resp ps l c es2 Hl Hc) as P. rewrite E1 in P.
    cbn [fst snd] in P. destruct P as (Hl1 & Hc1 & Hr1).
    destruct (store_pos exp resp ps (es1 ++ es2) c) as [c1 evs1]. cbn [fst snd] in *. subst evs1.
    pose proof (store_neg_lru_sim exp keys to_req l1 c1 [] Hl1 Hc1) as N. rewrite E2 in N.
    cbn [fst snd] in N. rewrite app_nil_r in N. destruct N as (Hl2 & Hc2 & Hr2).
    destruct (store_neg exp keys to_req es2 c1) as [c2 evs2]. cbn [fst snd] in *. auto.
  Qed.

  Variable sha : bytes -> hash.
  Variable pubsuf : bytes -> bytes * bool.
  Variable suffix : bytes.
  Variable cache_time : Z.

  Notation check_lru := (check_lru sha pubsuf suffix cache_time max).
  Notation check := (check sha pubsuf suffix cache_time).

  (** [Check] on the library cache is [Check] on its map, given what every
      [Set] of the library did: same outcome, same map afterwards. *)
  Theorem check_lru_sim svc order now host l : lru_ok max l ->
    let '(l', out, es) := check_lru svc order now host l in
    lru_ok max l' /\
    ceq (l_items l') (fst (check svc order es now host (l_items l))) /\
    snd (check svc order es now host (l_items l)) = out.
  Proof.
    intros Hl. unfold HashPrefixLRU.check_lru, HashPrefix.check, find_in_cache_lru, find_in_cache.
    destruct (fic_loop_lru_sim now (length (hostname_to_hashes sha pubsuf host)) 0
                (hostname_to_hashes sha pubsuf host) 0 l Hl) as (Hl0 & Hc0 & Hr).
    destruct (fic_loop_lru now _ 0 _ 0 l) as [l0 fr]. cbn [fst snd] in *. rewrite <- Hr.
    destruct fr as [| |hs]; cbn [fst snd length]; auto.
    destruct (svc (map prefix_of hs)) as [strs|]; cbn [fst snd length]; auto.
    pose proof (store_in_cache_lru_sim ((now + cache_time) / ns_sec) hs (parse_txt strs) order l0
                  (l_items l) Hl0 Hc0) as S.
    destruct (store_in_cache_lru max _ hs (parse_txt strs) order l0) as [l' es]. cbn [fst snd] in S.
    destruct S as (Hl' & Hc' & Hrest).
    destruct (store_in_cache _ hs (parse_txt strs) order es (l_items l)) as [c' rest].
    cbn [fst snd] in *. subst rest. auto.
  Qed.
End Sim.

(** * All sequences of cache operations *)

Inductive lop :=
  | LGet (p : prefix)
  | LSet (p : prefix) (it : citem)
  | LDel (p : prefix).

Definition lop_step (max : Z) (o : lop) (l : lru) : lru :=
  match o with
  | LGet p => fst (lru_get p l)
  | LSet p it => fst (lru_set max p it l)
  | LDel p => lru_del p l
  end.

(** The same operation on the finite map; a [Set] with what the library cache
    deleted and kept for it. *)
Definition lop_abs (max : Z) (o : lop) (l : lru) (c : cache) : cache :=
  match o with
  | LGet _ => c
  | LSet p it => cset_o (snd (lru_set max p it l)) p it c
  | LDel p => cdel p c
  end.

Lemma lop_step_ok max o l c : 0 <= max -> lru_ok max l -> ceq (l_items l) c ->
  lru_ok max (lop_step max o l) /\ ceq (l_items (lop_step max o l)) (lop_abs max o l c) /\
  match o with LGet p => snd (lru_get p l) = cget p c | _ => True end.
Proof.
  intros Hm Hl Hc. destruct o as [p|p it|p]; cbn [lop_step lop_abs].
  - destruct (lru_get_ok max p l Hl) as (A & B & C). split; auto. split; [eapply ceq_trans; eauto|].
    now rewrite C.
  - destruct (lru_set_ok max p it l Hm Hl) as (A & B & _). split; auto. split; auto.
    eapply ceq_trans; [exact B|]. now apply cset_o_ceq.
  - destruct (lru_del_ok max p l Hl) as (A & B). split; auto. split; auto.
    eapply ceq_trans; [exact B|]. now apply cdel_ceq.
Qed.

(** For every sequence of [Get], [Set] and [Del] from a well-formed cache (the
    empty one, say): the cache stays well-formed (keys unique, the counter is
    the sum of the elements, the sum is within the configured size), and its
    contents are those of the finite map under the same operations. *)
Theorem lops_refine max : 0 <= max -> forall ops l c, lru_ok max l -> ceq (l_items l) c ->
  let r := fold_left (fun lc o => (lop_step max o (fst lc), lop_abs max o (fst lc) (snd lc))) ops (l, c) in
  lru_ok max (fst r) /\ ceq (l_items (fst r)) (snd r).
Proof.
  intros Hm. induction ops as [|o ops IH]; intros l c Hl Hc; cbn [fold_left fst snd]; auto.
  destruct (lop_step_ok max o l c Hm Hl Hc) as (A & B & _). now apply IH.
Qed.

(** * Histories on the library cache *)

Lemma fold_lru_del_ok max ps : forall l c, lru_ok max l -> ceq (l_items l) c ->
  lru_ok max (fold_left (fun l p => lru_del p l) ps l) /\
  ceq (l_items (fold_left (fun l p => lru_del p l) ps l)) (fold_left (fun c p => cdel p c) ps c).
Proof.
  induction ps as [|p ps IH]; intros l c Hl Hc; cbn [fold_left]; auto.
  destruct (lru_del_ok max p l Hl) as (A & B). apply IH; auto.
  eapply ceq_trans; [exact B|]. now apply cdel_ceq.
Qed.

Section LRUHist.
  Variable max : Z.
  Hypothesis Hmax : 0 <= max.
  Variable sha : bytes -> hash.
  Variable pubsuf : bytes -> bytes * bool.
  Variable suffix : bytes.
  Variable cache_time : Z.

  Notation step_lru := (step_lru sha pubsuf suffix cache_time max).
  Notation hstep_lru := (hstep_lru sha pubsuf suffix cache_time max).
  Notation hrun_lru := (hrun_lru sha pubsuf suffix cache_time max).

  (** The size bound and the well-formedness of the cache need nothing of the
      lookup service: for every history, whatever the service answers. *)
  Lemma step_lru_ok o st : lru_ok max (snd st) -> lru_ok max (snd (fst (fst (step_lru o st)))).
  Proof.
    destruct st as [now l]. cbn [snd]. intros Hl. destruct o as [host svc order evs|d|ps]; cbn [step_lru].
    - pose proof (check_lru_sim max Hmax sha pubsuf suffix cache_time svc order now host l Hl) as H.
      destruct (check_lru sha pubsuf suffix cache_time max svc order now host l) as [[l' out] es].
      cbn [fst snd]. tauto.
    - auto.
    - cbn [fst snd]. now apply (fold_lru_del_ok max ps l (l_items l) Hl (ceq_refl _)).
  Qed.

  Theorem hrun_lru_within_size : forall ops st, lru_ok max (snd (snd st)) ->
    Forall (fun r => lru_ok max (snd (snd (fst (fst r))))) (hrun_lru ops st).
  Proof.
    induction ops as [|o ops IH]; intros st Hl; cbn [HashPrefixLRU.hrun_lru]; [constructor|].
    assert (H : lru_ok max (snd (snd (fst (fst (hstep_lru o st)))))).
    { destruct o as [o'|db']; cbn [HashPrefixLRU.hstep_lru fst snd]; auto. now apply step_lru_ok. }
    constructor; auto.
  Qed.

  (** ** Transparency *)

  Definition hstep_ok_lru (g : snap) (before : list hash * (Z * lru)) (o : hop)
      (res : (list hash * (Z * lru)) * option check_out * list set_ev) : Prop :=
    let '(db, (now, l)) := before in
    match o, snd (fst res) with
    | HOp (OCheck host _ _ _), Some out =>
        o_question out = expected_question sha pubsuf suffix g now (l_items l) host /\
        (o_err out = false -> o_blocked out = snap_verdict sha pubsuf g db now (l_items l) host) /\
        (o_err out = true ->
           o_blocked out = false /\ ceq (l_items (snd (snd (fst (fst res))))) (l_items l))
    | HOp (OCheck _ _ _ _), None => False
    | _, _ => True
    end.

  Definition snap_next_lru (g : snap) (before : list hash * (Z * lru)) (o : hop)
      (res : (list hash * (Z * lru)) * option check_out * list set_ev) : snap :=
    match o with
    | HOp (OCheck _ _ _ _) =>
        snap_step (fst before) (l_items (snd (snd before))) (l_items (snd (snd (fst (fst res))))) g
    | _ => g
    end.

  Fixpoint hist_ok_lru (g : snap) (st : list hash * (Z * lru)) (ops : list hop)
      (rs : list ((list hash * (Z * lru)) * option check_out * list set_ev)) : Prop :=
    match ops, rs with
    | [], [] => True
    | o :: ops', r :: rs' =>
        lru_ok max (snd (snd (fst (fst r)))) /\ hstep_ok_lru g st o r /\
        hist_ok_lru (snap_next_lru g st o r) (fst (fst r)) ops' rs'
    | _, _ => False
    end.

  Lemma snap_inv_ceq g c1 c2 : ceq c1 c2 -> snap_inv g c1 -> snap_inv g c2.
  Proof. intros H Hi p it Hp. apply Hi. now rewrite H. Qed.

  Lemma snap_step_ceq db c c1 c2 g : ceq c1 c2 -> forall p, snap_step db c c1 g p = snap_step db c c2 g p.
  Proof. intros H p. unfold snap_step. now rewrite H. Qed.

  Lemma hstep_lru_inv g o st :
    lru_ok max (snd (snd st)) -> snap_inv g (l_items (snd (snd st))) ->
    match o with HOp o' => op_ok (fst st) o' | HDb _ => True end ->
    let res := hstep_lru o st in
    lru_ok max (snd (snd (fst (fst res)))) /\
    snap_inv (snap_next_lru g st o res) (l_items (snd (snd (fst (fst res))))) /\
    hstep_ok_lru g st o res.
  Proof.
    destruct st as [db [now l]]. cbn [fst snd]. intros Hl Hinv Hok.
    destruct o as [[host svc order evs|d|ps]|db'];
      cbn [HashPrefixLRU.hstep_lru HashPrefixLRU.step_lru fst snd snap_next_lru hstep_ok_lru].
    - pose proof (check_lru_sim max Hmax sha pubsuf suffix cache_time svc order now host l Hl) as S.
      destruct (check_lru sha pubsuf suffix cache_time max svc order now host l) as [[l' out] es].
      cbn [fst snd]. destruct S as (Hl' & Hc & Ho).
      pose proof (check_snap sha pubsuf suffix cache_time db g svc order es now host (l_items l) Hinv Hok) as H.
      cbn zeta in H.
      destruct (check sha pubsuf suffix cache_time svc order es now host (l_items l)) as [c' out'].
      cbn [fst snd] in *. subst out'. destruct H as (Hs & Hq & Hv & He).
      split; auto. split; [|split; [exact Hq|split; [exact Hv|]]].
      + intros p it Hp. rewrite (snap_step_ceq db (l_items l) (l_items l') c' g Hc).
        apply Hs. now rewrite <- Hc.
      + intros E. destruct (He E) as [-> Hb]. auto.
    - cbn [fst snd]. auto.
    - cbn [fst snd]. destruct (fold_lru_del_ok max ps l (l_items l) Hl (ceq_refl _)) as (A & B).
      split; auto. split; auto.
      apply (snap_inv_ceq g _ _ (ceq_sym _ _ B)). now apply evict_snap_inv.
    - auto.
  Qed.

  Theorem hrun_lru_transparent : forall ops g st,
    lru_ok max (snd (snd st)) -> snap_inv g (l_items (snd (snd st))) -> hops_ok (fst st) ops ->
    hist_ok_lru g st ops (hrun_lru ops st).
  Proof.
    induction ops as [|o ops IH]; intros g st Hl Hinv Hok; cbn [HashPrefixLRU.hrun_lru hist_ok_lru]; auto.
    assert (Ho : match o with HOp o' => op_ok (fst st) o' | HDb _ => True end)
      by (destruct o; cbn in Hok; tauto).
    destruct (hstep_lru_inv g o st Hl Hinv Ho) as (A & B & C). split; auto. split; auto.
    apply IH; auto.
    destruct st as [db [now l]]. destruct o as [o'|db']; cbn [hops_ok] in Hok;
      cbn [HashPrefixLRU.hstep_lru fst snd]; tauto.
  Qed.

  (** From the empty cache: every history of checks, clock changes, deletions
      and database changes on the library cache. *)
  Theorem lru_changing_db_transparent ops db0 now0 :
    hops_ok db0 ops ->
    hist_ok_lru (fun _ => db0) (db0, (now0, lru_empty)) ops (hrun_lru ops (db0, (now0, lru_empty))).
  Proof.
    intros H. apply hrun_lru_transparent; auto.
    - now apply lru_empty_ok.
    - intros p it; discriminate.
  Qed.
End LRUHist.

(** * The histories of the map model with the events of the library cache *)

Lemma store_neg_ceq exp keys : forall to_req evs c1 c2, ceq c1 c2 ->
  ceq (fst (store_neg exp keys to_req evs c1)) (fst (store_neg exp keys to_req evs c2)) /\
  snd (store_neg exp keys to_req evs c1) = snd (store_neg exp keys to_req evs c2).
Proof.
  induction to_req as [|h r IH]; intros evs c1 c2 H; cbn [store_neg fst snd]; auto.
  rewrite <- (H (prefix_of h)). destruct (cget (prefix_of h) c1); [now apply IH|].
  destruct (mem_hash (prefix_of h) keys); [now apply IH|].
  destruct (pop evs) as [e evs']. apply IH. now apply cset_o_ceq.
Qed.

Lemma store_in_cache_ceq exp to_req resp order evs c1 c2 : ceq c1 c2 ->
  ceq (fst (store_in_cache exp to_req resp order evs c1)) (fst (store_in_cache exp to_req resp order evs c2)) /\
  snd (store_in_cache exp to_req resp order evs c1) = snd (store_in_cache exp to_req resp order evs c2).
Proof.
  intros H. unfold store_in_cache.
  destruct (store_pos_ceq exp resp (filter (fun p => mem_hash p (dedup (map prefix_of resp))) order)
              evs c1 c2 H) as [A B].
  destruct (store_pos exp resp _ evs c1) as [a1 e1], (store_pos exp resp _ evs c2) as [a2 e2].
  cbn [fst snd] in *. subst e2. now apply store_neg_ceq.
Qed.

Section RunSim.
  Variable max : Z.
  Hypothesis Hmax : 0 <= max.
  Variable sha : bytes -> hash.
  Variable pubsuf : bytes -> bytes * bool.
  Variable suffix : bytes.
  Variable cache_time : Z.

  Lemma check_ceq svc order evs now host c1 c2 : ceq c1 c2 ->
    ceq (fst (check sha pubsuf suffix cache_time svc order evs now host c1))
        (fst (check sha pubsuf suffix cache_time svc order evs now host c2)) /\
    snd (check sha pubsuf suffix cache_time svc order evs now host c1)
    = snd (check sha pubsuf suffix cache_time svc order evs now host c2).
  Proof.
    intros H. unfold check, find_in_cache. rewrite (fic_loop_ceq now c1 c2 H).
    destruct (fic_loop now c2 _ 0 _ 0) as [| |hs]; cbn [fst snd]; auto.
    destruct (svc (map prefix_of hs)) as [strs|]; cbn [fst snd]; auto.
    destruct (store_in_cache_ceq ((now + cache_time) / ns_sec) hs (parse_txt strs) order evs c1 c2 H) as [A B].
    destruct (store_in_cache _ hs (parse_txt strs) order evs c1) as [a1 r1],
             (store_in_cache _ hs (parse_txt strs) order evs c2) as [a2 r2].
    cbn [fst snd] in *. now subst r2.
  Qed.

  (** What the two runs have in common after a step: instant, map, outcome. *)
  Definition res_agree (rl : (Z * lru) * option check_out * list set_ev)
      (ra : (Z * cache) * option check_out) : Prop :=
    lru_ok max (snd (fst (fst rl))) /\ fst (fst (fst rl)) = fst (fst ra) /\
    ceq (l_items (snd (fst (fst rl)))) (snd (fst ra)) /\ snd (fst rl) = snd ra.

  (** The history model of rounds 1-3 (a finite map; what every [Set] deletes
      is given) run with the events the library cache produces is the history
      on the library cache: same instants, maps and outcomes. *)
  Theorem run_lru_refines : forall ops now l c, lru_ok max l -> ceq (l_items l) c ->
    Forall2 res_agree
      (run_lru sha pubsuf suffix cache_time max ops (now, l))
      (run sha pubsuf suffix cache_time (with_lru_events sha pubsuf suffix cache_time max ops (now, l)) (now, c)).
  Proof.
    induction ops as [|o ops IH]; intros now l c Hl Hc; cbn [run_lru with_lru_events run]; [constructor|].
    destruct o as [host svc order evs|d|ps]; cbn [step_lru step fst snd].
    - pose proof (check_lru_sim max Hmax sha pubsuf suffix cache_time svc order now host l Hl) as S.
      destruct (check_lru sha pubsuf suffix cache_time max svc order now host l) as [[l' out] es].
      cbn [fst snd]. destruct S as (Hl' & Hc' & Ho).
      destruct (check_ceq svc order es now host (l_items l) c Hc) as [A B].
      destruct (check sha pubsuf suffix cache_time svc order es now host (l_items l)) as [c1 o1],
               (check sha pubsuf suffix cache_time svc order es now host c) as [c2 o2].
      cbn [fst snd] in *. subst o1 o2.
      assert (Hc2 : ceq (l_items l') c2) by (eapply ceq_trans; eauto).
      constructor; [unfold res_agree; cbn [fst snd]; tauto|]. now apply IH.
    - constructor; [unfold res_agree; cbn [fst snd]; tauto|]. now apply IH.
    - destruct (fold_lru_del_ok max ps l c Hl Hc) as [A B].
      constructor; [unfold res_agree; cbn [fst snd]; tauto|]. now apply IH.
  Qed.
End RunSim.

(** * Non-vacuity; an element larger than the whole cache (commit c62e74a) *)

Module LRUExample.
  Import Examples.
  (** Two hashes of the database under one prefix: the element to store is 76
      bytes, the cache has 45. *)
  Definition db2 : list hash := [sha evil; sha twin].
  Definition ord : list prefix := [prefix_of (sha evil)].
  Definition ops2 : list hop :=
    [HOp (OCheck evil (db_service db2) ord []); HOp (OCheck evil (db_service db2) ord []);
     HOp (OCheck host1 (db_service db2) ord [])].

  (** The second loop of [storeInCache] as it was before c62e74a: an empty entry
      whenever [Get] finds nothing. *)
  Fixpoint store_neg_lru_prefix (max exp : Z) (to_req : list hash) (l : lru) : lru :=
    match to_req with
    | [] => l
    | h :: r =>
        let '(l1, v) := lru_get (prefix_of h) l in
        match v with
        | None => store_neg_lru_prefix max exp r
                    (fst (lru_set max (prefix_of h) {| c_expiry := exp; c_hashes := [] |} l1))
        | Some _ => store_neg_lru_prefix max exp r l1
        end
    end.
End LRUExample.

(** The library refuses the element and deletes nothing; the store as it is
    now leaves no entry, and every check of the name goes upstream and blocks.
    With the second loop of before c62e74a an empty entry is stored and the
    next check answers "clean" from the cache for a listed name. *)
Example refused_element :
  let it2 := {| c_expiry := 3650; c_hashes := LRUExample.db2 |} in
  let p := prefix_of (Examples.sha Examples.evil) in
  entry_bytes p it2 = 74 /\
  lru_set 45 p it2 lru_empty = (lru_empty, ([], false)) /\
  hops_ok LRUExample.db2 LRUExample.ops2 /\
  map (fun r => (match snd (fst r) with
                 | Some o => Some (o_blocked o, match o_question o with Some _ => true | None => false end)
                 | None => None end, snd r, map fst (l_items (snd (snd (fst (fst r)))))))
      (hrun_lru Examples.sha Examples.pubsuf Examples.sfx Examples.ct 45 LRUExample.ops2
                (LRUExample.db2, (0, lru_empty)))
  = [(Some (true, true), [([], false)], []);
     (Some (true, true), [([], false)], []);
     (Some (true, true), [([], false); ([], true)], [prefix_of (Examples.sha HistExample.c_evil)])] /\
  (* before c62e74a *)
  let l := LRUExample.store_neg_lru_prefix 45 3650 [Examples.sha Examples.evil]
             (fst (lru_set 45 p it2 lru_empty)) in
  o_blocked (snd (fst (check_lru Examples.sha Examples.pubsuf Examples.sfx Examples.ct 45
                         (db_service LRUExample.db2) LRUExample.ord 0 Examples.evil l))) = false /\
  o_question (snd (fst (check_lru Examples.sha Examples.pubsuf Examples.sfx Examples.ct 45
                         (db_service LRUExample.db2) LRUExample.ord 0 Examples.evil l))) = None /\
  db_verdict Examples.sha Examples.pubsuf LRUExample.db2 Examples.evil = true.
Proof.
  cbv zeta.
  assert (Hwf : Forall hash_wf LRUExample.db2).
  { repeat constructor; vm_compute; try reflexivity; intros; discriminate. }
  split; [vm_compute; reflexivity|]. split; [vm_compute; reflexivity|]. split.
  - unfold LRUExample.ops2. cbn [hops_ok op_ok]. pose proof (db_service_ok _ Hwf). tauto.
  - repeat split; vm_compute; reflexivity.
Qed.

(** The order of use decides who goes: four elements of 10 bytes in 45 bytes;
    the first is read again; the fifth pushes out the second, not the first. *)
Example lru_order_example :
  let neg := {| c_expiry := 3650; c_hashes := [] |} in
  let k (i : Z) : prefix := [Z.to_N i; Z.to_N i] in
  let ops := [LSet (k 1) neg; LSet (k 2) neg; LSet (k 3) neg; LSet (k 4) neg; LGet (k 1);
              LSet (k 5) neg; LSet (k 6) {| c_expiry := 3650; c_hashes := [repeat 7%N 32] |}] in
  map (fun l => (map fst (l_items l), l_size l))
      (snd (fold_left (fun (a : lru * list lru) o => let l := lop_step 45 o (fst a) in (l, snd a ++ [l]))
                      ops (lru_empty, [])))
  = [([k 1], 10); ([k 1; k 2], 20); ([k 1; k 2; k 3], 30); ([k 1; k 2; k 3; k 4], 40);
     ([k 2; k 3; k 4; k 1], 40); ([k 3; k 4; k 1; k 5], 40); ([k 6], 42)].
Proof. vm_compute. reflexivity. Qed.

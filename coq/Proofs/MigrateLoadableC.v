(** C13, part 6c: [loadable] over the step table: composition of the per-step lemmas proved so far. *)
From Coq Require Import List ZArith String Ascii Bool Lia Arith.
From AGH Require Import Model.Migrate Model.MigrateLoad Proofs.Migrate Proofs.MigrateFrame Proofs.MigrateLoadable Proofs.MigrateLoadableA Proofs.MigrateLoadableB
  Proofs.MigrateLoadableD Proofs.MigrateLoadableE Proofs.MigrateLoadableF Proofs.MigrateLoadableG Proofs.MigrateElems.
Import ListNotations.
Local Open Scope string_scope.
Local Open Scope list_scope.

(** Steps (by the version they stamp) whose preservation lemma is proved. *)
Definition proved_steps : list nat := [1; 2; 5; 8; 9; 11; 12; 18; 20; 21; 25; 28].

Definition unproved_steps_keep (O : oracles) : Prop :=
  forall n s, nth_error (map snd (steps O)) n = Some s -> existsb (Nat.eqb (S n)) proved_steps = false ->
    step_keeps L n s.

(** The composition: if the steps not yet covered preserve [loadable] too
    (an explicit hypothesis, checked by the harness on every document it
    upgrades), every successful upgrade of a document loadable at its version
    is loadable at the target version. *)
Theorem loadable_preserved_partial O : unproved_steps_keep O -> 
  forall cur tgt m m', (cur <= tgt <= 29)%nat ->
    upgrade O cur tgt m = Ok m' -> loadable cur m = true -> loadable tgt m' = true.
Proof.
  intros U cur tgt m m' R H Hm.
  assert (K : kept_from L 0 (skipn 0 (map snd (steps O)))).
  { exact (conj keep1 (conj keep2 (conj (U 2 _ eq_refl eq_refl) (conj (U 3 _ eq_refl eq_refl) (conj (keep5 O) (conj (U 5 _ eq_refl eq_refl) (conj (U 6 _ eq_refl eq_refl) (conj keep8 (conj keep9 (conj (U 9 _ eq_refl eq_refl) (conj keep11 (conj keep12 (conj (U 12 _ eq_refl eq_refl) (conj (U 13 _ eq_refl eq_refl) (conj (U 14 _ eq_refl eq_refl) (conj (U 15 _ eq_refl eq_refl) (conj (U 16 _ eq_refl eq_refl) (conj keep18 (conj (U 18 _ eq_refl eq_refl) (conj keep20 (conj keep21 (conj (U 21 _ eq_refl eq_refl) (conj (U 22 _ eq_refl eq_refl) (conj (U 23 _ eq_refl eq_refl) (conj keep25 (conj (U 25 _ eq_refl eq_refl) (conj (U 26 _ eq_refl eq_refl) (conj keep28 (conj (U 28 _ eq_refl eq_refl) I))))))))))))))))))))))))))))). }
  apply (upgrade_kept O L 0 cur tgt m m' K); [lia | lia | exact H | exact Hm].
Qed.

(** All 29 per-step lemmas (the 17 the partial statement assumes are
    [keep3] ... [keep29] of Proofs/MigrateLoadableD.v to G.v): the hypothesis
    of [loadable_preserved_partial] holds. *)
Lemma all_steps_kept O : kept_from L 0 (skipn 0 (map snd (steps O))).
Proof.
  exact (conj keep1 (conj keep2 (conj keep3 (conj keep4 (conj (keep5 O) (conj keep6 (conj keep7 (conj keep8
        (conj keep9 (conj (keep10 O) (conj keep11 (conj keep12 (conj keep13 (conj keep14 (conj keep15
        (conj keep16 (conj keep17 (conj keep18 (conj keep19 (conj keep20 (conj keep21 (conj keep22
        (conj (keep23 O) (conj keep24 (conj keep25 (conj keep26 (conj keep27 (conj keep28
        (conj (keep29 O) I))))))))))))))))))))))))))))).
Qed.

Lemma kept_nth Inv l : forall a n s, kept_from Inv a l -> nth_error l n = Some s -> step_keeps Inv (a + n) s.
Proof.
  induction l as [|s0 l IH]; intros a n s K Hn; [destruct n; discriminate Hn|].
  destruct K as [K0 K]. destruct n as [|n]; cbn [nth_error] in Hn.
  - injection Hn as <-. now rewrite Nat.add_0_r.
  - replace (a + S n)%nat with (S a + n)%nat by lia. exact (IH _ _ _ K Hn).
Qed.

Lemma unproved_steps_kept O : unproved_steps_keep O.
Proof. intros n s Hn _. exact (kept_nth L _ 0 n s (all_steps_kept O) Hn). Qed.

(** The full statement: a successful upgrade of a document loadable at its
    version is loadable at the target version. *)
Theorem loadable_preserved : forall O cur tgt m m', (cur <= tgt <= 29)%nat ->
  upgrade O cur tgt m = Ok m' -> loadable cur m = true -> loadable tgt m' = true.
Proof.
  intros O cur tgt m m' R H Hm.
  apply (upgrade_kept O L 0 cur tgt m m' (all_steps_kept O)); [lia | lia | exact H | exact Hm].
Qed.

Lemma loadable_preserved_is_statement : loadable_preserved_statement.
Proof. exact loadable_preserved. Qed.

(** Non-vacuity: a version-3 document with three clients is loadable, and so
    is its upgrade to 29. *)
Example loadable_doc3 :
  loadable 3 doc3_clients = true /\
  exists a, migrate oracles0 (Some doc3_clients) 29 = ONew a /\ loadable 29 a = true /\ loadable 29 (norm_obj a) = true.
Proof. split; [reflexivity|]. eexists. split; [vm_compute; reflexivity|]. split; vm_compute; reflexivity. Qed.

(** The same on documents that exercise [moves]: a version-14 document
    whose [dns] section holds the query-log, statistics and filtering
    settings (steps 15, 16, 26), with top-level logging keys (step 24) and a
    listening address (step 23); and a version-23 document with the
    logging keys only. *)
Definition doc14_moves : obj :=
  [("schema_version", VInt 14); ("bind_host", VStr "127.0.0.1"); ("bind_port", VInt 3000);
   ("web_session_ttl", VInt 720);
   ("log_file", VStr "/var/log/agh.log"); ("log_max_backups", VInt 3); ("log_max_size", VInt 100);
   ("log_max_age", VInt 7); ("log_compress", VBool true); ("log_localtime", VBool false); ("verbose", VBool true);
   ("debug_pprof", VBool true);
   ("dns", VObj [("querylog_enabled", VBool false); ("querylog_file_enabled", VBool true);
                 ("querylog_interval", VStr "24h"); ("querylog_size_memory", VInt 500);
                 ("statistics_interval", VInt 7); ("edns_client_subnet", VBool true);
                 ("safesearch_enabled", VBool true); ("blocked_services", VArr [VStr "youtube"]);
                 ("all_servers", VBool false); ("fastest_addr", VBool true);
                 ("filtering_enabled", VBool true); ("filters_update_interval", VInt 24);
                 ("rewrites", VArr [VObj [("domain", VStr "a.example"); ("answer", VStr "1.2.3.4")]]);
                 ("blocking_mode", VStr "default"); ("blocked_response_ttl", VInt 10);
                 ("protection_disabled_until", VNull); ("upstream_dns", VArr [VStr "9.9.9.9"])]);
   ("clients", VObj [("persistent", VArr [VObj [("ids", VArr [VStr "10.0.0.1"]); ("safesearch_enabled", VBool true);
                                                ("use_global_blocked_services", VBool false);
                                                ("blocked_services", VArr [VStr "tiktok"])]]);
                     ("runtime_sources", VObj runtime0)]);
   ("dhcp", VObj [("dhcpv4", VObj [("gateway_ip", VStr "10.0.0.254"); ("lease_duration", VInt 86400)]);
                  ("local_domain_name", VStr "lan")]);
   ("filters", VArr [VObj [("url", VStr "/etc/list.txt")]; VObj [("url", VStr "https://a.example/l.txt")]])].

Definition doc23_log : obj :=
  [("schema_version", VInt 23); ("log_file", VStr "syslog"); ("log_max_age", VInt 3); ("log_compress", VBool false);
   ("verbose", VBool false); ("http", VObj [("address", VStr "127.0.0.1:3000"); ("session_ttl", VStr "720h")]);
   ("dns", VObj [("parental_enabled", VBool true); ("safebrowsing_cache_size", VInt 1048576)])].

Example loadable_doc14_moves :
  loadable 14 doc14_moves = true /\
  exists a, migrate oracles0 (Some doc14_moves) 29 = ONew a /\ loadable 29 a = true /\ loadable 29 (norm_obj a) = true /\
    (exists q, get "querylog" a = Some (VObj q) /\ get "size_memory" q = Some (VInt 500)) /\
    (exists l, get "log" a = Some (VObj l) /\ get "max_backups" l = Some (VInt 3)) /\
    (exists f, get "filtering" a = Some (VObj f) /\ get "blocked_response_ttl" f = Some (VInt 10)).
Proof.
  split; [vm_compute; reflexivity|]. eexists. split; [vm_compute; reflexivity|].
  split; [vm_compute; reflexivity|]. split; [vm_compute; reflexivity|].
  split; [|split]; eexists; (split; [vm_compute; reflexivity | vm_compute; reflexivity]).
Qed.

Example loadable_doc23_log :
  loadable 23 doc23_log = true /\
  exists a, migrate oracles0 (Some doc23_log) 29 = ONew a /\ loadable 29 a = true /\
    (exists l, get "log" a = Some (VObj l) /\ get "file" l = Some (VStr "syslog")).
Proof.
  split; [vm_compute; reflexivity|]. eexists. split; [vm_compute; reflexivity|].
  split; [vm_compute; reflexivity|]. eexists. split; vm_compute; reflexivity.
Qed.

(** A null pointer-typed section is not loadable (the start-up code
    dereferences the nil pointer it leaves). *)
Example null_section_not_loadable :
  loadable 29 [("schema_version", VInt 29); ("filtering", VNull)] = false /\
  loadable 29 [("schema_version", VInt 29); ("dns", VNull)] = true.
Proof. split; reflexivity. Qed.

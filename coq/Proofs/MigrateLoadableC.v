(** C13, part 6c: [loadable] over the step table: composition of the per-step lemmas proved so far. *)
From Coq Require Import List ZArith String Ascii Bool Lia Arith.
From AGH Require Import Model.Migrate Model.MigrateLoad Proofs.Migrate Proofs.MigrateFrame Proofs.MigrateLoadable Proofs.MigrateLoadableA Proofs.MigrateLoadableB Proofs.MigrateElems.
Import ListNotations.
Local Open Scope string_scope.
Local Open Scope list_scope.

(** Steps (by the version they stamp) whose preservation lemma is proved. *)
Definition proved_steps : list nat := [1; 2; 5; 8; 9; 11; 12; 18; 20; 21; 25; 28].

Definition unproved_steps_keep (O : oracles) : Prop :=
  forall n s, nth_error (map snd (steps O)) n = Some s -> existsb (Nat.eqb (S n)) proved_steps = false ->
    step_keeps L n s.

(** The composition: if the steps not yet covered preserve [loadable] too
    (an explicit hypothesis, checked by the harness on every document it
    upgrades), every successful upgrade of a document loadable at its version
    is loadable at the target version. *)
Theorem loadable_preserved_partial O : unproved_steps_keep O -> 
  forall cur tgt m m', (cur <= tgt <= 29)%nat ->
    upgrade O cur tgt m = Ok m' -> loadable cur m = true -> loadable tgt m' = true.
Proof.
  intros U cur tgt m m' R H Hm.
  assert (K : kept_from L 0 (skipn 0 (map snd (steps O)))).
  { exact (conj keep1 (conj keep2 (conj (U 2 _ eq_refl eq_refl) (conj (U 3 _ eq_refl eq_refl) (conj (keep5 O) (conj (U 5 _ eq_refl eq_refl) (conj (U 6 _ eq_refl eq_refl) (conj keep8 (conj keep9 (conj (U 9 _ eq_refl eq_refl) (conj keep11 (conj keep12 (conj (U 12 _ eq_refl eq_refl) (conj (U 13 _ eq_refl eq_refl) (conj (U 14 _ eq_refl eq_refl) (conj (U 15 _ eq_refl eq_refl) (conj (U 16 _ eq_refl eq_refl) (conj keep18 (conj (U 18 _ eq_refl eq_refl) (conj keep20 (conj keep21 (conj (U 21 _ eq_refl eq_refl) (conj (U 22 _ eq_refl eq_refl) (conj (U 23 _ eq_refl eq_refl) (conj keep25 (conj (U 25 _ eq_refl eq_refl) (conj (U 26 _ eq_refl eq_refl) (conj keep28 (conj (U 28 _ eq_refl eq_refl) I))))))))))))))))))))))))))))). }
  apply (upgrade_kept O L 0 cur tgt m m' K); [lia | lia | exact H | exact Hm].
Qed.

(** Non-vacuity: a version-3 document with three clients is loadable, and so
    is its upgrade to 29. *)
Example loadable_doc3 :
  loadable 3 doc3_clients = true /\
  exists a, migrate oracles0 (Some doc3_clients) 29 = ONew a /\ loadable 29 a = true /\ loadable 29 (norm_obj a) = true.
Proof. split; [reflexivity|]. eexists. split; [vm_compute; reflexivity|]. split; vm_compute; reflexivity. Qed.

(** A null pointer-typed section is not loadable (the start-up code
    dereferences the nil pointer it leaves). *)
Example null_section_not_loadable :
  loadable 29 [("schema_version", VInt 29); ("filtering", VNull)] = false /\
  loadable 29 [("schema_version", VInt 29); ("dns", VNull)] = true.
Proof. split; reflexivity. Qed.

(** Proofs about the concurrent model of the session operations
    (Model/SessionConc.v): for ALL interleavings of any number of requests,
    with restarts at any point, a token whose logout has been answered
    authenticates nothing, in this process or after a restart; what the file
    holds is in memory or is being deleted.  The two orders the proof rests on
    (removeSession: memory under the lock first, then the file; checkSession:
    the refresh is stored inside the lock section that found the entry) are
    each shown necessary by a schedule of the variant. *)
From AGH Require Import Base.Run Model.Session Model.SessionConc Proofs.Session.
From stdpp Require Import gmap.
From Coq Require Import Lia.
Local Open Scope N_scope.

(** * Transitions *)

(** [ok st ops]: the request [ops] may arrive in state [st]. *)
Inductive ctrans (cfg : ccfg) (ok : cstate -> list cop -> Prop) : cstate -> cstate -> Prop :=
  | ct_step i st st' : cstep cfg i st = Some st' -> ctrans cfg ok st st'
  | ct_spawn ops st : ok st ops -> ctrans cfg ok st (cspawn ops st)
  | ct_restart now st : ctrans cfg ok st (crestart now st).

Definition creach (cfg : ccfg) (ok : cstate -> list cop -> Prop) : cstate -> cstate -> Prop :=
  rtc (ctrans cfg ok).

(** A process that has just started on the bucket [d]. *)
Definition cstart (d : gmap bytes sess) : cstate :=
  {| c_mem := kmap hex_encode d; c_disk := d; c_lock := None; c_thr := []; c_out := []; c_known := [] |}.

Definition adds (raw : bytes) (o : cop) : Prop :=
  match o with OAdd _ r _ => r = raw | _ => False end.

(** Some request still has an [addSession] of [raw] to finish. *)
Definition pending_add (raw : bytes) (thr : list thread) : Prop :=
  exists j tj, thr !! j = Some tj /\ Exists (adds raw) (t_ops tj).

(** What is assumed about arrivals: tokens are byte strings; a token that is
    being issued is new (nobody has sent its cookie yet, no other request is
    issuing it, the issuing request does not use it); a cookie is sent only
    after the login that issued it has been answered. *)
Definition admissible (st : cstate) (ops : list cop) : Prop :=
  (forall now raw u, OAdd now raw u ∈ ops ->
     is_bytes raw /\ hex_encode raw ∉ c_known st /\ hex_encode raw ∉ uses ops /\ ~ pending_add raw (c_thr st)) /\
  (forall raw, hex_encode raw ∈ uses ops -> ~ pending_add raw (c_thr st)).

(** * The steps of the code, as a relation *)

Definition refreshed (ttl now : N) (s : sess) : sess :=
  {| s_user := s_user s; s_expire := u32 (u32 now + ttl) |}.

Inductive tstep_code (ttl : N) (i : nat) (t : thread) (h : shared) : thread -> shared -> Prop :=
  | ts_read tag r : t_ops t = ORead tag :: r -> t_pc t = PStart -> h_lock h = None ->
      tstep_code ttl i t h (next_op t) h
  | ts_nf now spx r : t_ops t = OCheck now spx :: r -> t_pc t = PStart -> h_lock h = None ->
      h_mem h !! spx = None ->
      tstep_code ttl i t h (checked CSNotFound t) h
  | ts_exp now spx r s : t_ops t = OCheck now spx :: r -> t_pc t = PStart -> h_lock h = None ->
      h_mem h !! spx = Some s ->
      tstep_code ttl i t h (at_pc (PHoldDel (hex_decode_prefix spx)) t)
                 (set_lock (Some i) (set_mem (delete spx (h_mem h)) h))
  | ts_ok now spx r s : t_ops t = OCheck now spx :: r -> t_pc t = PStart -> h_lock h = None ->
      h_mem h !! spx = Some s ->
      tstep_code ttl i t h (checked CSOK t) h
  | ts_refresh now spx r s : t_ops t = OCheck now spx :: r -> t_pc t = PStart -> h_lock h = None ->
      h_mem h !! spx = Some s ->
      tstep_code ttl i t h (at_pc (PHoldPut (hex_decode_prefix spx) (refreshed ttl now s)) t)
                 (set_lock (Some i) (set_mem (<[spx := refreshed ttl now s]> (h_mem h)) h))
  | ts_put now spx r key s : t_ops t = OCheck now spx :: r -> t_pc t = PHoldPut key s ->
      tstep_code ttl i t h (at_pc (PHoldRel CSOK) t) (set_disk (<[key := s]> (h_disk h)) h)
  | ts_del now spx r key : t_ops t = OCheck now spx :: r -> t_pc t = PHoldDel key ->
      tstep_code ttl i t h (at_pc (PHoldRel CSExpired) t) (set_disk (delete key (h_disk h)) h)
  | ts_rel now spx r res : t_ops t = OCheck now spx :: r -> t_pc t = PHoldRel res ->
      tstep_code ttl i t h (checked res t) (set_lock None h)
  | ts_rm_mem spx r : t_ops t = ORemove spx :: r -> t_pc t = PStart -> h_lock h = None ->
      tstep_code ttl i t h (at_pc PMid t) (set_mem (delete spx (h_mem h)) h)
  | ts_rm_disk spx r : t_ops t = ORemove spx :: r -> t_pc t = PMid ->
      tstep_code ttl i t h (next_op t)
                 (add_out spx (set_disk (delete (hex_decode_prefix spx) (h_disk h)) h))
  | ts_add_mem now raw u r : t_ops t = OAdd now raw u :: r -> t_pc t = PStart -> h_lock h = None ->
      tstep_code ttl i t h (at_pc PMid t)
                 (set_mem (<[hex_encode raw := {| s_user := u; s_expire := u32 (u32 now + ttl) |}]> (h_mem h)) h)
  | ts_add_disk now raw u r : t_ops t = OAdd now raw u :: r -> t_pc t = PMid ->
      tstep_code ttl i t h (next_op t)
                 (set_disk (<[raw := {| s_user := u; s_expire := u32 (u32 now + ttl) |}]> (h_disk h)) h).

Lemma lock_free_None h : lock_free h = true -> h_lock h = None.
Proof. unfold lock_free. destruct (h_lock h); [discriminate|reflexivity]. Qed.

Lemma tstep_code_spec ttl i t h t' h' :
  tstep (code_cfg ttl) i t h = Some (t', h') -> tstep_code ttl i t h t' h'.
Proof.
  unfold tstep. cbn [code_cfg cc_rm cc_store cc_ttl].
  destruct (t_ops t) as [|[tag|now spx|spx|now raw u] r] eqn:Eo; [discriminate|..].
  - destruct (t_pc t) eqn:Ep; try discriminate.
    destruct (lock_free h) eqn:El; [|discriminate]. intros [= <- <-].
    eapply ts_read; eauto using lock_free_None.
  - destruct (t_pc t) eqn:Ep; try discriminate.
    + destruct (lock_free h) eqn:El; [|discriminate]. apply lock_free_None in El.
      destruct (h_mem h !! spx) as [s|] eqn:Em.
      * destruct (s_expire s <=? u32 now).
        { intros [= <- <-]. eapply ts_exp; eauto. }
        destruct (s_expire s / day =? u32 (u32 now + ttl) / day).
        { intros [= <- <-]. eapply ts_ok; eauto. }
        intros [= <- <-]. eapply (ts_refresh ttl i t h now spx r s); eauto.
      * intros [= <- <-]. eapply ts_nf; eauto.
    + intros [= <- <-]. eapply ts_put; eauto.
    + intros [= <- <-]. eapply ts_del; eauto.
    + intros [= <- <-]. eapply ts_rel; eauto.
  - destruct (t_pc t) eqn:Ep; try discriminate.
    + destruct (lock_free h) eqn:El; [|discriminate]. intros [= <- <-].
      eapply ts_rm_mem; eauto using lock_free_None.
    + intros [= <- <-]. eapply ts_rm_disk; eauto.
  - destruct (t_pc t) eqn:Ep; try discriminate.
    + destruct (lock_free h) eqn:El; [|discriminate]. intros [= <- <-].
      eapply ts_add_mem; eauto using lock_free_None.
    + intros [= <- <-]. eapply ts_add_disk; eauto.
Qed.

(** * The invariant *)

Definition holding (t : thread) : Prop :=
  match t_pc t with PHoldPut _ _ | PHoldDel _ | PHoldRel _ => True | _ => False end.

(** The map entry of [x] is gone for good as far as this process goes: a
    [removeSession(x)] has returned or is past its first half. *)
Definition memdead (x : bytes) (st : cstate) : Prop :=
  x ∈ c_out st \/ exists j tj r, c_thr st !! j = Some tj /\ t_ops tj = ORemove x :: r /\ t_pc tj = PMid.

(** A delete of the record [raw] is on its way to the file. *)
Definition del_witness (raw : bytes) (tj : thread) : Prop :=
  (exists x r, t_ops tj = ORemove x :: r /\ t_pc tj = PMid /\ hex_decode_prefix x = raw) \/
  (exists now x r, t_ops tj = OCheck now x :: r /\ t_pc tj = PHoldDel raw).

Definition pending_del (raw : bytes) (st : cstate) : Prop :=
  exists j tj, c_thr st !! j = Some tj /\ del_witness raw tj.

Record cinv (st : cstate) : Prop := {
  ci_mem : forall key s, c_mem st !! key = Some s -> exists raw, key = hex_encode raw /\ is_bytes raw;
  ci_disk : forall raw s, c_disk st !! raw = Some s -> is_bytes raw;
  ci_addb : forall j tj now raw u, c_thr st !! j = Some tj -> OAdd now raw u ∈ t_ops tj -> is_bytes raw;
  ci_uses : forall j tj x, c_thr st !! j = Some tj -> x ∈ uses (t_ops tj) -> x ∈ c_known st;
  ci_out : forall x, x ∈ c_out st -> x ∈ c_known st;
  ci_fresh : forall raw, hex_encode raw ∈ c_known st -> ~ pending_add raw (c_thr st);
  ci_lock : forall j tj, c_thr st !! j = Some tj -> holding tj -> c_lock st = Some j;
  ci_put : forall j tj now spx r key s, c_thr st !! j = Some tj ->
      t_ops tj = OCheck now spx :: r -> t_pc tj = PHoldPut key s ->
      key = hex_decode_prefix spx /\ is_Some (c_mem st !! spx);
  ci_memdead : forall raw, is_bytes raw -> memdead (hex_encode raw) st -> c_mem st !! hex_encode raw = None;
  ci_diskdead : forall raw, is_bytes raw -> hex_encode raw ∈ c_out st -> c_disk st !! raw = None;
  ci_addmid : forall j tj now raw u r, c_thr st !! j = Some tj ->
      t_ops tj = OAdd now raw u :: r -> t_pc tj = PMid -> is_Some (c_mem st !! hex_encode raw);
  ci_mirror : forall raw s, c_disk st !! raw = Some s ->
      is_Some (c_mem st !! hex_encode raw) \/ pending_del raw st;
}.

(** ** Small facts *)

Lemma lookup_upd (thr : list thread) i t' j tj :
  <[i := t']> thr !! j = Some tj -> (j = i /\ tj = t') \/ (j <> i /\ thr !! j = Some tj).
Proof.
  intros H. destruct (decide (j = i)) as [->|Hne].
  - left. split; auto. destruct (thr !! i) eqn:E.
    + rewrite list_lookup_insert in H by (eapply lookup_lt_Some; eauto). congruence.
    + rewrite list_insert_ge in H by (apply lookup_ge_None; auto). congruence.
  - right. split; auto. rewrite list_lookup_insert_ne in H by auto. auto.
Qed.

Lemma lookup_upd_same (thr : list thread) i t t' : thr !! i = Some t -> <[i := t']> thr !! i = Some t'.
Proof. intros H. apply list_lookup_insert. eapply lookup_lt_Some; eauto. Qed.

Lemma lookup_upd_other (thr : list thread) i t' j : j <> i -> <[i := t']> thr !! j = thr !! j.
Proof. intros H. apply list_lookup_insert_ne. auto. Qed.

(** The program of a thread only shrinks. *)
Lemma ops_shrink ttl i t h t' h' o : tstep_code ttl i t h t' h' -> o ∈ t_ops t' -> o ∈ t_ops t.
Proof.
  assert (Htl : forall l : list cop, o ∈ tail l -> o ∈ l).
  { intros [|a l]; cbn; [auto|]. intros; right; auto. }
  assert (Hck : forall r, o ∈ t_ops (checked r t) -> o ∈ t_ops t).
  { intros [| |]; cbn; auto; intros H; inversion H. }
  intros H Ho; inversion H; subst; first [ exact Ho | apply Htl; exact Ho | eapply Hck; exact Ho ].
Qed.

Lemma uses_shrink ttl i t h t' h' x : tstep_code ttl i t h t' h' -> x ∈ uses (t_ops t') -> x ∈ uses (t_ops t).
Proof.
  intros Hs. unfold uses. rewrite !elem_of_list_In, !in_flat_map.
  intros (o & Ho & Hx). exists o. split; auto.
  apply elem_of_list_In. eapply ops_shrink; eauto. apply elem_of_list_In. auto.
Qed.

Lemma adds_shrink ttl i t h t' h' raw :
  tstep_code ttl i t h t' h' -> Exists (adds raw) (t_ops t') -> Exists (adds raw) (t_ops t).
Proof.
  intros Hs. rewrite !Exists_exists. intros (o & Ho & Ha). exists o. split; auto.
  eapply ops_shrink; eauto.
Qed.

Lemma pending_add_step ttl i t h t' h' thr raw :
  thr !! i = Some t -> tstep_code ttl i t h t' h' ->
  pending_add raw (<[i := t']> thr) -> pending_add raw thr.
Proof.
  intros Hi Hs (j & tj & Hj & Ha). apply lookup_upd in Hj as [[-> ->]|[Hne Hj]].
  - exists i, t. split; auto. eapply adds_shrink; eauto.
  - exists j, tj. auto.
Qed.

Lemma head_in {A} (a : A) l r : l = a :: r -> a ∈ l.
Proof. intros ->. left. Qed.

Lemma uses_head_check now spx r ops : ops = OCheck now spx :: r -> spx ∈ uses ops.
Proof. intros ->. cbn. left. Qed.

Lemma uses_head_remove spx r ops : ops = ORemove spx :: r -> spx ∈ uses ops.
Proof. intros ->. cbn. left. Qed.

Lemma pending_of_head thr j tj now raw u r :
  thr !! j = Some tj -> t_ops tj = OAdd now raw u :: r -> pending_add raw thr.
Proof. intros Hj Ho. exists j, tj. split; auto. rewrite Ho. left. reflexivity. Qed.

(** A key in memory that decodes to [raw] is the canonical spelling of [raw]. *)
Lemma mem_key_of st spx raw :
  (forall key s, c_mem st !! key = Some s -> exists raw, key = hex_encode raw /\ is_bytes raw) ->
  is_Some (c_mem st !! spx) -> hex_decode_prefix spx = raw -> spx = hex_encode raw /\ is_bytes raw.
Proof.
  intros Hm [s Hs] Hd. destruct (Hm _ _ Hs) as (raw' & -> & Hb).
  rewrite hex_decode_encode in Hd by auto. subst. auto.
Qed.

(** ** Preservation by a step of a thread *)

Ltac inv_step Est :=
  inversion Est as
   [ tag0 r0 Ho Hp Hl
   | now0 spx r0 Ho Hp Hl Hm
   | now0 spx r0 s0 Ho Hp Hl Hm
   | now0 spx r0 s0 Ho Hp Hl Hm
   | now0 spx r0 s0 Ho Hp Hl Hm
   | now0 spx r0 key0 s0 Ho Hp
   | now0 spx r0 key0 Ho Hp
   | now0 spx r0 res0 Ho Hp
   | spx r0 Ho Hp Hl
   | spx r0 Ho Hp
   | now0 raw0 u0 r0 Ho Hp Hl
   | now0 raw0 u0 r0 Ho Hp ]; subst.

Ltac simp := cbn [with_shared shared_of c_mem c_disk c_lock c_thr c_out c_known
                  h_mem h_disk h_lock h_out set_mem set_disk set_lock add_out] in *.

Lemma pd_keep (thr : list thread) i t t' raw :
  thr !! i = Some t ->
  (exists j tj, thr !! j = Some tj /\ del_witness raw tj) -> ~ del_witness raw t ->
  exists j tj, <[i := t']> thr !! j = Some tj /\ del_witness raw tj.
Proof.
  intros Et (j & tj & Hj & Hw) Hn. exists j, tj. split; auto.
  rewrite lookup_upd_other; auto. intros ->. rewrite Et in Hj. congruence.
Qed.

Lemma pd_new (thr : list thread) i t t' raw :
  thr !! i = Some t -> del_witness raw t' ->
  exists j tj, <[i := t']> thr !! j = Some tj /\ del_witness raw tj.
Proof. intros Et Hw. exists i, t'. split; auto. eapply lookup_upd_same; eauto. Qed.

Section Step.
Context (ttl : N) (i : nat) (st : cstate) (t t' : thread) (h' : shared).
Hypothesis Hi : cinv st.
Hypothesis Et : c_thr st !! i = Some t.
Hypothesis Est : tstep_code ttl i t (shared_of st) t' h'.

Let st' := with_shared h' (<[i := t']> (c_thr st)) st.

Lemma step_mem : forall key s, c_mem st' !! key = Some s -> exists raw, key = hex_encode raw /\ is_bytes raw.
Proof.
  subst st'. intros key s. inv_step Est; simp; try exact (ci_mem _ Hi key s).
  - rewrite lookup_delete_Some. intros [_ Hq]. eapply ci_mem; eauto.
  - rewrite lookup_insert_Some. intros [[<- _]|[_ Hq]]; eapply ci_mem; eauto.
  - rewrite lookup_delete_Some. intros [_ Hq]. eapply ci_mem; eauto.
  - rewrite lookup_insert_Some. intros [[<- _]|[_ Hq]]; [|eapply ci_mem; eauto].
    exists raw0. split; auto. eapply (ci_addb _ Hi i t); eauto. eapply head_in; eauto.
Qed.

Lemma step_disk : forall raw s, c_disk st' !! raw = Some s -> is_bytes raw.
Proof.
  subst st'. intros raw s. inv_step Est; simp; try exact (ci_disk _ Hi raw s).
  - rewrite lookup_insert_Some. intros [[<- _]|[_ Hq]]; [|eapply ci_disk; eauto].
    destruct (ci_put _ Hi i t now0 spx r0 key0 s0 Et Ho Hp) as [-> Hm].
    eapply mem_key_of; eauto. apply (ci_mem _ Hi).
  - rewrite lookup_delete_Some. intros [_ Hq]. eapply ci_disk; eauto.
  - rewrite lookup_delete_Some. intros [_ Hq]. eapply ci_disk; eauto.
  - rewrite lookup_insert_Some. intros [[<- _]|[_ Hq]]; [|eapply ci_disk; eauto].
    eapply (ci_addb _ Hi i t); eauto. eapply head_in; eauto.
Qed.

Lemma step_thr_eq : c_thr st' = <[i := t']> (c_thr st).
Proof. reflexivity. Qed.

Lemma step_known : c_known st' = c_known st.
Proof. reflexivity. Qed.

Lemma step_addb : forall j tj now raw u, c_thr st' !! j = Some tj -> OAdd now raw u ∈ t_ops tj -> is_bytes raw.
Proof.
  intros j tj now raw u Hj Hq. rewrite step_thr_eq in Hj.
  apply lookup_upd in Hj as [[-> ->]|[Hne Hj]].
  - eapply (ci_addb _ Hi i t); eauto. eapply ops_shrink; eauto.
  - eapply (ci_addb _ Hi j tj); eauto.
Qed.

Lemma step_uses : forall j tj x, c_thr st' !! j = Some tj -> x ∈ uses (t_ops tj) -> x ∈ c_known st'.
Proof.
  intros j tj x Hj Hx. rewrite step_thr_eq in Hj. rewrite step_known.
  apply lookup_upd in Hj as [[-> ->]|[Hne Hj]].
  - eapply (ci_uses _ Hi i t); eauto. eapply uses_shrink; eauto.
  - eapply (ci_uses _ Hi j tj); eauto.
Qed.

Lemma step_out : forall x, x ∈ c_out st' -> x ∈ c_known st'.
Proof.
  subst st'. intros x. inv_step Est; simp; try exact (ci_out _ Hi x).
  rewrite elem_of_cons. intros [->|Hq]; [|eapply ci_out; eauto].
  eapply (ci_uses _ Hi i t); eauto. eapply uses_head_remove; eauto.
Qed.

Lemma step_fresh : forall raw, hex_encode raw ∈ c_known st' -> ~ pending_add raw (c_thr st').
Proof.
  intros raw Hk Hq. rewrite step_thr_eq in Hq. rewrite step_known in Hk.
  eapply (ci_fresh _ Hi); eauto. eapply pending_add_step; eauto.
Qed.

Lemma holding_pc tj : holding tj -> t_pc tj <> PStart /\ t_pc tj <> PMid.
Proof. unfold holding. destruct (t_pc tj); intros Hh; try contradiction; split; discriminate. Qed.

Lemma step_lock : forall j tj, c_thr st' !! j = Some tj -> holding tj -> c_lock st' = Some j.
Proof.
  intros j tj Hj Hh. rewrite step_thr_eq in Hj.
  apply lookup_upd in Hj as [[-> ->]|[Hne Hj]].
  - subst st'. inv_step Est; simp;
      try (exfalso; apply holding_pc in Hh as [Hh1 Hh2]; cbn in Hh1, Hh2; congruence);
      try reflexivity.
    + eapply (ci_lock _ Hi); eauto. unfold holding. rewrite Hp. exact I.
    + eapply (ci_lock _ Hi); eauto. unfold holding. rewrite Hp. exact I.
    + exfalso. apply holding_pc in Hh as [Hh1 Hh2]. destruct res0; cbn in Hh1; congruence.
  - pose proof (ci_lock _ Hi j tj Hj Hh) as Hlk.
    subst st'. inv_step Est; simp; try exact Hlk; try congruence.
    exfalso. assert (Hti : c_lock st = Some i).
    { eapply (ci_lock _ Hi); eauto. unfold holding. rewrite Hp. exact I. }
    congruence.
Qed.

Lemma other_holding_locked j tj : j <> i -> c_thr st !! j = Some tj -> holding tj -> c_lock st <> None.
Proof. intros Hne Hj Hh. rewrite (ci_lock _ Hi j tj Hj Hh). discriminate. Qed.

Lemma step_put : forall j tj now spx r key s, c_thr st' !! j = Some tj ->
  t_ops tj = OCheck now spx :: r -> t_pc tj = PHoldPut key s ->
  key = hex_decode_prefix spx /\ is_Some (c_mem st' !! spx).
Proof.
  intros j tj now spx1 r key s Hj Hops Hpc. rewrite step_thr_eq in Hj.
  apply lookup_upd in Hj as [[-> ->]|[Hne Hj]].
  - subst st'. inv_step Est; simp; cbn in Hpc, Hops; try discriminate;
      try (destruct res0; cbn in Hpc; discriminate).
    injection Hpc as <- <-. rewrite Ho in Hops. injection Hops as <- <- <-.
    split; auto. rewrite lookup_insert. eauto.
  - destruct (ci_put _ Hi j tj now spx1 r key s Hj Hops Hpc) as [HK HM].
    assert (Hlk : c_lock st <> None).
    { eapply other_holding_locked; eauto. unfold holding. rewrite Hpc. exact I. }
    subst st'. inv_step Est; simp; try (split; [auto|exact HM]); contradiction.
Qed.

Lemma memdead_known x : memdead x st -> x ∈ c_known st.
Proof.
  intros [Hx|(j & tj & r & Hj & Hops & _)].
  - eapply ci_out; eauto.
  - eapply (ci_uses _ Hi j tj); eauto. eapply uses_head_remove; eauto.
Qed.

(** Who is dead after the step was dead before it, or this step is the first
    half of its [removeSession]. *)
Lemma memdead_back x : memdead x st' ->
  memdead x st \/ (exists r, t_ops t = ORemove x :: r /\ t_pc t = PStart /\ c_mem st' = delete x (c_mem st)).
Proof.
  intros [Hx|(j & tj & r & Hj & Hops & Hpc)].
  - subst st'. inv_step Est; simp; try (left; left; exact Hx).
    apply elem_of_cons in Hx as [->|Hx]; [|left; left; exact Hx].
    left. right. exists i, t, r0. auto.
  - rewrite step_thr_eq in Hj. apply lookup_upd in Hj as [[-> ->]|[Hne Hj]].
    + subst st'. inv_step Est; simp; cbn in Hpc, Hops; try discriminate;
        try (destruct res0; cbn in Hpc; discriminate); try congruence.
      right. rewrite Ho in Hops. injection Hops as <- <-. exists r0. auto.
    + left. right. exists j, tj, r. auto.
Qed.

Lemma step_memdead : forall raw, is_bytes raw -> memdead (hex_encode raw) st' -> c_mem st' !! hex_encode raw = None.
Proof.
  intros raw Hb Hd. apply memdead_back in Hd as [Hd|(r & Hops & Hpc & ->)]; [|apply lookup_delete].
  pose proof (ci_memdead _ Hi raw Hb Hd) as Hn. pose proof (memdead_known _ Hd) as Hkn.
  subst st'. inv_step Est; simp; try exact Hn.
  - apply lookup_delete_None. auto.
  - destruct (decide (spx = hex_encode raw)) as [->|Hne]; [congruence|].
    rewrite lookup_insert_ne by auto. exact Hn.
  - apply lookup_delete_None. auto.
  - destruct (decide (hex_encode raw0 = hex_encode raw)) as [E|Hne].
    + apply (inj hex_encode) in E. subst raw0. exfalso.
      eapply (ci_fresh _ Hi); eauto. eapply pending_of_head; eauto.
    + rewrite lookup_insert_ne by auto. exact Hn.
Qed.

Lemma step_diskdead : forall raw, is_bytes raw -> hex_encode raw ∈ c_out st' -> c_disk st' !! raw = None.
Proof.
  intros raw Hb Hx. subst st'. inv_step Est; simp; try exact (ci_diskdead _ Hi raw Hb Hx).
  - (* the refresh store *)
    pose proof (ci_diskdead _ Hi raw Hb Hx) as Hn.
    destruct (ci_put _ Hi i t now0 spx r0 key0 s0 Et Ho Hp) as [-> HM].
    destruct (decide (hex_decode_prefix spx = raw)) as [E|Hne]; [|rewrite lookup_insert_ne by auto; exact Hn].
    exfalso. destruct (mem_key_of st spx raw (ci_mem _ Hi) HM E) as [-> _].
    rewrite (ci_memdead _ Hi raw Hb) in HM; [destruct HM; discriminate|]. left. exact Hx.
  - apply lookup_delete_None. right. exact (ci_diskdead _ Hi raw Hb Hx).
  - apply elem_of_cons in Hx as [<-|Hx].
    + rewrite hex_decode_encode by auto. apply lookup_delete.
    + apply lookup_delete_None. right. exact (ci_diskdead _ Hi raw Hb Hx).
  - pose proof (ci_diskdead _ Hi raw Hb Hx) as Hn.
    destruct (decide (raw0 = raw)) as [->|Hne]; [|rewrite lookup_insert_ne by auto; exact Hn].
    exfalso. eapply (ci_fresh _ Hi raw); [eapply ci_out; eauto|]. eapply pending_of_head; eauto.
Qed.

Lemma step_addmid : forall j tj now raw u r, c_thr st' !! j = Some tj ->
  t_ops tj = OAdd now raw u :: r -> t_pc tj = PMid -> is_Some (c_mem st' !! hex_encode raw).
Proof.
  intros j tj now raw u r Hj Hops Hpc. rewrite step_thr_eq in Hj.
  apply lookup_upd in Hj as [[-> ->]|[Hne Hj]].
  - subst st'. inv_step Est; simp; cbn in Hpc, Hops; try discriminate;
      try (destruct res0; cbn in Hpc; discriminate); try congruence.
    rewrite Ho in Hops. injection Hops as <- <- <- <-. rewrite lookup_insert. eauto.
  - pose proof (ci_addmid _ Hi j tj now raw u r Hj Hops Hpc) as HM.
    assert (Hpa : pending_add raw (c_thr st)) by (eapply pending_of_head; eauto).
    assert (Hnk : hex_encode raw ∉ c_known st) by (intros Hk; eapply (ci_fresh _ Hi); eauto).
    subst st'. inv_step Est; simp; try exact HM.
    + rewrite lookup_delete_ne; [exact HM|]. intros ->. apply Hnk.
      eapply (ci_uses _ Hi i t); eauto. eapply uses_head_check; eauto.
    + apply lookup_insert_is_Some'. auto.
    + rewrite lookup_delete_ne; [exact HM|]. intros ->. apply Hnk.
      eapply (ci_uses _ Hi i t); eauto. eapply uses_head_remove; eauto.
    + apply lookup_insert_is_Some'. auto.
Qed.

Lemma not_witness_pc raw : t_pc t <> PMid -> (forall k, t_pc t <> PHoldDel k) -> ~ del_witness raw t.
Proof.
  intros H1 H2 [(x & r & _ & Hpc & _)|(now & x & r & _ & Hpc)]; [contradiction|]. eapply H2; eauto.
Qed.

Lemma step_mirror : forall raw s, c_disk st' !! raw = Some s ->
  is_Some (c_mem st' !! hex_encode raw) \/ pending_del raw st'.
Proof.
  intros raw s Hd.
  assert (Hkeep : t_pc t <> PMid -> (forall k, t_pc t <> PHoldDel k) ->
                  c_disk st !! raw = Some s -> c_mem st' = c_mem st ->
                  is_Some (c_mem st' !! hex_encode raw) \/ pending_del raw st').
  { intros H1 H2 Hds Hms. rewrite Hms.
    destruct (ci_mirror _ Hi raw s Hds) as [HM|Hpd]; [left; exact HM|right].
    unfold pending_del; simp; eapply pd_keep; eauto. apply not_witness_pc; auto. }
  revert Hd Hkeep. subst st'. inv_step Est; simp; intros Hd Hkeep.
  - apply Hkeep; auto; rewrite Hp; discriminate.
  - apply Hkeep; auto; rewrite Hp; discriminate.
  - (* expired: the map entry goes, the file delete is pending *)
    pose proof (ci_disk _ Hi raw s Hd) as Hb.
    destruct (decide (spx = hex_encode raw)) as [->|Hne].
    + right. unfold pending_del; simp; eapply pd_new; eauto. right. exists now0, (hex_encode raw), r0. cbn. rewrite hex_decode_encode by auto. auto.
    + destruct (ci_mirror _ Hi raw s Hd) as [HM|Hpd].
      * left. rewrite lookup_delete_ne by auto. exact HM.
      * right. unfold pending_del; simp; eapply pd_keep; eauto. apply not_witness_pc; rewrite Hp; discriminate.
  - apply Hkeep; auto; rewrite Hp; discriminate.
  - destruct (ci_mirror _ Hi raw s Hd) as [HM|Hpd].
    + left. apply lookup_insert_is_Some'. auto.
    + right. unfold pending_del; simp; eapply pd_keep; eauto. apply not_witness_pc; rewrite Hp; discriminate.
  - (* the refresh store *)
    destruct (ci_put _ Hi i t now0 spx r0 key0 s0 Et Ho Hp) as [-> HM].
    destruct (decide (hex_decode_prefix spx = raw)) as [E|Hne].
    + left. destruct (mem_key_of st spx raw (ci_mem _ Hi) HM E) as [-> _]. exact HM.
    + rewrite lookup_insert_ne in Hd by auto. apply Hkeep; auto; rewrite Hp; discriminate.
  - (* the delete of an expired record *)
    apply lookup_delete_Some in Hd as [Hne Hd].
    destruct (ci_mirror _ Hi raw s Hd) as [HM|Hpd]; [left; exact HM|right].
    unfold pending_del; simp; eapply pd_keep; eauto.
    intros [(x & r & Hops & _)|(now & x & r & _ & Hpc)]; [congruence|]. rewrite Hp in Hpc. congruence.
  - apply Hkeep; auto; rewrite Hp; discriminate.
  - (* removeSession, first half *)
    pose proof (ci_disk _ Hi raw s Hd) as Hb.
    destruct (decide (spx = hex_encode raw)) as [->|Hne].
    + right. unfold pending_del; simp; eapply pd_new; eauto. left. exists (hex_encode raw), r0. cbn. rewrite hex_decode_encode by auto. auto.
    + destruct (ci_mirror _ Hi raw s Hd) as [HM|Hpd].
      * left. rewrite lookup_delete_ne by auto. exact HM.
      * right. unfold pending_del; simp; eapply pd_keep; eauto. apply not_witness_pc; rewrite Hp; discriminate.
  - (* removeSession, second half *)
    apply lookup_delete_Some in Hd as [Hne Hd].
    destruct (ci_mirror _ Hi raw s Hd) as [HM|Hpd]; [left; exact HM|right].
    unfold pending_del; simp; eapply pd_keep; eauto.
    intros [(x & r & Hops & _ & Hx)|(now & x & r & Hops & _)]; [|congruence].
    rewrite Ho in Hops. injection Hops as <- <-. congruence.
  - destruct (ci_mirror _ Hi raw s Hd) as [HM|Hpd].
    + left. apply lookup_insert_is_Some'. auto.
    + right. unfold pending_del; simp; eapply pd_keep; eauto. apply not_witness_pc; rewrite Hp; discriminate.
  - (* addSession, second half *)
    destruct (decide (raw0 = raw)) as [->|Hne].
    + left. eapply (ci_addmid _ Hi i t); eauto.
    + rewrite lookup_insert_ne in Hd by auto.
      destruct (ci_mirror _ Hi raw s Hd) as [HM|Hpd]; [left; exact HM|right].
      unfold pending_del; simp; eapply pd_keep; eauto.
      intros [(x & r & Hops & _)|(now & x & r & Hops & _)]; congruence.
Qed.

Lemma step_cinv : cinv st'.
Proof.
  split; [exact step_mem|exact step_disk|exact step_addb|exact step_uses|exact step_out|exact step_fresh
         |exact step_lock|exact step_put|exact step_memdead|exact step_diskdead|exact step_addmid|exact step_mirror].
Qed.
End Step.

Lemma cstep_cinv ttl i st st' : cinv st -> cstep (code_cfg ttl) i st = Some st' -> cinv st'.
Proof.
  intros Hi Hs. unfold cstep in Hs.
  destruct (c_thr st !! i) as [t|] eqn:Et; [|discriminate].
  destruct (tstep (code_cfg ttl) i t (shared_of st)) as [[t' h']|] eqn:Est; [|discriminate].
  injection Hs as <-. apply tstep_code_spec in Est. eapply step_cinv; eauto.
Qed.

(** ** Preservation by an arrival *)

Lemma lookup_snoc (thr : list thread) tn j tj :
  (thr ++ [tn]) !! j = Some tj -> thr !! j = Some tj \/ tj = tn.
Proof.
  intros H. apply lookup_app_Some in H as [H|[_ H]]; [left; exact H|right].
  destruct (j - length thr)%nat; cbn in H; [congruence|discriminate].
Qed.

Lemma spawn_cinv st ops : cinv st -> admissible st ops -> cinv (cspawn ops st).
Proof.
  intros Hi [Ha1 Ha2]. split; cbn [cspawn c_mem c_disk c_lock c_thr c_out c_known].
  - exact (ci_mem _ Hi).
  - exact (ci_disk _ Hi).
  - intros j tj now raw u Hj Ho. apply lookup_snoc in Hj as [Hj| ->].
    + eapply (ci_addb _ Hi); eauto.
    + cbn in Ho. eapply Ha1; eauto.
  - intros j tj x Hj Hx. apply elem_of_app. apply lookup_snoc in Hj as [Hj| ->].
    + right. eapply (ci_uses _ Hi); eauto.
    + left. exact Hx.
  - intros x Hx. apply elem_of_app. right. eapply ci_out; eauto.
  - intros raw Hk (j & tj & Hj & He).
    assert (Hcases : pending_add raw (c_thr st) \/ Exists (adds raw) ops).
    { apply lookup_snoc in Hj as [Hj| ->]; [left; exists j, tj; auto|right; exact He]. }
    apply elem_of_app in Hk as [Hk|Hk].
    + destruct Hcases as [Hp|He'].
      * eapply Ha2; eauto.
      * apply Exists_exists in He' as ([ | | |now r u] & Hin & Had); try contradiction.
        cbn in Had. subst r. destruct (Ha1 _ _ _ Hin) as (_ & _ & Hnu & _). contradiction.
    + destruct Hcases as [Hp|He'].
      * eapply (ci_fresh _ Hi); eauto.
      * apply Exists_exists in He' as ([ | | |now r u] & Hin & Had); try contradiction.
        cbn in Had. subst r. destruct (Ha1 _ _ _ Hin) as (_ & Hnk & _). contradiction.
  - intros j tj Hj Hh. apply lookup_snoc in Hj as [Hj| ->].
    + eapply (ci_lock _ Hi); eauto.
    + contradiction.
  - intros j tj now spx r key s Hj Ho Hp. apply lookup_snoc in Hj as [Hj| ->].
    + eapply (ci_put _ Hi); eauto.
    + discriminate.
  - intros raw Hb [Hx|(j & tj & r & Hj & Ho & Hp)].
    + apply (ci_memdead _ Hi raw Hb). left. exact Hx.
    + apply lookup_snoc in Hj as [Hj| ->]; [|discriminate].
      apply (ci_memdead _ Hi raw Hb). right. exists j, tj, r. auto.
  - exact (ci_diskdead _ Hi).
  - intros j tj now raw u r Hj Ho Hp. apply lookup_snoc in Hj as [Hj| ->]; [|discriminate].
    eapply (ci_addmid _ Hi); eauto.
  - intros raw s Hd. destruct (ci_mirror _ Hi raw s Hd) as [Hm|(j & tj & Hj & Hw)]; [left; exact Hm|right].
    exists j, tj. split; auto. cbn. apply lookup_app_l_Some. exact Hj.
Qed.

(** ** Preservation by a restart, and the start *)

Lemma loaded_cinv (d : gmap bytes sess) (out known : list bytes) :
  (forall raw s, d !! raw = Some s -> is_bytes raw) ->
  (forall x, x ∈ out -> x ∈ known) ->
  (forall raw, is_bytes raw -> hex_encode raw ∈ out -> d !! raw = None) ->
  cinv {| c_mem := kmap hex_encode d; c_disk := d; c_lock := None; c_thr := []; c_out := out; c_known := known |}.
Proof.
  intros Hd Ho Hdead. split; cbn.
  - intros key s H. apply lookup_kmap_Some in H as (raw & -> & H); [|apply _]. eauto.
  - exact Hd.
  - intros j tj now raw u Hj. try rewrite lookup_nil in Hj; discriminate.
  - intros j tj x Hj. try rewrite lookup_nil in Hj; discriminate.
  - exact Ho.
  - intros raw _ (j & tj & Hj & _). try rewrite lookup_nil in Hj; discriminate.
  - intros j tj Hj. try rewrite lookup_nil in Hj; discriminate.
  - intros j tj now spx r key s Hj. try rewrite lookup_nil in Hj; discriminate.
  - intros raw Hb [Hx|(j & tj & r & Hj & _)]; [|try rewrite lookup_nil in Hj; discriminate].
    rewrite lookup_kmap by apply _. apply Hdead; auto.
  - exact Hdead.
  - intros j tj now raw u r Hj. try rewrite lookup_nil in Hj; discriminate.
  - intros raw s H. left. rewrite lookup_kmap by apply _. eauto.
Qed.

Lemma restart_cinv now st : cinv st -> cinv (crestart now st).
Proof.
  intros Hi. unfold crestart. apply loaded_cinv.
  - intros raw s H. apply map_filter_lookup_Some in H as [H _]. eapply ci_disk; eauto.
  - exact (ci_out _ Hi).
  - intros raw Hb Hx. apply map_filter_lookup_None. left. apply (ci_diskdead _ Hi); auto.
Qed.

Lemma start_cinv d : (forall raw s, d !! raw = Some s -> is_bytes raw) -> cinv (cstart d).
Proof.
  intros Hd. unfold cstart. apply loaded_cinv.
  - exact Hd.
  - intros x Hx. inversion Hx.
  - intros raw _ Hx. inversion Hx.
Qed.

(** ** Every reachable state *)

Section Reach.
Context (ttl : N) (ok : cstate -> list cop -> Prop).
Hypothesis Hok : forall st ops, ok st ops -> admissible st ops.

Lemma trans_cinv st st' : cinv st -> ctrans (code_cfg ttl) ok st st' -> cinv st'.
Proof.
  intros Hi Ht. destruct Ht as [i s s' Hs|ops s Ho|now s].
  - eapply cstep_cinv; eauto.
  - apply spawn_cinv; auto.
  - apply restart_cinv; auto.
Qed.

Lemma reach_cinv st st' : cinv st -> creach (code_cfg ttl) ok st st' -> cinv st'.
Proof. intros Hi Hr. induction Hr; eauto using trans_cinv. Qed.

(** What has been answered stays answered. *)
Lemma trans_out st st' x : ctrans (code_cfg ttl) ok st st' -> x ∈ c_out st -> x ∈ c_out st'.
Proof.
  intros Ht Hx. destruct Ht as [i s s' Hs|ops s Ho|now s]; [|exact Hx|exact Hx].
  unfold cstep in Hs.
  destruct (c_thr s !! i) as [t|] eqn:Et; [|discriminate].
  destruct (tstep (code_cfg ttl) i t (shared_of s)) as [[t' h']|] eqn:Est; [|discriminate].
  injection Hs as <-. apply tstep_code_spec in Est.
  inv_step Est; simp; auto. right. exact Hx.
Qed.

Lemma reach_out st st' x : creach (code_cfg ttl) ok st st' -> x ∈ c_out st -> x ∈ c_out st'.
Proof. intros Hr. induction Hr; eauto using trans_out. Qed.

(** In a state that satisfies the invariant, a token whose removeSession has
    returned is in neither table, under any spelling. *)
Lemma out_dead st raw :
  cinv st -> is_bytes raw -> hex_encode raw ∈ c_out st ->
  c_disk st !! raw = None /\ forall sp', hex_decode_prefix sp' = raw -> c_mem st !! sp' = None.
Proof.
  intros Hi Hb Hx. split; [apply (ci_diskdead _ Hi); auto|].
  intros sp' Hd. destruct (c_mem st !! sp') as [s|] eqn:E; [|reflexivity]. exfalso.
  destruct (mem_key_of st sp' raw (ci_mem _ Hi)) as [-> _]; eauto.
  rewrite (ci_memdead _ Hi raw Hb) in E; [discriminate|]. left. exact Hx.
Qed.

(** The logout is final, whatever runs beside it and after it. *)
Theorem logout_final_concurrent d st st' raw :
  (forall r s, d !! r = Some s -> is_bytes r) ->
  creach (code_cfg ttl) ok (cstart d) st ->
  is_bytes raw -> hex_encode raw ∈ c_out st ->
  creach (code_cfg ttl) ok st st' ->
  forall sp', hex_decode_prefix sp' = raw ->
    (forall now, authenticates ttl now sp' (sstate_of st') = false) /\
    (forall now now', authenticates ttl now' sp' (sstate_of (crestart now st')) = false) /\
    c_disk st' !! raw = None.
Proof.
  intros Hd Hr Hb Hx Hr' sp' Hsp.
  assert (Hi : cinv st').
  { apply (reach_cinv (cstart d) st'); [apply start_cinv; auto|]. unfold creach. etrans; eauto. }
  assert (Hx' : hex_encode raw ∈ c_out st') by (eapply reach_out; eauto).
  destruct (out_dead st' raw Hi Hb Hx') as [Hdk Hm]. split; [|split]; auto.
  - intros now. apply absent_not_auth. cbn. auto.
  - intros now now'. apply absent_not_auth. cbn.
    destruct (out_dead (crestart now st') raw (restart_cinv now st' Hi) Hb Hx') as [_ Hm']. auto.
Qed.

(** The mirror under concurrency: what the file holds is in memory, or its
    delete is on its way (a [removeSession] between its halves, an expired
    session being dropped).  So a restart brings back nothing but sessions
    whose removal had not been answered yet. *)
Theorem mirror_concurrent d st :
  (forall r s, d !! r = Some s -> is_bytes r) ->
  creach (code_cfg ttl) ok (cstart d) st ->
  forall raw s, c_disk st !! raw = Some s ->
    is_Some (c_mem st !! hex_encode raw) \/ pending_del raw st.
Proof.
  intros Hd Hr. apply ci_mirror. apply (reach_cinv (cstart d) st); [apply start_cinv; auto|exact Hr].
Qed.

Theorem restart_resurrects_only_pending d st now sp s :
  (forall r s, d !! r = Some s -> is_bytes r) ->
  creach (code_cfg ttl) ok (cstart d) st ->
  c_mem (crestart now st) !! sp = Some s ->
  is_Some (c_mem st !! sp) \/ pending_del (hex_decode_prefix sp) st.
Proof.
  intros Hd Hr H. cbn in H. apply lookup_kmap_Some in H as (raw & -> & H); [|apply _].
  apply map_filter_lookup_Some in H as [H _].
  assert (Hi : cinv st) by (apply (reach_cinv (cstart d) st); [apply start_cinv; auto|exact Hr]).
  rewrite hex_decode_encode by (eapply ci_disk; eauto).
  eapply ci_mirror; eauto.
Qed.

(** Only one request at a time is inside a lock section that contains a
    transaction, and it is the one the lock names. *)
Theorem sections_exclusive d st j1 j2 t1 t2 :
  (forall r s, d !! r = Some s -> is_bytes r) ->
  creach (code_cfg ttl) ok (cstart d) st ->
  c_thr st !! j1 = Some t1 -> c_thr st !! j2 = Some t2 -> holding t1 -> holding t2 -> j1 = j2.
Proof.
  intros Hd Hr H1 H2 Hh1 Hh2.
  assert (Hi : cinv st) by (apply (reach_cinv (cstart d) st); [apply start_cinv; auto|exact Hr]).
  pose proof (ci_lock _ Hi _ _ H1 Hh1). pose proof (ci_lock _ Hi _ _ H2 Hh2). congruence.
Qed.
End Reach.

(** * Schedules: concrete runs *)

Inductive act := ASpawn (ops : list cop) | AStep (i : nat) | ARestart (now : N).

Fixpoint exec (cfg : ccfg) (acts : list act) (st : cstate) : option cstate :=
  match acts with
  | [] => Some st
  | ASpawn ops :: a => exec cfg a (cspawn ops st)
  | AStep i :: a => match cstep cfg i st with Some st' => exec cfg a st' | None => None end
  | ARestart now :: a => exec cfg a (crestart now st)
  end.

Definition is_add (o : cop) : bool := match o with OAdd _ _ _ => true | _ => false end.
Definition noadd (ops : list cop) : bool := forallb (fun o => negb (is_add o)) ops.

(** Requests that issue nothing are admissible as long as no login is under way. *)
Lemma admissible_noadd st ops :
  noadd ops = true -> forallb (fun t => noadd (t_ops t)) (c_thr st) = true -> admissible st ops.
Proof.
  intros Ho Ht.
  assert (Hnp : forall raw, ~ pending_add raw (c_thr st)).
  { intros raw (j & tj & Hj & He). apply Exists_exists in He as (o & Hin & Ha).
    rewrite forallb_forall in Ht. apply elem_of_list_lookup_2, elem_of_list_In in Hj.
    specialize (Ht _ Hj). unfold noadd in Ht. rewrite forallb_forall in Ht.
    apply elem_of_list_In in Hin. specialize (Ht _ Hin). destruct o; cbn in *; try contradiction. discriminate. }
  split; [|intros raw _; apply Hnp].
  intros now raw u Hin. exfalso. unfold noadd in Ho. rewrite forallb_forall in Ho.
  apply elem_of_list_In in Hin. specialize (Ho _ Hin). discriminate.
Qed.

(** The example: a session of user "a" with token [ex_tok], a day old
    (created at 913600 with a TTL of 30 days, so it expires at 3505600), and
    the instant 1000000 of the next day. *)
Definition ex_ttl : N := 2592000.
Definition ex_now : N := 1000000.
Definition ex_old : sess := {| s_user := [97]; s_expire := 3505600 |}.
Definition ex_d : gmap bytes sess := {[ ex_tok := ex_old ]}.
Definition ex_L : list cop := [ORemove ex_sp].                        (* handleLogout *)
Definition ex_R : list cop := [ORead 0; OCheck ex_now ex_sp].          (* an authenticated request *)

Lemma ex_d_bytes : forall r s, ex_d !! r = Some s -> is_bytes r.
Proof. intros r s H. unfold ex_d in H. apply lookup_singleton_Some in H as [<- _]. apply ex_tok_bytes. Qed.

(** Non-vacuity of [logout_final_concurrent]: the request enters its section
    first, finds the session, refreshes it (holding the lock over the store),
    is served; the logout had to wait for the lock, then removes the session
    from memory and from the file. *)
Definition ex_sched_code : list act :=
  [ASpawn ex_L; ASpawn ex_R; AStep 1; AStep 1; AStep 1; AStep 1; AStep 0; AStep 0].

Example logout_final_premises_satisfiable :
  exists st,
    exec (code_cfg ex_ttl) ex_sched_code (cstart ex_d) = Some st /\
    creach (code_cfg ex_ttl) admissible (cstart ex_d) st /\
    is_bytes ex_tok /\ hex_encode ex_tok ∈ c_out st /\
    (* the request was served, with the refreshed expiry ... *)
    (exists t, c_thr st !! 1%nat = Some t /\ t_res t = [CSOK]) /\
    (* ... while the logout was waiting for the lock *)
    (exists st1, exec (code_cfg ex_ttl) (firstn 4 ex_sched_code) (cstart ex_d) = Some st1 /\
                 c_lock st1 = Some 1%nat /\ cstep (code_cfg ex_ttl) 0 st1 = None) /\
    authenticates ex_ttl ex_now ex_sp (sstate_of (cstart ex_d)) = true.
Proof.
  eexists. split; [vm_compute; reflexivity|].
  split.
  { eapply rtc_l. { apply (ct_spawn _ _ ex_L). apply admissible_noadd; reflexivity. }
    eapply rtc_l. { apply (ct_spawn _ _ ex_R). apply admissible_noadd; reflexivity. }
    eapply rtc_l. { apply (ct_step _ _ 1%nat). vm_compute. reflexivity. }
    eapply rtc_l. { apply (ct_step _ _ 1%nat). vm_compute. reflexivity. }
    eapply rtc_l. { apply (ct_step _ _ 1%nat). vm_compute. reflexivity. }
    eapply rtc_l. { apply (ct_step _ _ 1%nat). vm_compute. reflexivity. }
    eapply rtc_l. { apply (ct_step _ _ 0%nat). vm_compute. reflexivity. }
    eapply rtc_l. { apply (ct_step _ _ 0%nat). vm_compute. reflexivity. }
    apply rtc_refl. }
  split; [apply ex_tok_bytes|].
  split; [vm_compute; left|].
  split; [eexists; split; vm_compute; reflexivity|].
  split; [eexists; split; [vm_compute; reflexivity|split; vm_compute; reflexivity]|].
  vm_compute. reflexivity.
Qed.

(** ** The two orders are needed *)

(** removeSession deleting from the FILE first (seeded change C12-I): the
    logout deletes the record; the request, which still finds the session in
    memory, stores the refreshed record; the logout deletes the map entry and
    is answered.  The token is dead in this process and alive after a restart.
    On the code's order the request is refused and nothing comes back. *)
Definition file_first_cfg (ttl : N) : ccfg := {| cc_ttl := ttl; cc_rm := FileFirst; cc_store := StoreLocked |}.

Definition ex_sched_seed : list act :=
  [ASpawn ex_L; ASpawn ex_R; AStep 0; AStep 1; AStep 1; AStep 1; AStep 1; AStep 0].

Example logout_file_first_refuted :
  exists st,
    exec (file_first_cfg ex_ttl) ex_sched_seed (cstart ex_d) = Some st /\
    hex_encode ex_tok ∈ c_out st /\
    finished <$> c_thr st = [true; true] /\
    authenticates ex_ttl (ex_now + 10) ex_sp (sstate_of st) = false /\
    authenticates ex_ttl (ex_now + 10) ex_sp (sstate_of (crestart (ex_now + 5) st)) = true /\
    (* the code, same arrivals, the logout first again: the request is refused
       after its lookup, so it has two steps less *)
    (exists st', exec (code_cfg ex_ttl) [ASpawn ex_L; ASpawn ex_R; AStep 0; AStep 1; AStep 1; AStep 0] (cstart ex_d) = Some st' /\
                 authenticates ex_ttl (ex_now + 10) ex_sp (sstate_of (crestart (ex_now + 5) st')) = false).
Proof.
  eexists. split; [vm_compute; reflexivity|].
  split; [vm_compute; left|].
  repeat split; try (vm_compute; reflexivity).
  eexists. split; vm_compute; reflexivity.
Qed.

(** The same over HTTP only (the logout request passes optionalAuth's
    checkSession first, which would do the refresh itself): the two requests
    read the clock on either side of a day boundary of now + ttl.  Session
    created at 86399 (expiry 2678399, day 30); the logout request reads 86399
    (same day: no refresh), the other request reads 86400 (day 31: refresh). *)
Definition ex_young : sess := {| s_user := [97]; s_expire := 2678399 |}.

Example logout_file_first_http_refuted :
  let d : gmap bytes sess := {[ ex_tok := ex_young ]} in
  let Lg := [ORead 0; OCheck 86399 ex_sp; ORemove ex_sp] in
  let R := [ORead 0; OCheck 86400 ex_sp] in
  exists st,
    exec (file_first_cfg ex_ttl)
         [ASpawn Lg; ASpawn R; AStep 0; AStep 0; AStep 0; AStep 1; AStep 1; AStep 1; AStep 1; AStep 0] (cstart d) = Some st /\
    hex_encode ex_tok ∈ c_out st /\
    authenticates ex_ttl 86500 ex_sp (sstate_of (crestart 86450 st)) = true.
Proof. cbn zeta. eexists. split; [vm_compute; reflexivity|]. split; [vm_compute; left|vm_compute; reflexivity]. Qed.

(** checkSession storing the refreshed record AFTER leaving its section: the
    request finds the session and leaves the section; the logout removes the
    session from memory and from the file and is answered; the request's store
    brings the record back. *)
Definition store_unlocked_cfg (ttl : N) : ccfg := {| cc_ttl := ttl; cc_rm := MemFirst; cc_store := StoreUnlocked |}.

Example refresh_store_unlocked_refuted :
  exists st,
    exec (store_unlocked_cfg ex_ttl)
         [ASpawn ex_L; ASpawn ex_R; AStep 1; AStep 1; AStep 0; AStep 0; AStep 1] (cstart ex_d) = Some st /\
    hex_encode ex_tok ∈ c_out st /\
    finished <$> c_thr st = [true; true] /\
    authenticates ex_ttl (ex_now + 10) ex_sp (sstate_of st) = false /\
    authenticates ex_ttl (ex_now + 10) ex_sp (sstate_of (crestart (ex_now + 5) st)) = true /\
    (* on the code the logout cannot overtake the store: after the request has
       entered its section the logout's first step is not enabled *)
    (exists st1, exec (code_cfg ex_ttl) [ASpawn ex_L; ASpawn ex_R; AStep 1; AStep 1] (cstart ex_d) = Some st1 /\
                 cstep (code_cfg ex_ttl) 0 st1 = None).
Proof.
  eexists. split; [vm_compute; reflexivity|].
  split; [vm_compute; left|].
  repeat split; try (vm_compute; reflexivity).
  eexists. split; vm_compute; reflexivity.
Qed.

(** * Alone, a request does what the sequential model says *)

Fixpoint run0 (cfg : ccfg) (fuel : nat) (st : cstate) : cstate :=
  match fuel with
  | O => st
  | S f => match cstep cfg 0 st with Some st' => run0 cfg f st' | None => st end
  end.

Definition alone (ttl : N) (ops : list cop) (s : sstate) : cstate :=
  run0 (code_cfg ttl) 8 (cspawn ops (of_sstate s)).

Lemma sstate_eta (s : sstate) : {| ss_mem := ss_mem s; ss_disk := ss_disk s |} = s.
Proof. destruct s; reflexivity. Qed.

Theorem sequential_agrees ttl s :
  (forall now sp, sstate_of (alone ttl [OCheck now sp] s) = fst (check_session ttl now sp s) /\
                  (exists t, c_thr (alone ttl [OCheck now sp] s) = [t] /\
                             t_res t = [snd (check_session ttl now sp s)] /\ finished t = true)) /\
  (forall sp, sstate_of (alone ttl [ORemove sp] s) = logout sp s) /\
  (forall now raw u, sstate_of (alone ttl [OAdd now raw u] s) = new_session ttl now raw u s) /\
  (forall now sp, sstate_of (alone ttl [ORead 0; OCheck now sp; ORemove sp] s) = fst (logout_request ttl now sp s)).
Proof.
  split; [|split; [|split]].
  - intros now sp. unfold alone, check_session.
    cbn -[u32 day N.div N.leb N.eqb hex_decode_prefix].
    destruct (ss_mem s !! sp) as [s0|] eqn:E; cbn -[u32 day N.div N.leb N.eqb hex_decode_prefix].
    + destruct (s_expire s0 <=? u32 now); cbn -[u32 day N.div N.leb N.eqb hex_decode_prefix].
      { split; [reflexivity|eexists; split; [reflexivity|split; reflexivity]]. }
      destruct (s_expire s0 / day =? u32 (u32 now + ttl) / day); cbn -[u32 day N.div N.leb N.eqb hex_decode_prefix].
      { split; [apply sstate_eta|eexists; split; [reflexivity|split; reflexivity]]. }
      split; [reflexivity|eexists; split; [reflexivity|split; reflexivity]].
    + split; [apply sstate_eta|eexists; split; [reflexivity|split; reflexivity]].
  - intros sp. reflexivity.
  - intros now raw u. reflexivity.
  - intros now sp. unfold alone, logout_request, check_session.
    cbn -[u32 day N.div N.leb N.eqb hex_decode_prefix].
    destruct (ss_mem s !! sp) as [s0|] eqn:E; cbn -[u32 day N.div N.leb N.eqb hex_decode_prefix].
    + destruct (s_expire s0 <=? u32 now); cbn -[u32 day N.div N.leb N.eqb hex_decode_prefix]; [reflexivity|].
      destruct (s_expire s0 / day =? u32 (u32 now + ttl) / day); cbn -[u32 day N.div N.leb N.eqb hex_decode_prefix]; reflexivity.
    + apply sstate_eta.
Qed.

(** C05, round 5: stall-freedom of the abstract lock machine.

    The theorems of Proofs/Conc.v, ConcGate.v are safety statements: no
    reachable state is a race, none is deadlocked.  The property also says
    "never stalls DNS serving": a thread that waits for a lock gets it.  In
    general that needs a fairness assumption on the scheduler; in THIS machine
    it does not, because a thread is a FINITE list of events: every step
    consumes an event or turns an un-announced Lock into an announced one, so
    every run is finite whatever the scheduler does, and the only way not to
    get a lock is a state in which nothing can move.  Hence

      no reachable deadlock  =>  every run from every reachable state is
      bounded by the events left, every run that cannot be extended ends with
      ALL threads through their programs (every acquisition was granted,
      every critical section left), and such a run exists.

    What the finite-list model cannot contain is a critical section that does
    not end (a request goroutine spinning under confMu.RLock, seeded change
    C05-I).  "The request path is a finite event list" is therefore a premise
    of all C05 theorems; for the one loop on the request path whose bound
    depends on admin data, the CNAME chase of processRewrites, it is discharged
    by C06_terminates (Props/C06.v: the chase returns for every table, name
    and type, cycles of any shape included, by the visited-set pigeonhole), and
    searched on the real code by the hostile-data harness
    (harness/dnsforward/zz_verif_C05hostile_test.go).  [holder_never_releases]
    below shows the premise is needed: one reader that never releases, one
    writer, and every later reader is blocked behind the pending writer. *)
From Coq Require Import List String Bool Arith Lia.
From AGH Require Import Base.Conc Proofs.Conc.
Import ListNotations.
Open Scope string_scope.

(** * Every step consumes *)

Definition tmeasure (th : thread) : nat :=
  2 * List.length (rest th) + (if announced th then 0 else 1).

Definition measure (s : state) : nat := list_sum (map tmeasure (threads s)).

Lemma tstep_decreases :
  forall lt th lt' th', tstep lt th lt' th' -> tmeasure th' < tmeasure th.
Proof. intros lt th lt' th' H; inversion H; subst; unfold tmeasure; simpl; lia. Qed.

Lemma step_decreases : forall s s', step s s' -> measure s' < measure s.
Proof.
  intros s s' H; inversion H; subst; unfold measure; simpl.
  rewrite !map_app, !list_sum_app; simpl.
  match goal with Ht : tstep _ _ _ _ |- _ => apply tstep_decreases in Ht end; lia.
Qed.

(** [steps n s s']: a run of exactly [n] steps. *)
Inductive steps : nat -> state -> state -> Prop :=
| steps_O : forall s, steps 0 s s
| steps_S : forall n s s1 s2, steps n s s1 -> step s1 s2 -> steps (S n) s s2.

Lemma steps_bounded : forall n s s', steps n s s' -> n + measure s' <= measure s.
Proof.
  induction 1; [lia|].
  match goal with Hs : step _ _ |- _ => apply step_decreases in Hs end; lia.
Qed.

Lemma steps_reachable : forall s0 n s s', reachable s0 s -> steps n s s' -> reachable s0 s'.
Proof.
  intros s0 n s s' Hr Hs; induction Hs; [assumption|].
  eapply reach_step; [apply IHHs; assumption|assumption].
Qed.

Lemma steps_front : forall n s s1 s', step s s1 -> steps n s1 s' -> steps (S n) s s'.
Proof.
  intros n s s1 s' H1 Hs; induction Hs.
  - eapply steps_S; [apply steps_O|assumption].
  - eapply steps_S; [apply IHHs; assumption|assumption].
Qed.

(** * Stuck states *)

Definition finished (s : state) : Prop := forall th, In th (threads s) -> rest th = [].

Definition stuck (s : state) : Prop := forall s', ~ step s s'.

Lemma can_step_dec : forall lt th, can_step lt th \/ ~ can_step lt th.
Proof.
  intros lt [ann r]; destruct r as [|e r].
  - right; intros (lt' & th' & H); inversion H.
  - destruct ann.
    + (* announced: only an acquisition in write mode goes on *)
      destruct e as [l m|l m|f|f];
        try (right; intros (lt' & th' & H); inversion H; fail).
      destruct m; [right; intros (lt' & th' & H); inversion H|].
      destruct (writer (lt l)) eqn:Hw.
      * right; intros (lt' & th' & H); inversion H; subst; congruence.
      * destruct (readers (lt l)) eqn:Hr.
        -- left; do 2 eexists; apply ts_acq_w; assumption.
        -- right; intros (lt' & th' & H); inversion H; subst; congruence.
    + destruct e as [l m|l m|f|f].
      * destruct m.
        -- destruct (writer (lt l)) eqn:Hw.
           ++ right; intros (lt' & th' & H); inversion H; subst; congruence.
           ++ destruct (pending (lt l)) eqn:Hp.
              ** left; do 2 eexists; apply ts_acq_r; assumption.
              ** right; intros (lt' & th' & H); inversion H; subst; congruence.
        -- left; do 2 eexists; apply ts_announce.
      * destruct m; left; do 2 eexists; [apply ts_rel_r|apply ts_rel_w].
      * left; do 2 eexists; apply ts_rd.
      * left; do 2 eexists; apply ts_wr.
Qed.

Lemma some_or_none :
  forall (A : Type) (P : A -> Prop), (forall x, P x \/ ~ P x) ->
  forall l : list A, (exists x, In x l /\ P x) \/ (forall x, In x l -> ~ P x).
Proof.
  intros A P Hdec l; induction l as [|a l IH].
  - right; intros x [].
  - destruct (Hdec a) as [Ha|Ha].
    + left; exists a; split; [left; reflexivity|assumption].
    + destruct IH as [(x & Hx & HP)|IH].
      * left; exists x; split; [right; assumption|assumption].
      * right; intros x [<-|Hx]; [assumption|apply IH; assumption].
Qed.

Lemma step_or_stuck : forall s, (exists s', step s s') \/ stuck s.
Proof.
  intros [lt ths].
  destruct (some_or_none thread (can_step lt) (can_step_dec lt) ths) as [(th & Hin & lt' & th' & Hs)|Hnone].
  - left. apply in_split in Hin as (pre & post & ->).
    eexists; apply step_thread; eassumption.
  - right; intros s' H; inversion H; subst.
    eapply Hnone; [apply in_or_app; right; left; reflexivity|do 2 eexists; eassumption].
Qed.

Lemma rest_nil_dec : forall th : thread, rest th <> [] \/ ~ rest th <> [].
Proof. intros [a [|e r]]; simpl; [right; intros H; apply H; reflexivity|left; discriminate]. Qed.

Lemma stuck_finished_or_deadlocked : forall s, stuck s -> finished s \/ deadlocked s.
Proof.
  intros s Hst.
  destruct (some_or_none thread (fun th => rest th <> []) rest_nil_dec (threads s)) as [(th & Hin & Hr)|Hall].
  - right; split; [exists th; split; assumption|].
    intros th' Hin' _ (lt' & th'' & Hs).
    destruct s as [lt ths]; simpl in *.
    apply in_split in Hin' as (pre & post & ->).
    eapply Hst; apply step_thread; eassumption.
  - left; intros th Hin. specialize (Hall th Hin).
    destruct (rest th); [reflexivity|exfalso; apply Hall; discriminate].
Qed.

(** * Stall-freedom *)

Definition stall_free (s0 : state) : Prop :=
  forall s, reachable s0 s ->
    (* every run from s is bounded by the events left: no scheduler can keep
       the machine busy for ever *)
    (forall n s', steps n s s' -> n + measure s' <= measure s) /\
    (* every run that cannot be extended ends with all threads through *)
    (forall n s', steps n s s' -> stuck s' -> finished s') /\
    (* and there is such a run *)
    (exists n s', steps n s s' /\ finished s').

Lemma runs_to_finished :
  forall s0, (forall s, reachable s0 s -> ~ deadlocked s) ->
  forall m s, measure s <= m -> reachable s0 s -> exists n s', steps n s s' /\ finished s'.
Proof.
  intros s0 Hnd m; induction m as [|m IH]; intros s Hm Hr.
  - destruct (step_or_stuck s) as [(s1 & Hs)|Hst].
    + apply step_decreases in Hs; lia.
    + destruct (stuck_finished_or_deadlocked s Hst) as [Hf|Hd].
      * exists 0, s; split; [apply steps_O|assumption].
      * exfalso; exact (Hnd s Hr Hd).
  - destruct (step_or_stuck s) as [(s1 & Hs)|Hst].
    + assert (Hm1 : measure s1 <= m) by (pose proof (step_decreases _ _ Hs); lia).
      destruct (IH s1 Hm1 (reach_step _ _ _ Hr Hs)) as (n & s' & Hn & Hf).
      exists (S n), s'; split; [eapply steps_front; eassumption|assumption].
    + destruct (stuck_finished_or_deadlocked s Hst) as [Hf|Hd].
      * exists 0, s; split; [apply steps_O|assumption].
      * exfalso; exact (Hnd s Hr Hd).
Qed.

Theorem no_deadlock_stall_free :
  forall s0, (forall s, reachable s0 s -> ~ deadlocked s) -> stall_free s0.
Proof.
  intros s0 Hnd s Hr; repeat split.
  - intros n s' Hs; apply steps_bounded; assumption.
  - intros n s' Hs Hst.
    destruct (stuck_finished_or_deadlocked s' Hst) as [Hf|Hd]; [assumption|].
    exfalso; exact (Hnd s' (steps_reachable _ _ _ _ Hr Hs) Hd).
  - eapply runs_to_finished; [exact Hnd|apply Nat.le_refl|assumption].
Qed.

(** The bound at the start: twice the number of events plus the number of
    threads. *)
Lemma measure_init :
  forall progs, measure (init progs) = list_sum (map (fun p => 2 * List.length p + 1) progs).
Proof.
  intros progs; unfold measure, init; simpl; rewrite map_map; reflexivity.
Qed.

(** Threads whose nested acquisitions ascend in a ranking never stall. *)
Theorem ranked_stall_free :
  forall (rank : lock -> nat) (progs : list (list event)),
    Forall (fun p => ranked rank [] p = true) progs -> stall_free (init progs).
Proof.
  intros rank progs H; apply no_deadlock_stall_free.
  exact (ranked_no_deadlock rank progs H).
Qed.

(** Non-vacuity: two threads taking two locks in the same order; from the
    start there is a run to the end, and no run has more than 18 steps. *)
Example stall_free_example :
  let progs := [[Acq "a" W; Acq "b" R; Rd "f"; Rel "b" R; Rel "a" W];
                [Acq "a" R; Acq "b" W; Rel "b" W; Rel "a" R]] in
  stall_free (init progs) /\ measure (init progs) = 20.
Proof.
  split; [|reflexivity].
  apply (ranked_stall_free (fun l => if String.eqb l "a" then 0 else 1)).
  repeat constructor.
Qed.

(** The premise "a thread is a finite list that releases what it took" is
    needed.  The first thread takes confMu for reading and never releases it
    (the model of a request that does not come back from its critical
    section): the admin write waits for it, and the NEXT reader waits behind
    the pending writer although the lock is only read-held.  Nothing can move,
    two threads are not through: the stall of seeded change C05-I. *)
Example holder_never_releases :
  exists s,
    reachable (init [[Acq "confMu" R];
                     [Acq "confMu" W; Wr "rewrites"; Rel "confMu" W];
                     [Acq "confMu" R; Rd "rewrites"; Rel "confMu" R]]) s /\
    stuck s /\ ~ finished s /\ deadlocked s /\
    threads s = [TH false [];
                 TH true [Acq "confMu" W; Wr "rewrites"; Rel "confMu" W];
                 TH false [Acq "confMu" R; Rd "rewrites"; Rel "confMu" R]].
Proof.
  eexists; split; [|assert (Hd : forall th,
      In th [TH false [];
             TH true [Acq "confMu" W; Wr "rewrites"; Rel "confMu" W];
             TH false [Acq "confMu" R; Rd "rewrites"; Rel "confMu" R]] ->
      ~ can_step (upd (upd (fun _ => l0) "confMu" (LS false 1 0)) "confMu" (LS false 1 1)) th)].
  - unfold init; simpl.
    eapply reach_front. { apply step_fst; apply ts_acq_r; reflexivity. }
    eapply reach_front. { apply step_snd; apply ts_announce. }
    apply reach_refl.
  - intros th [<-|[<-|[<-|[]]]] (lt' & th' & Hs); inversion Hs; subst;
      match goal with H : _ = _ |- _ => vm_compute in H; discriminate H end.
  - split; [|split; [|split]].
    + intros s' H; inversion H; subst.
      match goal with Hl : (_ ++ ?th :: _)%list = _, Ht : tstep _ ?th _ _ |- _ =>
        apply (Hd th); [rewrite <- Hl; apply in_or_app; right; left; reflexivity|do 2 eexists; exact Ht] end.
    + intros Hf. specialize (Hf (TH false [Acq "confMu" R; Rd "rewrites"; Rel "confMu" R])).
      simpl in Hf. discriminate Hf. right; right; left; reflexivity.
    + split.
      * eexists; split; [right; left; reflexivity|discriminate].
      * intros th Hin _; apply Hd; exact Hin.
    + reflexivity.
Qed.

(** Specification and proofs for the legacy DNS rewrites (C06). *)
From Coq Require Import ZArith NArith List Bool Lia Permutation Sorted String.
From AGH Require Import Base.Run Model.Rewrites.
Import ListNotations.
Local Open Scope N_scope.

(** * Byte strings *)

Lemma eqb_bytes_spec (a b : bytes) : eqb_bytes a b = true <-> a = b.
Proof.
  unfold eqb_bytes. revert b. induction a as [|x a IH]; destruct b as [|y b]; cbn;
    try (split; congruence).
  rewrite andb_true_iff, N.eqb_eq, IH. split; [intros [-> ->]; auto | intros [= -> ->]; auto].
Qed.

Lemma eqb_bytes_refl a : eqb_bytes a a = true.
Proof. apply eqb_bytes_spec; reflexivity. Qed.

Lemma mem_bytes_spec x l : mem_bytes x l = true <-> In x l.
Proof.
  unfold mem_bytes. rewrite existsb_exists. split.
  - intros (y & Hy & E). apply eqb_bytes_spec in E. subst; auto.
  - intros H. exists x. split; auto. apply eqb_bytes_refl.
Qed.

(** * The cut at the first wildcard *)

Lemma firstn_In {A} n (l : list A) x : In x (firstn n l) -> In x l.
Proof. intros H. rewrite <- (firstn_skipn n l). apply in_or_app; auto. Qed.

Lemma cut_incl l : incl (cut l) l.
Proof. unfold cut. destruct (first_wild l); intros x H; eauto using firstn_In. Qed.

Lemma first_wild_none l :
  first_wild l = None -> forall x, In x l -> is_wildcard (e_dom x) = false.
Proof.
  induction l as [|e l IH]; cbn; [tauto|].
  destruct (is_wildcard (e_dom e)) eqn:W; [discriminate|].
  destruct (first_wild l); [discriminate|]. intros _ x [<-|H]; auto.
Qed.

Lemma first_wild_some l i :
  first_wild l = Some i -> forall x, In x (firstn i l) -> is_wildcard (e_dom x) = false.
Proof.
  revert i. induction l as [|e l IH]; cbn; [discriminate|]. intros i.
  destruct (is_wildcard (e_dom e)) eqn:W.
  - intros [= <-]. cbn. tauto.
  - destruct (first_wild l) as [j|]; [|discriminate]. intros [= <-]. cbn.
    intros x [<-|H]; eauto.
Qed.

Lemma first_wild_zero l :
  first_wild l = Some O -> exists h t, l = h :: t /\ is_wildcard (e_dom h) = true.
Proof.
  destruct l as [|e l]; cbn; [discriminate|].
  destruct (is_wildcard (e_dom e)) eqn:W; [eauto|].
  destruct (first_wild l); discriminate.
Qed.

(** The cut keeps the head. *)
Lemma cut_head x l : exists t, cut (x :: l) = x :: t.
Proof.
  unfold cut. destruct (first_wild (x :: l)) as [i|]; [|eauto].
  destruct (Nat.max 1 i) eqn:E; [lia|]. cbn. eauto.
Qed.

(** A wildcard entry survives the cut only as the single head. *)
Lemma cut_wildcard l r :
  In r (cut l) -> is_wildcard (e_dom r) = true -> exists t, l = r :: t /\ cut l = [r].
Proof.
  unfold cut. destruct (first_wild l) as [i|] eqn:F.
  - destruct i as [|i].
    + destruct (first_wild_zero _ F) as (h & t & -> & W). cbn.
      intros [<-|[]] _. eauto.
    + replace (Nat.max 1 (S i)) with (S i) by lia. intros H W.
      rewrite (first_wild_some _ _ F _ H) in W. discriminate.
  - intros H W. rewrite (first_wild_none _ F _ H) in W. discriminate.
Qed.

(** An entry in front of the first wildcard survives the cut. *)
Lemma cut_keeps l1 x l2 :
  (forall y, In y l1 -> is_wildcard (e_dom y) = false) ->
  is_wildcard (e_dom x) = false -> In x (cut (l1 ++ x :: l2)).
Proof.
  intros H1 Hx. unfold cut.
  destruct (first_wild (l1 ++ x :: l2)) as [i|] eqn:F; [|apply in_elt].
  assert (L : (length l1 < i)%nat).
  { clear - H1 Hx F. revert i F. induction l1 as [|a l1 IH]; cbn; intros i.
    - rewrite Hx. destruct (first_wild l2); [intros [= <-]; lia | discriminate].
    - rewrite (H1 a) by (cbn; auto).
      destruct (first_wild (l1 ++ x :: l2)) as [j|] eqn:F; [|discriminate].
      intros [= <-]. specialize (IH (fun y Hy => H1 y (or_intror Hy)) _ eq_refl). lia. }
  replace (Nat.max 1 i) with i by lia.
  rewrite firstn_app. apply in_or_app. right.
  destruct (i - length l1)%nat eqn:E; [lia|]. cbn. auto.
Qed.

(** * setRewriteResult *)

Lemma set_result_canon rws : forall res qt, r_canon (set_result res rws qt) = r_canon res.
Proof.
  induction rws as [|rw rws IH]; cbn; intros res qt; [reflexivity|].
  destruct (_ && _); [|apply IH]. destruct (e_ip rw); [|reflexivity]. rewrite IH. reflexivity.
Qed.

Lemma set_result_ips rws : forall res qt i,
  In i (r_ips (set_result res rws qt)) ->
  In i (r_ips res) \/
  exists e, In e rws /\ e_ip e = Some i /\ rtype_code (e_type e) = qt /\ is_addr_q qt = true.
Proof.
  induction rws as [|rw rws IH]; cbn; intros res qt i H; [auto|].
  destruct (_ && _) eqn:C.
  - apply andb_true_iff in C as [C1 C2]. apply N.eqb_eq in C1.
    destruct (e_ip rw) as [j|] eqn:Ej; [|cbn in H; auto].
    apply IH in H as [H|(e & ? & ?)]; [|right; eauto].
    cbn in H. apply in_app_or in H as [H|[<-|[]]]; [auto|]. right. exists rw. auto.
  - apply IH in H as [H|(e & ? & ?)]; [auto | right; eauto].
Qed.

(** The reason is reset exactly by an exception entry of the requested type. *)
Definition type_exception (e : entry) (qt : N) : Prop :=
  rtype_code (e_type e) = qt /\ is_addr_q qt = true /\ e_ip e = None.

Lemma set_result_reason rws : forall res qt,
  r_reason (set_result res rws qt) = NotFound <->
  r_reason res = NotFound \/ exists e, In e rws /\ type_exception e qt.
Proof.
  unfold type_exception.
  induction rws as [|rw rws IH]; cbn; intros res qt.
  - split; [auto | intros [H|(e & [] & _)]; auto].
  - destruct (_ && _) eqn:C.
    + apply andb_true_iff in C as [C1 C2]. apply N.eqb_eq in C1.
      destruct (e_ip rw) as [j|] eqn:Ej.
      * rewrite IH. cbn. split.
        -- intros [H|(e & ? & ?)]; [auto | right; eauto].
        -- intros [H|(e & [<-|?] & ?)]; [auto | | right; eauto]. intuition congruence.
      * cbn. split; [|reflexivity]. intros _. right. exists rw. auto.
    + rewrite IH. split.
      * intros [H|(e & ? & ?)]; [auto | right; eauto].
      * intros [H|(e & [<-|?] & H1 & H2 & H3)]; [auto | | right; eauto].
        rewrite H1, N.eqb_refl, H2 in C. discriminate.
Qed.

(** * findRewrites, for any function returning a permutation *)

Section AnySort.
  Variable sort : list entry -> list entry.
  Hypothesis sort_perm : forall l, Permutation (sort l) l.

  Let find := find_rewrites sort.

  Definition qualifies (tbl : list entry) (host : bytes) (qt : N) (e : entry) : Prop :=
    In e tbl /\ matches_host e host = true /\ match_qtype e qt = true.

  Lemma find_rewrites_In tbl host qt e :
    In e (fst (find_rewrites sort tbl host qt)) -> qualifies tbl host qt e.
  Proof.
    unfold find_rewrites, qualifies.
    destruct (is_nil _); cbn; [tauto|]. intros H.
    apply cut_incl in H. apply (Permutation_in _ (sort_perm _)) in H.
    rewrite !filter_In in H. tauto.
  Qed.

  Lemma find_rewrites_snd tbl host qt :
    snd (find_rewrites sort tbl host qt) =
    negb (is_nil (filter (fun e => matches_host e host) tbl)).
  Proof. unfold find_rewrites. destruct (is_nil (filter (fun e => match_qtype e qt) _)); reflexivity. Qed.

  Lemma find_rewrites_matched tbl host qt :
    snd (find_rewrites sort tbl host qt) = true <->
    exists e, In e tbl /\ matches_host e host = true.
  Proof.
    rewrite find_rewrites_snd.
    destruct (filter (fun e => matches_host e host) tbl) as [|x l] eqn:F; cbn.
    - split; [discriminate|]. intros (e & H1 & H2).
      assert (H : In e (filter (fun e => matches_host e host) tbl)) by (apply filter_In; auto).
      rewrite F in H. destruct H.
    - split; [|reflexivity]. intros _. exists x.
      rewrite <- (filter_In (fun e => matches_host e host)), F. cbn; auto.
  Qed.

  (** ** Termination: the visited set grows inside the answers of the table *)

  Lemma chase_terminates fuel : forall tbl qt orig host visited canon rws matched,
    NoDup visited -> incl visited (map e_ans tbl) -> incl rws tbl ->
    (length tbl < fuel + length visited)%nat ->
    chase sort fuel tbl qt orig host visited canon rws matched <> None.
  Proof.
    induction fuel as [|fuel IH]; intros tbl qt orig host visited canon rws matched ND Hv Hr L.
    - apply NoDup_incl_length in Hv; auto. rewrite map_length in Hv. lia.
    - cbn [chase]. destruct rws as [|rw rws]; [discriminate|].
      destruct (matched && is_cname rw); [|discriminate].
      destruct (_ || _); [discriminate|].
      destruct (_ && _); [discriminate|].
      destruct (mem_bytes (e_ans rw) visited) eqn:M; [discriminate|].
      destruct (find_rewrites sort tbl (e_ans rw) qt) as [rws' m'] eqn:F.
      apply IH.
      + constructor; auto. rewrite <- mem_bytes_spec. congruence.
      + intros x [<-|H]; auto. apply in_map. apply Hr. cbn; auto.
      + intros x H. change rws' with (fst (rws', m')) in H. rewrite <- F in H.
        apply find_rewrites_In in H. apply H.
      + cbn. lia.
  Qed.

  Theorem process_rewrites_terminates tbl host qt :
    process_rewrites sort tbl host qt <> None.
  Proof.
    unfold process_rewrites.
    destruct (find_rewrites sort tbl host qt) as [rws m] eqn:F.
    destruct (negb m); [discriminate|].
    apply chase_terminates; cbn; auto using NoDup_nil, incl_nil_l; [|lia].
    intros x H. change rws with (fst (rws, m)) in H. rewrite <- F in H.
    apply find_rewrites_In in H. apply H.
  Qed.

  Corollary check_host_terminates en tbl host qt : check_host sort en tbl host qt <> None.
  Proof.
    unfold check_host. destruct (is_nil host); [discriminate|]. destruct (negb en); [discriminate|].
    destruct (process_rewrites sort tbl (to_lower host) qt) as [r|] eqn:P.
    - destruct (r_reason r); discriminate.
    - exfalso. revert P. apply process_rewrites_terminates.
  Qed.
End AnySort.

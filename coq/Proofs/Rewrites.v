(** Specification and proofs for the legacy DNS rewrites (C06). *)
From Coq Require Import ZArith NArith List Bool Lia Permutation Sorted String.
From AGH Require Import Base.Run Model.Rewrites.
Import ListNotations.
Local Open Scope N_scope.

(** * Byte strings *)

Lemma eqb_bytes_spec (a b : bytes) : eqb_bytes a b = true <-> a = b.
Proof.
  unfold eqb_bytes. revert b. induction a as [|x a IH]; destruct b as [|y b]; cbn;
    try (split; congruence).
  rewrite andb_true_iff, N.eqb_eq, IH. split; [intros [-> ->]; auto | intros [= -> ->]; auto].
Qed.

Lemma eqb_bytes_refl a : eqb_bytes a a = true.
Proof. apply eqb_bytes_spec; reflexivity. Qed.

Lemma mem_bytes_spec x l : mem_bytes x l = true <-> In x l.
Proof.
  unfold mem_bytes. rewrite existsb_exists. split.
  - intros (y & Hy & E). apply eqb_bytes_spec in E. subst; auto.
  - intros H. exists x. split; auto. apply eqb_bytes_refl.
Qed.

(** * The cut at the first wildcard *)

Lemma firstn_In {A} n (l : list A) x : In x (firstn n l) -> In x l.
Proof. intros H. rewrite <- (firstn_skipn n l). apply in_or_app; auto. Qed.

Lemma cut_incl l : incl (cut l) l.
Proof. unfold cut. destruct (first_wild l); intros x H; eauto using firstn_In. Qed.

Lemma first_wild_none l :
  first_wild l = None -> forall x, In x l -> is_wildcard (e_dom x) = false.
Proof.
  induction l as [|e l IH]; cbn; [tauto|].
  destruct (is_wildcard (e_dom e)) eqn:W; [discriminate|].
  destruct (first_wild l); [discriminate|]. intros _ x [<-|H]; auto.
Qed.

Lemma first_wild_some l i :
  first_wild l = Some i -> forall x, In x (firstn i l) -> is_wildcard (e_dom x) = false.
Proof.
  revert i. induction l as [|e l IH]; cbn; [discriminate|]. intros i.
  destruct (is_wildcard (e_dom e)) eqn:W.
  - intros [= <-]. cbn. tauto.
  - destruct (first_wild l) as [j|]; [|discriminate]. intros [= <-]. cbn.
    intros x [<-|H]; eauto.
Qed.

Lemma first_wild_zero l :
  first_wild l = Some O -> exists h t, l = h :: t /\ is_wildcard (e_dom h) = true.
Proof.
  destruct l as [|e l]; cbn; [discriminate|].
  destruct (is_wildcard (e_dom e)) eqn:W; [eauto|].
  destruct (first_wild l); discriminate.
Qed.

(** The cut keeps the head. *)
Lemma cut_head x l : exists t, cut (x :: l) = x :: t.
Proof.
  unfold cut. destruct (first_wild (x :: l)) as [i|]; [|eauto].
  destruct (Nat.max 1 i) eqn:E; [lia|]. cbn. eauto.
Qed.

(** A wildcard entry survives the cut only as the single head. *)
Lemma cut_wildcard l r :
  In r (cut l) -> is_wildcard (e_dom r) = true -> exists t, l = r :: t /\ cut l = [r].
Proof.
  unfold cut. destruct (first_wild l) as [i|] eqn:F.
  - destruct i as [|i].
    + destruct (first_wild_zero _ F) as (h & t & -> & W). cbn.
      intros [<-|[]] _. eauto.
    + replace (Nat.max 1 (S i)) with (S i) by lia. intros H W.
      rewrite (first_wild_some _ _ F _ H) in W. discriminate.
  - intros H W. rewrite (first_wild_none _ F _ H) in W. discriminate.
Qed.

(** An entry in front of the first wildcard survives the cut. *)
Lemma cut_keeps l1 x l2 :
  (forall y, In y l1 -> is_wildcard (e_dom y) = false) ->
  is_wildcard (e_dom x) = false -> In x (cut (l1 ++ x :: l2)).
Proof.
  intros H1 Hx. unfold cut.
  destruct (first_wild (l1 ++ x :: l2)) as [i|] eqn:F; [|apply in_elt].
  assert (L : (length l1 < i)%nat).
  { clear - H1 Hx F. revert i F. induction l1 as [|a l1 IH]; cbn; intros i.
    - rewrite Hx. destruct (first_wild l2); [intros [= <-]; lia | discriminate].
    - rewrite (H1 a) by (cbn; auto).
      destruct (first_wild (l1 ++ x :: l2)) as [j|] eqn:F; [|discriminate].
      intros [= <-]. specialize (IH (fun y Hy => H1 y (or_intror Hy)) _ eq_refl). lia. }
  replace (Nat.max 1 i) with i by lia.
  rewrite firstn_app. apply in_or_app. right.
  destruct (i - length l1)%nat eqn:E; [lia|]. cbn. auto.
Qed.

(** * setRewriteResult *)

Lemma set_result_canon rws : forall res qt, r_canon (set_result res rws qt) = r_canon res.
Proof.
  induction rws as [|rw rws IH]; cbn; intros res qt; [reflexivity|].
  destruct (_ && _); [|apply IH]. destruct (e_ip rw); [|reflexivity]. rewrite IH. reflexivity.
Qed.

Lemma set_result_ips rws : forall res qt i,
  In i (r_ips (set_result res rws qt)) ->
  In i (r_ips res) \/
  exists e, In e rws /\ e_ip e = Some i /\ rtype_code (e_type e) = qt /\ is_addr_q qt = true.
Proof.
  induction rws as [|rw rws IH]; cbn; intros res qt i H; [auto|].
  destruct (_ && _) eqn:C.
  - apply andb_true_iff in C as [C1 C2]. apply N.eqb_eq in C1.
    destruct (e_ip rw) as [j|] eqn:Ej; [|cbn in H; auto].
    apply IH in H as [H|(e & ? & ?)]; [|right; eauto].
    cbn in H. apply in_app_or in H as [H|[<-|[]]]; [auto|]. right. exists rw. auto.
  - apply IH in H as [H|(e & ? & ?)]; [auto | right; eauto].
Qed.

(** The reason is reset exactly by an exception entry of the requested type. *)
Definition type_exception (e : entry) (qt : N) : Prop :=
  rtype_code (e_type e) = qt /\ is_addr_q qt = true /\ e_ip e = None.

Lemma set_result_reason rws : forall res qt,
  r_reason (set_result res rws qt) = NotFound <->
  r_reason res = NotFound \/ exists e, In e rws /\ type_exception e qt.
Proof.
  unfold type_exception.
  induction rws as [|rw rws IH]; cbn; intros res qt.
  - split; [auto | intros [H|(e & [] & _)]; auto].
  - destruct (_ && _) eqn:C.
    + apply andb_true_iff in C as [C1 C2]. apply N.eqb_eq in C1.
      destruct (e_ip rw) as [j|] eqn:Ej.
      * rewrite IH. cbn. split.
        -- intros [H|(e & ? & ?)]; [auto | right; eauto].
        -- intros [H|(e & [<-|?] & ?)]; [auto | | right; eauto]. intuition congruence.
      * cbn. split; [|reflexivity]. intros _. right. exists rw. auto.
    + rewrite IH. split.
      * intros [H|(e & ? & ?)]; [auto | right; eauto].
      * intros [H|(e & [<-|?] & H1 & H2 & H3)]; [auto | | right; eauto].
        rewrite H1, N.eqb_refl, H2 in C. discriminate.
Qed.

(** * findRewrites, for any function returning a permutation *)

Section AnySort.
  Variable sort : list entry -> list entry.
  Hypothesis sort_perm : forall l, Permutation (sort l) l.

  Let find := find_rewrites sort.

  Definition qualifies (tbl : list entry) (host : bytes) (qt : N) (e : entry) : Prop :=
    In e tbl /\ matches_host e host = true /\ match_qtype e qt = true.

  Lemma find_rewrites_In tbl host qt e :
    In e (fst (find_rewrites sort tbl host qt)) -> qualifies tbl host qt e.
  Proof.
    unfold find_rewrites, qualifies.
    destruct (is_nil _); cbn; [tauto|]. intros H.
    apply cut_incl in H. apply (Permutation_in _ (sort_perm _)) in H.
    rewrite !filter_In in H. tauto.
  Qed.

  Lemma find_rewrites_snd tbl host qt :
    snd (find_rewrites sort tbl host qt) =
    negb (is_nil (filter (fun e => matches_host e host) tbl)).
  Proof. unfold find_rewrites. destruct (is_nil (filter (fun e => match_qtype e qt) _)); reflexivity. Qed.

  Lemma find_rewrites_matched tbl host qt :
    snd (find_rewrites sort tbl host qt) = true <->
    exists e, In e tbl /\ matches_host e host = true.
  Proof.
    rewrite find_rewrites_snd.
    destruct (filter (fun e => matches_host e host) tbl) as [|x l] eqn:F; cbn.
    - split; [discriminate|]. intros (e & H1 & H2).
      assert (H : In e (filter (fun e => matches_host e host) tbl)) by (apply filter_In; auto).
      rewrite F in H. destruct H.
    - split; [|reflexivity]. intros _. exists x.
      rewrite <- (filter_In (fun e => matches_host e host)), F. cbn; auto.
  Qed.

  (** ** Termination: the visited set grows inside the answers of the table *)

  Lemma chase_terminates fuel : forall tbl qt orig host visited canon rws matched,
    NoDup visited -> incl visited (map e_ans tbl) -> incl rws tbl ->
    (length tbl < fuel + length visited)%nat ->
    chase sort fuel tbl qt orig host visited canon rws matched <> None.
  Proof.
    induction fuel as [|fuel IH]; intros tbl qt orig host visited canon rws matched ND Hv Hr L.
    - apply NoDup_incl_length in Hv; auto. rewrite map_length in Hv. lia.
    - cbn [chase]. destruct rws as [|rw rws]; [discriminate|].
      destruct (matched && is_cname rw); [|discriminate].
      destruct (_ || _); [discriminate|].
      destruct (_ && _); [discriminate|].
      destruct (mem_bytes (e_ans rw) visited) eqn:M; [discriminate|].
      destruct (find_rewrites sort tbl (e_ans rw) qt) as [rws' m'] eqn:F.
      apply IH.
      + constructor; auto. rewrite <- mem_bytes_spec. congruence.
      + intros x [<-|H]; auto. apply in_map. apply Hr. cbn; auto.
      + intros x H. change rws' with (fst (rws', m')) in H. rewrite <- F in H.
        apply find_rewrites_In in H. apply H.
      + cbn. lia.
  Qed.

  Theorem process_rewrites_terminates tbl host qt :
    process_rewrites sort tbl host qt <> None.
  Proof.
    unfold process_rewrites.
    destruct (find_rewrites sort tbl host qt) as [rws m] eqn:F.
    destruct (negb m); [discriminate|].
    apply chase_terminates; cbn; auto using NoDup_nil, incl_nil_l; [|lia].
    intros x H. change rws with (fst (rws, m)) in H. rewrite <- F in H.
    apply find_rewrites_In in H. apply H.
  Qed.

  Corollary check_host_terminates en tbl host qt : check_host sort en tbl host qt <> None.
  Proof.
    unfold check_host. destruct (is_nil host); [discriminate|]. destruct (negb en); [discriminate|].
    destruct (process_rewrites sort tbl (to_lower host) qt) as [r|] eqn:P.
    - destruct (r_reason r); discriminate.
    - exfalso. revert P. apply process_rewrites_terminates.
  Qed.

  (** ** Address soundness *)

  (** [i] is the address of a table entry that covers [final] and has the
      requested type. *)
  Definition from_table (tbl : list entry) (final : bytes) (qt : N) (i : ip) : Prop :=
    exists e, In e tbl /\ matches_host e final = true /\ e_ip e = Some i /\
              rtype_code (e_type e) = qt /\ (qt = qA \/ qt = qAAAA).

  (** The finally resolved name of a result for a query for [host]: the
      canonical name, or [host] itself when no CNAME was followed. *)
  Definition resolved_name (host : bytes) (r : rw_result) (final : bytes) : Prop :=
    final = r_canon r \/ (r_canon r = [] /\ final = host).

  Lemma is_addr_q_spec qt : is_addr_q qt = true -> qt = qA \/ qt = qAAAA.
  Proof. unfold is_addr_q. rewrite orb_true_iff, !N.eqb_eq. tauto. Qed.

  Lemma set_result_from_table tbl host qt canon rws i :
    (forall e, In e rws -> In e tbl /\ matches_host e host = true) ->
    In i (r_ips (set_result {| r_reason := Rewritten; r_canon := canon; r_ips := [] |} rws qt)) ->
    from_table tbl host qt i.
  Proof.
    intros Hr H. apply set_result_ips in H. cbn in H.
    destruct H as [[]|(e & He & Hi & Ht & Hq)].
    destruct (Hr e He). exists e. repeat split; auto using is_addr_q_spec.
  Qed.

  Lemma chase_addresses fuel : forall tbl qt orig host visited canon rws matched r i,
    (forall e, In e rws -> In e tbl /\ matches_host e host = true) ->
    canon = host \/ (canon = [] /\ host = orig) ->
    chase sort fuel tbl qt orig host visited canon rws matched = Some r ->
    In i (r_ips r) ->
    exists final, resolved_name orig r final /\ from_table tbl final qt i.
  Proof.
    unfold resolved_name.
    induction fuel as [|fuel IH]; intros tbl qt orig host visited canon rws matched r i Hr Hc;
      cbn [chase]; [discriminate|].
    assert (D : Some (set_result {| r_reason := Rewritten; r_canon := canon; r_ips := [] |} rws qt)
                = Some r -> In i (r_ips r) ->
                exists final, (final = r_canon r \/ r_canon r = [] /\ final = orig) /\
                              from_table tbl final qt i).
    { intros [= <-] Hi. exists host. rewrite set_result_canon. cbn. split.
      - destruct Hc as [->|[-> ->]]; auto.
      - eapply set_result_from_table; eauto. }
    destruct rws as [|rw rws]; [exact D|].
    destruct (matched && is_cname rw); [|exact D].
    destruct (_ || _); [intros [= <-] []|].
    destruct (_ && _).
    { match goal with |- Some ?x = Some r -> _ =>
        intros E Hi; assert (E' : r = x) by congruence; subst r; clear E end.
      exists host. rewrite set_result_canon. cbn. split; [auto|].
      eapply set_result_from_table; eauto. }
    destruct (mem_bytes _ _); [intros [= <-] []|].
    destruct (find_rewrites sort tbl (e_ans rw) qt) as [rws' m'] eqn:F.
    apply IH; auto.
    intros e H. change rws' with (fst (rws', m')) in H. rewrite <- F in H.
    apply find_rewrites_In in H. unfold qualifies in H. tauto.
  Qed.

  Theorem addresses_from_table tbl host qt r i :
    process_rewrites sort tbl host qt = Some r -> In i (r_ips r) ->
    exists final, resolved_name host r final /\ from_table tbl final qt i.
  Proof.
    unfold process_rewrites.
    destruct (find_rewrites sort tbl host qt) as [rws m] eqn:F.
    destruct (negb m); [intros [= <-] []|].
    apply chase_addresses; auto.
    intros e H. change rws with (fst (rws, m)) in H. rewrite <- F in H.
    apply find_rewrites_In in H. unfold qualifies in H. tauto.
  Qed.

  (** For a table produced by [normalize] the requested type is the family. *)
  Lemma normalize_family w i :
    e_ip (normalize w) = Some i -> e_type (normalize w) = if ip_is4 i then RA else RAAAA.
  Proof.
    unfold normalize. destruct (eqb_bytes _ ans_AAAA); [discriminate|].
    destruct (eqb_bytes _ ans_A); [discriminate|].
    destruct (w_parse w); cbn; [intros [= ->]; reflexivity | discriminate].
  Qed.

  Corollary addresses_family raws host qt r i :
    process_rewrites sort (map normalize raws) host qt = Some r -> In i (r_ips r) ->
    ip_is4 i = (qt =? qA).
  Proof.
    intros P Hi. destruct (addresses_from_table _ _ _ _ _ P Hi) as (final & _ & e & He & _ & Hip & Ht & _).
    apply in_map_iff in He as (w & <- & _). rewrite (normalize_family _ _ Hip) in Ht.
    subst qt. destruct (ip_is4 i); reflexivity.
  Qed.

  (** The same at the level of CheckHost (name lower-cased first). *)
  Corollary check_host_addresses en tbl host qt r i :
    check_host sort en tbl host qt = Some r -> In i (r_ips r) ->
    exists final, resolved_name (to_lower host) r final /\ from_table tbl final qt i.
  Proof.
    unfold check_host. destruct (is_nil host); [intros [= <-] []|].
    destruct (negb en); [intros [= <-] []|].
    destruct (process_rewrites sort tbl (to_lower host) qt) as [r'|] eqn:P; [|discriminate].
    destruct (r_reason r'); intros [= <-]; [intros []|].
    eapply addresses_from_table; eauto.
  Qed.
End AnySort.

(** * Compare is a strict weak order *)

Lemma lt_entry_irrefl a : lt_entry a a = false.
Proof.
  unfold lt_entry, compare, len_diff. apply Z.ltb_ge.
  destruct (is_cname a), (is_wildcard (e_dom a)); cbn; lia.
Qed.

Lemma lt_entry_asym a b : lt_entry a b = true -> lt_entry b a = false.
Proof.
  unfold lt_entry. rewrite Z.ltb_lt, Z.ltb_ge. unfold compare, len_diff.
  destruct (is_cname a), (is_cname b), (is_wildcard (e_dom a)), (is_wildcard (e_dom b)); cbn; lia.
Qed.

Lemma lt_entry_trans a b c : lt_entry a b = true -> lt_entry b c = true -> lt_entry a c = true.
Proof.
  unfold lt_entry. rewrite !Z.ltb_lt. unfold compare, len_diff.
  destruct (is_cname a), (is_cname b), (is_cname c),
    (is_wildcard (e_dom a)), (is_wildcard (e_dom b)), (is_wildcard (e_dom c)); cbn; lia.
Qed.

(** Transitivity of "not smaller" (so incomparability is transitive too). *)
Lemma lt_entry_negtrans a b c : lt_entry a b = false -> lt_entry b c = false -> lt_entry a c = false.
Proof.
  unfold lt_entry. rewrite !Z.ltb_ge. unfold compare, len_diff.
  destruct (is_cname a), (is_cname b), (is_cname c),
    (is_wildcard (e_dom a)), (is_wildcard (e_dom b)), (is_wildcard (e_dom c)); cbn; lia.
Qed.

(** What "smaller" means: CNAME before addresses, then exact before
    wildcard, then longer pattern first. *)
Lemma lt_entry_spec a b :
  lt_entry a b = true <->
  (is_cname a = true /\ is_cname b = false) \/
  (is_cname a = is_cname b /\
   ((is_wildcard (e_dom a) = false /\ is_wildcard (e_dom b) = true) \/
    (is_wildcard (e_dom a) = is_wildcard (e_dom b) /\
     (length (e_dom b) < length (e_dom a))%nat))).
Proof.
  unfold lt_entry. rewrite Z.ltb_lt. unfold compare, len_diff.
  destruct (is_cname a), (is_cname b), (is_wildcard (e_dom a)), (is_wildcard (e_dom b)); cbn;
    intuition (try discriminate; try lia).
Qed.

(** Sorted with respect to Compare: no later element is smaller than an
    earlier one (what slices.SortFunc guarantees for a strict weak order). *)
Definition sorted_by_compare (l : list entry) : Prop :=
  StronglySorted (fun a b => lt_entry b a = false) l.

(** * The evaluator's insertion sort is such a function *)

Lemma insert_perm x l : Permutation (insert x l) (x :: l).
Proof.
  induction l as [|y r IH]; cbn; [auto|]. destruct (lt_entry y x); [|auto].
  rewrite IH. apply perm_swap.
Qed.

Lemma isort_perm l : Permutation (isort l) l.
Proof. induction l as [|x l IH]; cbn; [auto|]. rewrite insert_perm. auto. Qed.

Lemma insert_sorted x l : sorted_by_compare l -> sorted_by_compare (insert x l).
Proof.
  unfold sorted_by_compare. induction l as [|y r IH]; cbn; intros S.
  - repeat constructor.
  - apply StronglySorted_inv in S as [S F]. destruct (lt_entry y x) eqn:L.
    + constructor; auto. apply (Permutation_Forall (Permutation_sym (insert_perm x r))).
      constructor; auto using lt_entry_asym.
    + constructor; [constructor; auto|]. constructor; auto.
      rewrite Forall_forall in *. intros b Hb. eapply lt_entry_negtrans; eauto.
Qed.

Lemma isort_sorted l : sorted_by_compare (isort l).
Proof. induction l; cbn; [constructor | auto using insert_sorted]. Qed.

(** * Precedence, for any function returning a sorted permutation *)

Lemma sorted_app_mid l1 x l2 :
  sorted_by_compare (l1 ++ x :: l2) -> forall y, In y l1 -> lt_entry x y = false.
Proof.
  unfold sorted_by_compare. induction l1 as [|a l1 IH]; cbn; [tauto|]. intros S y [<-|H].
  - apply StronglySorted_inv in S as [_ F]. rewrite Forall_forall in F. apply F, in_elt.
  - apply StronglySorted_inv in S as [S _]. auto.
Qed.

Section SortedSort.
  Variable sort : list entry -> list entry.
  Hypothesis sort_perm : forall l, Permutation (sort l) l.
  Hypothesis sort_sorted : forall l, sorted_by_compare (sort l).

  Lemma qualifies_in_sorted tbl host qt e :
    qualifies tbl host qt e ->
    In e (sort (filter (fun e => match_qtype e qt) (filter (fun e => matches_host e host) tbl))).
  Proof.
    intros (H1 & H2 & H3). apply (Permutation_in _ (Permutation_sym (sort_perm _))).
    rewrite !filter_In. auto.
  Qed.

  (** The first entry returned is minimal among all qualifying entries. *)
  Lemma find_head_min tbl host qt r rest m :
    find_rewrites sort tbl host qt = (r :: rest, m) ->
    forall e, qualifies tbl host qt e -> lt_entry e r = false.
  Proof.
    unfold find_rewrites. destruct (is_nil _); [discriminate|]. intros [= C _] e Q.
    apply qualifies_in_sorted in Q.
    pose proof (sort_sorted (filter (fun e => match_qtype e qt)
                              (filter (fun e => matches_host e host) tbl))) as S.
    destruct (sort _) as [|x t]; [destruct Q|].
    destruct (cut_head x t) as (t' & E). rewrite E in C. injection C as -> _.
    apply StronglySorted_inv in S as [_ F]. rewrite Forall_forall in F.
    destruct Q as [<-|Q]; auto using lt_entry_irrefl.
  Qed.

  Lemma find_nonempty tbl host qt e :
    qualifies tbl host qt e -> exists r rest, fst (find_rewrites sort tbl host qt) = r :: rest.
  Proof.
    intros Q. pose proof (qualifies_in_sorted _ _ _ _ Q) as Hs. unfold find_rewrites.
    destruct (filter (fun e => match_qtype e qt) _) as [|a l] eqn:F.
    - exfalso. destruct Q as (H1 & H2 & H3).
      assert (H : In e (filter (fun e => match_qtype e qt)
                 (filter (fun e => matches_host e host) tbl))) by (rewrite !filter_In; auto).
      rewrite F in H. destruct H.
    - cbn [is_nil fst]. destruct (sort (a :: l)) as [|x t]; [destruct Hs|].
      destruct (cut_head x t) as (t' & ->). eauto.
  Qed.

  (** A wildcard entry is used only alone, and only if it is minimal. *)
  Lemma wildcard_result tbl host qt rws m r :
    find_rewrites sort tbl host qt = (rws, m) -> In r rws ->
    is_wildcard (e_dom r) = true ->
    rws = [r] /\ forall e, qualifies tbl host qt e -> lt_entry e r = false.
  Proof.
    intros F Hr W.
    assert (rws = [r]).
    { revert F Hr. unfold find_rewrites. destruct (is_nil _); [intros [= <- _] []|].
      intros [= <- _] Hr. destruct (cut_wildcard _ _ Hr W) as (t & _ & ->). reflexivity. }
    subst rws. split; auto. eapply find_head_min; eauto.
  Qed.

  (** CNAME entries take precedence over address entries. *)
  Theorem cname_over_address tbl host qt :
    (exists e, In e tbl /\ matches_host e host = true /\ is_cname e = true) ->
    exists r rest, fst (find_rewrites sort tbl host qt) = r :: rest /\ is_cname r = true.
  Proof.
    intros (e & H1 & H2 & H3).
    assert (Q : qualifies tbl host qt e) by (unfold qualifies, match_qtype; rewrite H3; auto).
    destruct (find_nonempty _ _ _ _ Q) as (r & rest & E). exists r, rest. split; auto.
    destruct (find_rewrites sort tbl host qt) as [rws m] eqn:F. cbn in E. subst rws.
    pose proof (find_head_min _ _ _ _ _ _ F e Q) as L.
    destruct (is_cname r) eqn:C; auto.
    assert (lt_entry e r = true) by (apply lt_entry_spec; auto). congruence.
  Qed.

  (** Within one kind an exact-name entry shadows wildcard entries. *)
  Theorem exact_shadows_wildcard tbl host qt rws m r e :
    find_rewrites sort tbl host qt = (rws, m) -> In r rws ->
    is_wildcard (e_dom r) = true ->
    qualifies tbl host qt e -> is_cname e = is_cname r ->
    is_wildcard (e_dom e) = true.
  Proof.
    intros F Hr W Q K. destruct (wildcard_result _ _ _ _ _ _ F Hr W) as [_ M].
    specialize (M e Q). destruct (is_wildcard (e_dom e)) eqn:We; auto.
    assert (lt_entry e r = true) by (apply lt_entry_spec; auto). congruence.
  Qed.

  (** Among wildcards the most specific (longest pattern) wins. *)
  Theorem most_specific_wildcard tbl host qt rws m r e :
    find_rewrites sort tbl host qt = (rws, m) -> In r rws ->
    is_wildcard (e_dom r) = true ->
    qualifies tbl host qt e -> is_cname e = is_cname r ->
    (length (e_dom e) <= length (e_dom r))%nat.
  Proof.
    intros F Hr W Q K. destruct (wildcard_result _ _ _ _ _ _ F Hr W) as [_ M].
    pose proof (exact_shadows_wildcard _ _ _ _ _ _ _ F Hr W Q K) as We.
    specialize (M e Q). destruct (Nat.le_gt_cases (length (e_dom e)) (length (e_dom r))); auto.
    assert (lt_entry e r = true) by (apply lt_entry_spec; right; split; auto; right; split; [congruence|lia]).
    congruence.
  Qed.

  (** A CNAME entry of any shape shadows every wildcard address entry, and
      when an exact entry of a kind qualifies, entries of that kind in the
      result are exact (restating the two above from the other side). *)
  Corollary result_exact_when_exact_exists tbl host qt rws m r e :
    find_rewrites sort tbl host qt = (rws, m) -> In r rws ->
    qualifies tbl host qt e -> is_cname e = is_cname r -> is_wildcard (e_dom e) = false ->
    is_wildcard (e_dom r) = false.
  Proof.
    intros F Hr Q K We. destruct (is_wildcard (e_dom r)) eqn:W; auto.
    rewrite (exact_shadows_wildcard _ _ _ _ _ _ _ F Hr W Q K) in We. discriminate.
  Qed.
End SortedSort.

(** * Exceptions and names matched without a value *)

Lemma filter_none {A} (f : A -> bool) l : (forall x, In x l -> f x = false) -> filter f l = [].
Proof.
  induction l as [|a l IH]; cbn; intros H; [reflexivity|].
  rewrite (H a) by auto. apply IH. intros x Hx. apply H. auto.
Qed.

Lemma matches_exact e host :
  matches_host e host = true -> is_wildcard (e_dom e) = false -> e_dom e = host.
Proof.
  unfold matches_host, match_wildcard. intros H W. rewrite W in H. cbn in H.
  rewrite orb_false_r in H. apply eqb_bytes_spec; auto.
Qed.

Lemma matches_self e : matches_host e (e_dom e) = true.
Proof. unfold matches_host. rewrite eqb_bytes_refl. reflexivity. Qed.

Definition rewritten_empty := {| r_reason := Rewritten; r_canon := []; r_ips := [] |}.

Lemma wildcard_match_same_length r h :
  is_wildcard r = true -> is_wildcard h = true -> match_wildcard h r = true ->
  (length h <= length r)%nat -> r = h.
Proof.
  unfold match_wildcard. intros Wr Wh M L. rewrite Wr in M. cbn [andb] in M.
  destruct r as [|a [|b r]]; try discriminate. destruct h as [|c [|d h]]; try discriminate.
  cbn in Wr, Wh. apply andb_true_iff in Wr as [A B], Wh as [C D].
  apply N.eqb_eq in A, B, C, D. subst. cbn [tl] in M. unfold has_suffix in M.
  apply andb_true_iff in M as [M1 M2]. apply Nat.leb_le in M1. cbn [length] in *.
  destruct (Nat.eq_dec (length r) (length h)) as [E|E].
  - replace (S (S (length h)) - S (length r))%nat with 1%nat in M2 by lia.
    cbn in M2. apply eqb_bytes_spec in M2. congruence.
  - replace (S (S (length h)) - S (length r))%nat with 0%nat in M2 by lia.
    cbn in M2. discriminate.
Qed.

Section Exceptions.
  Variable sort : list entry -> list entry.
  Hypothesis sort_perm : forall l, Permutation (sort l) l.

  (** A name covered by the table but without any entry for the requested
      type is rewritten to an empty answer. *)
  Theorem matched_without_value tbl host qt :
    (exists e, In e tbl /\ matches_host e host = true) ->
    (forall e, In e tbl -> matches_host e host = true -> match_qtype e qt = false) ->
    process_rewrites sort tbl host qt = Some rewritten_empty.
  Proof.
    intros M N. apply (find_rewrites_matched sort) with (qt := qt) in M.
    rewrite find_rewrites_snd in M.
    unfold process_rewrites, find_rewrites.
    rewrite (filter_none (fun e => match_qtype e qt)).
    2:{ intros x Hx. apply filter_In in Hx as [H1 H2]. auto. }
    cbn [is_nil]. rewrite M. reflexivity.
  Qed.

  (** The first CNAME found pointing at the queried name, or at its own
      pattern, makes the whole query pass through. *)
  Lemma exception_head tbl host qt r rest :
    find_rewrites sort tbl host qt = (r :: rest, true) -> is_cname r = true ->
    e_ans r = host \/ e_ans r = e_dom r ->
    process_rewrites sort tbl host qt = Some empty_result.
  Proof.
    intros F C E. unfold process_rewrites. rewrite F. cbn [negb chase andb]. rewrite C.
    replace (eqb_bytes host (e_ans r) || eqb_bytes (e_dom r) (e_ans r)) with true; auto.
    symmetry. apply orb_true_iff. destruct E as [->| ->]; rewrite eqb_bytes_refl; auto.
  Qed.

  Hypothesis sort_sorted : forall l, sorted_by_compare (sort l).

  (** "name -> name": a query for a name whose exact CNAME entries all point
      to the name itself is not rewritten, whatever else the table holds. *)
  Theorem self_cname_exception tbl host qt :
    (exists e, In e tbl /\ e_dom e = host /\ is_cname e = true) ->
    (forall e, In e tbl -> e_dom e = host -> is_cname e = true -> e_ans e = host) ->
    process_rewrites sort tbl host qt = Some empty_result.
  Proof.
    intros (s & S1 & S2 & S3) All.
    assert (Ms : matches_host s host = true) by (rewrite <- S2; apply matches_self).
    assert (Q : qualifies tbl host qt s) by (unfold qualifies, match_qtype; rewrite S3; auto).
    destruct (find_nonempty sort sort_perm _ _ _ _ Q) as (r & rest & E).
    destruct (find_rewrites sort tbl host qt) as [rws m] eqn:F. cbn in E. subst rws.
    assert (m = true).
    { change m with (snd (r :: rest, m)). rewrite <- F. apply find_rewrites_matched. eauto. }
    subst m. pose proof (find_head_min sort sort_perm sort_sorted _ _ _ _ _ _ F s Q) as L.
    assert (Qr : qualifies tbl host qt r).
    { apply (find_rewrites_In sort sort_perm). rewrite F. cbn; auto. }
    destruct Qr as (R1 & R2 & _).
    assert (C : is_cname r = true).
    { destruct (is_cname r) eqn:C; auto.
      assert (lt_entry s r = true) by (apply lt_entry_spec; auto). congruence. }
    eapply exception_head; eauto. left. apply All; auto.
    destruct (is_wildcard (e_dom r)) eqn:W; [|apply matches_exact; auto].
    destruct (is_wildcard (e_dom s)) eqn:Ws.
    - (* the queried name is itself a wildcard text *)
      unfold matches_host in R2. apply orb_true_iff in R2 as [R2|R2].
      + apply eqb_bytes_spec; auto.
      + apply wildcard_match_same_length; try congruence.
        rewrite <- S2. destruct (Nat.le_gt_cases (length (e_dom s)) (length (e_dom r))); auto.
        exfalso. assert (lt_entry s r = true); [|congruence].
        apply lt_entry_spec. right. split; [congruence|]. right. split; [congruence|lia].
    - exfalso. assert (lt_entry s r = true); [|congruence].
      apply lt_entry_spec. right. split; [congruence|auto].
  Qed.
End Exceptions.

Section TypeExceptions.
  Variable sort : list entry -> list entry.
  Hypothesis sort_perm : forall l, Permutation (sort l) l.
  Hypothesis sort_sorted : forall l, sorted_by_compare (sort l).

  Lemma type_exception_not_cname e qt : type_exception e qt -> is_cname e = false.
  Proof.
    intros (T & Q & _). unfold is_cname. destruct (e_type e); auto.
    cbn in T. subst qt. discriminate.
  Qed.

  Lemma type_exception_qualifies tbl host qt e :
    In e tbl -> matches_host e host = true -> type_exception e qt -> qualifies tbl host qt e.
  Proof.
    intros H1 H2 T. pose proof (type_exception_not_cname _ _ T) as C.
    destruct T as (T & Q & _). unfold qualifies, match_qtype. rewrite C, Q, T, N.eqb_refl. auto.
  Qed.

  (** "name -> A" / "name -> AAAA": with no CNAME entry covering the name,
      an exact exception entry of the requested type makes processRewrites
      report "not found", and CheckHost passes the query on.  (For a queried
      name that is itself a wildcard text the exception entry competes with
      equal patterns for the single slot the cut leaves, and the outcome
      depends on the order the sort leaves them in; hence the premise.) *)
  Theorem type_exception_passes tbl host qt x :
    is_wildcard host = false ->
    (forall e, In e tbl -> matches_host e host = true -> is_cname e = false) ->
    In x tbl -> e_dom x = host -> type_exception x qt ->
    exists r, process_rewrites sort tbl host qt = Some r /\ r_reason r = NotFound.
  Proof.
    intros Wh NoC X1 X2 XT.
    assert (Mx : matches_host x host = true) by (rewrite <- X2; apply matches_self).
    pose proof (type_exception_qualifies _ _ _ _ X1 Mx XT) as Q.
    pose proof (type_exception_not_cname _ _ XT) as Cx.
    assert (Wx : is_wildcard (e_dom x) = false) by congruence.
    unfold process_rewrites.
    destruct (find_rewrites sort tbl host qt) as [rws m] eqn:F.
    assert (m = true).
    { change m with (snd (rws, m)). rewrite <- F. apply find_rewrites_matched. eauto. }
    subst m. cbn [negb].
    assert (All : forall e, In e rws -> qualifies tbl host qt e).
    { intros e He. apply (find_rewrites_In sort sort_perm). rewrite F. auto. }
    assert (Hx : In x rws).
    { revert F. unfold find_rewrites.
      pose proof (qualifies_in_sorted sort sort_perm _ _ _ _ Q) as Hs.
      pose proof (sort_sorted (filter (fun e => match_qtype e qt)
                                (filter (fun e => matches_host e host) tbl))) as S.
      destruct (is_nil _) eqn:Nil.
      { destruct (filter (fun e => match_qtype e qt) _) eqn:Fl; [|discriminate].
        apply (Permutation_in _ (sort_perm _)) in Hs. destruct Hs. }
      intros [= <-].
      assert (Inc : forall y, In y (sort (filter (fun e => match_qtype e qt)
                       (filter (fun e => matches_host e host) tbl))) -> qualifies tbl host qt y).
      { intros y Hy. apply (Permutation_in _ (sort_perm _)) in Hy.
        rewrite !filter_In in Hy. unfold qualifies. tauto. }
      apply in_split in Hs as (l1 & l2 & E). rewrite E in *.
      apply cut_keeps; auto. intros y Hy.
      pose proof (sorted_app_mid _ _ _ S y Hy) as L.
      destruct (is_wildcard (e_dom y)) eqn:Wy; auto.
      assert (Qy : qualifies tbl host qt y) by (apply Inc, in_or_app; auto).
      destruct Qy as (Y1 & Y2 & _). pose proof (NoC _ Y1 Y2) as Cy.
      assert (lt_entry x y = true) by (apply lt_entry_spec; right; split; [congruence|auto]).
      congruence. }
    cbn [chase]. destruct rws as [|r rest]; [destruct Hx|].
    destruct (All r (or_introl eq_refl)) as (R1 & R2 & _). rewrite (NoC _ R1 R2). cbn [andb].
    eexists. split; [reflexivity|]. apply set_result_reason. right. eauto.
  Qed.
End TypeExceptions.

(** * A covered name is passed on only because of an exception entry *)

Definition cname_exception_in (tbl : list entry) (orig : bytes) : Prop :=
  exists e, In e tbl /\ is_cname e = true /\ (e_ans e = orig \/ e_ans e = e_dom e).

Definition type_exception_in (tbl : list entry) (qt : N) : Prop :=
  exists e final, In e tbl /\ matches_host e final = true /\ type_exception e qt.

Section OnlyExceptions.
  Variable sort : list entry -> list entry.
  Hypothesis sort_perm : forall l, Permutation (sort l) l.

  Lemma chase_notfound fuel : forall tbl qt orig host visited canon rws matched r,
    (forall e, In e rws -> In e tbl /\ matches_host e host = true) ->
    chase sort fuel tbl qt orig host visited canon rws matched = Some r ->
    r_reason r = NotFound ->
    cname_exception_in tbl orig \/ type_exception_in tbl qt.
  Proof.
    induction fuel as [|fuel IH]; intros tbl qt orig host visited canon rws matched r Hr;
      cbn [chase]; [discriminate|].
    assert (D : forall c, Some (set_result {| r_reason := Rewritten; r_canon := c; r_ips := [] |} rws qt)
                = Some r -> r_reason r = NotFound ->
                cname_exception_in tbl orig \/ type_exception_in tbl qt).
    { intros c E N. assert (E' : r = set_result {| r_reason := Rewritten; r_canon := c; r_ips := [] |} rws qt)
        by congruence. subst r. clear E.
      apply set_result_reason in N as [N|(e & He & T)]; [discriminate|].
      right. exists e, host. destruct (Hr e He). auto. }
    destruct rws as [|rw rws]; [apply D|].
    destruct (matched && is_cname rw) eqn:MC; [|apply D].
    apply andb_true_iff in MC as [_ C].
    destruct (_ || _) eqn:X.
    { intros _ _. left. exists rw. destruct (Hr rw (or_introl eq_refl)).
      apply orb_true_iff in X as [X|X]; apply eqb_bytes_spec in X; auto. }
    destruct (_ && _); [apply D|].
    destruct (mem_bytes _ _); [intros [= <-]; discriminate|].
    destruct (find_rewrites sort tbl (e_ans rw) qt) as [rws' m'] eqn:F.
    apply IH. intros e H. change rws' with (fst (rws', m')) in H. rewrite <- F in H.
    apply (find_rewrites_In sort sort_perm) in H. unfold qualifies in H. tauto.
  Qed.

  Theorem not_rewritten_only_by_exception tbl host qt r :
    process_rewrites sort tbl host qt = Some r -> r_reason r = NotFound ->
    (exists e, In e tbl /\ matches_host e host = true) ->
    cname_exception_in tbl host \/ type_exception_in tbl qt.
  Proof.
    unfold process_rewrites. intros P N M.
    apply (find_rewrites_matched sort) with (qt := qt) in M.
    destruct (find_rewrites sort tbl host qt) as [rws m] eqn:F. cbn in M. subst m.
    cbn [negb] in P. eapply chase_notfound; eauto.
    intros e H. change rws with (fst (rws, true)) in H. rewrite <- F in H.
    apply (find_rewrites_In sort sort_perm) in H. unfold qualifies in H. tauto.
  Qed.

  (** CheckHost discards a result that is not "rewritten". *)
  Lemma check_host_not_rewritten en tbl host qt r :
    process_rewrites sort tbl (to_lower host) qt = Some r -> r_reason r = NotFound ->
    check_host sort en tbl host qt = Some empty_result.
  Proof.
    intros P N. unfold check_host. destruct (is_nil host); auto. destruct (negb en); auto.
    rewrite P, N. reflexivity.
  Qed.

  Lemma check_host_rewritten tbl host qt r :
    host <> [] -> process_rewrites sort tbl (to_lower host) qt = Some r ->
    r_reason r = Rewritten -> check_host sort true tbl host qt = Some r.
  Proof.
    intros H P N. unfold check_host. destruct host; [congruence|]. cbn [is_nil negb].
    rewrite P, N. reflexivity.
  Qed.

  Theorem check_host_passes_only_by_exception tbl host qt :
    host <> [] -> check_host sort true tbl host qt = Some empty_result ->
    (exists e, In e tbl /\ matches_host e (to_lower host) = true) ->
    cname_exception_in tbl (to_lower host) \/ type_exception_in tbl qt.
  Proof.
    intros H C M. unfold check_host in C. destruct host; [congruence|]. cbn [is_nil negb] in C.
    destruct (process_rewrites sort tbl (to_lower (n :: host)) qt) as [r|] eqn:P; [|discriminate].
    destruct (r_reason r) eqn:N.
    - eapply not_rewritten_only_by_exception; eauto.
    - assert (r = empty_result) by congruence. subst r. discriminate.
  Qed.
End OnlyExceptions.

(** * The statements at the level of CheckHost, as Props/C06.v quotes them *)

Section CheckHostLevel.
  Variable sort : list entry -> list entry.
  Hypothesis sort_perm : forall l, Permutation (sort l) l.
  Hypothesis sort_sorted : forall l, sorted_by_compare (sort l).

  Theorem terminates tbl host qt :
    process_rewrites sort tbl host qt <> None /\
    forall enabled, check_host sort enabled tbl host qt <> None.
  Proof. split; [apply process_rewrites_terminates | intro; apply check_host_terminates]; auto. Qed.

  Theorem check_host_self_exception en tbl host qt :
    (exists e, In e tbl /\ e_dom e = to_lower host /\ is_cname e = true) ->
    (forall e, In e tbl -> e_dom e = to_lower host -> is_cname e = true -> e_ans e = to_lower host) ->
    check_host sort en tbl host qt = Some empty_result.
  Proof.
    intros H1 H2. eapply check_host_not_rewritten.
    - apply self_cname_exception; eauto.
    - reflexivity.
  Qed.

  Theorem check_host_type_exception en tbl host qt x :
    is_wildcard (to_lower host) = false ->
    (forall e, In e tbl -> matches_host e (to_lower host) = true -> is_cname e = false) ->
    In x tbl -> e_dom x = to_lower host -> type_exception x qt ->
    check_host sort en tbl host qt = Some empty_result.
  Proof.
    intros W NoC X1 X2 XT.
    destruct (type_exception_passes sort sort_perm sort_sorted _ _ _ _ W NoC X1 X2 XT) as (r & P & N).
    eapply check_host_not_rewritten; eauto.
  Qed.

  Theorem check_host_matched_without_value tbl host qt :
    host <> [] ->
    (exists e, In e tbl /\ matches_host e (to_lower host) = true) ->
    (forall e, In e tbl -> matches_host e (to_lower host) = true -> match_qtype e qt = false) ->
    check_host sort true tbl host qt = Some rewritten_empty.
  Proof.
    intros H M N. eapply check_host_rewritten; auto.
    apply matched_without_value; auto.
  Qed.
End CheckHostLevel.

(** * The examples of AGHTechDoc.md, section "Rewrites" *)

Module DocExamples.
  Local Open Scope string_scope.
  Definition v4 (n : N) := Some {| ip_is4 := true; ip_val := n |}.
  Definition v6 (n : N) := Some {| ip_is4 := false; ip_val := n |}.
  Definition ent (d a : string) (p : option ip) : entry :=
    normalize {| w_dom := bs d; w_ans := bs a; w_parse := p |}.
  Definition ip1234 := {| ip_is4 := true; ip_val := 16909060 |}.   (* 1.2.3.4 *)
  Definition ip6_1 := {| ip_is4 := false; ip_val := 1 |}.          (* ::1 *)
  Definition ask (tbl : list entry) (h : string) (qt : N) := check_host isort true tbl (bs h) qt.
  Definition answer (canon : string) (ips : list ip) :=
    Some {| r_reason := Rewritten; r_canon := bs canon; r_ips := ips |}.
  Definition upstream := Some empty_result.     (* not rewritten: passed on *)

  (** Example: A record *)
  Definition t1 := [ent "host.com" "1.2.3.4" (v4 16909060)].
  Example doc_a_A : ask t1 "host.com" qA = answer "" [ip1234]. Proof. vm_compute. reflexivity. Qed.
  Example doc_a_AAAA : ask t1 "host.com" qAAAA = answer "" []. Proof. vm_compute. reflexivity. Qed.

  (** Example: AAAA record *)
  Definition t2 := [ent "host.com" "::1" (v6 1)].
  Example doc_aaaa_A : ask t2 "host.com" qA = answer "" []. Proof. vm_compute. reflexivity. Qed.
  Example doc_aaaa_AAAA : ask t2 "host.com" qAAAA = answer "" [ip6_1]. Proof. vm_compute. reflexivity. Qed.

  (** Example: CNAME record (addresses of host.com come from upstream) *)
  Definition t3 := [ent "sub.host.com" "host.com" None].
  Example doc_cname_A : ask t3 "sub.host.com" qA = answer "host.com" []. Proof. vm_compute. reflexivity. Qed.
  Example doc_cname_AAAA : ask t3 "sub.host.com" qAAAA = answer "host.com" []. Proof. vm_compute. reflexivity. Qed.

  (** Example: CNAME+A records *)
  Definition t4 := [ent "sub.host.com" "host.com" None; ent "host.com" "1.2.3.4" (v4 16909060)].
  Example doc_cname_a_A : ask t4 "sub.host.com" qA = answer "host.com" [ip1234]. Proof. vm_compute. reflexivity. Qed.
  Example doc_cname_a_AAAA : ask t4 "sub.host.com" qAAAA = answer "host.com" []. Proof. vm_compute. reflexivity. Qed.

  (** Example: Wildcard CNAME+A record with CNAME exception *)
  Definition t5 := [ent "*.host.com" "1.2.3.4" (v4 16909060); ent "pass.host.com" "pass.host.com" None].
  Example doc_wild_my_A : ask t5 "my.host.com" qA = answer "" [ip1234]. Proof. vm_compute. reflexivity. Qed.
  Example doc_wild_my_AAAA : ask t5 "my.host.com" qAAAA = answer "" []. Proof. vm_compute. reflexivity. Qed.
  Example doc_wild_pass_A : ask t5 "pass.host.com" qA = upstream. Proof. vm_compute. reflexivity. Qed.
  Example doc_wild_pass_AAAA : ask t5 "pass.host.com" qAAAA = upstream. Proof. vm_compute. reflexivity. Qed.

  (** Example: A record with AAAA exception *)
  Definition t6 := [ent "host.com" "1.2.3.4" (v4 16909060); ent "host.com" "AAAA" None].
  Example doc_aaaa_exc_A : ask t6 "host.com" qA = answer "" [ip1234]. Proof. vm_compute. reflexivity. Qed.
  Example doc_aaaa_exc_AAAA : ask t6 "host.com" qAAAA = upstream. Proof. vm_compute. reflexivity. Qed.

  (** Example: pass A only *)
  Definition t7 := [ent "host.com" "A" None].
  Example doc_pass_a_A : ask t7 "host.com" qA = upstream. Proof. vm_compute. reflexivity. Qed.
  Example doc_pass_a_AAAA : ask t7 "host.com" qAAAA = answer "" []. Proof. vm_compute. reflexivity. Qed.

  Lemma all :
    ask t1 "host.com" qA = answer "" [ip1234] /\
    ask t1 "host.com" qAAAA = answer "" [] /\
    ask t2 "host.com" qA = answer "" [] /\
    ask t2 "host.com" qAAAA = answer "" [ip6_1] /\
    ask t3 "sub.host.com" qA = answer "host.com" [] /\
    ask t4 "sub.host.com" qA = answer "host.com" [ip1234] /\
    ask t4 "sub.host.com" qAAAA = answer "host.com" [] /\
    ask t5 "my.host.com" qA = answer "" [ip1234] /\
    ask t5 "my.host.com" qAAAA = answer "" [] /\
    ask t5 "pass.host.com" qA = upstream /\
    ask t5 "pass.host.com" qAAAA = upstream /\
    ask t6 "host.com" qA = answer "" [ip1234] /\
    ask t6 "host.com" qAAAA = upstream /\
    ask t7 "host.com" qA = upstream /\
    ask t7 "host.com" qAAAA = answer "" [].
  Proof. vm_compute. repeat split. Qed.

  (** The premises of the theorems above are satisfiable by concrete tables. *)

  (* a cycle that does not pass through the queried name, entered through a wildcard *)
  Definition t_cycle := [ent "a.test" "x.test" None; ent "*.test" "y.x.test" None;
                         ent "y.x.test" "x.test" None].
  Example terminates_on_cycle :
    process_rewrites isort t_cycle (bs "a.test") qA = answer "y.x.test" [].
  Proof. vm_compute. reflexivity. Qed.

  Example addresses_from_table_premises :
    exists r i, process_rewrites isort t4 (bs "sub.host.com") qA = Some r /\ In i (r_ips r).
  Proof. eexists _, ip1234. split; [vm_compute; reflexivity | cbn; auto]. Qed.

  Definition t_prec := [ent "b.a.test" "1.2.3.4" (v4 16909060); ent "*.a.test" "::1" (v6 1);
                        ent "*.a.test" "1.1.1.1" (v4 16843009); ent "*.test" "2.2.2.2" (v4 33686018);
                        ent "*.test" "x.test" None].

  Example cname_over_address_premises :
    exists e, In e t_prec /\ matches_host e (bs "q.a.test") = true /\ is_cname e = true.
  Proof. exists (ent "*.test" "x.test" None). vm_compute. auto 10. Qed.

  Definition t_wild := [ent "b.a.test" "1.2.3.4" (v4 16909060); ent "*.test" "2.2.2.2" (v4 33686018);
                        ent "*.a.test" "1.1.1.1" (v4 16843009); ent "*.a.test" "::1" (v6 1)].

  (* q.a.test A is answered by the wildcard *.a.test while *.test also qualifies *)
  Example wildcard_premises :
    let r := ent "*.a.test" "1.1.1.1" (v4 16843009) in
    let e := ent "*.test" "2.2.2.2" (v4 33686018) in
    find_rewrites isort t_wild (bs "q.a.test") qA = ([r], true) /\ In r [r] /\
    is_wildcard (e_dom r) = true /\ qualifies t_wild (bs "q.a.test") qA e /\
    is_cname e = is_cname r.
  Proof. vm_compute. auto 10. Qed.

  Example self_exception_premises :
    (exists e, In e t5 /\ e_dom e = to_lower (bs "pass.host.com") /\ is_cname e = true) /\
    (forall e, In e t5 -> e_dom e = to_lower (bs "pass.host.com") -> is_cname e = true ->
               e_ans e = to_lower (bs "pass.host.com")).
  Proof.
    split.
    - exists (ent "pass.host.com" "pass.host.com" None). vm_compute. auto.
    - intros e [<-|[<-|[]]]; vm_compute; congruence.
  Qed.

  Example type_exception_premises :
    let x := ent "host.com" "AAAA" None in
    is_wildcard (to_lower (bs "host.com")) = false /\
    (forall e, In e t6 -> matches_host e (to_lower (bs "host.com")) = true -> is_cname e = false) /\
    In x t6 /\ e_dom x = to_lower (bs "host.com") /\ type_exception x qAAAA.
  Proof.
    cbv zeta. repeat split; try (vm_compute; auto; fail).
    intros e [<-|[<-|[]]]; vm_compute; auto.
  Qed.

  Example matched_without_value_premises :
    bs "host.com" <> [] /\
    (exists e, In e t1 /\ matches_host e (to_lower (bs "host.com")) = true) /\
    (forall e, In e t1 -> matches_host e (to_lower (bs "host.com")) = true ->
               match_qtype e qAAAA = false).
  Proof.
    repeat split.
    - vm_compute. discriminate.
    - eexists. split; [left; reflexivity|]. vm_compute. reflexivity.
    - intros e [<-|[]] _. vm_compute. reflexivity.
  Qed.

  Example passes_only_by_exception_premises :
    bs "host.com" <> [] /\ check_host isort true t7 (bs "host.com") qA = Some empty_result /\
    exists e, In e t7 /\ matches_host e (to_lower (bs "host.com")) = true.
  Proof.
    split; [vm_compute; discriminate|]. split; [vm_compute; reflexivity|].
    eexists. split; [left; reflexivity|]. vm_compute. reflexivity.
  Qed.

  (** Several values under one wildcard pattern: the cut keeps a single
      entry, so only one of them is answered (which one is up to the sort;
      configuration order with a stable sort).  Observed in the code too. *)
  Example one_value_per_wildcard :
    process_rewrites isort
      [ent "*.a.test" "1.1.1.1" (v4 16843009); ent "*.a.test" "2.2.2.2" (v4 33686018)]
      (bs "q.a.test") qA = answer "" [{| ip_is4 := true; ip_val := 16843009 |}].
  Proof. vm_compute. reflexivity. Qed.
End DocExamples.

(** * Result.CanonNameRewritten (fix 2e58a5d): what the flag says *)

Section Covered.
  Variable sort : list entry -> list entry.
  Hypothesis sort_perm : forall l, Permutation (sort l) l.

  (** The flag processRewrites computes is a function of the canonical name
      alone: the table covers it, and what findRewrites returns for it does
      not start with a canonical-name entry. *)
  Definition canon_covered (tbl : list entry) (qt : N) (canon : bytes) : bool :=
    covered_after canon (fst (find_rewrites sort tbl canon qt)) (snd (find_rewrites sort tbl canon qt)).

  Lemma chase_covered_spec fuel : forall tbl qt orig host visited canon rws matched r b,
    find_rewrites sort tbl host qt = (rws, matched) ->
    canon = host \/ canon = [] ->
    chase sort fuel tbl qt orig host visited canon rws matched = Some r ->
    chase_covered sort fuel tbl qt orig host visited canon rws matched = Some b ->
    r_canon r <> [] -> b = canon_covered tbl qt (r_canon r).
  Proof.
    unfold canon_covered.
    induction fuel as [|fuel IH]; intros tbl qt orig host visited canon rws matched r b F Hc;
      cbn [chase chase_covered]; [discriminate|].
    assert (D : forall c, c = host \/ c = [] ->
                Some (set_result {| r_reason := Rewritten; r_canon := c; r_ips := [] |} rws qt) = Some r ->
                Some (covered_after c rws matched) = Some b -> r_canon r <> [] ->
                b = covered_after (r_canon r) (fst (find_rewrites sort tbl (r_canon r) qt))
                                  (snd (find_rewrites sort tbl (r_canon r) qt))).
    { intros c Hc' E [= <-] N.
      assert (E' : r = set_result {| r_reason := Rewritten; r_canon := c; r_ips := [] |} rws qt) by congruence.
      subst r. clear E. rewrite set_result_canon in *. cbn [r_canon] in *.
      destruct Hc' as [-> | ->]; [|congruence]. rewrite F. reflexivity. }
    destruct rws as [|rw rws]; [apply D; auto|].
    destruct (matched && is_cname rw) eqn:MC; [|apply D; auto].
    destruct (_ || _); [intros [= <-] _ N; cbn in N; congruence|].
    destruct (eqb_bytes host (e_ans rw) && is_wildcard (e_dom rw)); [apply D; auto|].
    destruct (mem_bytes _ _).
    { intros [= <-] [= <-] N. cbn [r_canon] in *. destruct Hc as [-> | ->]; [|congruence].
      rewrite F. cbn [fst snd]. apply andb_true_iff in MC as [_ MC].
      unfold covered_after. rewrite MC. cbn [negb]. rewrite andb_false_r. reflexivity. }
    destruct (find_rewrites sort tbl (e_ans rw) qt) as [rws' m'] eqn:F'.
    apply IH; auto.
  Qed.

  Lemma chase_covered_some fuel : forall tbl qt orig host visited canon rws matched r,
    chase sort fuel tbl qt orig host visited canon rws matched = Some r ->
    exists b, chase_covered sort fuel tbl qt orig host visited canon rws matched = Some b.
  Proof.
    induction fuel as [|fuel IH]; intros tbl qt orig host visited canon rws matched r;
      cbn [chase chase_covered]; [discriminate|].
    destruct rws as [|rw rws]; [eauto|].
    destruct (matched && is_cname rw); [|eauto].
    destruct (_ || _); [eauto|]. destruct (_ && _); [eauto|]. destruct (mem_bytes _ _); [eauto|].
    destruct (find_rewrites sort tbl (e_ans rw) qt) as [rws' m']. apply IH.
  Qed.

  Theorem covered_flag_spec en tbl host qt r :
    check_host sort en tbl host qt = Some r -> r_reason r = Rewritten -> r_canon r <> [] ->
    covered_flag sort en tbl host qt = canon_covered tbl qt (r_canon r).
  Proof.
    unfold covered_flag, check_host_covered, check_host.
    destruct (is_nil host); [intros [= <-]; discriminate|].
    destruct (negb en); [intros [= <-]; discriminate|].
    destruct (process_rewrites sort tbl (to_lower host) qt) as [r'|] eqn:P; [|discriminate].
    destruct (r_reason r') eqn:R'; intros [= <-]; [discriminate|]. intros _ N.
    unfold process_rewrites in P. unfold process_rewrites_covered.
    destruct (find_rewrites sort tbl (to_lower host) qt) as [rws m] eqn:F.
    destruct (negb m); [injection P as <-; cbn in N; congruence|].
    destruct (chase_covered_some _ _ _ _ _ _ _ _ _ _ P) as (b & B). rewrite B.
    eapply chase_covered_spec; eauto.
  Qed.

  (** The canonical name is covered by the table, by no canonical-name
      entry: the flag is set. *)
  Theorem covered_flag_true en tbl host qt r :
    check_host sort en tbl host qt = Some r -> r_reason r = Rewritten -> r_canon r <> [] ->
    (exists e, In e tbl /\ matches_host e (r_canon r) = true) ->
    (forall e, In e tbl -> matches_host e (r_canon r) = true -> is_cname e = false) ->
    covered_flag sort en tbl host qt = true.
  Proof.
    intros C R N M NoC. rewrite (covered_flag_spec _ _ _ _ _ C R N). unfold canon_covered, covered_after.
    apply (find_rewrites_matched sort) with (qt := qt) in M. rewrite M.
    destruct (r_canon r); [congruence|]. cbn [is_nil negb andb].
    destruct (fst (find_rewrites sort tbl (n :: b) qt)) as [|x l] eqn:E; [reflexivity|].
    assert (Q : qualifies tbl (n :: b) qt x) by (apply (find_rewrites_In sort sort_perm); rewrite E; cbn; auto).
    destruct Q as (Q1 & Q2 & _). rewrite (NoC _ Q1 Q2). reflexivity.
  Qed.

  (** The canonical name is outside the table: the flag is not set (the
      name is resolved upstream, as before the fix). *)
  Theorem covered_flag_outside en tbl host qt r :
    check_host sort en tbl host qt = Some r -> r_reason r = Rewritten -> r_canon r <> [] ->
    (forall e, In e tbl -> matches_host e (r_canon r) = false) ->
    covered_flag sort en tbl host qt = false.
  Proof.
    intros C R N Out. rewrite (covered_flag_spec _ _ _ _ _ C R N). unfold canon_covered, covered_after.
    replace (snd (find_rewrites sort tbl (r_canon r) qt)) with false; [rewrite andb_false_r; reflexivity|].
    symmetry. rewrite find_rewrites_snd. rewrite filter_none; [reflexivity|]. auto.
  Qed.
End Covered.

(** * The response side *)

Section RespondProofs.
  Variable sort : list entry -> list entry.
  Hypothesis sort_perm : forall l, Permutation (sort l) l.
  Variable upstream : bytes -> N -> N * list rr.

  Theorem respond_terminates en tbl qname qt : respond sort upstream en tbl qname qt <> None.
  Proof.
    unfold respond. destruct (check_host sort en tbl qname qt) as [r|] eqn:C.
    - destruct (r_reason r); [destruct (upstream qname qt); discriminate|].
      destruct (via_upstream _ _); [destruct (upstream (r_canon r) qt)|]; discriminate.
    - exfalso. revert C. apply check_host_terminates; auto.
  Qed.

  (** A covered name without a value of the requested type: empty NOERROR
      answer, the upstream is not asked. *)
  Theorem respond_matched_without_value tbl qname qt :
    qname <> [] ->
    (exists e, In e tbl /\ matches_host e (to_lower qname) = true) ->
    (forall e, In e tbl -> matches_host e (to_lower qname) = true -> match_qtype e qt = false) ->
    respond sort upstream true tbl qname qt =
      Some {| rp_qname := qname; rp_rcode := 0; rp_answer := []; rp_upstream := [] |}.
  Proof.
    intros H M N. unfold respond.
    rewrite (check_host_matched_without_value sort tbl qname qt H M N). cbn.
    destruct (qt =? qA); [reflexivity|]. destruct (qt =? qAAAA); reflexivity.
  Qed.

  (** A CNAME without table addresses whose canonical name the table does
      not cover ([covered_flag] false, e.g. [covered_flag_outside]): the
      upstream is asked once, for the canonical name; the delivered message
      has the original question and the CNAME in front of the upstream's
      answer. *)
  Theorem respond_cname_via_upstream en tbl qname qt r :
    check_host sort en tbl qname qt = Some r ->
    r_reason r = Rewritten -> r_canon r <> [] -> r_ips r = [] ->
    covered_flag sort en tbl qname qt = false ->
    respond sort upstream en tbl qname qt =
      Some {| rp_qname := qname; rp_rcode := fst (upstream (r_canon r) qt);
              rp_answer := RR_CNAME qname (r_canon r) :: snd (upstream (r_canon r) qt);
              rp_upstream := [(r_canon r, qt)] |}.
  Proof.
    intros C R Cn I Cov. unfold respond, via_upstream. rewrite C, R, I, Cov.
    destruct (r_canon r); [congruence|]. cbn. destruct (upstream _ qt). reflexivity.
  Qed.

  (** ... and a canonical name that the table covers without a value of
      the requested type ([covered_flag] true, e.g. [covered_flag_true]):
      the CNAME alone, NOERROR, the upstream is not asked (fix 2e58a5d). *)
  Theorem respond_cname_covered en tbl qname qt r :
    check_host sort en tbl qname qt = Some r ->
    r_reason r = Rewritten -> r_canon r <> [] -> r_ips r = [] ->
    covered_flag sort en tbl qname qt = true ->
    respond sort upstream en tbl qname qt =
      Some {| rp_qname := qname; rp_rcode := 0;
              rp_answer := [RR_CNAME qname (r_canon r)]; rp_upstream := [] |}.
  Proof.
    intros C R Cn I Cov. unfold respond, via_upstream. rewrite C, R, I, Cov.
    destruct (r_canon r); [congruence|]. cbn.
    destruct (qt =? qA); [reflexivity|]. destruct (qt =? qAAAA); reflexivity.
  Qed.

  (** Addresses answered without asking the upstream come from the table. *)
  Theorem respond_local_addresses en tbl qname qt p owner v :
    respond sort upstream en tbl qname qt = Some p -> rp_upstream p = [] ->
    In (RR_A owner v) (rp_answer p) \/ In (RR_AAAA owner v) (rp_answer p) ->
    exists i r, check_host sort en tbl qname qt = Some r /\ In i (r_ips r) /\ ip_val i = v.
  Proof.
    unfold respond. destruct (check_host sort en tbl qname qt) as [r|]; [|discriminate].
    destruct (r_reason r); [destruct (upstream qname qt); intros [= <-]; discriminate|].
    destruct (via_upstream _ _); [destruct (upstream (r_canon r) qt); intros [= <-]; discriminate|].
    intros [= <-] _. cbn [rp_answer]. intros H.
    assert (K : In (RR_A owner v) (if qt =? qA then answers_v4 (if is_nil (r_canon r) then qname else r_canon r) (r_ips r)
                 else if qt =? qAAAA then answers_v6 (if is_nil (r_canon r) then qname else r_canon r) (r_ips r) else []) \/
                In (RR_AAAA owner v) (if qt =? qA then answers_v4 (if is_nil (r_canon r) then qname else r_canon r) (r_ips r)
                 else if qt =? qAAAA then answers_v6 (if is_nil (r_canon r) then qname else r_canon r) (r_ips r) else [])).
    { destruct H as [H|H]; apply in_app_or in H as [H|H]; auto;
        destruct (is_nil (r_canon r)); cbn in H; try tauto; destruct H as [H|[]]; discriminate. }
    clear H. unfold answers_v4, answers_v6 in K.
    destruct (qt =? qA).
    - destruct (forallb ip_is4 (r_ips r)); [|cbn in K; tauto].
      destruct K as [K|K]; apply in_map_iff in K as (i & E & Hi); [|discriminate].
      injection E as _ <-. eauto.
    - destruct (qt =? qAAAA); [|cbn in K; tauto].
      destruct K as [K|K]; apply in_map_iff in K as (i & E & Hi); [discriminate|].
      injection E as _ <-. apply filter_In in Hi as [Hi _]. eauto.
  Qed.
End RespondProofs.

Module RespondExamples.
  Import DocExamples.
  Local Open Scope string_scope.
  Definition up (name : bytes) (qt : N) : N * list rr :=
    if N.eqb qt qA then (0, [RR_A name 67305985]) else (0, []).       (* 4.3.2.1 *)

  (** "Example: CNAME record": the canonical name is resolved upstream. *)
  Example cname_via_upstream_premises :
    exists r, check_host isort true t3 (bs "sub.host.com") qA = Some r /\
              r_reason r = Rewritten /\ r_canon r <> [] /\ r_ips r = [].
  Proof. eexists. split; [vm_compute; reflexivity|]. vm_compute. repeat split. discriminate. Qed.

  Example doc_cname_response :
    respond isort up true t3 (bs "sub.host.com") qA =
      Some {| rp_qname := bs "sub.host.com"; rp_rcode := 0;
              rp_answer := [RR_CNAME (bs "sub.host.com") (bs "host.com"); RR_A (bs "host.com") 67305985];
              rp_upstream := [(bs "host.com", qA)] |}.
  Proof. vm_compute. reflexivity. Qed.

  (** "Example: CNAME+A records", answered locally. *)
  Example doc_cname_a_response :
    respond isort up true t4 (bs "sub.host.com") qA =
      Some {| rp_qname := bs "sub.host.com"; rp_rcode := 0;
              rp_answer := [RR_CNAME (bs "sub.host.com") (bs "host.com"); RR_A (bs "host.com") 16909060];
              rp_upstream := [] |}.
  Proof. vm_compute. reflexivity. Qed.

  (** "Example: A record", AAAA query: empty answer, upstream not asked. *)
  Example doc_a_response_AAAA :
    respond isort up true t1 (bs "host.com") qAAAA =
      Some {| rp_qname := bs "host.com"; rp_rcode := 0; rp_answer := []; rp_upstream := [] |}.
  Proof. vm_compute. reflexivity. Qed.

  Example local_addresses_premises :
    exists p, respond isort up true t4 (bs "sub.host.com") qA = Some p /\ rp_upstream p = [] /\
              In (RR_A (bs "host.com") 16909060) (rp_answer p).
  Proof. eexists. split; [vm_compute; reflexivity|]. cbn. auto. Qed.
End RespondExamples.

(** * Letter case (round 2)

    [normalize] lower-cases the domain before anything else, for every kind
    of entry, the "A"/"AAAA" exceptions included, and the answer when it is a
    canonical name; CheckHost lower-cases the queried name.  So neither the
    spelling of an entry nor that of the queried name matters. *)

Lemma lower_byte_idem b : lower_byte (lower_byte b) = lower_byte b.
Proof.
  unfold lower_byte. destruct ((65 <=? b) && (b <=? 90)) eqn:E; [|rewrite E; reflexivity].
  apply andb_true_iff in E as [E1 E2]. apply N.leb_le in E1, E2.
  replace ((65 <=? b + 32) && (b + 32 <=? 90)) with false; auto.
  symmetry. apply andb_false_iff. right. apply N.leb_gt. lia.
Qed.

Lemma to_lower_idem s : to_lower (to_lower s) = to_lower s.
Proof. unfold to_lower. rewrite map_map. apply map_ext, lower_byte_idem. Qed.

(** Two spellings of one name. *)
Definition same_name (a b : bytes) : Prop := to_lower a = to_lower b.

Lemma same_name_nil a b : same_name a b -> is_nil a = is_nil b.
Proof. unfold same_name, to_lower. destruct a, b; cbn; congruence. Qed.

(** normalize: the domain is lower-cased whatever the answer is. *)
Theorem normalize_dom r : e_dom (normalize r) = to_lower (w_dom r).
Proof.
  unfold normalize. destruct (eqb_bytes (w_ans r) ans_AAAA); [reflexivity|].
  destruct (eqb_bytes (w_ans r) ans_A); [reflexivity|]. destruct (w_parse r); reflexivity.
Qed.

(** The answer is kept as typed, except that a canonical name is lower-cased. *)
Theorem normalize_ans r :
  e_ans (normalize r) = if is_cname (normalize r) then to_lower (w_ans r) else w_ans r.
Proof.
  unfold normalize. destruct (eqb_bytes (w_ans r) ans_AAAA); [reflexivity|].
  destruct (eqb_bytes (w_ans r) ans_A); [reflexivity|].
  destruct (w_parse r) as [i|]; [destruct (ip_is4 i)|]; reflexivity.
Qed.

Theorem normalize_cname_ans_lower r :
  is_cname (normalize r) = true -> to_lower (e_ans (normalize r)) = e_ans (normalize r).
Proof. intros C. rewrite normalize_ans, C. apply to_lower_idem. Qed.

(** Entries that differ only in the letter case of the domain normalise to
    the same entry. *)
Theorem normalize_case_insensitive r r' :
  same_name (w_dom r) (w_dom r') -> w_ans r = w_ans r' -> w_parse r = w_parse r' ->
  normalize r = normalize r'.
Proof. unfold same_name, normalize. intros -> -> ->. reflexivity. Qed.

(** ... and so do CNAME entries that differ only in the letter case of
    domain and canonical name. *)
Definition plain_name (r : raw) : Prop :=
  w_parse r = None /\ w_ans r <> ans_A /\ w_ans r <> ans_AAAA.

Lemma plain_name_cname r : plain_name r -> is_cname (normalize r) = true.
Proof.
  intros (P & A & A4). unfold normalize.
  destruct (eqb_bytes (w_ans r) ans_AAAA) eqn:E1; [apply eqb_bytes_spec in E1; congruence|].
  destruct (eqb_bytes (w_ans r) ans_A) eqn:E2; [apply eqb_bytes_spec in E2; congruence|].
  rewrite P. reflexivity.
Qed.

Theorem normalize_cname_case_insensitive r r' :
  plain_name r -> plain_name r' ->
  same_name (w_dom r) (w_dom r') -> same_name (w_ans r) (w_ans r') ->
  normalize r = normalize r'.
Proof.
  intros (P & A & A4) (P' & A' & A4') D N. unfold same_name in *. unfold normalize.
  destruct (eqb_bytes (w_ans r) ans_AAAA) eqn:E1; [apply eqb_bytes_spec in E1; congruence|].
  destruct (eqb_bytes (w_ans r) ans_A) eqn:E2; [apply eqb_bytes_spec in E2; congruence|].
  destruct (eqb_bytes (w_ans r') ans_AAAA) eqn:E3; [apply eqb_bytes_spec in E3; congruence|].
  destruct (eqb_bytes (w_ans r') ans_A) eqn:E4; [apply eqb_bytes_spec in E4; congruence|].
  rewrite P, P', D, N. reflexivity.
Qed.

Definition same_raw (r r' : raw) : Prop :=
  same_name (w_dom r) (w_dom r') /\
  ((w_ans r = w_ans r' /\ w_parse r = w_parse r') \/
   (plain_name r /\ plain_name r' /\ same_name (w_ans r) (w_ans r'))).

Theorem normalize_table_case_insensitive raws raws' :
  Forall2 same_raw raws raws' -> map normalize raws = map normalize raws'.
Proof.
  induction 1 as [|r r' l l' (H1 & H2) _ IH]; cbn; [reflexivity|]. rewrite IH. f_equal.
  destruct H2 as [(H2 & H3)|(H2 & H3 & H4)].
  - apply normalize_case_insensitive; auto.
  - apply normalize_cname_case_insensitive; auto.
Qed.

Theorem normalize_type_exception r qt :
  (w_ans r = ans_A /\ qt = qA) \/ (w_ans r = ans_AAAA /\ qt = qAAAA) ->
  e_dom (normalize r) = to_lower (w_dom r) /\ type_exception (normalize r) qt.
Proof.
  intros [[A ->]|[A ->]]; unfold normalize, type_exception; rewrite A; cbn; auto.
Qed.

Section CaseInsensitive.
  Variable sort : list entry -> list entry.
  Hypothesis sort_perm : forall l, Permutation (sort l) l.
  Hypothesis sort_sorted : forall l, sorted_by_compare (sort l).

  (** The spelling of the queried name does not matter. *)
  Theorem check_host_case_insensitive en tbl host host' qt :
    same_name host host' ->
    check_host sort en tbl host qt = check_host sort en tbl host' qt.
  Proof.
    intros S. unfold check_host. rewrite (same_name_nil _ _ S). unfold same_name in S.
    rewrite S. reflexivity.
  Qed.

  (** "Name -> A" / "Name -> AAAA" in any spelling passes queries of that
      type for the name in any spelling on. *)
  Theorem type_exception_any_case en raws host qt x :
    In x raws -> same_name (w_dom x) host ->
    (w_ans x = ans_A /\ qt = qA) \/ (w_ans x = ans_AAAA /\ qt = qAAAA) ->
    is_wildcard (to_lower host) = false ->
    (forall e, In e (map normalize raws) -> matches_host e (to_lower host) = true ->
               is_cname e = false) ->
    check_host sort en (map normalize raws) host qt = Some empty_result.
  Proof.
    intros X S A W NoC. destruct (normalize_type_exception x qt A) as [D T].
    eapply check_host_type_exception with (x := normalize x); eauto.
    - apply in_map; auto.
    - rewrite D. exact S.
  Qed.

  (** "Name -> name": domain and answer in any spelling. *)
  Theorem self_exception_any_case en raws host qt x :
    In x raws -> same_name (w_dom x) host -> same_name (w_ans x) host ->
    is_cname (normalize x) = true ->
    (forall e, In e (map normalize raws) -> e_dom e = to_lower host -> is_cname e = true ->
               e_ans e = to_lower host) ->
    check_host sort en (map normalize raws) host qt = Some empty_result.
  Proof.
    intros X S A C All. apply check_host_self_exception; auto.
    exists (normalize x). split; [apply in_map; auto|]. split; auto.
    rewrite normalize_dom. exact S.
  Qed.

  (** In a normalised table the premise on the other exact CNAME entries can
      be stated on the configured entries, without letter case. *)
  Theorem self_exception_any_case_raw en raws host qt x :
    In x raws -> same_name (w_dom x) host -> same_name (w_ans x) host ->
    is_cname (normalize x) = true ->
    (forall y, In y raws -> same_name (w_dom y) host -> is_cname (normalize y) = true ->
               same_name (w_ans y) host) ->
    check_host sort en (map normalize raws) host qt = Some empty_result.
  Proof.
    intros X S A C All. eapply self_exception_any_case; eauto.
    intros e He D Ce. apply in_map_iff in He as (y & <- & Hy).
    rewrite normalize_ans, Ce. apply All; auto. unfold same_name. rewrite <- normalize_dom. exact D.
  Qed.
End CaseInsensitive.

Module CaseExamples.
  Import DocExamples.
  Local Open Scope string_scope.
  Definition raw_of (d a : string) (p : option ip) := {| w_dom := bs d; w_ans := bs a; w_parse := p |}.

  (** Premises of [type_exception_any_case] are satisfiable: *)
  Definition tA := [raw_of "*.example.com" "1.2.3.4" (v4 16909060); raw_of "NAS.Example.com" "A" None].
  Example type_exception_premises :
    In (raw_of "NAS.Example.com" "A" None) tA /\
    same_name (bs "NAS.Example.com") (bs "nas.EXAMPLE.com") /\
    is_wildcard (to_lower (bs "nas.EXAMPLE.com")) = false /\
    forallb (fun e => negb (matches_host e (to_lower (bs "nas.EXAMPLE.com"))) || negb (is_cname e))
            (map normalize tA) = true.
  Proof. split; [cbn; auto|]. split; vm_compute; auto. Qed.

  Example type_exception_mixed_case :
    check_host isort true (map normalize tA) (bs "nas.EXAMPLE.com") qA = Some empty_result /\
    check_host isort true (map normalize tA) (bs "other.example.com") qA =
      answer "" [ip1234].
  Proof. split; vm_compute; reflexivity. Qed.

  (** Mixed-case wildcard pattern with an exception: *)
  Example wildcard_exception_mixed_case :
    check_host isort true
      (map normalize [raw_of "*.Example.COM" "A" None; raw_of "*.com" "1.2.3.4" (v4 16909060)])
      (bs "nas.example.com") qA = Some empty_result.
  Proof. vm_compute. reflexivity. Qed.

  (** "Name -> name" typed with capitals on either side or on both: *)
  Definition tS1 := [raw_of "*.host.test" "1.2.3.4" (v4 16909060); raw_of "Pass.Host.test" "pass.host.test" None].
  Definition tS2 := [raw_of "*.host.test" "1.2.3.4" (v4 16909060); raw_of "Pass.Host.test" "Pass.Host.test" None].
  Definition tS3 := [raw_of "*.host.test" "1.2.3.4" (v4 16909060); raw_of "pass.host.test" "Pass.host.test" None].
  Example self_exception_mixed_case :
    check_host isort true (map normalize tS1) (bs "pass.host.test") qA = Some empty_result /\
    check_host isort true (map normalize tS2) (bs "pass.host.test") qA = Some empty_result /\
    check_host isort true (map normalize tS3) (bs "PASS.host.test") qA = Some empty_result /\
    check_host isort true (map normalize tS3) (bs "my.host.test") qA = answer "" [ip1234].
  Proof. repeat split; vm_compute; reflexivity. Qed.

  Example self_exception_premises :
    In (raw_of "Pass.Host.test" "Pass.Host.test" None) tS2 /\
    same_name (bs "Pass.Host.test") (bs "pass.host.test") /\
    is_cname (normalize (raw_of "Pass.Host.test" "Pass.Host.test" None)) = true.
  Proof. split; [cbn; auto|]. split; vm_compute; reflexivity. Qed.

  (** A chain through canonical names typed with capitals is followed. *)
  Example chain_mixed_case :
    check_host isort true
      (map normalize [raw_of "x.com" "Host.COM" None; raw_of "host.com" "1.2.3.4" (v4 16909060)])
      (bs "x.com") qA = answer "host.com" [ip1234].
  Proof. vm_compute. reflexivity. Qed.
End CaseExamples.

(** * The response side for every upstream reply, negative ones included *)

Section RespondNegative.
  Variable sort : list entry -> list entry.
  Hypothesis sort_perm : forall l, Permutation (sort l) l.

  (** Every delivered message carries the original question, whatever the
      upstream replied (any RCODE, any answer section). *)
  Theorem respond_question upstream en tbl qname qt p :
    respond sort upstream en tbl qname qt = Some p -> rp_qname p = qname.
  Proof.
    unfold respond. destruct (check_host sort en tbl qname qt) as [r|]; [|discriminate].
    destruct (r_reason r); [destruct (upstream qname qt); intros [= <-]; reflexivity|].
    destruct (via_upstream _ _); [destruct (upstream (r_canon r) qt)|]; intros [= <-]; reflexivity.
  Qed.

  (** The RCODE is the upstream's for the one question put to it, and 0 for
      a local answer: the upstream's reply object is reused. *)
  Theorem respond_rcode upstream en tbl qname qt p :
    respond sort upstream en tbl qname qt = Some p ->
    match rp_upstream p with
    | [] => rp_rcode p = 0
    | (n, t) :: rest => rest = [] /\ t = qt /\ rp_rcode p = fst (upstream n t)
    end.
  Proof.
    unfold respond. destruct (check_host sort en tbl qname qt) as [r|]; [|discriminate].
    destruct (r_reason r).
    - destruct (upstream qname qt) eqn:U. intros [= <-]. cbn. rewrite U. auto.
    - destruct (via_upstream _ _).
      + destruct (upstream (r_canon r) qt) eqn:U. intros [= <-]. cbn. rewrite U. auto.
      + intros [= <-]. reflexivity.
  Qed.

  (** A CNAME without table addresses, the upstream's reply spelled out:
      for EVERY reply [(rc, ans)] (NXDOMAIN, SERVFAIL, NOERROR with an empty
      answer section, ...) the client receives the original question, the
      upstream's RCODE, and the CNAME in front of the upstream's records. *)
  Theorem respond_cname_via_upstream_any_reply upstream en tbl qname qt r rc ans :
    check_host sort en tbl qname qt = Some r ->
    r_reason r = Rewritten -> r_canon r <> [] -> r_ips r = [] ->
    covered_flag sort en tbl qname qt = false ->
    upstream (r_canon r) qt = (rc, ans) ->
    respond sort upstream en tbl qname qt =
      Some {| rp_qname := qname; rp_rcode := rc;
              rp_answer := RR_CNAME qname (r_canon r) :: ans;
              rp_upstream := [(r_canon r, qt)] |}.
  Proof.
    intros C R Cn I Cov U. rewrite (respond_cname_via_upstream sort upstream en tbl qname qt r C R Cn I Cov).
    rewrite U. reflexivity.
  Qed.

  (** [respond_e] with an upstream that never fails is [respond]. *)
  Theorem respond_e_no_error upstream en tbl qname qt :
    respond_e sort (fun n t => Some (upstream n t)) en tbl qname qt =
    option_map (fun p => (false, p)) (respond sort upstream en tbl qname qt).
  Proof.
    unfold respond_e, respond, forward. destruct (check_host sort en tbl qname qt) as [r|]; [|reflexivity].
    destruct (r_reason r); [destruct (upstream qname qt); reflexivity|].
    destruct (via_upstream _ _); [destruct (upstream (r_canon r) qt); reflexivity|reflexivity].
  Qed.

  Theorem respond_e_terminates upstream en tbl qname qt :
    respond_e sort upstream en tbl qname qt <> None.
  Proof.
    unfold respond_e. destruct (check_host sort en tbl qname qt) as [r|] eqn:C.
    - destruct (r_reason r); [discriminate|]. destruct (via_upstream _ _); discriminate.
    - exfalso. revert C. apply check_host_terminates; auto.
  Qed.

  (** With a failing upstream too, the message that is sent carries the
      original question; and the handler fails only when the one exchange it
      tried failed, with a SERVFAIL. *)
  Theorem respond_e_question upstream en tbl qname qt f p :
    respond_e sort upstream en tbl qname qt = Some (f, p) -> rp_qname p = qname.
  Proof.
    unfold respond_e, forward. destruct (check_host sort en tbl qname qt) as [r|]; [|discriminate].
    destruct (r_reason r).
    - destruct (upstream qname qt) as [[rc ans]|]; intros [= <- <-]; reflexivity.
    - destruct (via_upstream _ _); [destruct (upstream (r_canon r) qt) as [[rc ans]|]|]; intros [= <- <-]; reflexivity.
  Qed.

  Theorem respond_e_failed_only_by_upstream upstream en tbl qname qt p :
    respond_e sort upstream en tbl qname qt = Some (true, p) ->
    exists n, rp_upstream p = [(n, qt)] /\ upstream n qt = None /\
              rp_rcode p = rcode_servfail /\ rp_answer p = [].
  Proof.
    unfold respond_e, forward. destruct (check_host sort en tbl qname qt) as [r|]; [|discriminate].
    destruct (r_reason r).
    - destruct (upstream qname qt) as [[rc ans]|] eqn:U; [discriminate|]. intros [= <-].
      exists qname. cbn. auto.
    - destruct (via_upstream _ _); [|discriminate].
      destruct (upstream (r_canon r) qt) as [[rc ans]|] eqn:U; [discriminate|]. intros [= <-].
      exists (r_canon r). cbn. auto.
  Qed.
End RespondNegative.

Module NegativeExamples.
  Import DocExamples.
  Local Open Scope string_scope.
  (* the canonical name does not exist / the upstream is broken / has no record *)
  Definition up (name : bytes) (qt : N) : N * list rr :=
    if eqb_bytes name (bs "gone.example") then (3, [])
    else if eqb_bytes name (bs "broken.example") then (2, [])
    else (0, []).
  Definition tn := [ent "a.host.com" "gone.example" None; ent "b.host.com" "broken.example" None;
                    ent "c.host.com" "empty.example" None].

  Example premises :
    exists r, check_host isort true tn (bs "a.host.com") qA = Some r /\
              r_reason r = Rewritten /\ r_canon r <> [] /\ r_ips r = [] /\
              up (r_canon r) qA = (3, []).
  Proof. eexists. split; [vm_compute; reflexivity|]. vm_compute. repeat split. discriminate. Qed.

  Example nxdomain :
    respond isort up true tn (bs "a.host.com") qA =
      Some {| rp_qname := bs "a.host.com"; rp_rcode := 3;
              rp_answer := [RR_CNAME (bs "a.host.com") (bs "gone.example")];
              rp_upstream := [(bs "gone.example", qA)] |}.
  Proof. vm_compute. reflexivity. Qed.
  Example servfail :
    respond isort up true tn (bs "b.host.com") qAAAA =
      Some {| rp_qname := bs "b.host.com"; rp_rcode := 2;
              rp_answer := [RR_CNAME (bs "b.host.com") (bs "broken.example")];
              rp_upstream := [(bs "broken.example", qAAAA)] |}.
  Proof. vm_compute. reflexivity. Qed.
  Example nodata :
    respond isort up true tn (bs "c.host.com") qA =
      Some {| rp_qname := bs "c.host.com"; rp_rcode := 0;
              rp_answer := [RR_CNAME (bs "c.host.com") (bs "empty.example")];
              rp_upstream := [(bs "empty.example", qA)] |}.
  Proof. vm_compute. reflexivity. Qed.

  (** A failing exchange for the canonical name: a SERVFAIL for the original
      question. *)
  Definition up_down (name : bytes) (qt : N) : option (N * list rr) :=
    if eqb_bytes name (bs "gone.example") then None else Some (0, []).
  Example upstream_error :
    respond_e isort up_down true tn (bs "a.host.com") qA =
      Some (true, {| rp_qname := bs "a.host.com"; rp_rcode := 2; rp_answer := [];
                     rp_upstream := [(bs "gone.example", qA)] |}).
  Proof. vm_compute. reflexivity. Qed.
End NegativeExamples.

(** C13, part 7: every step stays within its declared footprint
    (Model/MigrateFootprint.v), hence every key path outside the footprints
    of the steps that ran holds after the upgrade what it held before. *)
From Coq Require Import List ZArith String Ascii Bool Lia.
From AGH Require Import Model.Migrate Model.MigrateFootprint Proofs.Migrate Proofs.MigrateFrame Proofs.MigrateSim.
Import ListNotations.
Local Open Scope string_scope.
Local Open Scope list_scope.
Local Open Scope Z_scope.

(** ** What a footprint allows *)

Fixpoint Within (f : fp) (a b : option val) {struct f} : Prop :=
  match f with
  | FAll => True
  | FKeys l =>
      match a with
      | Some (VObj ma) =>
          exists mb, b = Some (VObj mb) /\
            (forall k, mem_b k (map fst l) = false -> get k mb = get k ma) /\
            (fix sub (l : list (string * fp)) : Prop :=
               match l with
               | [] => True
               | (k, f') :: l' => Within f' (get k ma) (get k mb) /\ sub l'
               end) l
      | _ => b = a
      end
  | FElems f' =>
      match a with
      | Some (VArr la) =>
          exists lb, b = Some (VArr lb) /\ Forall2 (fun x y => Within f' (Some x) (Some y)) la lb
      | _ => b = a
      end
  end.

(** The listed keys of a map, one by one. *)
Fixpoint WithinSub (l : list (string * fp)) (ma mb : obj) : Prop :=
  match l with
  | [] => True
  | (k, f') :: l' => Within f' (get k ma) (get k mb) /\ WithinSub l' ma mb
  end.

Definition WithinObj (l : list (string * fp)) (ma mb : obj) : Prop :=
  (forall k, mem_b k (map fst l) = false -> get k mb = get k ma) /\ WithinSub l ma mb.

Lemma WithinSub_fix l ma mb :
  (fix sub (l : list (string * fp)) : Prop :=
     match l with
     | [] => True
     | (k, f') :: l' => Within f' (get k ma) (get k mb) /\ sub l'
     end) l = WithinSub l ma mb.
Proof. induction l as [|[k f'] l IH]; cbn; [reflexivity|]. now rewrite IH. Qed.

Lemma Within_keys_obj l ma b :
  Within (FKeys l) (Some (VObj ma)) b <-> exists mb, b = Some (VObj mb) /\ WithinObj l ma mb.
Proof.
  cbn [Within]. unfold WithinObj. split; intros (mb & E & H1 & H2); exists mb; repeat split; auto.
  - now rewrite <- WithinSub_fix.
  - now rewrite WithinSub_fix.
Qed.

Lemma Within_keys_intro l ma mb : WithinObj l ma mb -> Within (FKeys l) (Some (VObj ma)) (Some (VObj mb)).
Proof. intros H. apply Within_keys_obj. eauto. Qed.

Lemma Within_keys_other l a : (forall m, a <> Some (VObj m)) -> Within (FKeys l) a a.
Proof. intros N. cbn [Within]. destruct a as [[]|]; try reflexivity. now destruct (N m). Qed.

Lemma Within_elems_intro f la lb :
  Forall2 (fun x y => Within f (Some x) (Some y)) la lb -> Within (FElems f) (Some (VArr la)) (Some (VArr lb)).
Proof. intros H. cbn [Within]. eauto. Qed.

Section fp_ind.
  Variable P : fp -> Prop.
  Hypothesis HAll : P FAll.
  Hypothesis HKeys : forall l, Forall (fun e => P (snd e)) l -> P (FKeys l).
  Hypothesis HElems : forall f, P f -> P (FElems f).
  Fixpoint fp_ind' (f : fp) : P f :=
    match f with
    | FAll => HAll
    | FKeys l =>
        HKeys l ((fix go (l : list (string * fp)) : Forall (fun e => P (snd e)) l :=
                    match l with
                    | [] => Forall_nil _
                    | e :: l' => Forall_cons e (fp_ind' (snd e)) (go l')
                    end) l)
    | FElems f' => HElems f' (fp_ind' f')
    end.
End fp_ind.

Lemma Forall2_refl {A} (R : A -> A -> Prop) l : (forall x, R x x) -> Forall2 R l l.
Proof. intros H. induction l; constructor; auto. Qed.

(** A step that changes nothing is within every footprint. *)
Lemma Within_refl f : forall a, Within f a a.
Proof.
  induction f as [|l IH|f IH] using fp_ind'; intros a.
  - exact I.
  - destruct a as [[]|]; try reflexivity. apply Within_keys_intro. split; [reflexivity|].
    induction IH as [|[k f'] l H _ IHl]; cbn; [exact I|]. split; [apply H|exact IHl].
  - destruct a as [[]|]; try reflexivity. apply Within_elems_intro. apply Forall2_refl. intros x. apply IH.
Qed.

Lemma WithinSub_refl l m : WithinSub l m m.
Proof. induction l as [|[k f] l IH]; cbn; [exact I|]. split; [apply Within_refl|exact IH]. Qed.

Lemma WithinObj_refl l m : WithinObj l m m.
Proof. split; [reflexivity|apply WithinSub_refl]. Qed.

(** ** From footprints to paths *)

Lemma outside_keys_go k p l :
  (fix go (l : list (string * fp)) : bool :=
     match l with
     | [] => true
     | (k', f') :: l' => if String.eqb k k' then outside f' p else go l'
     end) l = true ->
  (mem_b k (map fst l) = false) \/ (exists f', In (k, f') l /\ outside f' p = true).
Proof.
  induction l as [|[k' f'] l IH]; cbn.
  - now left.
  - destruct (String.eqb k k') eqn:E.
    + apply String.eqb_eq in E; subst k'. intros H. right. exists f'. auto.
    + intros H. destruct (IH H) as [H1|(f2 & H1 & H2)]; [now left|]. right. exists f2. auto.
Qed.

Lemma WithinSub_in l ma mb k f : WithinSub l ma mb -> In (k, f) l -> Within f (get k ma) (get k mb).
Proof.
  induction l as [|[k' f'] l IH]; cbn; [contradiction|].
  intros [H1 H2] [[= -> ->]|H]; auto.
Qed.

Lemma Forall2_nth {A} (R : A -> A -> Prop) la lb i :
  Forall2 R la lb ->
  match nth_error la i, nth_error lb i with
  | Some x, Some y => R x y
  | None, None => True
  | _, _ => False
  end.
Proof.
  intros H. revert i. induction H as [|x y la lb Hxy _ IH]; intros [|i]; cbn; auto.
  apply IH.
Qed.

(** Whatever lies on a path outside the footprint is the same before and
    after (a value, or nothing on both sides). *)
Lemma Within_outside f : forall a b p, Within f a b -> outside f p = true -> lookup p a = lookup p b.
Proof.
  induction f as [|l IH|f IH] using fp_ind'; intros a b p W Ho.
  - discriminate.
  - destruct p as [|[k|i] p]; [discriminate| |].
    + cbn [outside] in Ho. apply outside_keys_go in Ho.
      destruct a as [[]|]; try (cbn [Within] in W; subst b; reflexivity).
      apply Within_keys_obj in W. destruct W as (mb & -> & Hout & Hsub). cbn [lookup].
      destruct Ho as [Hk|(f' & Hin & Hf')].
      * now rewrite (Hout _ Hk).
      * rewrite Forall_forall in IH. apply (IH (k, f') Hin); [|exact Hf'].
        exact (WithinSub_in _ _ _ _ _ Hsub Hin).
    + destruct a as [[]|]; try (cbn [Within] in W; subst b; reflexivity).
      apply Within_keys_obj in W. destruct W as (mb & -> & _). reflexivity.
  - destruct p as [|[k|i] p]; [discriminate| |].
    + destruct a as [[]|]; try (cbn [Within] in W; subst b; reflexivity).
      cbn [Within] in W. destruct W as (lb & -> & _). reflexivity.
    + cbn [outside] in Ho.
      destruct a as [[]|]; try (cbn [Within] in W; subst b; reflexivity).
      cbn [Within] in W. destruct W as (lb & -> & F). cbn [lookup].
      pose proof (Forall2_nth _ _ _ i F) as N.
      destruct (nth_error l i) as [x|], (nth_error lb i) as [y|]; try contradiction.
      * now apply IH.
      * destruct p; reflexivity.
Qed.

(** ** Every step stays within its footprint *)

Definition stays (f : fp) (s : step) : Prop :=
  forall m m', s (Some m) = Ok m' -> Within f (Some (VObj m)) (Some (VObj m')).

Ltac ne3 :=
  match goal with
  | H : mem_b ?k ?l = false |- ?k <> _ => apply (mem_b_ne _ _ _ H); reflexivity
  | |- _ => discriminate
  end.

Lemma get_move_val_dst t s d sk dk s' d' x :
  move_val t s d sk dk = Some (s', d') -> x <> dk -> get x d' = get x d.
Proof.
  unfold move_val. destruct (field_val t s sk); intros [= <- <-] N; [reflexivity|].
  now apply get_upd_ne.
Qed.

Lemma get_moves_dst l : forall s d s' d' x,
  moves l s d = Some (s', d') -> (forall a, In a (map snd l) -> x <> a) -> get x d' = get x d.
Proof.
  induction l as [|[[t sk] dk] l IH]; intros s d s' d' x; cbn.
  - now intros [= <- <-].
  - destruct (move_val t s d sk dk) as [[s1 d1]|] eqn:E; [|discriminate].
    intros H N. rewrite (IH _ _ _ _ _ H) by (intros; apply N; auto).
    eapply get_move_val_dst; [exact E|]. apply N; auto.
Qed.

Ltac frame_rw3 :=
  repeat match goal with
  | H : with_obj ?m ?k ?f = Ok ?m' |- context [get ?x ?m'] =>
      rewrite (get_with_obj m k f m' x H) by ne3
  | H : move_val ?t ?s ?d ?sk ?dk = Some (?s', ?d') |- context [get ?x ?s'] =>
      rewrite (get_move_val t s d sk dk s' d' x H) by ne3
  | H : move_val ?t ?s ?d ?sk ?dk = Some (?s', ?d') |- context [get ?x ?d'] =>
      rewrite (get_move_val_dst t s d sk dk s' d' x H) by ne3
  | H : move_in ?t ?m ?sk ?dk = Some ?m' |- context [get ?x ?m'] =>
      rewrite (get_move_in t m sk dk m' x H) by ne3
  | H : moves ?l ?s ?d = Some (?s', ?d') |- context [get ?x ?d'] =>
      rewrite (get_moves_dst l s d s' d' x H)
        by (let a := fresh in let Ha := fresh in
            intros a Ha; cbn in Ha; repeat (destruct Ha as [<-|Ha]; [ne3|]); contradiction)
  | H : moves ?l ?s ?d = Some (?s', ?d') |- context [get ?x ?s'] =>
      rewrite (get_moves l s d s' d' x H)
        by (let a := fresh in let Ha := fresh in
            intros a Ha; cbn in Ha; repeat (destruct Ha as [<-|Ha]; [ne3|]); contradiction)
  | |- _ => rewrite get_upd_ne by ne3
  | |- _ => rewrite get_del_ne by ne3
  end.

Lemma fv_obj_ok m k v : field_val TObj m k = FOk v -> exists d, v = VObj d /\ get k m = Some (VObj d).
Proof.
  unfold field_val. destruct (get k m) as [[]|]; cbn; try discriminate. intros [= <-]. eauto.
Qed.

Lemma within_with_obj l m k f m' :
  with_obj m k f = Ok m' -> (forall d r, f d = Ok r -> WithinObj l d r) ->
  Within (FKeys l) (get k m) (get k m').
Proof.
  unfold with_obj, field_val. intros H Hf.
  destruct (get k m) as [[]|] eqn:G; cbn in H; try discriminate;
    try (injection H as <-; rewrite G; reflexivity).
  destruct (f m0) as [r| |] eqn:E; cbn in H; try discriminate. injection H as <-.
  rewrite get_upd_eq. apply Within_keys_intro. now apply Hf.
Qed.

Lemma fv_arr_ok m k v : field_val TArr m k = FOk v -> exists l, v = VArr l /\ get k m = Some (VArr l).
Proof.
  unfold field_val. destruct (get k m) as [[]|]; cbn; try discriminate. intros [= <-]. eauto.
Qed.

Lemma fv_arr_absent m k : field_val TArr m k = FAbsent -> forall l, get k m <> Some (VArr l).
Proof.
  unfold field_val. destruct (get k m) as [[]|]; cbn; try discriminate; intros _ l0; discriminate.
Qed.

Lemma map_res_Forall2 {A B} (f : A -> res B) l l' : map_res f l = Ok l' -> Forall2 (fun a b => f a = Ok b) l l'.
Proof.
  revert l'. induction l as [|a l IH]; intros l'; cbn.
  - intros [= <-]. constructor.
  - destruct (f a) as [b| |] eqn:E; cbn; try discriminate.
    destruct (map_res f l) as [bs| |]; cbn; try discriminate. intros [= <-]. constructor; auto.
Qed.

Lemma Forall2_map_l {A B} (R : A -> B -> Prop) (f : A -> B) l : (forall a, R a (f a)) -> Forall2 R l (map f l).
Proof. intros H. induction l; cbn; constructor; auto. Qed.

Lemma Forall2_impl {A B} (R S : A -> B -> Prop) l l' : (forall a b, R a b -> S a b) -> Forall2 R l l' -> Forall2 S l l'.
Proof. intros H F. induction F; constructor; auto. Qed.

Ltac obj_frame := split; [ let k := fresh "k" in let Hk := fresh "Hk" in intros k Hk; split_ok; frame_rw3; reflexivity | cbn; repeat split ].

(* steps that read their sections with [field_val TObj] themselves *)
Ltac gen_step := idtac;
  let G := fresh "G" in
  intros m m' H; cbn [stamp bind] in H;
  match type of H with context [upd "schema_version" (VInt ?n) m] =>
    assert (G : forall x, x <> "schema_version" -> get x (upd "schema_version" (VInt n) m) = get x m)
      by (intros; apply get_upd_ne; auto)
  end;
  set (m0 := upd "schema_version" (VInt _) m) in *;
  apply Within_keys_intro; split;
  [ intros k Hk; rewrite <- G by ne3; clearbody m0; split_ok; frame_rw3; reflexivity
  | cbn [WithinSub ver ka kf fst snd]; repeat split; rewrite <- G by discriminate; clearbody m0; clear G;
    split_ok; try apply Within_refl;
    repeat match goal with Hf : field_val TObj _ _ = FOk _ |- _ =>
      apply fv_obj_ok in Hf; let d := fresh "d" in let Hg := fresh "Hg" in destruct Hf as (d & -> & Hg) end;
    cbn [zobj] in *;
    repeat first [rewrite get_upd_eq | rewrite get_upd_ne by discriminate | rewrite get_del_ne by discriminate];
    try apply Within_refl;
    repeat match goal with Hg : get ?k ?m = Some _ |- context [get ?k ?m] => rewrite Hg end;
    try (apply Within_keys_intro; obj_frame) ].

(* [stamp n ;; with_obj m sec f] *)
Ltac sec_step sec :=
  intros m m' H; cbn [stamp bind] in H;
  apply Within_keys_intro; split;
  [ intros k Hk; frame_rw3; reflexivity
  | cbn [WithinSub ver ka kf fst snd]; repeat split;
    match type of H with context [upd "schema_version" (VInt ?n) m] =>
      rewrite <- (get_upd_ne sec "schema_version" (VInt n) m) by discriminate end;
    apply (within_with_obj _ _ _ _ _ H); intros d r Hf ].

(* steps whose footprint is a set of top-level keys *)
Ltac top_step :=
  intros m m' H; cbn [stamp bind] in H;
  apply Within_keys_intro; split;
  [ intros k Hk; split_ok; frame_rw3; reflexivity
  | cbn; repeat split ].


Section WithOracles.
Variable O : oracles.
Lemma stays1 : stays fp1 step1. Proof. unfold step1. top_step. Qed.
Lemma stays2 : stays fp2 step2. Proof. unfold step2. top_step. Qed.
Lemma stays5 : stays fp5 (step5 O). Proof. unfold step5. top_step. Qed.
Lemma stays11 : stays fp11 step11. Proof. unfold step11. top_step. Qed.
Lemma stays23 : stays fp23 (step23 O). Proof. unfold step23. top_step. Qed.
Lemma stays24 : stays fp24 step24. Proof. unfold step24. top_step. Qed.
Lemma stays3 : stays fp3 step3. Proof. unfold step3. sec_step "dns". obj_frame. Qed.
Lemma stays8 : stays fp8 step8. Proof. unfold step8. sec_step "dns". obj_frame. Qed.
Lemma stays9 : stays fp9 step9. Proof. unfold step9. sec_step "dns". obj_frame. Qed.
Lemma stays12 : stays fp12 step12. Proof. unfold step12. sec_step "dns". obj_frame. Qed.
Lemma stays17 : stays fp17 step17. Proof. unfold step17. sec_step "dns". obj_frame. Qed.
Lemma stays18 : stays fp18 step18. Proof. unfold step18. sec_step "dns". obj_frame. Qed.
Lemma stays20 : stays fp20 step20. Proof. unfold step20. sec_step "statistics". obj_frame. Qed.
Lemma stays21 : stays fp21 step21. Proof. unfold step21. sec_step "dns". obj_frame. Qed.
Lemma stays28 : stays fp28 step28. Proof. unfold step28. sec_step "dns". obj_frame. Qed.
Lemma stays13 : stays fp13 step13. Proof. unfold step13. gen_step. Qed.
Lemma stays7 : stays fp7 step7. Proof. unfold step7. gen_step. Qed.
Lemma stays14 : stays fp14 step14. Proof. unfold step14. gen_step. Qed.
Lemma stays15 : stays fp15 step15. Proof. unfold step15. gen_step. Qed.
Lemma stays16 : stays fp16 step16. Proof. unfold step16. gen_step. Qed.
Lemma stays25 : stays fp25 step25. Proof. unfold step25. gen_step. Qed.
Lemma stays26 : stays fp26 step26. Proof. unfold step26. gen_step. Qed.

(** Step 10: each of the two lists keeps its length. *)
Lemma quic_field_within k dns dns' :
  quic_field O k dns = Ok dns' ->
  (forall x, x <> k -> get x dns' = get x dns) /\ Within (FElems FAll) (get k dns) (get k dns').
Proof.
  unfold quic_field. destruct (field_val TArr dns k) as [|v|] eqn:E; try discriminate.
  - intros [= <-]. split; [reflexivity|apply Within_refl].
  - destruct (fv_arr_ok _ _ _ E) as (l & -> & G). cbn [zarr].
    destruct (map_res (quic_elem O) l) as [l'| |] eqn:M; cbn [bind]; try discriminate. intros [= <-].
    split; [intros x N; now apply get_upd_ne|].
    rewrite G, get_upd_eq. apply Within_elems_intro.
    eapply Forall2_impl; [|exact (map_res_Forall2 _ _ _ M)]. intros; exact I.
Qed.

Lemma stays10 : stays fp10 (step10 O).
Proof.
  unfold step10. sec_step "dns".
  destruct (quic_field O "upstream_dns" d) as [d1| |] eqn:E1; cbn [bind] in Hf; try discriminate.
  destruct (quic_field_within _ _ _ E1) as [A1 B1]. destruct (quic_field_within _ _ _ Hf) as [A2 B2].
  split.
  - intros k Hk. rewrite A2, A1 by ne3. reflexivity.
  - cbn [WithinSub kf]. rewrite (A2 "upstream_dns") by discriminate.
    rewrite <- (A1 "local_ptr_upstreams") by discriminate. auto.
Qed.

Lemma replace_dot_within k m m' :
  replace_dot k m = Ok m' ->
  (forall x, x <> k -> get x m' = get x m) /\ Within (FKeys [kf "ignored" (FElems FAll)]) (get k m) (get k m').
Proof.
  unfold replace_dot. intros H. split; [intros x N; exact (get_with_obj _ _ _ _ _ H N)|].
  apply (within_with_obj _ _ _ _ _ H). intros d r Hf.
  destruct (field_val TArr d "ignored") as [|v|] eqn:E; try discriminate.
  - injection Hf as <-. apply WithinObj_refl.
  - destruct (fv_arr_ok _ _ _ E) as (l & -> & G). injection Hf as <-. cbn [zarr]. split.
    + intros x Hx. apply get_upd_ne. ne3.
    + cbn [WithinSub kf]. split; [|exact I]. rewrite G, get_upd_eq. apply Within_elems_intro.
      apply Forall2_map_l. intros; exact I.
Qed.

Lemma stays27 : stays fp27 step27.
Proof.
  unfold step27. intros m m' H. cbn [stamp bind] in H.
  destruct (replace_dot "querylog" _) as [m1| |] eqn:E1; cbn [bind] in H; try discriminate.
  destruct (replace_dot_within _ _ _ E1) as [A1 B1]. destruct (replace_dot_within _ _ _ H) as [A2 B2].
  apply Within_keys_intro. split.
  - intros k Hk. rewrite A2, A1 by ne3. apply get_upd_ne. ne3.
  - cbn [WithinSub ver ka kf]. repeat split.
    + rewrite (A2 "querylog") by discriminate. rewrite get_upd_ne in B1 by discriminate. exact B1.
    + rewrite (A1 "statistics"), get_upd_ne in B2 by discriminate. exact B2.
Qed.

Lemma stays29 : stays fp29 (step29 O).
Proof.
  unfold step29. intros m m' H. cbn [stamp bind] in H.
  set (m0 := upd "schema_version" (VInt 29) m) in *.
  assert (G : forall x, x <> "schema_version" -> get x m0 = get x m) by (intros; apply get_upd_ne; auto).
  destruct (field_val TArr m0 "filters") as [|v|]; try discriminate.
  - injection H as <-. apply Within_keys_intro. split.
    + intros k Hk. apply G. ne3.
    + cbn [WithinSub ver ka kf]. repeat split. rewrite G by discriminate. apply Within_refl.
  - destruct (map_res filter29 (zarr v)) as [ps| |]; cbn [bind] in H; try discriminate.
    apply Within_keys_intro. split.
    + intros k Hk. rewrite (get_with_obj _ _ _ _ _ H) by ne3. apply G. ne3.
    + cbn [WithinSub ver ka kf]. repeat split. rewrite <- G by discriminate.
      apply (within_with_obj _ _ _ _ _ H). intros d r [= <-]. split; [intros x Hx; apply get_upd_ne; ne3|].
      cbn. auto.
Qed.

(** Per-client steps. *)
Lemma client4_within c : Within (FKeys [ka "use_global_blocked_services"]) (Some c) (Some (client4 c)).
Proof.
  destruct c; try reflexivity. cbn [client4]. apply Within_keys_intro. split; [|cbn; auto].
  intros x Hx. apply get_upd_ne. ne3.
Qed.

Lemma stays4 : stays fp4 step4.
Proof.
  unfold step4. intros m m' H. cbn [stamp bind] in H.
  set (m0 := upd "schema_version" (VInt 4) m) in *.
  assert (G : forall x, x <> "schema_version" -> get x m0 = get x m) by (intros; apply get_upd_ne; auto).
  destruct (field_val TArr m0 "clients") as [|v|] eqn:E;
    try (injection H as <-; apply Within_keys_intro; split;
         [intros k Hk; apply G; ne3 | cbn [WithinSub ver ka kf]; repeat split; rewrite G by discriminate; apply Within_refl]).
  destruct (fv_arr_ok _ _ _ E) as (l & -> & Gc). injection H as <-. cbn [zarr].
  apply Within_keys_intro. split.
  - intros k Hk. rewrite get_upd_ne by ne3. apply G. ne3.
  - cbn [WithinSub ver ka kf]. repeat split. rewrite <- G, Gc, get_upd_eq by discriminate.
    apply Within_elems_intro. apply Forall2_map_l. exact client4_within.
Qed.

Lemma client6_within c c' : client6 c = Ok c' -> Within (FKeys [ka "ids"]) (Some c) (Some c').
Proof.
  destruct c; try discriminate. cbn [client6].
  destruct (field_val TStr m "ip"), (field_val TStr m "mac"); try discriminate; intros [= <-];
    (apply Within_keys_intro; split; [intros x Hx; apply get_upd_ne; ne3|cbn; auto]).
Qed.

Lemma stays6 : stays fp6 step6.
Proof.
  unfold step6. intros m m' H. cbn [stamp bind] in H.
  set (m0 := upd "schema_version" (VInt 6) m) in *.
  assert (G : forall x, x <> "schema_version" -> get x m0 = get x m) by (intros; apply get_upd_ne; auto).
  destruct (field_val TArr m0 "clients") as [|v|] eqn:E; try discriminate.
  - injection H as <-. apply Within_keys_intro. split;
      [intros k Hk; apply G; ne3 | cbn [WithinSub ver ka kf]; repeat split; rewrite G by discriminate; apply Within_refl].
  - destruct (fv_arr_ok _ _ _ E) as (l & -> & Gc). cbn [zarr] in H.
    destruct (map_res client6 l) as [cl| |] eqn:M; cbn [bind] in H; try discriminate. injection H as <-.
    apply Within_keys_intro. split.
    + intros k Hk. rewrite get_upd_ne by ne3. apply G. ne3.
    + cbn [WithinSub ver ka kf]. repeat split. rewrite <- G, Gc, get_upd_eq by discriminate.
      apply Within_elems_intro. eapply Forall2_impl; [|exact (map_res_Forall2 _ _ _ M)]. exact client6_within.
Qed.

Lemma client19_within c : Within (FKeys [ka "safesearch_enabled"; ka "safe_search"]) (Some c) (Some (client19 c)).
Proof.
  destruct c; try reflexivity. cbn [client19].
  destruct (move_val TBool m safe_search0 "safesearch_enabled" "enabled") as [[o' ss]|] eqn:E;
    apply Within_keys_intro; (split; [intros x Hx; frame_rw3; reflexivity|cbn; auto]).
Qed.

Lemma stays19 : stays fp19 step19.
Proof.
  unfold step19. sec_step "clients".
  destruct (field_val TArr d "persistent") as [|v|] eqn:E; try (injection Hf as <-; apply WithinObj_refl).
  destruct (fv_arr_ok _ _ _ E) as (l & -> & Gc). injection Hf as <-. cbn [zarr]. split.
  - intros x Hx. apply get_upd_ne. ne3.
  - cbn [WithinSub kf]. split; [|exact I]. rewrite Gc, get_upd_eq. apply Within_elems_intro.
    apply Forall2_map_l. exact client19_within.
Qed.

Lemma client22_within c c' : client22 c = Ok c' -> Within (FKeys [ka "blocked_services"]) (Some c) (Some c').
Proof.
  destruct c; try discriminate. cbn [client22].
  destruct (field_val TArr m "blocked_services"); try discriminate; intros [= <-]; [apply Within_refl|].
  apply Within_keys_intro; split; [intros x Hx; apply get_upd_ne; ne3|cbn; auto].
Qed.

Lemma stays22 : stays fp22 step22.
Proof.
  unfold step22. sec_step "clients".
  destruct (field_val TArr d "persistent") as [|v|] eqn:E; try discriminate.
  - injection Hf as <-. apply WithinObj_refl.
  - destruct (fv_arr_ok _ _ _ E) as (l & -> & Gc). cbn [zarr] in Hf.
    destruct (map_res client22 l) as [cl| |] eqn:M; cbn [bind] in Hf; try discriminate. injection Hf as <-. split.
    + intros x Hx. apply get_upd_ne. ne3.
    + cbn [WithinSub kf]. split; [|exact I]. rewrite Gc, get_upd_eq. apply Within_elems_intro.
      eapply Forall2_impl; [|exact (map_res_Forall2 _ _ _ M)]. exact client22_within.
Qed.

(** ** Composition over the step table *)

Lemma steps_stay : Forall2 stays fp_table (map snd (steps O)).
Proof.
  cbn [fp_table steps map snd].
  repeat (apply Forall2_cons;
    [first [exact stays1|exact stays2|exact stays3|exact stays4|exact stays5|exact stays6|exact stays7|exact stays8
           |exact stays9|exact stays10|exact stays11|exact stays12|exact stays13|exact stays14|exact stays15
           |exact stays16|exact stays17|exact stays18|exact stays19|exact stays20|exact stays21|exact stays22
           |exact stays23|exact stays24|exact stays25|exact stays26|exact stays27|exact stays28|exact stays29]|]).
  apply Forall2_nil.
Qed.

Lemma Forall2_firstn {A B} (R : A -> B -> Prop) n : forall l l', Forall2 R l l' -> Forall2 R (firstn n l) (firstn n l').
Proof. induction n as [|n IH]; intros l l' H; cbn; [constructor|]. destruct H; constructor; auto. Qed.

Lemma Forall2_skipn {A B} (R : A -> B -> Prop) n : forall l l', Forall2 R l l' -> Forall2 R (skipn n l) (skipn n l').
Proof. induction n as [|n IH]; intros l l' H; cbn; [exact H|]. destruct H; [constructor|auto]. Qed.

(** The steps [upgrade cur tgt] runs, each with its footprint. *)
Lemma range_stays cur tgt :
  Forall2 stays (fps_of cur tgt) (firstn (tgt - cur) (skipn cur (map snd (steps O)))).
Proof. unfold fps_of. apply Forall2_firstn, Forall2_skipn, steps_stay. Qed.

(** A path outside the footprint of every step of a run holds at the end what
    it held at the start. *)
Lemma run_steps_paths fs l : Forall2 stays fs l -> forall m m' p,
  run_steps l m = Ok m' -> outside_all fs p = true ->
  lookup p (Some (VObj m')) = lookup p (Some (VObj m)).
Proof.
  induction 1 as [|f s fs l Hs _ IH]; intros m m' p H Ho; cbn in H.
  - now injection H as <-.
  - destruct (s (Some m)) as [m1| |] eqn:E; cbn [bind] in H; try discriminate.
    cbn [outside_all forallb] in Ho. apply andb_prop in Ho. destruct Ho as [Ho1 Ho2].
    rewrite (IH _ _ _ H Ho2). symmetry. exact (Within_outside _ _ _ _ (Hs _ _ E) Ho1).
Qed.

Lemma upgrade_paths cur tgt m m' p :
  upgrade O cur tgt m = Ok m' -> outside_all (fps_of cur tgt) p = true ->
  lookup p (Some (VObj m')) = lookup p (Some (VObj m)).
Proof. unfold upgrade. apply run_steps_paths, range_stays. Qed.

(** One step of the table, by its index. *)
Lemma table_step_stays n f s :
  nth_error fp_table n = Some f -> nth_error (map snd (steps O)) n = Some s -> stays f s.
Proof.
  intros Hf Hs. pose proof steps_stay as F. revert n Hf Hs.
  induction F as [|f0 s0 fs l H0 _ IH]; intros [|n]; cbn; try discriminate.
  - now intros [= <-] [= <-].
  - apply IH.
Qed.

End WithOracles.

Lemma migrate_paths O top t m' p :
  migrate O top t = ONew m' ->
  outside_all (fps_of (Z.to_nat (version_of (input_map top))) (Z.to_nat t)) p = true ->
  lookup p (Some (VObj m')) = lookup p (Some (VObj (input_map top))).
Proof.
  intros H Ho. destruct (migrate_new_inv' O _ _ _ H) as (_ & _ & U). exact (upgrade_paths O _ _ _ _ _ U Ho).
Qed.

(** ** Concrete instances *)

(** The version-22 example: a key of [dns] no step lists, the url of a filter
    (read by step 29, not written) and an element of a list outside every
    footprint are preserved; [bind_host] is inside the footprint of step 23
    and does change, so the premise cannot be dropped. *)
Definition doc22p : obj :=
  upd "dns" (VObj [("port", VInt 5353); ("all_servers", VBool true); ("bootstrap_dns", VArr [VStr "9.9.9.10"; VStr "1.1.1.1"])]) doc22.

Example doc22_paths :
  let fs := fps_of 22 29 in
  outside_all fs [SK "dns"; SK "port"] = true /\
  outside_all fs [SK "filters"; SI 1; SK "url"] = true /\
  outside_all fs [SK "dns"; SK "bootstrap_dns"; SI 1] = true /\
  outside_all fs [SK "bind_host"] = false /\
  outside_all fs [SK "dns"] = false /\
  outside_all fs [SK "dns"; SK "all_servers"] = false /\
  exists m', migrate oracles0 (Some doc22p) 29 = ONew m' /\
    lookup [SK "dns"; SK "port"] (Some (VObj m')) = Some (VInt 5353) /\
    lookup [SK "filters"; SI 1; SK "url"] (Some (VObj m')) = Some (VStr "https://a.example/l.txt") /\
    lookup [SK "dns"; SK "bootstrap_dns"; SI 1] (Some (VObj m')) = Some (VStr "1.1.1.1") /\
    lookup [SK "bind_host"] (Some (VObj doc22p)) = Some (VStr "127.0.0.1") /\
    lookup [SK "bind_host"] (Some (VObj m')) = None /\
    lookup [SK "dns"; SK "all_servers"] (Some (VObj m')) = None.
Proof. repeat split; try reflexivity. eexists. split; [vm_compute; reflexivity|]. repeat split. Qed.

(** The footprints are not vacuous: a step is NOT within the footprint of its
    neighbour (step 9 renames [autohost_tld], which step 8's footprint does
    not list). *)
Example step9_leaves_fp8 :
  exists m m', step9 (Some m) = Ok m' /\ ~ Within fp8 (Some (VObj m)) (Some (VObj m')).
Proof.
  exists [("dns", VObj [("autohost_tld", VStr "lan")])]. eexists. split; [reflexivity|].
  intros W. assert (Ho : outside fp8 [SK "dns"; SK "autohost_tld"] = true) by reflexivity.
  pose proof (Within_outside _ _ _ _ W Ho) as E. discriminate E.
Qed.

(** C09, round 6: the hour a query is attributed to, with the periodic worker
    as part of the system (Model/StatsWorker.v).

    What the code guarantees, and no more:

    - [counted_in_hour_of_last_pass]: between the locked part of one pass of
      the worker and that of the next, the current unit carries the hour the
      id source showed when the EARLIER pass read it; every query counted in
      between is attributed to that hour, whatever the clock did meanwhile.

    - [attribution_within_tick]: when the worker sleeps at most [P] after an
      idle pass (and a pass, once due, is over within [lat]), then at every
      instant [t] the current unit's hour is the hour of the clock at some
      instant [t'] with [t - (P + 2 lat) <= t' <= t]: the clause "each query
      is counted in the hour that was current when it was counted" holds up to
      that tick, for every history of updates, clock steps of any size and
      passes.  The code's policy is the constant second
      ([attribution_as_written]).

    - [sleep_until_next_hour_refuted]: with the policy "sleep until the wall
      clock's next full hour" a step of the clock by five hours right after an
      idle pass leaves queries counted 50 minutes later in the unit of the
      stale hour, in a history that follows that policy to the millisecond.

    - [worker_history_is_op_history], [worker_conservation]: a worker history
      is a history of Model/Stats.v in which the flushes are the worker's
      passes with the ids it read; the ids are non-decreasing when the id
      source is, so everything proved about histories (conservation, series,
      restarts) holds for the system with the real worker. *)
From Coq Require Import ZArith List Bool Lia.
From AGH Require Import Model.Stats Model.StatsWorker Proofs.Stats.
Import ListNotations.
Local Open Scope Z_scope.

(** * Steps of the state *)

Lemma update_keeps s e :
  cur_id (update s e) = cur_id s /\ lim_ms (update s e) = lim_ms s /\ dbnil (update s e) = dbnil s.
Proof.
  unfold update. destruct (accepts s e); [|repeat split].
  destruct (cat_of (e_res e)); repeat split.
Qed.

Lemma lim_update s e : lim (update s e) = lim s.
Proof. unfold lim. destruct (update_keeps s e) as (_ & -> & _). reflexivity. Qed.

Lemma flush_keeps s id : lim_ms (flush s id) = lim_ms s /\ dbnil (flush s id) = dbnil s.
Proof.
  unfold flush. destruct ((lim s =? 0) || (cur_id s =? id)); [split; reflexivity|].
  destruct (dbnil s) eqn:E; [split; [reflexivity|exact E]|split; [reflexivity|exact E]].
Qed.

Lemma lim_flush_w s id : lim (flush s id) = lim s.
Proof. unfold lim. destruct (flush_keeps s id) as (-> & _). reflexivity. Qed.

(** A pass with the database open and a limit of at least an hour leaves the
    current unit with the id that was read. *)
Lemma flush_sets_id s id : dbnil s = false -> 1 <= lim s -> cur_id (flush s id) = id.
Proof.
  intros Hn Hl. unfold flush.
  destruct (lim s =? 0) eqn:E0; [apply Z.eqb_eq in E0; lia|]. cbn [orb].
  destruct (cur_id s =? id) eqn:E; [apply Z.eqb_eq in E; exact E|].
  rewrite Hn. reflexivity.
Qed.

(** * Untimed *)

Lemma wrun_app w a b : wrun w (a ++ b) = wrun (wrun w a) b.
Proof. unfold wrun. apply fold_left_app. Qed.

(** operations between passes: updates and changes of the id source *)
Definition quiet (o : wop) : bool :=
  match o with WOp (OUpdate _) | WClock _ => true | _ => false end.

(** the same, and the worker's next read *)
Definition no_apply (o : wop) : bool :=
  match o with WOp (OUpdate _) | WClock _ | WRead => true | _ => false end.

Definition wgood (w : wstate) : Prop := dbnil (w_st w) = false /\ 1 <= lim (w_st w).

Lemma no_apply_keeps o w :
  no_apply o = true ->
  cur_id (w_st (wstep w o)) = cur_id (w_st w) /\ lim (w_st (wstep w o)) = lim (w_st w) /\
  dbnil (w_st (wstep w o)) = dbnil (w_st w).
Proof.
  destruct o as [[]| | |]; try discriminate; intros _; cbn [wstep w_st step]; try (repeat split; fail).
  destruct (update_keeps (w_st w) e) as (A & _ & C). rewrite lim_update. repeat split; assumption.
Qed.

Lemma quiet_no_apply o : quiet o = true -> no_apply o = true.
Proof. destruct o as [[]| | |]; try discriminate; reflexivity. Qed.

Lemma no_apply_run h : forall w,
  forallb no_apply h = true ->
  cur_id (w_st (wrun w h)) = cur_id (w_st w) /\ lim (w_st (wrun w h)) = lim (w_st w) /\
  dbnil (w_st (wrun w h)) = dbnil (w_st w).
Proof.
  induction h as [|o h IH]; intros w H; [repeat split|].
  cbn [forallb] in H. apply andb_true_iff in H as [Ho Hh].
  change (wrun w (o :: h)) with (wrun (wstep w o) h).
  destruct (IH (wstep w o) Hh) as (A & B & C). destruct (no_apply_keeps o w Ho) as (A' & B' & C').
  rewrite A, B, C. repeat split; assumption.
Qed.

Lemma quiet_keeps_pend o w : quiet o = true -> w_pend (wstep w o) = w_pend w.
Proof. destruct o as [[]| | |]; try discriminate; reflexivity. Qed.

Lemma quiet_run_pend h : forall w, forallb quiet h = true -> w_pend (wrun w h) = w_pend w.
Proof.
  induction h as [|o h IH]; intros w H; [reflexivity|].
  cbn [forallb] in H. apply andb_true_iff in H as [Ho Hh].
  change (wrun w (o :: h)) with (wrun (wstep w o) h). rewrite (IH _ Hh). apply quiet_keeps_pend, Ho.
Qed.

(** Between two passes the unit carries the hour the earlier pass read. *)
Theorem counted_in_hour_of_last_pass w m h2 :
  wgood w -> forallb quiet m = true -> forallb no_apply h2 = true ->
  let w' := wrun w ([WRead] ++ m ++ [WApply] ++ h2) in
  cur_id (w_st w') = w_clk w /\ wgood w'.
Proof.
  intros [Hn Hl] Hm H2. cbn zeta.
  rewrite wrun_app, wrun_app, wrun_app.
  set (w1 := wrun w [WRead]).
  assert (P1 : w_pend w1 = Some (w_clk w)) by reflexivity.
  assert (S1 : w_st w1 = w_st w) by reflexivity.
  set (w2 := wrun w1 m).
  assert (P2 : w_pend w2 = Some (w_clk w)) by (unfold w2; rewrite quiet_run_pend; assumption).
  destruct (no_apply_run m w1) as (_ & L2 & N2).
  { rewrite forallb_forall in Hm |- *. intros o Ho. apply quiet_no_apply, Hm, Ho. }
  fold w2 in L2, N2. rewrite S1 in L2, N2.
  set (w3 := wrun w2 [WApply]).
  assert (S3 : w_st w3 = flush (w_st w2) (w_clk w)).
  { unfold w3, wrun. cbn [fold_left wstep]. rewrite P2. reflexivity. }
  destruct (no_apply_run h2 w3 H2) as (A & B & C). rewrite A, S3.
  split.
  - apply flush_sets_id; [rewrite N2; exact Hn|rewrite L2; exact Hl].
  - unfold wgood. rewrite B, C, S3, lim_flush_w. destruct (flush_keeps (w_st w2) (w_clk w)) as (_ & ->).
    rewrite N2, L2. split; assumption.
Qed.

(** Before the first pass is over: the hour New read. *)
Lemma counted_in_hour_of_start w h :
  forallb no_apply h = true -> cur_id (w_st (wrun w h)) = cur_id (w_st w).
Proof. intros H. apply (no_apply_run h w H). Qed.

(** A worker history is a history of operations. *)
Theorem worker_history_is_op_history h : forall w, w_st (wrun w h) = run (w_st w) (wops w h).
Proof.
  induction h as [|o h IH]; intros w; [reflexivity|].
  change (wrun w (o :: h)) with (wrun (wstep w o) h). rewrite IH. cbn [wops].
  unfold run. rewrite fold_left_app. f_equal.
  destruct o as [o'| | |]; cbn [wstep w_st fold_left]; try reflexivity.
  destruct (w_pend w); reflexivity.
Qed.

(** The environment of a worker history: the id source never goes back and
    fits uint32; the other operations are updates. *)
Definition wenv_ok (clk : Z) (o : wop) : Prop :=
  match o with
  | WOp (OUpdate _) => True
  | WOp _ => False
  | WClock h => clk <= h < max_id
  | _ => True
  end.

Fixpoint wenv_hist (clk : Z) (h : list wop) : Prop :=
  match h with
  | [] => True
  | o :: h' => wenv_ok clk o /\ wenv_hist (match o with WClock c => c | _ => clk end) h'
  end.

Lemma wops_wf h : forall w c,
  wenv_hist (w_clk w) h -> c <= w_clk w < max_id ->
  (forall id, w_pend w = Some id -> c <= id <= w_clk w) ->
  wf_from c PNormal (wops w h).
Proof.
  induction h as [|o h IH]; intros w c He Hc Hp; [exact I|].
  destruct He as [Ho He]. cbn [wops].
  destruct o as [o'|c'| |].
  - destruct o'; try contradiction. cbn [app wf_from phase_ok op_id phase_step]. split; [exact I|].
    apply IH; [exact He|exact Hc|exact Hp].
  - cbn [app]. cbn [wenv_ok] in Ho. apply IH; cbn [wstep w_clk w_pend]; [exact He|lia|].
    intros id E. specialize (Hp id E). lia.
  - cbn [app]. apply IH; cbn [wstep w_clk w_pend]; [exact He|exact Hc|].
    intros id E. injection E as <-. lia.
  - destruct (w_pend w) as [id|] eqn:E.
    + specialize (Hp id eq_refl). cbn [app wf_from phase_ok op_id phase_step].
      split; [exact I|]. split; [lia|].
      apply IH; cbn [wstep]; rewrite E; cbn [w_clk w_pend]; [exact He|lia|discriminate].
    + cbn [app]. apply IH; cbn [wstep]; rewrite E; [exact He|exact Hc|].
      intros id E'. rewrite E in E'. discriminate.
Qed.

(** The conservation theorem of the histories, for the system with the
    worker: totals = counted queries inside the window, where "the hour a
    query was counted in" is the current unit's, i.e. by the theorems above the
    hour the worker last read. *)
Theorem worker_conservation id ms en h k :
  init_ok id ms -> wenv_hist id h ->
  let s := w_st (wrun (winit id ms en) h) in
  let g := grun (ginit id ms en) (wops (winit id ms en) h) in
  rep k s <= wsum s (fun i => g_ev g i k) /\
  wsum s (fun i => if i <=? g_low g then 0 else g_ev g i k) <= rep k s /\
  (g_raised g = false -> rep k s = wsum s (fun i => g_ev g i k)).
Proof.
  intros Hi He. cbn zeta. rewrite worker_history_is_op_history.
  change (w_st (winit id ms en)) with (init id ms en).
  apply conservation; [exact Hi|].
  apply wops_wf; cbn [winit w_clk w_pend]; [exact He|destruct Hi as [Hr _]; lia|discriminate].
Qed.

(** * Timed *)

Definition t_st (W : world) : state := w_st (t_in W).

Definition policy_bounded (pol : policy) (P : Z) : Prop := forall wall s, 0 <= pol wall s <= P.

Lemma trun_app pol W a b : trun pol W (a ++ b) = trun pol (trun pol W a) b.
Proof. unfold trun. apply fold_left_app. Qed.

Lemma tvalid_app pol lat a : forall W b,
  tvalid_hist pol lat W (a ++ b) = true ->
  tvalid_hist pol lat W a = true /\ tvalid_hist pol lat (trun pol W a) b = true.
Proof.
  induction a as [|ev a IH]; intros W b H; [split; [reflexivity|exact H]|].
  cbn [app tvalid_hist] in H. apply andb_true_iff in H as [Hv H].
  destruct (IH _ _ H) as [A B]. split; [cbn [tvalid_hist]; rewrite Hv, A; reflexivity|exact B].
Qed.

(** the timed machine is the untimed one with instants attached *)
Theorem timed_is_untimed pol h : forall W, t_in (trun pol W h) = wrun (t_in W) (tprojs pol W h).
Proof.
  induction h as [|ev h IH]; intros W; [reflexivity|].
  change (trun pol W (ev :: h)) with (trun pol (tstep pol W ev) h). rewrite IH.
  cbn [tprojs]. rewrite wrun_app. f_equal.
  destruct ev; cbn [tstep tproj t_in wrun fold_left]; try reflexivity.
  destruct (w_pend (t_in W)) eqn:E; [reflexivity|]. cbn [wstep]. rewrite E. reflexivity.
Qed.

(** The invariant: [L] holds the worlds visited so far.  The current unit's
    hour is the hour of the wall clock in a world [W1] visited before, not
    later than now and such that the next pass is due at most [P + lat] after
    it; an id that was read and not yet acted on is the hour of a world visited
    at or after the instant the pass was due. *)
Record TInv (P lat : Z) (L : list world) (W : world) : Prop := {
  ti_here : In W L;
  ti_clk : w_clk (t_in W) = hour_of (t_wall W);
  ti_nil : dbnil (t_st W) = false;
  ti_lim : 1 <= lim (t_st W);
  ti_late : t_now W <= t_due W + lat;
  ti_cur : exists W1, In W1 L /\ cur_id (t_st W) = hour_of (t_wall W1) /\
             t_now W1 <= t_now W /\ t_due W <= t_now W1 + P + lat;
  ti_pend : forall id, w_pend (t_in W) = Some id ->
             exists W2, In W2 L /\ id = hour_of (t_wall W2) /\ t_now W2 <= t_now W /\ t_due W <= t_now W2
}.

Lemma tinv_step pol P lat L W ev :
  policy_bounded pol P -> 0 <= lat ->
  TInv P lat L W -> tvalid lat W ev = true ->
  TInv P lat (L ++ [tstep pol W ev]) (tstep pol W ev).
Proof.
  intros Hpol Hlat [Hh Hk Hn Hl Hd (W1 & I1 & C1 & T1 & D1) Hp] Hv.
  assert (Hin : forall X Y : world, In X L -> In X (L ++ [Y])) by (intros X Y HX; apply in_or_app; left; exact HX).
  assert (Hlast : forall Y : world, In Y (L ++ [Y])) by (intros Y; apply in_or_app; right; left; reflexivity).
  unfold t_st in *.
  destruct ev as [d|dw|e| |]; cbn [tvalid] in Hv.
  - (* time goes by *)
    apply andb_true_iff in Hv as [H0 H1]. apply Z.leb_le in H0, H1.
    constructor; unfold t_st; cbn [tstep t_now t_wall t_due t_in wstep w_st w_pend w_clk]; try assumption; try reflexivity; try apply Hlast.
    + exists W1. repeat split; [apply Hin, I1|exact C1|lia|exact D1].
    + intros id E. destruct (Hp id E) as (W2 & I2 & E2 & T2 & D2).
      exists W2. repeat split; [apply Hin, I2|exact E2|lia|exact D2].
  - (* the wall clock is stepped *)
    constructor; unfold t_st; cbn [tstep t_now t_wall t_due t_in wstep w_st w_pend w_clk]; try assumption; try reflexivity; try apply Hlast.
    + exists W1. repeat split; [apply Hin, I1|exact C1|exact T1|exact D1].
    + intros id E. destruct (Hp id E) as (W2 & I2 & E2 & T2 & D2).
      exists W2. repeat split; [apply Hin, I2|exact E2|exact T2|exact D2].
  - (* a query is counted *)
    destruct (update_keeps (w_st (t_in W)) e) as (A & _ & C).
    constructor; unfold t_st; cbn [tstep t_now t_wall t_due t_in wstep w_st w_pend w_clk step]; try assumption; try reflexivity; try apply Hlast.
    + rewrite C. exact Hn.
    + rewrite lim_update. exact Hl.
    + exists W1. rewrite A. repeat split; [apply Hin, I1|exact C1|exact T1|exact D1].
    + intros id E. destruct (Hp id E) as (W2 & I2 & E2 & T2 & D2).
      exists W2. repeat split; [apply Hin, I2|exact E2|exact T2|exact D2].
  - (* the worker reads the id source *)
    apply andb_true_iff in Hv as [H0 _]. apply Z.leb_le in H0.
    constructor; unfold t_st; cbn [tstep t_now t_wall t_due t_in wstep w_st w_pend w_clk]; try assumption; try reflexivity; try apply Hlast.
    + exists W1. repeat split; [apply Hin, I1|exact C1|exact T1|exact D1].
    + intros id E. injection E as <-. exists W. split; [apply Hin, Hh|]. split; [exact Hk|]. split; [lia|exact H0].
  - (* the worker acts on what it read *)
    destruct (w_pend (t_in W)) as [id|] eqn:E; [|discriminate].
    destruct (Hp id eq_refl) as (W2 & I2 & E2 & T2 & D2).
    pose proof (flush_keeps (w_st (t_in W)) id) as (_ & Kn).
    assert (Hs : 0 <= sleep_for pol (t_wall W) (w_st (t_in W)) (flush_out (w_st (t_in W)) id) <= P).
    { destruct (Hpol (t_wall W) (w_st (t_in W))) as [Q0 Q1].
      destruct (flush_out (w_st (t_in W)) id); cbn [sleep_for]; lia. }
    cbn [tstep]. rewrite E.
    constructor; unfold t_st; cbn [t_now t_wall t_due t_in wstep w_st w_pend w_clk]; rewrite ?E; cbn [w_st w_pend w_clk]; try assumption; try apply Hlast.
    + rewrite Kn. exact Hn.
    + rewrite lim_flush_w. exact Hl.
    + lia.
    + exists W2. repeat split; [apply Hin, I2| |exact T2|lia].
      rewrite (flush_sets_id _ _ Hn Hl). exact E2.
    + discriminate.
Qed.

Lemma tinv_run pol P lat h : forall L W,
  policy_bounded pol P -> 0 <= lat ->
  TInv P lat L W -> tvalid_hist pol lat W h = true ->
  TInv P lat (L ++ tl (ttrace pol W h)) (trun pol W h).
Proof.
  induction h as [|ev h IH]; intros L W Hpol Hlat HI Hv.
  - cbn [ttrace tl]. rewrite app_nil_r. exact HI.
  - cbn [tvalid_hist] in Hv. apply andb_true_iff in Hv as [Hv Hh].
    pose proof (tinv_step pol P lat L W ev Hpol Hlat HI Hv) as HI'.
    specialize (IH _ _ Hpol Hlat HI' Hh).
    change (trun pol W (ev :: h)) with (trun pol (tstep pol W ev) h).
    cbn [ttrace tl].
    replace (L ++ ttrace pol (tstep pol W ev) h)
      with ((L ++ [tstep pol W ev]) ++ tl (ttrace pol (tstep pol W ev) h)); [exact IH|].
    rewrite <- app_assoc. f_equal. destruct h; reflexivity.
Qed.

(** New and Start in the same hour, database open, a limit of at least an hour. *)
Definition start_ok (W0 : world) : Prop :=
  t_due W0 = t_now W0 /\ w_pend (t_in W0) = None /\ w_clk (t_in W0) = hour_of (t_wall W0) /\
  cur_id (t_st W0) = hour_of (t_wall W0) /\ dbnil (t_st W0) = false /\ 1 <= lim (t_st W0).

Lemma tinv_start P lat W0 : start_ok W0 -> 0 <= P -> 0 <= lat -> TInv P lat [W0] W0.
Proof.
  intros (Hd & Hp & Hk & Hc & Hn & Hl) HP Hlat. constructor; try assumption.
  - left; reflexivity.
  - lia.
  - exists W0. repeat split; [left; reflexivity|exact Hc|lia|lia].
  - intros id E. rewrite Hp in E. discriminate.
Qed.

Lemma ttrace_head pol W h : ttrace pol W h = W :: tl (ttrace pol W h).
Proof. destruct h; reflexivity. Qed.

(** At every moment of every history that follows a policy bounded by [P]:
    the current unit's hour is the hour the clock showed at most [P + 2 lat]
    ago. *)
Theorem current_hour_within_tick pol P lat W0 h :
  policy_bounded pol P -> 0 <= lat -> start_ok W0 ->
  tvalid_hist pol lat W0 h = true ->
  let W := trun pol W0 h in
  exists W1, In W1 (ttrace pol W0 h) /\
    cur_id (t_st W) = hour_of (t_wall W1) /\
    t_now W - (P + 2 * lat) <= t_now W1 <= t_now W.
Proof.
  intros Hpol Hlat Hs Hv. cbn zeta.
  assert (HP : 0 <= P) by (destruct (Hpol 0 (t_st W0)); lia).
  pose proof (tinv_run pol P lat h [W0] W0 Hpol Hlat (tinv_start P lat W0 Hs HP Hlat) Hv) as HI.
  change ([W0] ++ tl (ttrace pol W0 h)) with (W0 :: tl (ttrace pol W0 h)) in HI.
  rewrite <- ttrace_head in HI.
  destruct HI as [_ _ _ _ Hd (W1 & I1 & C1 & T1 & D1) _].
  exists W1. repeat split; [exact I1|exact C1|lia|exact T1].
Qed.

(** The clause of the property, per query: a query counted at instant [t]
    (after the history [h1]) goes to the current unit, whose hour is the hour
    of the clock at an instant [t'] of the history so far with
    [t - tick <= t' <= t], [tick = P + 2 lat]. *)
Theorem attribution_within_tick pol P lat W0 h1 e h2 :
  policy_bounded pol P -> 0 <= lat -> start_ok W0 ->
  tvalid_hist pol lat W0 (h1 ++ TUpdate e :: h2) = true ->
  let W := trun pol W0 h1 in
  let W' := tstep pol W (TUpdate e) in
  t_st W' = update (t_st W) e /\ cur_id (t_st W') = cur_id (t_st W) /\
  exists W1, In W1 (ttrace pol W0 h1) /\
    cur_id (t_st W) = hour_of (t_wall W1) /\
    t_now W - (P + 2 * lat) <= t_now W1 <= t_now W.
Proof.
  intros Hpol Hlat Hs Hv. cbn zeta.
  destruct (tvalid_app pol lat h1 W0 _ Hv) as [Hv1 _].
  split; [reflexivity|]. split.
  - unfold t_st. cbn [tstep t_in wstep w_st step]. apply update_keeps.
  - exact (current_hour_within_tick pol P lat W0 h1 Hpol Hlat Hs Hv1).
Qed.

Lemma as_written_bounded : policy_bounded policy_as_written 1000.
Proof. intros wall s. unfold policy_as_written. lia. Qed.

Theorem attribution_as_written lat W0 h1 e h2 :
  0 <= lat -> start_ok W0 ->
  tvalid_hist policy_as_written lat W0 (h1 ++ TUpdate e :: h2) = true ->
  let W := trun policy_as_written W0 h1 in
  exists W1, In W1 (ttrace policy_as_written W0 h1) /\
    cur_id (t_st W) = hour_of (t_wall W1) /\
    t_now W - (1000 + 2 * lat) <= t_now W1 <= t_now W.
Proof.
  intros Hlat Hs Hv.
  exact (proj2 (proj2 (attribution_within_tick _ 1000 lat W0 h1 e h2 as_written_bounded Hlat Hs Hv))).
Qed.

(** The premises can be met: a day of idle passes, a step of five hours, the
    roll-over a second later, a query in the new hour. *)
Definition ex_entry : entry := {| e_res := 1; e_dom := 1; e_cli := 2; e_ups := []; e_time := 1500 |}.
Definition ex_world0 : world := world0 0 (490000 * ms_hour + 10) (init 490000 ms_day true).
Definition ex_good : list tev :=
  [TRead; TApply; TUpdate ex_entry; TPass 1; TStep (5 * ms_hour); TUpdate ex_entry;
   TPass 999; TRead; TPass 3; TApply; TRead; TApply; TUpdate ex_entry].

Example attribution_example :
  start_ok ex_world0 /\
  tvalid_hist policy_as_written 5 ex_world0 ex_good = true /\
  let W := trun policy_as_written ex_world0 ex_good in
  cur_id (t_st W) = 490005 /\ u_total (cur (t_st W)) = 1 /\
  rep CTotal (t_st W) = 3 /\ t_now W = 1003 /\ t_due W = 2003.
Proof. vm_compute. repeat split; try reflexivity; discriminate. Qed.

(** * The policy "sleep until the next full hour" *)

(** the worlds of [L] not older than [tick] at [W] all show another hour than
    the current unit's *)
Definition stale_at (tick : Z) (L : list world) (W : world) : bool :=
  forallb (fun W1 => negb (t_now W - tick <=? t_now W1) || negb (cur_id (t_st W) =? hour_of (t_wall W1))) L.

Lemma stale_at_spec tick L W :
  stale_at tick L W = true ->
  forall W1, In W1 L -> t_now W - tick <= t_now W1 -> cur_id (t_st W) <> hour_of (t_wall W1).
Proof.
  unfold stale_at. rewrite forallb_forall. intros H W1 I1 T1 E.
  specialize (H W1 I1). apply orb_true_iff in H as [H|H]; apply negb_true_iff in H.
  - apply Z.leb_gt in H. lia.
  - apply Z.eqb_neq in H. contradiction.
Qed.

Definition ex_stale : list tev :=
  [TRead; TApply; TPass 1; TStep (5 * ms_hour); TPass 3000001].

Theorem sleep_until_next_hour_refuted :
  exists W0 h1 e h2,
    start_ok W0 /\
    tvalid_hist policy_until_next_hour 0 W0 (h1 ++ TUpdate e :: h2) = true /\
    let W := trun policy_until_next_hour W0 h1 in
    accepts (t_st W) e = true /\
    hour_of (t_wall W) = cur_id (t_st W) + 5 /\
    forall W1, In W1 (ttrace policy_until_next_hour W0 h1) ->
      t_now W - 3000000 <= t_now W1 -> cur_id (t_st W) <> hour_of (t_wall W1).
Proof.
  exists ex_world0, ex_stale, ex_entry, [].
  split; [vm_compute; repeat split; try reflexivity; discriminate|].
  split; [vm_compute; reflexivity|].
  cbn zeta. split; [vm_compute; reflexivity|]. split; [vm_compute; reflexivity|].
  apply stale_at_spec. vm_compute. reflexivity.
Qed.

(** No bound below an hour can be proved for that policy: the general
    statement fails for it with any tick up to 50 minutes and lat = 0. *)
Corollary within_tick_fails_for_next_hour :
  ~ (forall W0 h1 e h2, start_ok W0 ->
       tvalid_hist policy_until_next_hour 0 W0 (h1 ++ TUpdate e :: h2) = true ->
       let W := trun policy_until_next_hour W0 h1 in
       exists W1, In W1 (ttrace policy_until_next_hour W0 h1) /\
         cur_id (t_st W) = hour_of (t_wall W1) /\ t_now W - 3000000 <= t_now W1 <= t_now W).
Proof.
  intros H. destruct sleep_until_next_hour_refuted as (W0 & h1 & e & h2 & Hs & Hv & _ & _ & Hst).
  destruct (H W0 h1 e h2 Hs Hv) as (W1 & I1 & C1 & T1 & _).
  exact (Hst W1 I1 T1 C1).
Qed.

(** C10, the DHCP service and its HTTP admin operations (Model/Dhcp4Admin.v):
    the database path never changes; the invariant of the lease table, the
    agreement of the lease file of the data directory with memory and
    "a restart restores the same table" hold along every history of
    messages, static-lease requests, set_config, reset, reset_leases, status
    and restarts. *)
From Coq Require Import List ZArith NArith Bool Lia Permutation.
From AGH Require Import Base.Run Model.Dhcp4 Model.Dhcp4Admin
  Proofs.Dhcp4 Proofs.Dhcp4Names Proofs.Dhcp4Disk.
Import ListNotations.
Local Open Scope N_scope.

Definition db_of (dir : bytes) : path := join_path dir data_filename.

(** * The database path is constant *)

(** No operation other than a process start touches dbFilePath or DataDir;
    a process start sets dbFilePath to the file of the data directory. *)
Lemma wstep_path_same dir w now busy o :
  o <> WRestart -> o <> WOp ORestart ->
  sc_db_path (w_sc (fst (wstep dir w now busy o))) = sc_db_path (w_sc w) /\
  sc_data_dir (w_sc (fst (wstep dir w now busy o))) = sc_data_dir (w_sc w).
Proof.
  intros H1 H2. destruct o as [o| |c'| | |]; cbn [wstep]; try congruence.
  - destruct o; try congruence;
      (destruct (w_v4 w) as [c|]; [|cbn; auto]);
      match goal with |- context [step ?c ?s ?n ?b ?o] => destruct (step c s n b o) as [s' r] end;
      cbn; auto.
  - unfold wset_config. destruct (valid_conf_b c'); cbn; auto.
  - cbn. auto.
  - unfold wreset_leases. destruct (w_v4 w); cbn; auto.
  - cbn. auto.
Qed.

Lemma create_path dir y fs : sc_db_path (w_sc (create dir y fs)) = db_of dir.
Proof. unfold create. destruct (yaml_conf y); reflexivity. Qed.

Lemma create_data_dir dir y fs : sc_data_dir (w_sc (create dir y fs)) = [].
Proof. unfold create. destruct (yaml_conf y); reflexivity. Qed.

Lemma wop_restart_dec o : {o = WRestart} + {o = WOp ORestart} + {o <> WRestart /\ o <> WOp ORestart}.
Proof.
  destruct o as [o| | | | |]; try (right; split; discriminate); [|left; left; reflexivity].
  destruct o; try (right; split; discriminate). left. right. reflexivity.
Qed.

Lemma wstep_path dir w now busy o :
  sc_db_path (w_sc w) = db_of dir ->
  sc_db_path (w_sc (fst (wstep dir w now busy o))) = db_of dir.
Proof.
  intros H. destruct (wop_restart_dec o) as [[->| ->]|[H1 H2]].
  - apply create_path.
  - apply create_path.
  - rewrite (proj1 (wstep_path_same dir w now busy o H1 H2)). exact H.
Qed.

Lemma wstep_data_dir dir w now busy o :
  sc_data_dir (w_sc w) = [] -> sc_data_dir (w_sc (fst (wstep dir w now busy o))) = [].
Proof.
  intros H. destruct (wop_restart_dec o) as [[->| ->]|[H1 H2]].
  - apply create_data_dir.
  - apply create_data_dir.
  - rewrite (proj2 (wstep_path_same dir w now busy o H1 H2)). exact H.
Qed.

(** Over every history from a process start, whatever the operations: the
    service writes and reads the lease file of the data directory, and its
    DataDir field stays empty (so the path cannot be recomputed from it). *)
Theorem path_constant dir y fs h :
  let w := wrun dir h (create dir y fs) in
  sc_db_path (w_sc w) = db_of dir /\ sc_data_dir (w_sc w) = [].
Proof.
  cbn. unfold wrun.
  assert (G : forall w, sc_db_path (w_sc w) = db_of dir -> sc_data_dir (w_sc w) = [] ->
    let w' := fold_left (fun w (p : wevent) => fst (wstep dir w (fst (fst p)) (snd (fst p)) (snd p))) h w in
    sc_db_path (w_sc w') = db_of dir /\ sc_data_dir (w_sc w') = []).
  { induction h as [|[[now busy] o] h IH]; intros w H1 H2; cbn; auto.
    apply IH; [apply wstep_path|apply wstep_data_dir]; auto. }
  apply G; [apply create_path|apply create_data_dir].
Qed.

(** * The invariant of the service *)

(** The table is in step with the file: either the file lists exactly the
    table, or the table is what a load of the file gives (right after a
    process start or a set_config: leases of the file that the configuration
    cannot hold are not in the table, and stay in the file until the next
    store). *)
Definition Synced (c : conf) (s : state) : Prop := FileCurrent s \/ s = load c (disk s).

Definition wop_ok (gw : N) (o : wop) : Prop :=
  match o with
  | WOp o => op_ok o
  | WSetConfig c' => c_gw c' = gw
  | _ => True
  end.

Definition whist_ok (gw : N) (h : list wevent) : Prop := Forall (fun p : wevent => wop_ok gw (snd p)) h.

Definition yaml_ok (gw : N) (y : yaml) : Prop :=
  match yaml_conf y with Some c => c_gw c = gw | None => True end.

Record WInv (dir : bytes) (gw : N) (w : world) : Prop := {
  wi_path : sc_db_path (w_sc w) = db_of dir;
  wi_yaml : yaml_ok gw (w_yaml w);
  wi_v4 : match w_v4 w with
          | Some c => c_gw c = gw /\ yaml_conf (w_yaml w) = Some c /\
                      FullInv c (st_of w) /\ NamesStable (w_leases w) /\ Synced c (st_of w)
          | None => w_leases w = [] /\ w_ix w = empty_index /\ data_file dir w = []
          end
}.

Lemma st_of_put_st w s : st_of (put_st w s) = s.
Proof. unfold st_of, put_st. cbn. rewrite hupd_same. destruct s; reflexivity. Qed.

Lemma load_eta c d : State (leases (load c d)) (ix (load c d)) d = load c d.
Proof. pose proof (load_disk c d) as E. destruct (load c d); cbn in *. congruence. Qed.

Lemma load_loaded c d : load c d = load c (disk (load c d)).
Proof. rewrite load_disk. reflexivity. Qed.

Lemma DiskInv_nil c : DiskInv c [].
Proof. split; cbn; try constructor; intros l []. Qed.

Lemma yaml_conf_valid y c : yaml_conf y = Some c -> valid_conf_b c = true.
Proof.
  unfold yaml_conf. destruct (fst y) as [c0|]; [|discriminate].
  destruct (valid_conf_b c0) eqn:E; [|discriminate]. intros H; inversion H; subst. exact E.
Qed.

(** A process start, from any files whose lease file of the data directory
    is fit to be loaded (and lists nothing when there are no settings). *)
Lemma create_inv dir gw y fs :
  yaml_ok gw y ->
  match yaml_conf y with
  | Some c => DiskInv c (fs (db_of dir))
  | None => fs (db_of dir) = []
  end ->
  WInv dir gw (create dir y fs).
Proof.
  intros Hy Hd. unfold create. fold (db_of dir).
  unfold yaml_ok in Hy. destruct (yaml_conf y) as [c|] eqn:Ey.
  - split; cbn [w_sc w_v4 w_yaml sc_db_path]; auto.
    + unfold yaml_ok. rewrite Ey. exact Hy.
    + unfold st_of. cbn [w_leases w_ix w_fs w_sc sc_db_path]. rewrite load_eta.
      refine (conj Hy (conj Ey (conj _ (conj _ _)))).
      * apply load_full, Hd.
      * apply NS_load.
      * right. apply load_loaded.
  - split; cbn [w_sc w_v4 w_yaml sc_db_path]; auto.
    unfold yaml_ok. rewrite Ey. exact I.
Qed.

(** Under the invariant and for an operation of a client or of the
    static-lease API, the step either leaves the state as it is or ends in a
    store. *)
Lemma step_same_or_stored c s now busy o :
  FullInv c s -> op_ok o -> o <> ORestart ->
  fst (step c s now busy o) = s \/ FileCurrent (fst (step c s now busy o)).
Proof.
  intros F Ho Hr. destruct o; cbn [step fst]; cbn in Ho; auto; try congruence.
  - right. unfold discover. destruct (find_lease mac (leases s)) as [[? ?]|]; [apply store_current|].
    destruct (allocate _ c now busy mac s) as [s' r]; destruct r; apply store_current.
  - unfold request. destruct (request_lease c mac sid reqip ciaddr s) as [r|[i l]]; cbn; auto.
    right. destruct (l_static l); apply store_current.
  - right. unfold decline. destruct (find_index _ (leases s)) as [[? old]|]; [|apply store_current].
    destruct (rm_dynamic_lease c _ _ _ s) as [s1 e]. destruct e; [apply store_current|].
    destruct (allocate _ c now busy mac s1) as [s2 r]; destruct r; apply store_current.
  - right. unfold release. destruct (find_index _ (leases s)) as [[? old]|]; [|apply store_current].
    destruct (rm_dynamic_lease c _ _ _ s) as [s1 e]. destruct e; apply store_current.
  - unfold static_add. destruct (ip =? c_gw c); cbn; auto.
    destruct (valid_mac mac); cbn; auto.
    destruct (if is_nil host then Some [] else _) as [h|]; cbn; auto.
    right. destruct (rm_dynamic_lease c mac ip h s) as [s1 e]. destruct e; [apply store_current|].
    destruct (add_lease c _ s1); apply store_current.
  - unfold static_update. destruct (find_lease mac (leases s)) as [[fi found]|] eqn:Ef; cbn; auto.
    destruct (validate_static c mac ip host s) as [h|] eqn:Ev; cbn; auto.
    destruct (rm_lease c _ _ _ s) as [s1|] eqn:Er; cbn; auto.
    destruct (static_update_no_late_failure _ _ _ _ _ _ _ _ _ F Ho Ef Ev Er) as (s2 & ->).
    right. apply store_current.
  - unfold static_remove. destruct (valid_mac mac); cbn; auto.
    destruct (rm_lease c ip mac host s) as [s1|]; cbn; auto. right. apply store_current.
Qed.

Lemma step_synced c s now busy o :
  FullInv c s -> op_ok o -> o <> ORestart -> Synced c s -> Synced c (fst (step c s now busy o)).
Proof.
  intros F Ho Hr Hs.
  destruct (step_same_or_stored c s now busy o F Ho Hr) as [E|P]; [rewrite E; exact Hs|left; exact P].
Qed.

Lemma empty_store : store (State [] empty_index []) = State [] empty_index [].
Proof. reflexivity. Qed.

Lemma wstep_op_some dir w now busy o c :
  o <> ORestart -> w_v4 w = Some c ->
  fst (wstep dir w now busy (WOp o)) = put_st w (fst (step c (st_of w) now busy o)).
Proof.
  intros Hr Ev. cbn [wstep]. destruct o; try congruence; rewrite Ev;
    match goal with |- context [step ?c ?s ?n ?b ?o] => destruct (step c s n b o) as [s' r] end;
    reflexivity.
Qed.

Lemma wstep_op_none dir w now busy o :
  o <> ORestart -> w_v4 w = None -> fst (wstep dir w now busy (WOp o)) = w.
Proof. intros Hr Ev. cbn [wstep]. destruct o; try congruence; rewrite Ev; reflexivity. Qed.

Theorem wstep_inv dir gw w now busy o :
  WInv dir gw w -> wop_ok gw o -> WInv dir gw (fst (wstep dir w now busy o)).
Proof.
  intros [Hp Hy Hv] Ho.
  assert (Hrestart : WInv dir gw (create dir (w_yaml w) (w_fs w))).
  { apply create_inv; [exact Hy|].
    destruct (w_v4 w) as [c|] eqn:Ev.
    - destruct Hv as (_ & Ey & F & _). rewrite Ey.
      pose proof (inv_disk _ _ (fi_inv _ _ F)) as K. unfold st_of in K. cbn [disk] in K.
      rewrite Hp in K. exact K.
    - destruct Hv as (_ & _ & Hf). unfold data_file in Hf. fold (db_of dir) in Hf.
      destruct (yaml_conf (w_yaml w)); [rewrite Hf; apply DiskInv_nil|exact Hf]. }
  destruct o as [o| |c'| | |]; cbn [wstep]; auto.
  - (* a message, a static-lease request, time *)
    destruct (op_eq_restart o) as [->|Hr]; [exact Hrestart|].
    assert (E : fst (match o with
                     | ORestart => (create dir (w_yaml w) (w_fs w), RNone)
                     | _ => match w_v4 w with
                            | Some c => let '(s', r) := step c (st_of w) now busy o in (put_st w s', r)
                            | None => (w, if is_static_op o then RApi false
                                          else match o with OTick => RNone | _ => RDrop end)
                            end
                     end) =
                match w_v4 w with
                | Some c => put_st w (fst (step c (st_of w) now busy o))
                | None => w
                end).
    { destruct o; try congruence;
        (destruct (w_v4 w) as [c|]; [|reflexivity]);
        match goal with |- context [step ?c ?s ?n ?b ?o] => destruct (step c s n b o) as [s' r] end;
        reflexivity. }
    match goal with |- WInv _ _ (fst ?x) => change (fst x) with
      (fst (match o with
            | ORestart => (create dir (w_yaml w) (w_fs w), RNone)
            | _ => match w_v4 w with
                   | Some c => let '(s', r) := step c (st_of w) now busy o in (put_st w s', r)
                   | None => (w, if is_static_op o then RApi false
                                 else match o with OTick => RNone | _ => RDrop end)
                   end
            end)) end.
    rewrite E. clear E.
    destruct (w_v4 w) as [c|] eqn:Ev.
    + destruct Hv as (Hg & Ey & F & St & Sy).
      split; cbn [put_st w_sc w_v4 w_yaml]; auto. rewrite Ev.
      rewrite st_of_put_st. cbn [w_leases].
      refine (conj Hg (conj Ey (conj _ (conj _ _)))).
      * apply (step_full c (st_of w) now busy o F Ho).
      * apply (step_names c (st_of w) now busy o St).
      * apply step_synced; auto.
    + split; auto. rewrite Ev. exact Hv.
  - (* set_config *)
    cbn in Ho. unfold wset_config. destruct (valid_conf_b c') eqn:Evc; cbn [fst]; [|split; auto].
    assert (K : DiskInv c' (w_fs w (sc_db_path (w_sc w)))).
    { destruct (w_v4 w) as [c|] eqn:Ev.
      - destruct Hv as (Hg & _ & F & _).
        apply (DiskInv_conf c c'); [congruence|]. exact (inv_disk _ _ (fi_inv _ _ F)).
      - destruct Hv as (_ & _ & Hf). unfold data_file in Hf. fold (db_of dir) in Hf.
        rewrite Hp, Hf. apply DiskInv_nil. }
    assert (Ey : yaml_conf (Some c', false) = Some c') by (unfold yaml_conf; cbn; rewrite Evc; reflexivity).
    split; cbn [w_sc w_v4 w_yaml sc_db_path]; auto.
    + unfold yaml_ok. rewrite Ey. exact Ho.
    + unfold st_of. cbn [w_leases w_ix w_fs w_sc sc_db_path]. rewrite load_eta.
      refine (conj Ho (conj Ey (conj _ (conj _ _)))).
      * apply load_full, K.
      * apply NS_load.
      * right. apply load_loaded.
  - (* reset *)
    unfold reset. split; cbn [w_sc w_v4 w_yaml w_leases w_ix sc_db_path].
    + exact Hp.
    + exact Hy.
    + refine (conj eq_refl (conj eq_refl _)).
      unfold data_file. cbn [w_fs]. fold (db_of dir). rewrite Hp. apply hupd_same.
  - (* reset_leases *)
    unfold wreset_leases. destruct (w_v4 w) as [c|] eqn:Ev; cbn [fst].
    + destruct Hv as (Hg & Ey & _). rewrite empty_store.
      split; cbn [put_st w_sc w_v4 w_yaml]; auto. rewrite Ev. rewrite st_of_put_st. cbn [w_leases leases].
      refine (conj Hg (conj Ey (conj _ (conj _ _)))).
      * apply (empty_state_full c).
      * intros l [].
      * left. constructor.
    + destruct Hv as (Hl & Hi & Hf).
      split; cbn [put_st w_sc w_v4 w_yaml]; auto. rewrite Ev.
      unfold put_st, store, st_of. cbn [w_leases w_ix leases ix disk w_sc].
      refine (conj Hl (conj Hi _)). unfold data_file. cbn [w_fs]. fold (db_of dir).
      rewrite Hp, hupd_same, Hl. reflexivity.
  - (* status *)
    split; auto.
Qed.

Theorem wrun_inv dir gw h : forall w, whist_ok gw h -> WInv dir gw w -> WInv dir gw (wrun dir h w).
Proof.
  unfold wrun. induction h as [|[[now busy] o] h IH]; intros w Hh I; cbn; auto.
  inversion Hh; subst. apply IH; auto. apply wstep_inv; auto.
Qed.

(** A process start in a fresh data directory. *)
Definition no_files : files := fun _ => [].

Theorem winv_reachable dir gw y h :
  yaml_ok gw y -> whist_ok gw h -> WInv dir gw (wrun dir h (create dir y no_files)).
Proof.
  intros Hy Hh. apply wrun_inv; auto. apply create_inv; auto.
  destruct (yaml_conf y); [apply DiskInv_nil|reflexivity].
Qed.

(** The table invariant of Proofs/Dhcp4.v, in every reachable state of a
    configured service. *)
Theorem table_inv_reachable dir gw y h c :
  yaml_ok gw y -> whist_ok gw h ->
  let w := wrun dir h (create dir y no_files) in
  w_v4 w = Some c -> FullInv c (st_of w) /\ disk (st_of w) = data_file dir w.
Proof.
  intros Hy Hh w Ev. destruct (winv_reachable dir gw y h Hy Hh) as [Hp _ Hv]. fold w in Hp, Hv.
  rewrite Ev in Hv. split; [tauto|]. unfold st_of, data_file. cbn [disk]. rewrite Hp. reflexivity.
Qed.

(** * A restart restores the same table *)

(** Two tables are the same when they list the same leases, each once, up to
    what the file keeps of an expiry (whole seconds). *)
Definition same_table (L' L : list lease) : Prop :=
  Permutation (map db_lease L') (map db_lease L).

Lemma map_db_idem L : map db_lease (map db_lease L) = map db_lease L.
Proof. rewrite map_map. apply map_ext. intros l. apply db_lease_idem. Qed.

(** In every state that satisfies the invariant a process start gives the
    same table and the same HostByIP / IPByHost answers. *)
Theorem restart_same dir gw w :
  WInv dir gw w ->
  let w' := create dir (w_yaml w) (w_fs w) in
  same_table (w_leases w') (w_leases w) /\
  (forall h, ip_by_host (st_of w') h = ip_by_host (st_of w) h) /\
  (forall ip, host_by_ip (st_of w') ip = host_by_ip (st_of w) ip).
Proof.
  intros [Hp Hy Hv] w'. subst w'. unfold create. fold (db_of dir).
  destruct (w_v4 w) as [c|] eqn:Ev.
  - destruct Hv as (Hg & Ey & F & St & Sy). rewrite Ey.
    unfold st_of at 1 3. cbn [w_leases w_ix w_fs w_sc sc_db_path]. rewrite load_eta.
    assert (Ed : w_fs w (db_of dir) = disk (st_of w)) by (unfold st_of; cbn; rewrite Hp; reflexivity).
    rewrite Ed. destruct Sy as [P|E].
    + assert (St' : NamesStable (leases (st_of w))) by exact St.
      pose proof (load_current_leases c (st_of w) (disk (st_of w)) F St' P) as EL.
      split.
      * unfold same_table. rewrite EL. change (w_leases w) with (leases (st_of w)).
        rewrite <- (map_db_idem (leases (st_of w))). apply Permutation_map. exact P.
      * apply (answers_determined c); auto.
        { apply load_full. exact (inv_disk _ _ (fi_inv _ _ F)). }
        intros p. rewrite EL. rewrite <- (names_db (leases (st_of w))). split; intros Hin.
        -- eapply Permutation_in; [apply Permutation_map, P|exact Hin].
        -- eapply Permutation_in; [apply Permutation_map, Permutation_sym, P|exact Hin].
    + rewrite <- E. split; [apply Permutation_refl|split; reflexivity].
  - destruct Hv as (Hl & Hi & Hf). unfold data_file in Hf. fold (db_of dir) in Hf.
    assert (Ew : st_of w = State [] empty_index (w_fs w (sc_db_path (w_sc w)))).
    { unfold st_of. rewrite Hl, Hi. reflexivity. }
    destruct (yaml_conf (w_yaml w)) as [c|].
    + unfold st_of at 1 3. cbn [w_leases w_ix w_fs w_sc sc_db_path]. rewrite Hf. cbn [load fold_left leases ix].
      rewrite Hl. split; [apply Permutation_refl|]. rewrite Ew. split; reflexivity.
    + cbn [w_leases]. rewrite Hl. split; [apply Permutation_refl|].
      unfold st_of at 1 3. cbn [w_leases w_ix w_fs w_sc sc_db_path]. rewrite Ew. split; reflexivity.
Qed.

Theorem restart_restores_reachable dir gw y h :
  yaml_ok gw y -> whist_ok gw h ->
  let w := wrun dir h (create dir y no_files) in
  let w' := create dir (w_yaml w) (w_fs w) in
  same_table (w_leases w') (w_leases w) /\
  (forall n, ip_by_host (st_of w') n = ip_by_host (st_of w) n) /\
  (forall ip, host_by_ip (st_of w') ip = host_by_ip (st_of w) ip).
Proof. intros Hy Hh. apply (restart_same dir gw). apply winv_reachable; auto. Qed.

(** * The lease file of the data directory lists the table *)

Definition DiskIsMemory (dir : bytes) (w : world) : Prop :=
  Permutation (data_file dir w) (map db_lease (w_leases w)).

Lemma data_file_disk dir w : sc_db_path (w_sc w) = db_of dir -> data_file dir w = disk (st_of w).
Proof. intros Hp. unfold data_file, st_of. cbn [disk]. fold (db_of dir). rewrite Hp. reflexivity. Qed.

(** The agreement is kept by every operation; for a set_config provided the
    settings are the current ones or the file lists nothing (as after a
    reset).  (A set_config to settings that cannot hold some lease of the
    file drops it from the table and leaves it in the file until the next
    store: the code as it is.) *)
Theorem wstep_disk_is_memory dir gw w now busy o :
  WInv dir gw w -> wop_ok gw o -> DiskIsMemory dir w ->
  match o with WSetConfig c' => w_v4 w = Some c' \/ data_file dir w = [] | _ => True end ->
  DiskIsMemory dir (fst (wstep dir w now busy o)).
Proof.
  intros I Ho D Hs.
  pose proof (wstep_inv dir gw w now busy o I Ho) as I'.
  destruct I as [Hp Hy Hv].
  assert (Hrestart : DiskIsMemory dir (create dir (w_yaml w) (w_fs w))).
  { unfold DiskIsMemory, data_file, create. fold (db_of dir).
    destruct (w_v4 w) as [c|] eqn:Ev.
    - destruct Hv as (Hg & Ey & F & St & _). rewrite Ey. cbn [w_fs w_leases].
      assert (P : FileCurrent (st_of w)).
      { unfold FileCurrent. rewrite <- (data_file_disk dir w Hp). exact D. }
      assert (Ed : w_fs w (db_of dir) = disk (st_of w)) by (unfold st_of; cbn; rewrite Hp; reflexivity).
      rewrite Ed.
      rewrite (load_current_leases c (st_of w) (disk (st_of w)) F St P).
      eapply Permutation_trans; [exact P|]. rewrite <- (map_db_idem (leases (st_of w))).
      apply Permutation_map, Permutation_sym, P.
    - destruct Hv as (Hl & Hi & Hf). unfold data_file in Hf. fold (db_of dir) in Hf.
      destruct (yaml_conf (w_yaml w)); cbn [w_fs w_leases]; rewrite Hf; constructor. }
  destruct o as [o| |c'| | |]; [|exact Hrestart|cbn [wstep]..]; auto.
  - destruct (op_eq_restart o) as [->|Hr]; [exact Hrestart|].
    destruct (w_v4 w) as [c|] eqn:Ev.
    + destruct Hv as (Hg & Ey & F & St & Sy).
      assert (P : FileCurrent (st_of w)).
      { unfold FileCurrent. rewrite <- (data_file_disk dir w Hp). exact D. }
      pose proof (step_current c (st_of w) now busy o F Ho St P) as P'.
      rewrite (wstep_op_some dir w now busy o c Hr Ev).
      unfold DiskIsMemory. rewrite data_file_disk by (cbn; exact Hp).
      rewrite st_of_put_st. cbn [put_st w_leases]. exact P'.
    + rewrite (wstep_op_none dir w now busy o Hr Ev). exact D.
  - unfold wset_config. destruct (valid_conf_b c') eqn:Evc; cbn [fst]; auto.
    unfold DiskIsMemory, data_file. cbn [w_fs w_leases]. fold (db_of dir). rewrite Hp.
    destruct Hs as [Ev|Hf].
    + rewrite Ev in Hv. destruct Hv as (Hg & Ey & F & St & _).
      assert (P : FileCurrent (st_of w)).
      { unfold FileCurrent. rewrite <- (data_file_disk dir w Hp). exact D. }
      assert (Ed : w_fs w (db_of dir) = disk (st_of w)) by (unfold st_of; cbn; rewrite Hp; reflexivity).
      rewrite Ed.
      rewrite (load_current_leases c' (st_of w) (disk (st_of w)) F St P).
      eapply Permutation_trans; [exact P|]. rewrite <- (map_db_idem (leases (st_of w))).
      apply Permutation_map, Permutation_sym, P.
    + unfold data_file in Hf. fold (db_of dir) in Hf. rewrite Hf. constructor.
  - unfold reset, DiskIsMemory, data_file. cbn [fst w_fs w_leases]. fold (db_of dir).
    rewrite Hp, hupd_same. constructor.
  - unfold wreset_leases. destruct (w_v4 w) as [c|] eqn:Ev; cbn [fst].
    + rewrite empty_store. unfold DiskIsMemory.
      rewrite data_file_disk by (cbn; exact Hp). rewrite st_of_put_st. constructor.
    + destruct Hv as (Hl & _). unfold DiskIsMemory.
      rewrite data_file_disk by (cbn; exact Hp). rewrite st_of_put_st.
      cbn [put_st w_leases store leases disk]. apply store_list_perm.
Qed.

(** In particular a reset keeps it: the file removed is the lease file of
    the data directory, and the table is empty afterwards. *)
Corollary reset_disk_is_memory dir gw w now busy :
  WInv dir gw w -> DiskIsMemory dir (fst (wstep dir w now busy WReset)).
Proof.
  intros [Hp _ _]. cbn [wstep fst]. unfold reset, DiskIsMemory, data_file. cbn [w_fs w_leases].
  fold (db_of dir). rewrite Hp, hupd_same. constructor.
Qed.

Theorem reset_keeps_agreement_reachable dir gw y h now busy :
  yaml_ok gw y -> whist_ok gw h ->
  let w := wrun dir h (create dir y no_files) in
  DiskIsMemory dir (fst (wstep dir w now busy WReset)).
Proof. intros Hy Hh. apply (reset_disk_is_memory dir gw). apply winv_reachable; auto. Qed.

(** Histories without set_config. *)
Definition no_reconf (h : list wevent) : Prop :=
  Forall (fun p : wevent => match snd p with WSetConfig _ => False | _ => True end) h.

Lemma wrun_disk_is_memory dir gw h : forall w,
  WInv dir gw w -> whist_ok gw h -> no_reconf h -> DiskIsMemory dir w -> DiskIsMemory dir (wrun dir h w).
Proof.
  unfold wrun. induction h as [|[[now busy] o] h IH]; intros w I Hh Hn D; cbn; auto.
  inversion Hh; subst. inversion Hn; subst. cbn [snd] in *.
  apply IH; auto; [apply wstep_inv; auto|].
  eapply wstep_disk_is_memory; eauto. destruct o; auto; contradiction.
Qed.

(** The scenario of /control/dhcp/reset: from any reachable state, a reset,
    a set_config with any settings Validate accepts, then any history of
    messages, static-lease requests, resets, reset_leases and restarts: the
    lease file of the data directory lists exactly the table, and a process
    start restores the same table and the same answers. *)
Theorem restart_after_reset dir gw y h0 c' h now busy now' busy' :
  yaml_ok gw y -> whist_ok gw h0 -> c_gw c' = gw -> valid_conf_b c' = true ->
  whist_ok gw h -> no_reconf h ->
  let w0 := wrun dir h0 (create dir y no_files) in
  let w1 := fst (wstep dir w0 now busy WReset) in
  let w2 := fst (wstep dir w1 now' busy' (WSetConfig c')) in
  let w := wrun dir h w2 in
  w_v4 w2 = Some c' /\ w_leases w2 = [] /\
  DiskIsMemory dir w /\
  let w' := create dir (w_yaml w) (w_fs w) in
  same_table (w_leases w') (w_leases w) /\
  (forall n, ip_by_host (st_of w') n = ip_by_host (st_of w) n) /\
  (forall ip, host_by_ip (st_of w') ip = host_by_ip (st_of w) ip).
Proof.
  intros Hy Hh0 Hg Hvc Hh Hn w0 w1 w2 w.
  pose proof (winv_reachable dir gw y h0 Hy Hh0) as I0. fold w0 in I0.
  assert (I1 : WInv dir gw w1) by (apply wstep_inv; [exact I0|exact I]).
  assert (I2 : WInv dir gw w2) by (apply wstep_inv; [exact I1|exact Hg]).
  assert (D1 : DiskIsMemory dir w1) by (apply (reset_disk_is_memory dir gw); exact I0).
  assert (F1 : data_file dir w1 = []).
  { destruct I0 as [Hp _ _]. unfold w1. cbn [wstep fst]. unfold reset, data_file. cbn [w_fs].
    fold (db_of dir). rewrite Hp. apply hupd_same. }
  assert (D2 : DiskIsMemory dir w2).
  { apply (wstep_disk_is_memory dir gw); auto. }
  assert (E2 : w2 = World (SConf false (sc_data_dir (w_sc w1)) (sc_db_path (w_sc w1))) (Some c')
                      (leases (load c' (w_fs w1 (sc_db_path (w_sc w1)))))
                      (ix (load c' (w_fs w1 (sc_db_path (w_sc w1))))) (w_fs w1) (Some c', false)).
  { unfold w2. cbn [wstep]. unfold wset_config. rewrite Hvc. reflexivity. }
  split; [rewrite E2; reflexivity|].
  split.
  { rewrite E2. cbn [w_leases]. destruct I1 as [Hp1 _ _]. unfold data_file in F1. fold (db_of dir) in F1.
    rewrite Hp1, F1. reflexivity. }
  split; [apply (wrun_disk_is_memory dir gw); auto|].
  apply (restart_same dir gw). apply wrun_inv; auto.
Qed.

(** Non-vacuity: a configuration, a history with a lease, a reset, a
    set_config and a reservation; the table is not empty at the end and the
    file of the data directory lists it. *)
Definition ex_dir : bytes := [100].
Definition ex_yaml : yaml := (Some example_conf, true).
Definition ex_history : list wevent :=
  [ (example_now, [], WOp (ODiscover (mac6 1)));
    (example_now, [], WReset);
    (example_now, [], WSetConfig example_conf);
    (example_now, [], WOp (OStaticAdd (mac6 2) (c_start example_conf + 1) [110; 97; 115])) ].

Example admin_premises_satisfiable :
  yaml_ok (c_gw example_conf) ex_yaml /\ whist_ok (c_gw example_conf) ex_history /\
  valid_conf_b example_conf = true /\
  let w := wrun ex_dir ex_history (create ex_dir ex_yaml no_files) in
  w_v4 w = Some example_conf /\ length (w_leases w) = 1%nat /\
  length (data_file ex_dir w) = 1%nat /\ sc_db_path (w_sc w) = db_of ex_dir.
Proof.
  split; [reflexivity|]. split.
  { repeat constructor; cbn; reflexivity. }
  split; [reflexivity|]. vm_compute. repeat split; reflexivity.
Qed.

(** The queue of pending engine rebuilds (Model/FilterQueue.v): whatever the
    handlers and the updates loop do in whatever order, once every change has
    been followed by its EnableFilters call and the loop has served the
    queue, the installed engines are those of the latest configuration. *)
From Coq Require Import List NArith Bool Arith Lia.
From AGH Require Import Base.Run Base.NetAddr Base.RuleEngine Model.Pipeline Model.PipelineLists Model.FilterQueue.
From AGH Require Import Proofs.Pipeline Proofs.PipelineLists.
From AGH Require Model.Rewrites.
Import ListNotations.

(** * Generic part *)
Section Queue.
  Variables conf change snap : Type.
  Variable apply : conf -> change -> conf.
  Variable take : conf -> snap.

  Notation qstate := (qstate conf snap).
  Notation op := (op change).
  Notation stepN := (step apply take enq_drain_send).
  Notation runN := (run apply take enq_drain_send).
  Notation quiesceN := (quiesce apply take).

  (** Everything on its way to the engines is the snapshot of the
      configuration in force: every queued task is, and when nothing is
      queued the task being installed is, and when nothing is being
      installed either the engines are. *)
  Definition fresh (s : qstate) : Prop :=
    (forall p, In p (q_chan s) -> p = take (q_conf s)) /\
    (q_chan s = [] ->
     match q_busy s with
     | Some p => p = take (q_conf s)
     | None => q_engine s = take (q_conf s)
     end).

  Lemma drain_nil (c : list snap) : drain c = [].
  Proof. induction c; cbn; auto. Qed.

  Lemma enq_drain_send_spec (c : list snap) p : enq_drain_send c p = ([p], false).
  Proof. unfold enq_drain_send, chan_send. rewrite drain_nil. reflexivity. Qed.

  (** "At most one pending task", and no sender ever blocks (which would
      happen while holding conf.filtersMu.RLock). *)
  Definition bounded (s : qstate) : Prop := (length (q_chan s) <= 1)%nat /\ q_stuck s = false.

  Lemma step_bounded s o : bounded s -> bounded (stepN s o).
  Proof.
    intros [Hl Hs]. unfold bounded. destruct o; cbn [step].
    - split; assumption.
    - rewrite enq_drain_send_spec. cbn. split; [lia|]. rewrite Hs. reflexivity.
    - destruct (q_busy s); [split; assumption|].
      destruct (q_chan s) as [|p rest] eqn:E; [split; [rewrite E|]; assumption|].
      cbn in *. split; [lia|assumption].
    - destruct (q_busy s); split; assumption.
    - split; assumption.
  Qed.

  Lemma run_bounded h : forall s, bounded s -> bounded (runN s h).
  Proof.
    induction h as [|o h IH]; intros s H; [exact H|]. cbn. apply IH. apply step_bounded. exact H.
  Qed.

  (** One step: if no change was waiting for its trigger before the step
      and the state was fresh, or the step is the trigger itself, the state
      is fresh afterwards unless the step is a change. *)
  Lemma step_fresh d s o :
    (d = false -> fresh s) -> dirty_after d [o] = false -> fresh (stepN s o).
  Proof.
    intros Hf Hd. unfold fresh in *. destruct o; cbn in Hd.
    - discriminate.
    - (* trigger: the channel holds exactly the snapshot of now *)
      cbn [step]. rewrite enq_drain_send_spec. split; cbn.
      + intros p [<-|[]]. reflexivity.
      + discriminate.
    - specialize (Hf Hd). destruct Hf as [Hc Hb]. cbn [step].
      destruct (q_busy s) eqn:Eb; [split; [exact Hc|rewrite Eb; exact Hb]|].
      destruct (q_chan s) as [|p rest] eqn:Ec; [rewrite Ec, Eb; split; [exact Hc|exact Hb]|].
      split; cbn.
      + intros x Hx. apply Hc. right. exact Hx.
      + intros _. apply Hc. left. reflexivity.
    - specialize (Hf Hd). destruct Hf as [Hc Hb]. cbn [step].
      destruct (q_busy s) eqn:Eb; [|rewrite Eb; split; [exact Hc|exact Hb]].
      split; cbn; [exact Hc|]. exact Hb.
    - specialize (Hf Hd). destruct Hf as [Hc Hb]. cbn.
      split; [exact Hc|]. intros E. specialize (Hb E).
      destruct (q_busy s); [exact Hb|reflexivity].
  Qed.

  Lemma dirty_after_cons d (o : op) h : dirty_after d (o :: h) = dirty_after (dirty_after d [o]) h.
  Proof. destruct o; reflexivity. Qed.

  Lemma run_fresh h : forall d s,
    (d = false -> fresh s) -> dirty_after d h = false -> fresh (runN s h).
  Proof.
    induction h as [|o h IH]; intros d s Hf Hd.
    - cbn in *. exact (Hf Hd).
    - cbn [run fold_left]. rewrite dirty_after_cons in Hd.
      apply (IH (dirty_after d [o])); [|exact Hd].
      intros E. exact (step_fresh d s o Hf E).
  Qed.

  (** The loop left alone on a fresh state installs the configuration. *)
  Lemma serve_n_fresh n : forall s,
    fresh s -> length (q_chan s) = n ->
    let s' := serve_n apply take n s in
    q_engine s' = take (q_conf s) /\ q_chan s' = [] /\ q_busy s' = None /\
    q_conf s' = q_conf s /\ q_stuck s' = q_stuck s.
  Proof.
    induction n as [|n IH]; intros s Hf Hl; cbn [serve_n].
    - destruct Hf as [Hc Hb]. apply length_zero_iff_nil in Hl. specialize (Hb Hl). cbn.
      destruct (q_busy s) eqn:Eb; cbn; try rewrite Eb; auto.
    - set (s1 := stepN s OInstall).
      assert (H1 : fresh s1) by (apply (step_fresh false s OInstall); auto).
      assert (E1 : q_chan s1 = q_chan s /\ q_busy s1 = None /\ q_conf s1 = q_conf s /\ q_stuck s1 = q_stuck s).
      { unfold s1. cbn. destruct (q_busy s) eqn:Eb; cbn; auto. }
      destruct E1 as [Ec [Eb [Ecf Est]]].
      set (s2 := stepN s1 OTake).
      assert (H2 : fresh s2) by (apply (step_fresh false s1 OTake); auto).
      destruct (q_chan s) as [|p rest] eqn:Es; [discriminate|].
      assert (E2 : q_chan s2 = rest /\ q_conf s2 = q_conf s /\ q_stuck s2 = q_stuck s).
      { unfold s2. cbn [step]. rewrite Eb, Ec. cbn. auto. }
      destruct E2 as [Ec2 [Ecf2 Est2]].
      assert (Hl2 : length (q_chan s2) = n) by (rewrite Ec2; cbn in Hl; lia).
      destruct (IH s2 H2 Hl2) as [A [B [C [D E]]]].
      rewrite Ecf2 in A, D. rewrite Est2 in E. auto.
  Qed.

  Lemma quiesce_fresh s :
    fresh s ->
    q_engine (quiesceN s) = take (q_conf s) /\ q_chan (quiesceN s) = [] /\ q_busy (quiesceN s) = None /\
    q_conf (quiesceN s) = q_conf s /\ q_stuck (quiesceN s) = q_stuck s.
  Proof. intros H. exact (serve_n_fresh _ s H eq_refl). Qed.

  Lemma quiesce_keeps_fresh s : fresh s -> fresh (quiesceN s).
  Proof.
    intros H. destruct (quiesce_fresh s H) as [A [B [C [D _]]]].
    split; rewrite B; [intros p []|]. intros _. rewrite C, A, D. reflexivity.
  Qed.

  Lemma quiesce_keeps_bounded s : fresh s -> bounded s -> bounded (quiesceN s).
  Proof.
    intros H [_ Hs]. destruct (quiesce_fresh s H) as [_ [B [_ [_ E]]]].
    split; [rewrite B; cbn; lia|]. rewrite E. exact Hs.
  Qed.

  (** The claim: for every history of changes, triggers, loop steps and
      synchronous rebuilds, in any interleaving, in which the last change is
      followed by its EnableFilters(true): when the loop has served the
      queue, the engines are those of the configuration in force. *)
  Theorem engine_follows_last_change s0 h :
    fresh s0 -> settled h = true ->
    let s := runN s0 h in
    q_engine (quiesceN s) = take (q_conf s) /\ q_chan (quiesceN s) = [] /\ q_busy (quiesceN s) = None.
  Proof.
    intros Hf Hs. cbv zeta. unfold settled in Hs. apply negb_true_iff in Hs.
    assert (H : fresh (runN s0 h)) by (apply (run_fresh h false); auto).
    destruct (quiesce_fresh _ H) as [A [B [C _]]]. auto.
  Qed.

  (** ... and from ANY state (stale engines, a stale task queued or being
      installed) as soon as one EnableFilters(true) has followed the last
      change. *)
  Theorem one_trigger_heals s0 h :
    dirty_after true h = false ->
    let s := runN s0 h in q_engine (quiesceN s) = take (q_conf s).
  Proof.
    intros Hd. cbv zeta.
    assert (H : fresh (runN s0 h)) by (apply (run_fresh h true); [discriminate|exact Hd]).
    destruct (quiesce_fresh _ H) as [A _]. exact A.
  Qed.

  (** A change that does not alter the snapshot needs no trigger. *)
  Lemma change_same_snapshot_fresh s ch :
    take (apply (q_conf s) ch) = take (q_conf s) -> fresh s -> fresh (stepN s (OChange ch)).
  Proof. intros E [Hc Hb]. split; cbn; rewrite E; assumption. Qed.
End Queue.

Arguments fresh {conf snap}.
Arguments bounded {conf snap}.

(** The premises are satisfiable and the claim is not vacuous: a history
    with two changes while the loop is busy with a third task. *)
Example ex_hist : list (op nat) :=
  [OChange 1; OTrigger; OTake; OChange 2; OTrigger; OChange 3; OTrigger; OInstall].
Definition ex_s0 : qstate nat nat := mkQ 0 [] None 0 false.
Definition ex_apply (_ : nat) (c : nat) : nat := c.
Definition ex_take (c : nat) : nat := c.

Example ex_premises : fresh ex_take ex_s0 /\ settled ex_hist = true.
Proof. split; [split; cbn; [intros p []|reflexivity]|reflexivity]. Qed.

Example ex_phases :
  let s := run ex_apply ex_take enq_drain_send ex_s0 ex_hist in
  q_chan s = [3] /\ q_engine s = 1 /\ q_engine (quiesce ex_apply ex_take s) = 3.
Proof. vm_compute. auto. Qed.

(** The seeded variant (non-blocking send, no drain) is refuted: the second
    change finds the first one's task in the channel and is dropped. *)
Definition ex_hist2 : list (op nat) := [OChange 1; OTrigger; OChange 2; OTrigger].

Lemma nonblocking_send_refuted_generic :
  exists (s0 : qstate nat nat) (h : list (op nat)),
    fresh ex_take s0 /\ settled h = true /\
    let s := run ex_apply ex_take enq_nonblocking s0 h in
    q_engine (quiesce ex_apply ex_take s) <> ex_take (q_conf s).
Proof.
  exists ex_s0, ex_hist2. split; [apply ex_premises|]. split; [reflexivity|].
  vm_compute. discriminate.
Qed.

(** The variant and the code agree while the loop keeps up with the
    handlers (which is why ordinary tests cannot tell them apart). *)
Example nonblocking_send_agrees_when_idle :
  let h := [OChange 1; OTrigger; OTake; OInstall; OChange 2; OTrigger] in
  run ex_apply ex_take enq_nonblocking ex_s0 h = run ex_apply ex_take enq_drain_send ex_s0 h.
Proof. vm_compute. reflexivity. Qed.

(** * The rule lists behind the queue *)
Local Open Scope N_scope.

Lemma with_side_same w st : with_side w st (side w st) = st.
Proof. destruct st, w; reflexivity. Qed.

Lemma set_first_noop u en ls :
  match find_url u ls with Some f => fl_on f = en | None => True end -> set_first u en ls = ls.
Proof.
  unfold find_url. induction ls as [|f ls IH]; cbn; [reflexivity|].
  destruct (fl_url f =? u) eqn:E.
  - intros <-. destruct f; reflexivity.
  - intros H. rewrite (IH H). reflexivity.
Qed.

(** A handler that does not go on to EnableFilters has not changed what the
    engines are built from. *)
Lemma no_restart_same_snapshot st ch : restarts st ch = false -> ptake (apply_q st ch) = ptake st.
Proof.
  destruct ch as [w u en|rs|w f|w u|]; cbn; try discriminate.
  - intros H. rewrite set_first_noop; [rewrite with_side_same; reflexivity|].
    destruct (find_url u (side w st)) as [f|]; [|exact I].
    apply negb_false_iff, eqb_prop in H. exact H.
  - intros H. apply negb_false_iff in H. rewrite H. reflexivity.
Qed.

(** With distinct URLs (filterExists refuses a known URL, filtering.New
    removes duplicates) the first list with a URL is the only one:
    [set_first] is Model/PipelineLists.set_on. *)
Lemma set_first_set_on u en ls : NoDup (map fl_url ls) -> set_first u en ls = set_on u en ls.
Proof.
  induction ls as [|f ls IH]; cbn; [reflexivity|]. intros H. inversion H as [|x l Hn Hd]; subst.
  destruct (fl_url f =? u) eqn:E.
  - f_equal. apply N.eqb_eq in E. subst u.
    unfold set_on. rewrite <- (map_id ls) at 1. apply map_ext_in. intros g Hg.
    destruct (fl_url g =? fl_url f) eqn:E2; [|reflexivity].
    apply N.eqb_eq in E2. exfalso. apply Hn. rewrite <- E2. apply in_map. exact Hg.
  - f_equal. apply IH. exact Hd.
Qed.

Notation pfresh := (fresh ptake).

Lemma pinit_fresh st : pfresh (pinit st).
Proof. split; cbn; [intros p []|reflexivity]. Qed.

Lemma pinit_bounded st : bounded (pinit st).
Proof. split; cbn; [lia|reflexivity]. Qed.

Lemma handle_fresh s ch : pfresh s -> pfresh (handle s ch).
Proof.
  intros H. unfold handle, handler_ops, prun. destruct (restarts (q_conf s) ch) eqn:E.
  - apply (run_fresh _ _ _ apply_q ptake [OChange ch; OTrigger] false); auto.
  - cbn [run fold_left]. apply change_same_snapshot_fresh; [|exact H].
    apply no_restart_same_snapshot. exact E.
Qed.

Lemma handle_conf s ch : q_conf (handle s ch) = apply_q (q_conf s) ch.
Proof.
  unfold handle, handler_ops, prun. destruct (restarts (q_conf s) ch); cbn [run fold_left step]; [|reflexivity].
  rewrite enq_drain_send_spec. reflexivity.
Qed.

Lemma handle_bounded s ch : bounded s -> bounded (handle s ch).
Proof. intros H. unfold handle, prun. apply run_bounded. exact H. Qed.

Lemma hstep_fresh s o : pfresh s -> pfresh (hstep s o).
Proof.
  intros H. destruct o; cbn [hstep].
  - apply handle_fresh. exact H.
  - apply (step_fresh _ _ _ apply_q ptake false); auto.
  - apply (step_fresh _ _ _ apply_q ptake false); auto.
  - apply (step_fresh _ _ _ apply_q ptake false); auto.
  - apply quiesce_keeps_fresh. exact H.
Qed.

Lemma hstep_bounded s o : pfresh s -> bounded s -> bounded (hstep s o).
Proof.
  intros Hf H. destruct o; cbn [hstep].
  - apply handle_bounded. exact H.
  - apply step_bounded. exact H.
  - apply step_bounded. exact H.
  - apply step_bounded. exact H.
  - apply quiesce_keeps_bounded; assumption.
Qed.

Lemma hrun_fresh hs : forall s, pfresh s -> bounded s -> pfresh (hrun s hs) /\ bounded (hrun s hs).
Proof.
  induction hs as [|o hs IH]; intros s Hf Hb; [split; assumption|].
  cbn [hrun fold_left]. apply IH; [apply hstep_fresh|apply hstep_bounded]; assumption.
Qed.

(** Whole handler calls (set_rules, set_url, add_url, remove_url,
    filtering/config), loop steps, synchronous rebuilds and idle periods of
    the loop in any order, from a started server: at most one task is ever
    pending, no handler blocks, and ... *)
Theorem at_most_one_pending st hs :
  let s := hrun (pinit st) hs in (length (q_chan s) <= 1)%nat /\ q_stuck s = false.
Proof. exact (proj2 (hrun_fresh hs (pinit st) (pinit_fresh st) (pinit_bounded st))). Qed.

Section Ask.
  Variable sb par : bytes -> bool.
  Variable ss : bytes -> N -> option ssverdict.
  Variable srt : list Rewrites.entry -> list Rewrites.entry.

  (** ... once the loop has served the queue, every query is answered as by
      a server whose engines were built from the latest configuration
      (Model/PipelineLists.ask), so everything C01 / C02 state about "the
      enabled rules" is about the rules of the last accepted change. *)
  Theorem served_queue_answers_with_last_change st hs c up q :
    let s := hrun (pinit st) hs in
    ask_q sb par ss srt (pquiesce s) c up q = ask sb par ss srt (q_conf s) c up q.
  Proof.
    cbv zeta. destruct (hrun_fresh hs (pinit st) (pinit_fresh st) (pinit_bounded st)) as [Hf _].
    destruct (quiesce_fresh _ _ _ apply_q ptake _ Hf) as [A _].
    unfold ask_q, ask_engines, ask, pquiesce. rewrite A. reflexivity.
  Qed.

  (** The same for interleaved handlers (change and trigger of different
      calls in any order with loop steps in between). *)
  Theorem served_queue_answers_with_last_change_interleaved st h c up q :
    settled h = true ->
    let s := prun (pinit st) h in
    ask_q sb par ss srt (pquiesce s) c up q = ask sb par ss srt (q_conf s) c up q.
  Proof.
    intros Hs. cbv zeta.
    destruct (engine_follows_last_change _ _ _ apply_q ptake (pinit st) h (pinit_fresh st) Hs) as [A _].
    unfold ask_q, ask_engines, ask, pquiesce, prun. rewrite A. reflexivity.
  Qed.

  (** C01's main clause read over the queue: a name the rules of the latest
      configuration block is answered locally once the queue is served. *)
  Theorem blocked_by_last_change_is_local st hs c up q :
    let s := hrun (pinit st) hs in
    blocked_by_spec (match_request (allow_rules (q_conf s))) (match_request (block_rules (q_conf s))) srt c q ->
    let o := ask_q sb par ss srt (pquiesce s) c up q in
    o_calls o = [] /\
    r_filtered (o_result o) = true /\ rule_reason (r_reason (o_result o)) /\
    o_resp o = Some (synthetic c (q_name q) (q_qtype q) (ips_from_rules (o_result o))) /\
    o_qname o = q_name q.
  Proof.
    cbv zeta. intros H. rewrite served_queue_answers_with_last_change.
    unfold ask. apply blocked_is_local. exact H.
  Qed.
End Ask.

(** The custom rules of the last set_rules call are what the block engine
    starts with, whatever was queued or being installed when it arrived. *)
Theorem last_custom_rules_in_force st hs rs :
  let s := pquiesce (handle (hrun (pinit st) hs) (QRules rs)) in
  snd (q_engine s) = rs ++ active (ls_block (q_conf s)) /\ ls_user (q_conf s) = rs.
Proof.
  cbv zeta. destruct (hrun_fresh hs (pinit st) (pinit_fresh st) (pinit_bounded st)) as [Hf _].
  pose proof (handle_fresh _ (QRules rs) Hf) as H.
  destruct (quiesce_fresh _ _ _ apply_q ptake _ H) as [A [_ [_ [D _]]]].
  unfold pquiesce. rewrite A, D, handle_conf. cbn. auto.
Qed.

(** set_url enabled:true for a block list (distinct URLs): its rules are in
    the block engine once the queue is served. *)
Theorem enabled_list_in_force_after_queue st hs f :
  let s0 := hrun (pinit st) hs in
  NoDup (map fl_url (ls_block (q_conf s0))) -> In f (ls_block (q_conf s0)) ->
  let s := pquiesce (handle s0 (QSet false (fl_url f) true)) in
  incl (fl_rules f) (snd (q_engine s)).
Proof.
  cbv zeta. intros Hn Hin.
  destruct (hrun_fresh hs (pinit st) (pinit_fresh st) (pinit_bounded st)) as [Hf _].
  pose proof (handle_fresh _ (QSet false (fl_url f) true) Hf) as H.
  destruct (quiesce_fresh _ _ _ apply_q ptake _ H) as [A _].
  unfold pquiesce. rewrite A.
  rewrite handle_conf. cbn. rewrite (set_first_set_on _ _ _ Hn).
  intros r Hr. apply in_or_app. right.
  exact (switched_on_in_force (fl_url f) _ f Hin eq_refl r Hr).
Qed.

(** * The seeded behaviour in the model of the rule lists: two set_rules
    calls while the loop is away; the name the second call blocks is blocked
    by the rules of the configuration and not by the engines. *)
Definition exq_ops : list pop :=
  [OChange (QRules []); OTrigger; OChange (QRules [exl_rule 1 false]); OTrigger].
Definition exq_st : lstate := mkLState [] [] [].

Lemma nonblocking_send_refuted :
  settled exq_ops = true /\
  let s := run apply_q ptake enq_nonblocking (pinit exq_st) exq_ops in
  let e := q_engine (pquiesce s) in
  snd (match_request (block_rules (q_conf s)) exl_rq) = true /\
  snd (match_request (snd e) exl_rq) = false.
Proof. vm_compute. auto. Qed.

Lemma drain_then_send_on_the_same_history :
  let s := prun (pinit exq_st) exq_ops in
  snd (match_request (snd (q_engine (pquiesce s))) exl_rq) = true.
Proof. vm_compute. reflexivity. Qed.

(** C07, round 5: histories in which the PUSH order of the recorded entries
    is not the order of their stamps.

    [Add] (qlog.go) builds the entry, and with it takes [time.Now()], BEFORE
    it locks the buffer: two queries recorded at the same moment may be pushed
    in the opposite order of their stamps, and the flush writes the file in
    push order.  [Model/QLog.v] takes the stamp of an [OAdd] as an input, so
    such histories are histories of the model as it is; what changes is the
    specification: the sequence the property speaks of is the visible log
    SORTED by stamp, newest first ([sort_desc (vis s p)]; [vis] is in reverse
    push order), and [hist_ok] (push order = stamp order) is a hypothesis that
    the operations do not establish by themselves.

    Proved here for EVERY state / push order:
      - a request without cursor returns
        [skip offset (sort (first (offset+limit) (reverse push order)))]
        ([search_any_order]); when the limit covers the log that is the whole
        visible log, each entry once, newest first ([listing_any_order]);
      - every page is newest-first and the returned cursor is the stamp of its
        oldest entry ([page_desc]); every entry of a page is strictly older
        than the request's cursor ([page_under_cursor]); hence the pages of a
        cursor chain never repeat an entry and the chain as a whole is
        newest-first ([chain_sep]);
      - a page served from memory only is newest-first whatever the push order
        ([memory_page_sorted]).
    Refuted (witnesses, [vm_compute]) without push order = stamp order:
    cursor paging and offset paging lose / repeat entries, in memory and in
    the file; equal stamps lose an entry.  With the stamp taken under the
    buffer lock from a strictly increasing clock the hypothesis holds
    ([stamp_ops_ok]). *)
From Coq Require Import ZArith NArith List Bool Lia Permutation.
From AGH Require Import Base.Run Model.QLogFile Model.QLog Proofs.QLogFile Proofs.QLog Proofs.QLogServe
  Proofs.QLogCursor.
Import ListNotations.
Local Open Scope Z_scope.

(** ** Newest first, equal stamps allowed *)
Fixpoint desc (l : list entry) : Prop :=
  match l with
  | [] => True
  | e :: r => (forall y, In y r -> e_time y <= e_time e) /\ desc r
  end.

Lemma insert_desc_desc x l : desc l -> desc (insert_desc x l).
Proof.
  induction l as [|z l IH]; cbn [insert_desc desc]; intro H.
  - split; [intros y []|exact I].
  - destruct H as [Hz Hl]. destruct (Z.gtb_spec (e_time z) (e_time x)).
    + cbn [desc]. split; [|auto].
      intros y Hy. apply In_insert_desc in Hy as [->|Hy]; [lia|auto].
    + cbn [desc]. split; [|split; auto].
      intros y [<-|Hy]; [lia|]. specialize (Hz y Hy). lia.
Qed.

Lemma sort_desc_desc l : desc (sort_desc l).
Proof.
  induction l as [|x l IH]; cbn [sort_desc fold_right]; [exact I|].
  apply insert_desc_desc. exact IH.
Qed.

Lemma insert_desc_perm x l : Permutation (insert_desc x l) (x :: l).
Proof.
  induction l as [|z l IH]; cbn [insert_desc]; [reflexivity|].
  destruct (e_time z >? e_time x); [|reflexivity].
  rewrite IH. apply perm_swap.
Qed.

(** Each entry exactly once: the sort permutes. *)
Lemma sort_desc_perm l : Permutation (sort_desc l) l.
Proof.
  induction l as [|x l IH]; cbn [sort_desc fold_right]; [reflexivity|].
  fold (sort_desc l). rewrite insert_desc_perm. constructor. exact IH.
Qed.

Lemma desc_skipnZ l : forall n, desc l -> desc (skipnZ n l).
Proof.
  induction l as [|x l IH]; intros n H; cbn [skipnZ]; auto.
  destruct (n <=? 0); auto. apply IH. apply H.
Qed.

Lemma desc_last_min l : desc l -> forall y, In y l -> e_time (last l dflt) <= e_time y.
Proof.
  induction l as [|x l IH]; intros H y Hy; [destruct Hy|].
  destruct H as [Hx Hl]. destruct l as [|z l].
  - destruct Hy as [->|[]]. cbn. lia.
  - change (last (x :: z :: l) dflt) with (last (z :: l) dflt).
    destruct Hy as [<-|Hy]; [|auto].
    apply Hx. clear. revert z. induction l as [|w l IHl]; intro z; [left; reflexivity|].
    change (last (z :: w :: l) dflt) with (last (w :: l) dflt). right. apply IHl.
Qed.

(** Already newest first, strictly: the sort changes nothing (Proofs/QLog.v),
    so [desc] is what is left of [decr] when stamps may be equal. *)
Lemma decr_desc l : forall hi, decr hi l -> desc l.
Proof.
  induction l as [|x l IH]; intros hi H; [exact I|]. destruct H as [Hx Hl].
  split; [|eauto]. intros y Hy. pose proof (decr_all_lt _ _ Hl y Hy). lia.
Qed.

(** ** Every page, whatever the state *)

(** What a request without cursor returns, spelled on the visible log in
    reverse PUSH order: cut first, sort afterwards. *)
Definition page_any (s : state) (p : params) : list entry :=
  skipnZ (p_offset p) (sort_desc (firstnZ (p_offset p + p_limit p) (vis s p))).

Theorem search_any_order me bf s p :
  0 < me <= bf -> Forall (len_ok me) (on_disk s) -> p_older p = None ->
  0 < p_limit p -> 0 <= p_offset p ->
  (p_scan p <= 0 \/ lenZ (on_disk s) <= p_scan p) ->
  exists o, search me bf s p = Ok (page_any s p) o.
Proof.
  intros Hme Hdisk Hold Hlim Hoff Hscan.
  unfold search. destruct (Z.eqb_spec (p_limit p) 0); [lia|].
  pose proof (search_files_start me bf s p Hme Hdisk Hold Hscan ltac:(lia)) as Hf.
  destruct (search_files me bf s p) as [fe fo]. cbn [fst] in Hf. subst fe.
  set (tl := p_offset p + p_limit p) in *.
  set (K := keep (cfg s) p).
  assert (Hm : search_memory s p = filter K (rev (if mem_size (cfg s) =? 0 then [] else buf s))).
  { unfold search_memory. destruct (mem_size (cfg s) =? 0); reflexivity. }
  rewrite Hm.
  set (M := filter K (rev (if mem_size (cfg s) =? 0 then [] else buf s))).
  set (F := filter K (rev (on_disk s))).
  assert (Hvis : M ++ F = vis s p).
  { unfold M, F, vis, flatv. rewrite rev_app_distr, filter_app. reflexivity. }
  assert (Hcut : (if lenZ (M ++ firstnZ tl F) >? tl then firstnZ tl (M ++ firstnZ tl F)
                  else M ++ firstnZ tl F) = firstnZ tl (vis s p)).
  { rewrite <- Hvis. destruct (Z.gtb_spec (lenZ (M ++ firstnZ tl F)) tl).
    - apply firstnZ_app_firstnZ. pose proof (lenZ_nonneg M). lia.
    - rewrite <- (firstnZ_all (M ++ firstnZ tl F) tl) by lia.
      apply firstnZ_app_firstnZ. pose proof (lenZ_nonneg M). lia. }
  replace ((lenZ (M ++ firstnZ tl F) >? tl) && (tl <? 0)) with false
    by (symmetry; apply andb_false_iff; right; apply Z.ltb_ge; lia).
  rewrite Hcut.
  set (C := sort_desc (firstnZ tl (vis s p))).
  unfold page_any. fold tl. fold C.
  destruct (Z.gtb_spec (p_offset p) 0).
  - destruct (Z.gtb_spec (lenZ C) (p_offset p)); eexists; [reflexivity|].
    rewrite skipnZ_all by lia. reflexivity.
  - rewrite skipnZ_nonpos by lia. eexists; reflexivity.
Qed.

(** With the log in stamp order this is the page of Proofs/QLog.v. *)
Lemma page_any_sorted s p hi : decr hi (vis s p) -> page_any s p = page s p.
Proof.
  intro H. unfold page_any, page. f_equal. eapply sort_desc_sorted. apply decr_firstnZ. exact H.
Qed.

(** The unpaged listing: every visible entry, each once, newest first,
    WHATEVER the push order (the sort runs over everything). *)
Theorem listing_any_order me bf s p :
  0 < me <= bf -> Forall (len_ok me) (on_disk s) -> p_older p = None -> p_offset p = 0 ->
  0 < p_limit p -> lenZ (flatv s) <= p_limit p ->
  (p_scan p <= 0 \/ lenZ (on_disk s) <= p_scan p) ->
  exists o, search me bf s p = Ok (sort_desc (vis s p)) o /\
            Permutation (sort_desc (vis s p)) (vis s p) /\ desc (sort_desc (vis s p)).
Proof.
  intros Hme Hd Hold Hoff Hlim Hcov Hscan.
  destruct (search_any_order me bf s p Hme Hd Hold Hlim ltac:(lia) Hscan) as (o & H).
  exists o. split; [|split; [apply sort_desc_perm|apply sort_desc_desc]].
  rewrite H. f_equal. unfold page_any. rewrite Hoff, skipnZ_nonpos by lia. f_equal.
  apply firstnZ_all. unfold vis. pose proof (lenZ_filter_le (keep (cfg s) p) (rev (flatv s))).
  unfold lenZ in *. rewrite rev_length in *. lia.
Qed.

(** Every page of every request on every state: newest first, and the cursor
    handed out is the stamp of its last entry, which is its oldest. *)
Theorem page_desc me bf s p es o :
  search me bf s p = Ok es o ->
  desc es /\ (es <> [] -> o = e_time (last es dflt) /\ forall y, In y es -> o <= e_time y).
Proof.
  unfold search. destruct (p_limit p =? 0).
  { intro H; inversion H; subst. split; [exact I|congruence]. }
  destruct (search_files me bf s p) as [fe fo].
  set (all := search_memory s p ++ fe).
  destruct ((lenZ all >? p_offset p + p_limit p) && (p_offset p + p_limit p <? 0)); [discriminate|].
  set (sorted := sort_desc _).
  assert (Hs : desc sorted) by apply sort_desc_desc.
  assert (Hgen : forall es0 o0, desc es0 ->
            Ok es0 (match es0 with [] => o0 | _ => e_time (last es0 dflt) end) = Ok es o ->
            desc es /\ (es <> [] -> o = e_time (last es dflt) /\ forall y, In y es -> o <= e_time y)).
  { intros es0 o0 Hd H. inversion H; subst es. split; auto. intro Hne. destruct es0 as [|a r]; [congruence|].
    split; [reflexivity|]. intros y Hy. subst o. apply desc_last_min; auto. }
  destruct (p_offset p >? 0).
  - destruct (lenZ sorted >? p_offset p).
    + apply Hgen. apply desc_skipnZ. exact Hs.
    + apply (Hgen [] 0). exact I.
  - apply Hgen. exact Hs.
Qed.

(** What the file part returns satisfies the request (cursor included). *)
Lemma collect_match c p lim : forall ls total n oldest r o,
  collect c p lim ls total n oldest = (r, o) -> forall e, In e r -> p_match c p e = true.
Proof.
  induction ls as [|x ls IH]; intros total n oldest r o H e He; cbn [collect] in H.
  - destruct ((0 <? p_scan p) && (p_scan p <=? total)); inversion H; subst; destruct He.
  - destruct ((0 <? p_scan p) && (p_scan p <=? total)); [inversion H; subst; destruct He|].
    destruct x as [e0|].
    + destruct (process c p e0) as [ent ts] eqn:Ep. destruct ent as [e1|].
      * assert (Hm : p_match c p e1 = true).
        { revert Ep. unfold process.
          destruct (negb (forallb (crit_quick c e0) (p_crits p))); [discriminate|].
          destruct (is_ignored c e0); [discriminate|].
          destruct (client_ignored c e0); [discriminate|].
          destruct (p_match c p e0) eqn:Em; cbn [negb]; [|discriminate].
          intro Hx; inversion Hx; subst; exact Em. }
        destruct (n + 1 =? lim).
        -- inversion H; subst. destruct He as [<-|[]]. exact Hm.
        -- destruct (collect c p lim ls (total + 1) (n + 1) ts) as [r' o'] eqn:Ec.
           inversion H; subst. destruct He as [<-|He]; [exact Hm|eapply IH; eauto].
      * eapply IH; eauto.
    + eapply IH; eauto.
Qed.

Lemma search_match me bf s p es o :
  search me bf s p = Ok es o -> forall e, In e es -> p_match (cfg s) p e = true.
Proof.
  unfold search. destruct (p_limit p =? 0).
  { intro H; inversion H; subst. intros e []. }
  destruct (search_files me bf s p) as [fe fo] eqn:Ef.
  set (all := search_memory s p ++ fe).
  assert (Hall : forall e, In e all -> p_match (cfg s) p e = true).
  { intros e He. apply in_app_or in He as [He|He].
    - unfold search_memory in He. destruct (mem_size (cfg s) =? 0); [destruct He|].
      apply filter_In in He as [_ He]. apply andb_true_iff in He. tauto.
    - unfold search_files in Ef.
      destruct (seek_record me bf (p_older p) (new_reader (map qf (files_of s)))) as [r|].
      + eapply collect_match; eauto.
      + inversion Ef; subst. destruct He. }
  destruct ((lenZ all >? p_offset p + p_limit p) && (p_offset p + p_limit p <? 0)); [discriminate|].
  set (cut := if lenZ all >? p_offset p + p_limit p then firstnZ (p_offset p + p_limit p) all else all).
  assert (Hcut : forall e, In e cut -> In e all).
  { unfold cut. destruct (lenZ all >? p_offset p + p_limit p); auto. intros e; apply In_firstnZ. }
  assert (Hgen : forall es0 o0, (forall e, In e es0 -> In e (sort_desc cut)) ->
            Ok es0 o0 = Ok es o -> forall e, In e es -> p_match (cfg s) p e = true).
  { intros es0 o0 Hsub H e He. inversion H; subst. apply Hall, Hcut, In_sort_desc, Hsub, He. }
  destruct (p_offset p >? 0).
  - destruct (lenZ (sort_desc cut) >? p_offset p).
    + apply Hgen. intros e; apply In_skipnZ.
    + apply Hgen. intros e [].
  - apply Hgen. auto.
Qed.

(** Every entry of a page is strictly older than the cursor of the request. *)
Theorem page_under_cursor me bf s p es o c :
  search me bf s p = Ok es o -> p_older p = Some c -> forall y, In y es -> e_time y < c.
Proof.
  intros H Hc y Hy. pose proof (search_match _ _ _ _ _ _ H y Hy) as Hm.
  unfold p_match, older_ok in Hm. rewrite Hc in Hm. apply andb_true_iff in Hm as [Hm _].
  apply Z.ltb_lt. exact Hm.
Qed.

(** ** Cursor chains never repeat an entry *)

(** Everything in a later page is strictly older than everything in an
    earlier one. *)
Fixpoint sep (pages : list (list entry)) : Prop :=
  match pages with
  | [] => True
  | pg :: r => (forall x, In x pg -> forall pg', In pg' r -> forall y, In y pg' -> e_time y < e_time x) /\ sep r
  end.

Lemma chain_nonempty me bf s p : forall fuel c pages, chain me bf s p fuel c = Some pages -> pages <> [].
Proof.
  destruct fuel as [|fuel]; intros c pages H; cbn [chain] in H; [discriminate|].
  destruct (search me bf s (with_older p c)) as [es o| |]; try discriminate.
  destruct (o =? 0); [inversion H; discriminate|].
  destruct (chain me bf s p fuel (Some o)); cbn [option_map] in H; [inversion H; discriminate|discriminate].
Qed.

(** A client follows the cursors; as long as no page before the last comes
    back empty (only a scan window cut short can do that), the pages are
    separated, whatever the push order and the state of the files. *)
Theorem chain_sep me bf s p : forall fuel c pages,
  chain me bf s p fuel c = Some pages -> Forall (fun pg => pg <> []) (removelast pages) ->
  (forall pg, In pg pages -> forall y, In y pg -> older_b c y = true) /\ sep pages.
Proof.
  induction fuel as [|fuel IH]; intros c pages H Hne; cbn [chain] in H; [discriminate|].
  destruct (search me bf s (with_older p c)) as [es o| |] eqn:Es; try discriminate.
  assert (Hunder : forall y, In y es -> older_b c y = true).
  { intros y Hy. destruct c as [t|]; [|reflexivity]. cbn [older_b]. apply Z.ltb_lt.
    eapply page_under_cursor; eauto. }
  destruct (Z.eqb_spec o 0).
  - inversion H; subst pages. split.
    + intros pg [<-|[]]. exact Hunder.
    + cbn [sep]. split; [|exact I]. intros x _ pg' [].
  - destruct (chain me bf s p fuel (Some o)) as [rest|] eqn:Er; cbn [option_map] in H; [|discriminate].
    inversion H; subst pages. clear H.
    pose proof (chain_nonempty _ _ _ _ _ _ _ Er) as Hrest.
    assert (Hrl : removelast (es :: rest) = es :: removelast rest).
    { destruct rest; [congruence|reflexivity]. }
    rewrite Hrl in Hne. inversion Hne as [|? ? Hes Hne']; subst.
    destruct (IH _ _ Er Hne') as (Hold & Hsep).
    destruct (page_desc _ _ _ _ _ _ Es) as (_ & Hmin). destruct (Hmin Hes) as (Ho & Hle).
    assert (Hoc : older_b c (last es dflt) = true).
    { apply Hunder. apply last_In. exact Hes. }
    split.
    + intros pg [<-|Hpg]; [exact Hunder|]. intros y Hy. specialize (Hold pg Hpg y Hy).
      cbn [older_b] in Hold. apply Z.ltb_lt in Hold.
      destruct c as [t|]; [|reflexivity]. cbn [older_b] in *. apply Z.ltb_lt in Hoc. apply Z.ltb_lt. lia.
    + cbn [sep]. split; [|exact Hsep]. intros x Hx pg' Hpg' y Hy.
      specialize (Hold pg' Hpg' y Hy). cbn [older_b] in Hold. apply Z.ltb_lt in Hold.
      specialize (Hle x Hx). lia.
Qed.

(** Separated pages share no entry. *)
Lemma sep_disjoint pages : sep pages -> forall a pg b pg' c x,
  pages = a ++ pg :: b ++ pg' :: c -> In x pg -> In x pg' -> False.
Proof.
  intros H a. revert pages H. induction a as [|q a IH]; intros pages H pg b pg' c x -> Hx Hx'.
  - cbn [app sep] in H. destruct H as [H _].
    specialize (H x Hx pg' ltac:(apply in_or_app; right; left; reflexivity) x Hx'). lia.
  - cbn [app sep] in H. destruct H as [_ H]. eapply IH; eauto.
Qed.

(** ** A page served from memory only *)
Lemma search_files_none me bf s p : cur s = None -> rot s = None -> search_files me bf s p = ([], 0).
Proof.
  intros Hc Hr. unfold search_files, files_of. rewrite Hc, Hr. cbn [app map].
  destruct (p_older p) as [t|]; [reflexivity|].
  cbn. destruct ((0 <? p_scan p) && (p_scan p <=? 0)); reflexivity.
Qed.

(** No file: the page is cut from the buffer in reverse push order, then
    sorted; it is newest-first whatever the push order was. *)
Theorem memory_page_sorted me bf s p :
  cur s = None -> rot s = None -> 0 < p_limit p -> 0 <= p_offset p ->
  exists o, search me bf s p =
              Ok (skipnZ (p_offset p) (sort_desc (firstnZ (p_offset p + p_limit p) (search_memory s p)))) o /\
            desc (skipnZ (p_offset p) (sort_desc (firstnZ (p_offset p + p_limit p) (search_memory s p)))).
Proof.
  intros Hc Hr Hlim Hoff. unfold search. destruct (Z.eqb_spec (p_limit p) 0); [lia|].
  rewrite (search_files_none me bf s p Hc Hr). rewrite app_nil_r.
  set (M := search_memory s p). set (tl := p_offset p + p_limit p).
  replace ((lenZ M >? tl) && (tl <? 0)) with false
    by (symmetry; apply andb_false_iff; right; apply Z.ltb_ge; lia).
  assert (Hcut : (if lenZ M >? tl then firstnZ tl M else M) = firstnZ tl M).
  { destruct (Z.gtb_spec (lenZ M) tl); [reflexivity|]. symmetry. apply firstnZ_all. lia. }
  rewrite Hcut. set (C := sort_desc (firstnZ tl M)).
  assert (Hd : desc (skipnZ (p_offset p) C)) by (apply desc_skipnZ, sort_desc_desc).
  destruct (Z.gtb_spec (p_offset p) 0).
  - destruct (Z.gtb_spec (lenZ C) (p_offset p)); eexists; (split; [|exact Hd]); [reflexivity|].
    rewrite skipnZ_all by lia. reflexivity.
  - revert Hd. rewrite skipnZ_nonpos by lia. intro Hd. eexists; split; [|exact Hd]. reflexivity.
Qed.

(** The sort is not idle there: a buffer pushed out of stamp order. *)
Example memory_page_sort_matters :
  let c := Build_config true true 100 [] [] in
  let e i t := Build_entry i t 100 [97%N] [49%N] [] 0 false in
  let s := run c [OAdd (e 1%N 10); OAdd (e 2%N 30); OAdd (e 3%N 20)] in
  map e_id (search_memory s (Build_params None 5 0 0 [])) = [3; 2; 1]%N /\
  search max_entry_size buffer_size s (Build_params None 5 0 0 []) = Ok [e 2%N 30; e 3%N 20; e 1%N 10] 10.
Proof. vm_compute. split; reflexivity. Qed.

(** ** What needs push order = stamp order *)

(** Stamps of the recorded entries pairwise distinct and positive, lines
    within the limit: everything [hist_ok] asks for except the order. *)
Fixpoint adds (ops : list op) : list entry :=
  match ops with
  | [] => []
  | OAdd e :: r | OAddAsync e :: r => e :: adds r
  | _ :: r => adds r
  end.

Definition hist_distinct (me : Z) (ops : list op) : Prop :=
  NoDup (map e_time (adds ops)) /\ Forall (fun e => 0 < e_time e /\ len_ok me e) (adds ops).

Definition wit_cfg : config := Build_config true true 100 [] [].
Definition wit_e (i : N) (t : Z) : entry := Build_entry i t 100 [97%N] [49%N] [] 0 false.
(** old (10); late takes its stamp (20); the whole Add of newest (30); late
    is pushed. *)
Definition wit_ops : list op := [OAdd (wit_e 1 10); OAdd (wit_e 2 30); OAdd (wit_e 3 20)].

Lemma wit_distinct : hist_distinct max_entry_size wit_ops /\ hist_distinct max_entry_size (wit_ops ++ [OFlush]).
Proof.
  assert (H : hist_distinct max_entry_size wit_ops).
  { split.
    - cbn. repeat constructor; cbn; intuition discriminate.
    - cbn. repeat constructor; cbn; lia. }
  split; [exact H|]. exact H.
Qed.

(** Cursor paging, entries still in memory: pages of one return 3 and 1; the
    newest entry, 2, is visible and never returned. *)
Theorem cursor_paging_any_order_refuted :
  exists c ops p fuel pages e,
    hist_distinct max_entry_size ops /\ p_older p = None /\ p_offset p = 0 /\ 1 <= p_limit p /\
    (length (flatv (run c ops)) < fuel)%nat /\
    chain max_entry_size buffer_size (run c ops) p fuel None = Some pages /\
    In e (vis (run c ops) p) /\ ~ In e (concat pages).
Proof.
  exists wit_cfg, wit_ops, (Build_params None 1 0 0 []), 4%nat, [[wit_e 3 20]; [wit_e 1 10]; []], (wit_e 2 30).
  split; [apply wit_distinct|]. split; [reflexivity|]. split; [reflexivity|]. split; [cbn; lia|].
  split; [cbn; lia|]. split; [vm_compute; reflexivity|]. split; [vm_compute; tauto|].
  cbn. intros [H|[H|[]]]; discriminate.
Qed.

(** The same after the flush (file lines 10, 30, 20), pages of two: 2 3, then
    the end of the log is reported; 1 is never returned (the binary search
    for the stamp 20 runs over stamps that are not sorted). *)
Theorem cursor_paging_file_any_order_refuted :
  exists c ops p fuel pages e,
    hist_distinct max_entry_size ops /\ p_older p = None /\ p_offset p = 0 /\ 1 <= p_limit p /\
    buf (run c ops) = [] /\
    (length (flatv (run c ops)) < fuel)%nat /\
    chain max_entry_size buffer_size (run c ops) p fuel None = Some pages /\
    In e (vis (run c ops) p) /\ ~ In e (concat pages).
Proof.
  exists wit_cfg, (wit_ops ++ [OFlush]), (Build_params None 2 0 0 []), 4%nat,
    [[wit_e 2 30; wit_e 3 20]; []], (wit_e 1 10).
  split; [apply wit_distinct|]. split; [reflexivity|]. split; [reflexivity|]. split; [cbn; lia|].
  split; [reflexivity|]. split; [cbn; lia|]. split; [vm_compute; reflexivity|]. split; [vm_compute; tauto|].
  cbn. intros [H|[H|[]]]; discriminate.
Qed.

(** Offset paging: pages of one at offsets 0, 1, 2 return 3, 3, 1. *)
Theorem offset_paging_any_order_refuted :
  exists c ops, hist_distinct max_entry_size ops /\
    map (fun off => match search max_entry_size buffer_size (run c ops) (Build_params None 1 off 0 []) with
                    | Ok es _ => map e_id es | _ => [] end) [0; 1; 2] = [[3]; [3]; [1]]%N /\
    map e_id (sort_desc (vis (run c ops) (Build_params None 1 0 0 []))) = [2; 3; 1]%N.
Proof.
  exists wit_cfg, wit_ops. split; [apply wit_distinct|]. split; vm_compute; reflexivity.
Qed.

(** Equal stamps (two clock readings in the same tick): the cursor is a
    stamp and "older than" is strict, so the second of the two is lost at a
    page boundary. *)
Theorem cursor_paging_equal_stamps_refuted :
  exists c ops p fuel pages e,
    p_older p = None /\ p_offset p = 0 /\ 1 <= p_limit p /\
    (length (flatv (run c ops)) < fuel)%nat /\
    chain max_entry_size buffer_size (run c ops) p fuel None = Some pages /\
    In e (vis (run c ops) p) /\ ~ In e (concat pages).
Proof.
  exists wit_cfg, [OAdd (wit_e 1 10); OAdd (wit_e 2 20); OAdd (wit_e 3 20)], (Build_params None 1 0 0 []), 4%nat,
    [[wit_e 3 20]; [wit_e 1 10]; []], (wit_e 2 20).
  split; [reflexivity|]. split; [reflexivity|]. split; [cbn; lia|].
  split; [cbn; lia|]. split; [vm_compute; reflexivity|]. split; [vm_compute; tauto|].
  cbn. intros [H|[H|[]]]; discriminate.
Qed.

(** Stamp order of the log is not an invariant of the operations: it is what
    [hist_ok] buys ([wf_run]), and nothing else does. *)
Theorem stamp_order_not_invariant_refuted :
  exists c ops, hist_distinct max_entry_size ops /\ ~ wf max_entry_size (run c ops).
Proof.
  exists wit_cfg, wit_ops. split; [apply wit_distinct|].
  intros [[lo H] _].
  assert (E : flat (run wit_cfg wit_ops) = [wit_e 1 10; wit_e 2 30; wit_e 3 20]) by (vm_compute; reflexivity).
  rewrite E in H. cbn [incr wit_e e_time] in H. lia.
Qed.

(** ** The stamp taken under the buffer lock *)

(** [stamp_ops] (Model/QLog.v): the i-th recorded entry gets the i-th reading
    of the clock, readings taken in push order ([entry.Time = time.Now()]
    behind [bufferLock.Lock()], 3418b11). *)
Fixpoint rising (lo : Z) (l : list Z) : Prop :=
  match l with [] => True | t :: r => lo < t /\ rising t r end.

(** With a strictly rising clock, whatever stamps the callers brought along,
    the history is one of those the paging theorems speak of. *)
Theorem stamp_ops_ok me : forall ops clock lo,
  rising lo clock -> (length (adds ops) <= length clock)%nat ->
  Forall (len_ok me) (adds ops) -> hist_ok me lo (stamp_ops clock ops).
Proof.
  induction ops as [|o ops IH]; intros clock lo Hr Hlen Hok; [exact I|].
  destruct o; cbn [stamp_ops hist_ok adds] in *; try (apply IH; auto).
  - destruct clock as [|t cl]; [cbn in Hlen; lia|]. destruct Hr as [Ht Hr].
    inversion Hok; subst. cbn [hist_ok]. split; [exact Ht|]. split; [assumption|].
    apply IH; auto. cbn in Hlen. lia.
  - destruct clock as [|t cl]; [cbn in Hlen; lia|]. destruct Hr as [Ht Hr].
    inversion Hok; subst. cbn [hist_ok]. split; [exact Ht|]. split; [assumption|].
    apply IH; auto. cbn in Hlen. lia.
Qed.

Example stamp_ops_example :
  map e_time (adds (stamp_ops [11; 12; 13] wit_ops)) = [11; 12; 13] /\
  hist_ok max_entry_size 0 (stamp_ops [11; 12; 13] wit_ops).
Proof. split; [reflexivity|]. cbn. unfold len_ok, max_entry_size. cbn. lia. Qed.

Lemma hist_bytes_stamp_ops : forall ops clock, hist_bytes (stamp_ops clock ops) = hist_bytes ops.
Proof.
  induction ops as [|o ops IH]; intro clock; [reflexivity|].
  destruct o; cbn [stamp_ops hist_bytes]; auto; destruct clock as [|t cl]; cbn [hist_bytes set_time e_len]; rewrite IH; reflexivity.
Qed.

(** The invariant of the code as it is: whatever stamps the callers of Add
    brought along and however their calls interleave, with the readings of the
    clock under the lock strictly rising the log stays in stamp order ... *)
Theorem locked_wf me c clock ops lo :
  rising lo clock -> (length (adds ops) <= length clock)%nat -> Forall (len_ok me) (adds ops) ->
  wf me (run_locked c clock ops).
Proof. intros Hr Hl Hok. unfold run_locked. eapply wf_run. eapply stamp_ops_ok; eauto. Qed.

(** ... and cursor paging partitions the visible log. *)
Theorem locked_cursor_paging me bf c clock ops lo p :
  0 < me <= bf -> 0 <= lo -> rising lo clock -> (length (adds ops) <= length clock)%nat ->
  Forall (len_ok me) (adds ops) -> hist_bytes ops < 2 ^ 63 ->
  p_older p = None -> p_offset p = 0 -> 1 <= p_limit p ->
  forall fuel, (length (flatv (run_locked c clock ops)) < fuel)%nat ->
  exists pages, chain me bf (run_locked c clock ops) p fuel None = Some pages /\
    concat pages = vis (run_locked c clock ops) p /\ NoDup (vis (run_locked c clock ops) p) /\
    Forall (fun pg => lenZ pg <= p_limit p) pages.
Proof.
  intros Hme Hlo Hr Hl Hok Hsz. unfold run_locked. apply (cursor_paging_run me bf c _ lo); auto.
  - eapply stamp_ops_ok; eauto.
  - rewrite hist_bytes_stamp_ops. exact Hsz.
Qed.

(** The interleaving that broke the paging before 3418b11, with the stamps
    the callers took (late: 20, newest: 30) and the clock read under the lock:
    the pushed entries carry 11, 12, 13 and every page chain is complete. *)
Example locked_example :
  let s := run_locked wit_cfg [11; 12; 13] wit_ops in
  map (fun e => (e_id e, e_time e)) (flat s) = [(1%N, 11); (2%N, 12); (3%N, 13)] /\
  option_map (map (map e_id)) (chain max_entry_size buffer_size s (Build_params None 1 0 0 []) 4 None) =
    Some [[3]; [2]; [1]; []]%N.
Proof. vm_compute. split; reflexivity. Qed.

(** C13, part 6f: per-step preservation of [loadable], steps 19, 22, 23, 24
    (see Proofs/MigrateLoadable.v; lemmas and tactics of Proofs/MigrateLoadTools.v). *)
From Coq Require Import List ZArith String Ascii Bool Lia Arith.
From AGH Require Import Model.Migrate Model.MigrateLoad Proofs.Migrate Proofs.MigrateLoadable Proofs.MigrateLoadTools.
Import ListNotations.
Local Open Scope string_scope.
Local Open Scope list_scope.

Section WithOracles.
Variable O : oracles.

Lemma keep19 : step_keeps L 18 step19.
Proof.
  intros m m' Hm E. open_schema Hm. open_goal. unfold step19 in E. stamp_in Hm E m0.
  let fo := goal_obj_fields "clients" in
  refine (with_obj_fok _ _ _ _ _ _ _ fo _ E Hm eq_refl _ _); [|vmr].
  clear. intros o o' Ho Ef.
  destruct (field_val TArr o "persistent") as [|v|] eqn:F; injection Ef as <-; try (fin Ho).
  destruct (fv_arr_ok _ _ _ F) as [l [-> G]]. cbn [zarr].
  pose proof (arr_field _ _ _ _ _ Ho G eq_refl) as Hl.
  let e' := goal_arr_elem "persistent" in
  refine (fin_set _ _ "persistent" (SArr e') _ _ Ho _ _); [|vmr].
  rewrite conforms_arr. refine (forallb_map_conforms _ _ _ _ Hl _). clear. intros c C.
  apply conforms_obj_inv in C. destruct C as [[_ [=]]|[oc [-> Hoc]]].
  cbn [client19].
  destruct (move_val TBool oc safe_search0 "safesearch_enabled" "enabled") as [[oc' ss]|] eqn:Mv;
    rewrite conforms_obj.
  - let fss := goal_obj_fields "safe_search" in assert (H0 : fields_ok safe_search0 fss = true) by vmr.
    do_moves Mv Hoc H0 Hs Hd.
    refine (fin_set_obj _ _ "safe_search" false _ _ _ Hs Hd _). vmr.
  - let fss := goal_obj_fields "safe_search" in assert (H0 : fields_ok safe_search0 fss = true) by vmr.
    refine (fin_set_obj _ _ "safe_search" false _ _ _ Hoc H0 _). vmr.
Qed.

Lemma keep22 : step_keeps L 21 step22.
Proof.
  intros m m' Hm E. open_schema Hm. open_goal. unfold step22 in E. stamp_in Hm E m0.
  let fo := goal_obj_fields "clients" in
  refine (with_obj_fok _ _ _ _ _ _ _ fo _ E Hm eq_refl _ _); [|vmr].
  clear. intros o o' Ho Ef.
  destruct (field_val TArr o "persistent") as [|v|] eqn:F; try discriminate Ef.
  - injection Ef as <-.
    let s := goal_shape "persistent" in
    refine (fin_absent _ _ "persistent" s _ Ho (fv_absent _ _ _ F) _ _); vmr.
  - destruct (fv_arr_ok _ _ _ F) as [l [-> G]]. cbn [zarr] in Ef.
    destruct (map_res client22 l) as [l'| |] eqn:El; cbn [bind] in Ef; try discriminate Ef. injection Ef as <-.
    pose proof (arr_field _ _ _ _ _ Ho G eq_refl) as Hl.
    let e' := goal_arr_elem "persistent" in
    refine (fin_set _ _ "persistent" (SArr e') _ _ Ho _ _); [|vmr].
    rewrite conforms_arr. refine (forallb_map_res_conforms _ _ _ _ _ El Hl _). clear. intros c c' C Ec.
    apply conforms_obj_inv in C. destruct C as [[_ [=]]|[oc [-> Hoc]]].
    cbn [client22] in Ec.
    destruct (field_val TArr oc "blocked_services") as [|s|] eqn:Fb; try discriminate Ec; injection Ec as <-;
      rewrite conforms_obj.
    + let s := goal_shape "blocked_services" in
      refine (fin_absent _ _ "blocked_services" s _ Hoc (fv_absent _ _ _ Fb) _ _); vmr.
    + destruct (fv_arr_ok _ _ _ Fb) as [ls [-> Gb]].
      pose proof (fok_look _ _ _ _ _ Hoc Gb eq_refl) as Hids.
      change [("ids", VArr ls); ("schedule", schedule0)]
        with (upd "schedule" schedule0 (upd "ids" (VArr ls) [])).
      let fb := goal_obj_fields "blocked_services" in
      let ssch := shape_in "schedule" fb in
      assert (Hsch : conforms ssch schedule0 = true) by vmr.
      pose proof (fok_set _ _ "schedule" _ _ (fok_set _ _ "ids" _ _ (fok_nil []) Hids) Hsch) as Hb.
      refine (fin_set_obj _ _ "blocked_services" false _ _ _ Hoc Hb _). vmr.
Qed.

Lemma keep23 : step_keeps L 22 (step23 O).
Proof.
  intros m m' Hm E. open_schema Hm. open_goal. unfold step23 in E. stamp_in Hm E m0.
  destruct (field_val TStr m0 "bind_host") as [|b|] eqn:F; try discriminate E; [injection E as <-; fin Hm|].
  destruct (o_addr O (zstr b)) as [host|]; [|discriminate E]. cbv zeta in E.
  let s := goal_shape "http" in
  assert (Hh : forall a t, conforms s (VObj [("address", VStr a); ("session_ttl", VStr t)]) = true)
    by (intros; reflexivity).
  destruct (field_val TInt m0 "bind_port"); destruct (field_val TInt m0 "web_session_ttl");
    try discriminate E; injection E as <-;
    (lazymatch goal with
     | |- fields_ok (del _ (del _ (del _ (upd "http" (VObj [("address", VStr ?a); ("session_ttl", VStr ?t)]) _)))) _ = true =>
         pose proof (fok_set _ _ "http" _ _ Hm (Hh a t)) as H1
     end;
     pose proof (fok_del_same _ _ "web_session_ttl" (fok_del_same _ _ "bind_port" (fok_del_same _ _ "bind_host" H1))) as H2;
     fin H2).
Qed.

Lemma keep24 : step_keeps L 23 step24.
Proof.
  intros m m' Hm E. open_schema Hm. open_goal. unfold step24 in E. stamp_in Hm E m0.
  destruct (moves moves24 m0 []) as [[m1 lg]|] eqn:Mv; [|discriminate E].
  let fl := goal_obj_fields "log" in pose proof (fok_nil fl) as Hl0.
  do_moves Mv Hm Hl0 Hs Hd.
  destruct lg as [|p lg]; injection E as <-; [fin Hs|].
  refine (fin_set_obj _ _ "log" false _ _ _ Hs Hd _). vmr.
Qed.

End WithOracles.

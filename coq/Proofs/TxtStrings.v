(** C05, round 9b: txtStrings, for every value. *)
From Coq Require Import List NArith Arith Lia Bool.
From AGH Require Import Model.TxtStrings.
Import ListNotations.

Lemma fuel_fits : forall fuel v, length v <= fuel ->
  Forall (fun s => length s <= 255) (txt_strings_fuel fuel v).
Proof.
  induction fuel as [|f IH]; intros v H; cbn [txt_strings_fuel].
  - constructor; [lia|constructor].
  - unfold max_txt_string_len. destruct (255 <? length v) eqn:E.
    + apply Nat.ltb_lt in E. constructor.
      * rewrite firstn_length. lia.
      * apply IH. rewrite skipn_length. lia.
    + apply Nat.ltb_ge in E. constructor; [exact E|constructor].
Qed.

Theorem txt_strings_fit : forall v, Forall (fun s => length s <= 255) (txt_strings v).
Proof. intros v. apply fuel_fits. lia. Qed.

Theorem txt_strings_fit_b : forall v, txt_fits (txt_strings v) = true.
Proof.
  intros v. unfold txt_fits. apply forallb_forall. intros s Hs.
  pose proof (txt_strings_fit v) as H. rewrite Forall_forall in H.
  apply Nat.leb_le. apply H. exact Hs.
Qed.

Lemma fuel_concat : forall fuel v, concat (txt_strings_fuel fuel v) = v.
Proof.
  induction fuel as [|f IH]; intros v; cbn [txt_strings_fuel].
  - cbn. apply app_nil_r.
  - destruct (max_txt_string_len <? length v).
    + cbn [concat]. rewrite IH. apply firstn_skipn.
    + cbn. apply app_nil_r.
Qed.

Theorem txt_strings_concat : forall v, concat (txt_strings v) = v.
Proof. intros v. apply fuel_concat. Qed.

Theorem txt_strings_nonempty : forall v, txt_strings v <> [].
Proof.
  intros v. unfold txt_strings. destruct (length v) as [|f]; cbn [txt_strings_fuel]; [discriminate|].
  destruct (max_txt_string_len <? length v); discriminate.
Qed.

(** the number of strings k for a value of n octets: 1 for the empty value,
    otherwise the k with 255 (k - 1) < n <= 255 k *)
Lemma fuel_count : forall fuel v, length v <= fuel ->
  let k := length (txt_strings_fuel fuel v) in
  1 <= k /\ 255 * (k - 1) < length v + (if length v =? 0 then 1 else 0) /\ length v <= 255 * k.
Proof.
  induction fuel as [|f IH]; intros v H; cbv zeta; cbn [txt_strings_fuel].
  - assert (length v = 0) by lia. cbn. rewrite H0. cbn. lia.
  - unfold max_txt_string_len. destruct (255 <? length v) eqn:E.
    + apply Nat.ltb_lt in E. cbn [length].
      specialize (IH (skipn 255 v)). cbv zeta in IH. rewrite skipn_length in IH.
      destruct IH as (K1 & K2 & K3); [lia|].
      assert (Hz : (length v - 255 =? 0) = false) by (apply Nat.eqb_neq; lia).
      rewrite Hz in K2.
      assert (Hv : (length v =? 0) = false) by (apply Nat.eqb_neq; lia). rewrite Hv.
      split; [lia|]. split; lia.
    + apply Nat.ltb_ge in E. change (length [v]) with 1. destruct (length v =? 0) eqn:Z; [apply Nat.eqb_eq in Z|apply Nat.eqb_neq in Z]; cbn [Nat.sub Nat.mul]; lia.
Qed.

Theorem txt_strings_count : forall v,
  let n := length v in let k := length (txt_strings v) in
  (n = 0 -> k = 1) /\ (0 < n -> 255 * (k - 1) < n /\ n <= 255 * k).
Proof.
  intros v n k. subst n k. unfold txt_strings.
  pose proof (fuel_count (length v) v (le_n _)) as K. cbv zeta in K. destruct K as (K1 & K2 & K3).
  destruct (length v =? 0) eqn:Z; [apply Nat.eqb_eq in Z|apply Nat.eqb_neq in Z]; split; intros Hn; lia.
Qed.

(** ... i.e. ceil(n / 255), and 1 for n = 0 *)
Theorem txt_strings_count_ceil : forall v,
  length (txt_strings v) = if length v =? 0 then 1 else (length v + 254) / 255.
Proof.
  intros v. destruct (txt_strings_count v) as [H0 H1].
  destruct (length v =? 0) eqn:Z.
  - apply Nat.eqb_eq in Z. auto.
  - apply Nat.eqb_neq in Z. destruct H1 as [A B]; [lia|].
    set (k := length (txt_strings v)) in *. set (n := length v) in *.
    apply Nat.div_unique with (r := n + 254 - 255 * k); lia.
Qed.

(** The value as one string (the code before cda17d7) does not fit a record
    from 256 octets on. *)
Theorem txt_unsplit_refuted : exists v, txt_fits (txt_unsplit v) = false /\ txt_fits (txt_strings v) = true.
Proof. exists (repeat 97%N 256). split; [vm_compute; reflexivity|apply txt_strings_fit_b]. Qed.

Example txt_strings_example :
  map (@length N) (txt_strings (repeat 97%N 600)) = [255; 255; 90] /\
  txt_strings [] = [[]] /\
  map (@length N) (txt_strings (repeat 97%N 255)) = [255] /\
  map (@length N) (txt_strings (repeat 97%N 256)) = [255; 1].
Proof. vm_compute. repeat split. Qed.

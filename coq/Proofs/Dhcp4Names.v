(** C10: the names of dynamic leases are fixed points of the re-validation
    done on reload, in every reachable state; with it, persistence holds
    without side condition. *)
From Coq Require Import List ZArith NArith Bool Lia Permutation.
From AGH Require Import Base.Run Model.Dhcp4 Proofs.Dhcp4.
Import ListNotations.
Local Open Scope N_scope.

Definition hc (c : N) : Prop := host_char c = true.
Definition low (c : N) : Prop := to_lower c = c.
Definition part_ok (p : bytes) : Prop := p <> [] /\ Forall hc p.

Lemma to_lower_idem c : to_lower (to_lower c) = to_lower c.
Proof.
  unfold to_lower. destruct ((65 <=? c) && (c <=? 90)) eqn:E; [|rewrite E; auto].
  apply andb_true_iff in E as [E1 E2]. apply N.leb_le in E1, E2.
  destruct (N.leb_spec (c + 32) 90); [lia|]. rewrite andb_false_r. reflexivity.
Qed.

Lemma fields_hostchars p : forall cur s, Forall hc p -> fields cur (p ++ s) = fields (rev p ++ cur) s.
Proof.
  induction p as [|c p IH]; intros cur s H; cbn; auto.
  inversion H; subst. unfold hc in H2. rewrite H2. rewrite IH by auto.
  rewrite <- app_assoc. reflexivity.
Qed.

Lemma rev_nonnil (p : bytes) : p <> [] -> rev p <> [].
Proof. intros H E. apply (f_equal (@rev N)) in E. rewrite rev_involutive in E. contradiction. Qed.

Lemma fields_end cur : cur <> [] -> fields cur [] = [rev cur].
Proof. destruct cur; [contradiction|reflexivity]. Qed.

Lemma fields_sep cur s : cur <> [] -> fields cur (45 :: s) = rev cur :: fields [] s.
Proof. destruct cur; [contradiction|reflexivity]. Qed.

Lemma fields_join ps : forall p, part_ok p -> Forall part_ok ps ->
  fields [] (p ++ flat_map (fun q => 45 :: q) ps) = p :: ps.
Proof.
  induction ps as [|q ps IH]; intros p [Hne Hp] Hps; cbn [flat_map].
  - rewrite fields_hostchars, app_nil_r, fields_end, rev_involutive by auto using rev_nonnil. reflexivity.
  - inversion Hps; subst. cbn [app].
    rewrite fields_hostchars, app_nil_r, fields_sep, rev_involutive by auto using rev_nonnil.
    f_equal. apply IH; auto.
Qed.

Lemma part_ok_rev cur : cur <> [] -> Forall hc cur -> part_ok (rev cur).
Proof. intros H F. split; [apply rev_nonnil; auto|apply Forall_rev; auto]. Qed.

Lemma fields_parts s : forall cur, Forall hc cur -> Forall part_ok (fields cur s).
Proof.
  induction s as [|c s IH]; intros cur H.
  - destruct cur as [|a cur']; [constructor|]. rewrite fields_end by discriminate.
    constructor; [apply part_ok_rev; [discriminate|auto]|constructor].
  - cbn [fields]. destruct (host_char c) eqn:E; [apply IH; constructor; auto|].
    destruct cur as [|a cur']; cbn [is_nil]; [apply IH; constructor|].
    constructor; [apply part_ok_rev; [discriminate|auto]|apply IH; constructor].
Qed.

Lemma fields_chars (P : N -> Prop) s : forall cur,
  Forall P s -> Forall P cur -> Forall (Forall P) (fields cur s).
Proof.
  induction s as [|c s IH]; intros cur Hs Hc.
  - destruct cur as [|a cur']; [constructor|]. rewrite fields_end by discriminate.
    constructor; [apply Forall_rev; auto|constructor].
  - cbn [fields]. inversion Hs; subst. destruct (host_char c); [apply IH; auto|].
    destruct cur as [|a cur']; cbn [is_nil]; [apply IH; auto|].
    constructor; [apply Forall_rev; auto|apply IH; auto].
Qed.

Lemma Forall_join (P : N -> Prop) ps : P 45 -> Forall (Forall P) ps -> Forall P (join_dash ps).
Proof.
  intros H45 H. destruct ps as [|p ps]; cbn; [constructor|].
  inversion H; subst. apply Forall_app. split; auto.
  clear H H2. induction ps as [|q ps IH]; cbn; [constructor|].
  inversion H3; subst. constructor; auto. apply Forall_app; auto.
Qed.

Lemma map_low s : Forall low s -> map to_lower s = s.
Proof. induction 1; cbn; congruence. Qed.

Lemma join_last ps p : part_ok p -> Forall part_ok ps ->
  exists s' a, join_dash (p :: ps) = s' ++ [a] /\ hc a.
Proof.
  revert p. induction ps as [|q ps IH]; intros p [Hne Hp] Hps; cbn.
  - rewrite app_nil_r. destruct (exists_last Hne) as (s' & a & ->).
    exists s', a. split; auto. apply Forall_app in Hp as [_ Ha]. inversion Ha; auto.
  - inversion Hps; subst. destruct (IH q H1 H2) as (s' & a & E & Ha). cbn in E.
    exists (p ++ 45 :: s'), a. split; auto. rewrite <- app_assoc. cbn. rewrite E. reflexivity.
Qed.

Lemma trim_dash_id s a : hc a -> trim_dash (s ++ [a]) = s ++ [a].
Proof.
  intros Ha. unfold trim_dash. rewrite rev_app_distr. cbn.
  destruct (N.eqb_spec a 45) as [->|]; auto. unfold hc in Ha. vm_compute in Ha. discriminate.
Qed.

(** A list of good lower-case parts is a fixed point of [normalize] once joined. *)
Lemma normalize_join p ps :
  part_ok p -> Forall part_ok ps -> Forall (Forall low) (p :: ps) ->
  normalize (join_dash (p :: ps)) = Some (join_dash (p :: ps)).
Proof.
  intros Hp Hps Hl. unfold normalize.
  destruct (join_last ps p Hp Hps) as (s' & a & E & Ha).
  assert (Hn : is_nil (join_dash (p :: ps)) = false) by (rewrite E; destruct s'; reflexivity).
  rewrite Hn. rewrite map_low by (apply Forall_join; auto; reflexivity).
  cbn [join_dash]. rewrite fields_join by auto. cbn [is_nil].
  change (p ++ flat_map (fun q => 45 :: q) ps) with (join_dash (p :: ps)).
  rewrite E, trim_dash_id by auto. reflexivity.
Qed.

Lemma normalize_idem x n : normalize x = Some n -> n <> [] -> normalize n = Some n.
Proof.
  unfold normalize. destruct (is_nil x); [intros E; inversion E; congruence|].
  destruct (fields [] (map to_lower x)) as [|p ps] eqn:Ef; cbn [is_nil]; [discriminate|].
  intros [= <-] _.
  assert (Hparts : Forall part_ok (p :: ps)) by (rewrite <- Ef; apply fields_parts; constructor).
  assert (Hlow : Forall (Forall low) (p :: ps)).
  { rewrite <- Ef. apply fields_chars; [|constructor].
    apply Forall_forall. intros c Hc. apply in_map_iff in Hc as (c0 & <- & _). apply to_lower_idem. }
  inversion Hparts; subst.
  destruct (join_last ps p H1 H2) as (s' & a & E & Ha).
  change (p ++ flat_map (fun q => 45 :: q) ps) with (join_dash (p :: ps)) in *.
  rewrite E, trim_dash_id, <- E by auto. apply normalize_join; auto.
Qed.

(** * Generated names *)

Definition dg (c : N) : Prop := is_digit c = true.

Ltac Zify.zify_post_hook ::= Z.to_euclidean_division_equations.

Lemma dec_octet_ok n : n < 256 ->
  dec_octet n <> [] /\ Forall dg (dec_octet n) /\ (length (dec_octet n) <= 3)%nat.
Proof.
  intros H. unfold dec_octet.
  assert (D : forall k, k < 10 -> dg (48 + k)).
  { intros k Hk. unfold dg, is_digit. apply andb_true_iff. rewrite !N.leb_le. lia. }
  destruct (N.ltb_spec n 10); [|destruct (N.ltb_spec n 100)].
  - split; [discriminate|]. split; [repeat constructor; apply D; lia|cbn; lia].
  - split; [discriminate|]. split; [repeat constructor; apply D; lia|cbn; lia].
  - split; [discriminate|]. split; [repeat constructor; apply D; lia|cbn; lia].
Qed.

Lemma dg_hc c : dg c -> hc c.
Proof. unfold dg, hc, host_char, is_alnum. intros ->. rewrite orb_true_r. reflexivity. Qed.

Lemma dg_low c : dg c -> low c.
Proof.
  unfold dg, low, is_digit, to_lower. intros H. apply andb_true_iff in H as [_ H]. apply N.leb_le in H.
  destruct (N.leb_spec 65 c); [lia|]. reflexivity.
Qed.

Lemma dg_not_dot c : dg c -> (c =? 46) = false.
Proof. unfold dg, is_digit. intros H. apply andb_true_iff in H as [H _]. apply N.leb_le in H.
  apply N.eqb_neq. lia. Qed.

Lemma split_dot_nodot s : forall cur,
  Forall (fun c => (c =? 46) = false) s -> split_dot cur s = [rev cur ++ s].
Proof.
  induction s as [|c s IH]; intros cur H; cbn [split_dot].
  - rewrite app_nil_r. reflexivity.
  - inversion H; subst. rewrite H2, IH by auto. cbn [rev]. rewrite <- app_assoc. reflexivity.
Qed.

Definition gen_parts (ip : N) : list bytes :=
  [dec_octet ((ip / 16777216) mod 256); dec_octet ((ip / 65536) mod 256);
   dec_octet ((ip / 256) mod 256); dec_octet (ip mod 256)].

Lemma gen_join ip : gen_hostname ip = join_dash (gen_parts ip).
Proof.
  unfold gen_hostname, gen_parts, join_dash. cbn [flat_map]. rewrite app_nil_r.
  repeat rewrite <- app_assoc. reflexivity.
Qed.

Lemma gen_parts_ok ip :
  Forall (fun p => p <> [] /\ Forall dg p /\ (length p <= 3)%nat) (gen_parts ip).
Proof.
  unfold gen_parts. repeat (apply Forall_cons; [apply dec_octet_ok; apply N.mod_lt; discriminate|]). apply Forall_nil.
Qed.

Lemma normalize_gen ip : normalize (gen_hostname ip) = Some (gen_hostname ip).
Proof.
  rewrite gen_join. pose proof (gen_parts_ok ip) as H. unfold gen_parts in *.
  apply normalize_join.
  - inversion H; subst. destruct H2 as (? & ? & _). split; auto.
    eapply Forall_impl; [apply dg_hc|]; auto.
  - inversion H; subst. eapply Forall_impl; [|exact H3]. intros p (? & ? & _). split; auto.
    eapply Forall_impl; [apply dg_hc|]; auto.
  - eapply Forall_impl; [|exact H]. intros p (_ & ? & _). eapply Forall_impl; [apply dg_low|]; auto.
Qed.

Lemma forallb_Forall {A} (f : A -> bool) l : Forall (fun x => f x = true) l -> forallb f l = true.
Proof. induction 1; cbn; auto. rewrite H, IHForall. reflexivity. Qed.

Lemma valid_label_intro l c rest s' a :
  l = c :: rest -> l = s' ++ [a] -> (length l <= 63)%nat ->
  is_alnum c = true -> is_alnum a = true ->
  forallb (fun c => (c =? 45) || is_alnum c) l = true -> valid_label l = true.
Proof.
  intros E1 E2 HL Hc Ha Hf. unfold valid_label. destruct l as [|x l']; [discriminate|].
  inversion E1; subst x rest. rewrite E2 in HL, Hf |- *.
  rewrite last_last, Hc, Ha, Hf. apply Nat.leb_le in HL. rewrite HL. reflexivity.
Qed.

Definition okp (p : bytes) : Prop := p <> [] /\ Forall dg p /\ (length p <= 3)%nat.

Lemma valid_four d1 d2 d3 d4 : okp d1 -> okp d2 -> okp d3 -> okp d4 ->
  valid_hostname (join_dash [d1; d2; d3; d4]) = true.
Proof.
  intros (N1 & G1 & L1) (N2 & G2 & L2) (N3 & G3 & L3) (N4 & G4 & L4).
  set (g := join_dash [d1; d2; d3; d4]).
  assert (Eg : g = d1 ++ 45 :: d2 ++ 45 :: d3 ++ 45 :: d4).
  { unfold g, join_dash. cbn [flat_map]. rewrite app_nil_r. repeat rewrite <- app_assoc. reflexivity. }
  assert (W : forall d, Forall dg d -> Forall (fun c => dg c \/ c = 45) d).
  { intros d Hd. eapply Forall_impl; [|exact Hd]. cbn; auto. }
  assert (Hall : Forall (fun c => dg c \/ c = 45) g).
  { rewrite Eg. apply Forall_app; split; [auto|]. constructor; [auto|].
    apply Forall_app; split; [auto|]. constructor; [auto|].
    apply Forall_app; split; [auto|]. constructor; [auto|]. auto. }
  assert (Hlen : (length g <= 15)%nat).
  { rewrite Eg. repeat (rewrite app_length; cbn [length]). lia. }
  destruct d1 as [|c1 r1] eqn:E1; [contradiction|].
  destruct (exists_last N4) as (r4 & a4 & E4).
  assert (Ha4 : dg a4). { rewrite E4 in G4. apply Forall_app in G4 as [_ G]. inversion G; auto. }
  assert (Hc1 : dg c1) by (inversion G1; auto).
  assert (Elast : exists s', g = s' ++ [a4]).
  { rewrite Eg, E4. exists ((c1 :: r1) ++ 45 :: d2 ++ 45 :: d3 ++ 45 :: r4).
    repeat (rewrite <- app_assoc; cbn [app]). reflexivity. }
  destruct Elast as (s' & Es').
  unfold valid_hostname.
  assert (Hnil : is_nil g = false) by (rewrite Eg; reflexivity). rewrite Hnil. cbn [negb andb].
  assert (Hl253 : (length g <=? 253)%nat = true) by (apply Nat.leb_le; lia). rewrite Hl253. cbn [andb].
  rewrite split_dot_nodot.
  2:{ eapply Forall_impl; [|exact Hall]. intros c [Hd| ->]; [apply dg_not_dot; auto|reflexivity]. }
  cbn [rev app forallb last].
  assert (Hdig : forallb is_digit g = false).
  { rewrite Eg. rewrite forallb_app. cbn [forallb]. replace (is_digit 45) with false by reflexivity.
    cbn [andb]. apply andb_false_r. }
  rewrite Hdig. cbn [negb]. rewrite !andb_true_r.
  assert (Hal : forall c, dg c -> is_alnum c = true).
  { intros c Hc. unfold is_alnum. unfold dg in Hc. rewrite Hc. reflexivity. }
  apply (valid_label_intro g c1 (r1 ++ 45 :: d2 ++ 45 :: d3 ++ 45 :: d4) s' a4); auto; [lia|].
  apply forallb_Forall. eapply Forall_impl; [|exact Hall].
  intros c [Hd| ->]; [rewrite (Hal c Hd); apply orb_true_r|reflexivity].
Qed.

Lemma valid_gen ip : valid_hostname (gen_hostname ip) = true.
Proof.
  rewrite gen_join. pose proof (gen_parts_ok ip) as H. unfold gen_parts in *.
  inversion H as [|? ? K1 Ha]. inversion Ha as [|? ? K2 Hb]. inversion Hb as [|? ? K3 Hc].
  inversion Hc as [|? ? K4 _]. apply valid_four; assumption.
Qed.

Lemma vhfc_gen ip : valid_hostname_for_client (gen_hostname ip) ip = gen_hostname ip.
Proof.
  unfold valid_hostname_for_client. rewrite normalize_gen.
  assert (is_nil (gen_hostname ip) = false).
  { pose proof (valid_gen ip) as V. unfold valid_hostname in V. destruct (gen_hostname ip); [discriminate|reflexivity]. }
  rewrite H, valid_gen. reflexivity.
Qed.

(** validHostnameForClient is idempotent. *)
Lemma vhfc_idem x ip r :
  valid_hostname_for_client x ip = r -> r <> [] -> valid_hostname_for_client r ip = r.
Proof.
  unfold valid_hostname_for_client at 1. intros E Hr.
  destruct (normalize x) as [n|] eqn:En.
  - destruct (is_nil n) eqn:Enil.
    + rewrite valid_gen in E. subst r. apply vhfc_gen.
    + destruct (valid_hostname n) eqn:V; [|congruence]. subst r.
      unfold valid_hostname_for_client.
      rewrite (normalize_idem x n En) by (intros ->; discriminate). rewrite Enil, V. reflexivity.
  - cbn [is_nil] in E. rewrite valid_gen in E. subst r. apply vhfc_gen.
Qed.

(** C10: the names of dynamic leases are fixed points of the re-validation
    done on reload, in every reachable state; with it, persistence holds
    without side condition. *)
From Coq Require Import List ZArith NArith Bool Lia Permutation.
From AGH Require Import Base.Run Model.Dhcp4 Proofs.Dhcp4.
Import ListNotations.
Local Open Scope N_scope.

Definition hc (c : N) : Prop := host_char c = true.
Definition low (c : N) : Prop := to_lower c = c.
Definition part_ok (p : bytes) : Prop := p <> [] /\ Forall hc p.

Lemma to_lower_idem c : to_lower (to_lower c) = to_lower c.
Proof.
  unfold to_lower. destruct ((65 <=? c) && (c <=? 90)) eqn:E; [|rewrite E; auto].
  apply andb_true_iff in E as [E1 E2]. apply N.leb_le in E1, E2.
  destruct (N.leb_spec (c + 32) 90); [lia|]. rewrite andb_false_r. reflexivity.
Qed.

Lemma fields_hostchars p : forall cur s, Forall hc p -> fields cur (p ++ s) = fields (rev p ++ cur) s.
Proof.
  induction p as [|c p IH]; intros cur s H; cbn; auto.
  inversion H; subst. unfold hc in H2. rewrite H2. rewrite IH by auto.
  rewrite <- app_assoc. reflexivity.
Qed.

Lemma rev_nonnil (p : bytes) : p <> [] -> rev p <> [].
Proof. intros H E. apply (f_equal (@rev N)) in E. rewrite rev_involutive in E. contradiction. Qed.

Lemma fields_end cur : cur <> [] -> fields cur [] = [rev cur].
Proof. destruct cur; [contradiction|reflexivity]. Qed.

Lemma fields_sep cur s : cur <> [] -> fields cur (45 :: s) = rev cur :: fields [] s.
Proof. destruct cur; [contradiction|reflexivity]. Qed.

Lemma fields_join ps : forall p, part_ok p -> Forall part_ok ps ->
  fields [] (p ++ flat_map (fun q => 45 :: q) ps) = p :: ps.
Proof.
  induction ps as [|q ps IH]; intros p [Hne Hp] Hps; cbn [flat_map].
  - rewrite fields_hostchars, app_nil_r, fields_end, rev_involutive by auto using rev_nonnil. reflexivity.
  - inversion Hps; subst. cbn [app].
    rewrite fields_hostchars, app_nil_r, fields_sep, rev_involutive by auto using rev_nonnil.
    f_equal. apply IH; auto.
Qed.

Lemma part_ok_rev cur : cur <> [] -> Forall hc cur -> part_ok (rev cur).
Proof. intros H F. split; [apply rev_nonnil; auto|apply Forall_rev; auto]. Qed.

Lemma fields_parts s : forall cur, Forall hc cur -> Forall part_ok (fields cur s).
Proof.
  induction s as [|c s IH]; intros cur H.
  - destruct cur as [|a cur']; [constructor|]. rewrite fields_end by discriminate.
    constructor; [apply part_ok_rev; [discriminate|auto]|constructor].
  - cbn [fields]. destruct (host_char c) eqn:E; [apply IH; constructor; auto|].
    destruct cur as [|a cur']; cbn [is_nil]; [apply IH; constructor|].
    constructor; [apply part_ok_rev; [discriminate|auto]|apply IH; constructor].
Qed.

Lemma fields_chars (P : N -> Prop) s : forall cur,
  Forall P s -> Forall P cur -> Forall (Forall P) (fields cur s).
Proof.
  induction s as [|c s IH]; intros cur Hs Hc.
  - destruct cur as [|a cur']; [constructor|]. rewrite fields_end by discriminate.
    constructor; [apply Forall_rev; auto|constructor].
  - cbn [fields]. inversion Hs; subst. destruct (host_char c); [apply IH; auto|].
    destruct cur as [|a cur']; cbn [is_nil]; [apply IH; auto|].
    constructor; [apply Forall_rev; auto|apply IH; auto].
Qed.

Lemma Forall_join (P : N -> Prop) ps : P 45 -> Forall (Forall P) ps -> Forall P (join_dash ps).
Proof.
  intros H45 H. destruct ps as [|p ps]; cbn; [constructor|].
  inversion H; subst. apply Forall_app. split; auto.
  clear H H2. induction ps as [|q ps IH]; cbn; [constructor|].
  inversion H3; subst. constructor; auto. apply Forall_app; auto.
Qed.

Lemma map_low s : Forall low s -> map to_lower s = s.
Proof. induction 1; cbn; congruence. Qed.

Lemma join_last ps p : part_ok p -> Forall part_ok ps ->
  exists s' a, join_dash (p :: ps) = s' ++ [a] /\ hc a.
Proof.
  revert p. induction ps as [|q ps IH]; intros p [Hne Hp] Hps; cbn.
  - rewrite app_nil_r. destruct (exists_last Hne) as (s' & a & ->).
    exists s', a. split; auto. apply Forall_app in Hp as [_ Ha]. inversion Ha; auto.
  - inversion Hps; subst. destruct (IH q H1 H2) as (s' & a & E & Ha). cbn in E.
    exists (p ++ 45 :: s'), a. split; auto. rewrite <- app_assoc. cbn. rewrite E. reflexivity.
Qed.

Lemma trim_dash_id s a : hc a -> trim_dash (s ++ [a]) = s ++ [a].
Proof.
  intros Ha. unfold trim_dash. rewrite rev_app_distr. cbn.
  destruct (N.eqb_spec a 45) as [->|]; auto. unfold hc in Ha. vm_compute in Ha. discriminate.
Qed.

(** A list of good lower-case parts is a fixed point of [normalize] once joined. *)
Lemma normalize_join p ps :
  part_ok p -> Forall part_ok ps -> Forall (Forall low) (p :: ps) ->
  normalize (join_dash (p :: ps)) = Some (join_dash (p :: ps)).
Proof.
  intros Hp Hps Hl. unfold normalize.
  destruct (join_last ps p Hp Hps) as (s' & a & E & Ha).
  assert (Hn : is_nil (join_dash (p :: ps)) = false) by (rewrite E; destruct s'; reflexivity).
  rewrite Hn. rewrite map_low by (apply Forall_join; auto; reflexivity).
  cbn [join_dash]. rewrite fields_join by auto. cbn [is_nil].
  change (p ++ flat_map (fun q => 45 :: q) ps) with (join_dash (p :: ps)).
  rewrite E, trim_dash_id by auto. reflexivity.
Qed.

Lemma normalize_idem x n : normalize x = Some n -> n <> [] -> normalize n = Some n.
Proof.
  unfold normalize. destruct (is_nil x); [intros E; inversion E; congruence|].
  destruct (fields [] (map to_lower x)) as [|p ps] eqn:Ef; cbn [is_nil]; [discriminate|].
  intros [= <-] _.
  assert (Hparts : Forall part_ok (p :: ps)) by (rewrite <- Ef; apply fields_parts; constructor).
  assert (Hlow : Forall (Forall low) (p :: ps)).
  { rewrite <- Ef. apply fields_chars; [|constructor].
    apply Forall_forall. intros c Hc. apply in_map_iff in Hc as (c0 & <- & _). apply to_lower_idem. }
  inversion Hparts; subst.
  destruct (join_last ps p H1 H2) as (s' & a & E & Ha).
  change (p ++ flat_map (fun q => 45 :: q) ps) with (join_dash (p :: ps)) in *.
  rewrite E, trim_dash_id, <- E by auto. apply normalize_join; auto.
Qed.

(** * Generated names *)

Definition dg (c : N) : Prop := is_digit c = true.

Ltac Zify.zify_post_hook ::= Z.to_euclidean_division_equations.

Lemma dec_octet_ok n : n < 256 ->
  dec_octet n <> [] /\ Forall dg (dec_octet n) /\ (length (dec_octet n) <= 3)%nat.
Proof.
  intros H. unfold dec_octet.
  assert (D : forall k, k < 10 -> dg (48 + k)).
  { intros k Hk. unfold dg, is_digit. apply andb_true_iff. rewrite !N.leb_le. lia. }
  destruct (N.ltb_spec n 10); [|destruct (N.ltb_spec n 100)].
  - split; [discriminate|]. split; [repeat constructor; apply D; lia|cbn; lia].
  - split; [discriminate|]. split; [repeat constructor; apply D; lia|cbn; lia].
  - split; [discriminate|]. split; [repeat constructor; apply D; lia|cbn; lia].
Qed.

Lemma dg_hc c : dg c -> hc c.
Proof. unfold dg, hc, host_char, is_alnum. intros ->. rewrite orb_true_r. reflexivity. Qed.

Lemma dg_low c : dg c -> low c.
Proof.
  unfold dg, low, is_digit, to_lower. intros H. apply andb_true_iff in H as [_ H]. apply N.leb_le in H.
  destruct (N.leb_spec 65 c); [lia|]. reflexivity.
Qed.

Lemma dg_not_dot c : dg c -> (c =? 46) = false.
Proof. unfold dg, is_digit. intros H. apply andb_true_iff in H as [H _]. apply N.leb_le in H.
  apply N.eqb_neq. lia. Qed.

Lemma split_dot_nodot s : forall cur,
  Forall (fun c => (c =? 46) = false) s -> split_dot cur s = [rev cur ++ s].
Proof.
  induction s as [|c s IH]; intros cur H; cbn [split_dot].
  - rewrite app_nil_r. reflexivity.
  - inversion H; subst. rewrite H2, IH by auto. cbn [rev]. rewrite <- app_assoc. reflexivity.
Qed.

Definition gen_parts (ip : N) : list bytes :=
  [dec_octet ((ip / 16777216) mod 256); dec_octet ((ip / 65536) mod 256);
   dec_octet ((ip / 256) mod 256); dec_octet (ip mod 256)].

Lemma gen_join ip : gen_hostname ip = join_dash (gen_parts ip).
Proof.
  unfold gen_hostname, gen_parts, join_dash. cbn [flat_map]. rewrite app_nil_r.
  repeat rewrite <- app_assoc. reflexivity.
Qed.

Lemma gen_parts_ok ip :
  Forall (fun p => p <> [] /\ Forall dg p /\ (length p <= 3)%nat) (gen_parts ip).
Proof.
  unfold gen_parts. repeat (apply Forall_cons; [apply dec_octet_ok; apply N.mod_lt; discriminate|]). apply Forall_nil.
Qed.

Lemma normalize_gen ip : normalize (gen_hostname ip) = Some (gen_hostname ip).
Proof.
  rewrite gen_join. pose proof (gen_parts_ok ip) as H. unfold gen_parts in *.
  apply normalize_join.
  - inversion H; subst. destruct H2 as (? & ? & _). split; auto.
    eapply Forall_impl; [apply dg_hc|]; auto.
  - inversion H; subst. eapply Forall_impl; [|exact H3]. intros p (? & ? & _). split; auto.
    eapply Forall_impl; [apply dg_hc|]; auto.
  - eapply Forall_impl; [|exact H]. intros p (_ & ? & _). eapply Forall_impl; [apply dg_low|]; auto.
Qed.

Lemma forallb_Forall {A} (f : A -> bool) l : Forall (fun x => f x = true) l -> forallb f l = true.
Proof. induction 1; cbn; auto. rewrite H, IHForall. reflexivity. Qed.

Lemma valid_label_intro l c rest s' a :
  l = c :: rest -> l = s' ++ [a] -> (length l <= 63)%nat ->
  is_alnum c = true -> is_alnum a = true ->
  forallb (fun c => (c =? 45) || is_alnum c) l = true -> valid_label l = true.
Proof.
  intros E1 E2 HL Hc Ha Hf. unfold valid_label. destruct l as [|x l']; [discriminate|].
  inversion E1; subst x rest. rewrite E2 in HL, Hf |- *.
  rewrite last_last, Hc, Ha, Hf. apply Nat.leb_le in HL. rewrite HL. reflexivity.
Qed.

Definition okp (p : bytes) : Prop := p <> [] /\ Forall dg p /\ (length p <= 3)%nat.

Lemma valid_four d1 d2 d3 d4 : okp d1 -> okp d2 -> okp d3 -> okp d4 ->
  valid_hostname (join_dash [d1; d2; d3; d4]) = true.
Proof.
  intros (N1 & G1 & L1) (N2 & G2 & L2) (N3 & G3 & L3) (N4 & G4 & L4).
  set (g := join_dash [d1; d2; d3; d4]).
  assert (Eg : g = d1 ++ 45 :: d2 ++ 45 :: d3 ++ 45 :: d4).
  { unfold g, join_dash. cbn [flat_map]. rewrite app_nil_r. repeat rewrite <- app_assoc. reflexivity. }
  assert (W : forall d, Forall dg d -> Forall (fun c => dg c \/ c = 45) d).
  { intros d Hd. eapply Forall_impl; [|exact Hd]. cbn; auto. }
  assert (Hall : Forall (fun c => dg c \/ c = 45) g).
  { rewrite Eg. apply Forall_app; split; [auto|]. constructor; [auto|].
    apply Forall_app; split; [auto|]. constructor; [auto|].
    apply Forall_app; split; [auto|]. constructor; [auto|]. auto. }
  assert (Hlen : (length g <= 15)%nat).
  { rewrite Eg. repeat (rewrite app_length; cbn [length]). lia. }
  destruct d1 as [|c1 r1] eqn:E1; [contradiction|].
  destruct (exists_last N4) as (r4 & a4 & E4).
  assert (Ha4 : dg a4). { rewrite E4 in G4. apply Forall_app in G4 as [_ G]. inversion G; auto. }
  assert (Hc1 : dg c1) by (inversion G1; auto).
  assert (Elast : exists s', g = s' ++ [a4]).
  { rewrite Eg, E4. exists ((c1 :: r1) ++ 45 :: d2 ++ 45 :: d3 ++ 45 :: r4).
    repeat (rewrite <- app_assoc; cbn [app]). reflexivity. }
  destruct Elast as (s' & Es').
  unfold valid_hostname.
  assert (Hnil : is_nil g = false) by (rewrite Eg; reflexivity). rewrite Hnil. cbn [negb andb].
  assert (Hl253 : (length g <=? 253)%nat = true) by (apply Nat.leb_le; lia). rewrite Hl253. cbn [andb].
  rewrite split_dot_nodot.
  2:{ eapply Forall_impl; [|exact Hall]. intros c [Hd| ->]; [apply dg_not_dot; auto|reflexivity]. }
  cbn [rev app forallb last].
  assert (Hdig : forallb is_digit g = false).
  { rewrite Eg. rewrite forallb_app. cbn [forallb]. replace (is_digit 45) with false by reflexivity.
    cbn [andb]. apply andb_false_r. }
  rewrite Hdig. cbn [negb]. rewrite !andb_true_r.
  assert (Hal : forall c, dg c -> is_alnum c = true).
  { intros c Hc. unfold is_alnum. unfold dg in Hc. rewrite Hc. reflexivity. }
  apply (valid_label_intro g c1 (r1 ++ 45 :: d2 ++ 45 :: d3 ++ 45 :: d4) s' a4); auto; [lia|].
  apply forallb_Forall. eapply Forall_impl; [|exact Hall].
  intros c [Hd| ->]; [rewrite (Hal c Hd); apply orb_true_r|reflexivity].
Qed.

Lemma valid_gen ip : valid_hostname (gen_hostname ip) = true.
Proof.
  rewrite gen_join. pose proof (gen_parts_ok ip) as H. unfold gen_parts in *.
  inversion H as [|? ? K1 Ha]. inversion Ha as [|? ? K2 Hb]. inversion Hb as [|? ? K3 Hc].
  inversion Hc as [|? ? K4 _]. apply valid_four; assumption.
Qed.

Lemma vhfc_gen ip : valid_hostname_for_client (gen_hostname ip) ip = gen_hostname ip.
Proof.
  unfold valid_hostname_for_client. rewrite normalize_gen.
  assert (is_nil (gen_hostname ip) = false).
  { pose proof (valid_gen ip) as V. unfold valid_hostname in V. destruct (gen_hostname ip); [discriminate|reflexivity]. }
  rewrite H, valid_gen. reflexivity.
Qed.

(** validHostnameForClient is idempotent. *)
Lemma vhfc_idem x ip r :
  valid_hostname_for_client x ip = r -> r <> [] -> valid_hostname_for_client r ip = r.
Proof.
  unfold valid_hostname_for_client at 1. intros E Hr.
  destruct (normalize x) as [n|] eqn:En.
  - destruct (is_nil n) eqn:Enil.
    + rewrite valid_gen in E. subst r. apply vhfc_gen.
    + destruct (valid_hostname n) eqn:V; [|congruence]. subst r.
      unfold valid_hostname_for_client.
      rewrite (normalize_idem x n En) by (intros ->; discriminate). rewrite Enil, V. reflexivity.
  - cbn [is_nil] in E. rewrite valid_gen in E. subst r. apply vhfc_gen.
Qed.

(** * Stability of the names through the operations *)

Definition stable1 (l : lease) : Prop :=
  l_static l = false -> l_host l <> [] -> valid_hostname_for_client (l_host l) (l_ip l) = l_host l.

Definition same_name (a b : lease) : Prop :=
  l_ip a = l_ip b /\ l_host a = l_host b /\ l_static a = l_static b.

(** Every lease of [L'] is a lease of [L] up to fields that do not matter
    here, or is stable by itself. *)
Definition Src (L L' : list lease) : Prop :=
  forall l', In l' L' -> (exists l, In l L /\ same_name l l') \/ stable1 l'.

Lemma NS_src L L' : NamesStable L -> Src L L' -> NamesStable L'.
Proof.
  intros H S l' Hl' Hs Hh. destruct (S l' Hl') as [(l & Hl & E1 & E2 & E3)|St]; [|apply St; auto].
  rewrite <- E1, <- E2. apply H; congruence.
Qed.

Lemma Src_refl L : Src L L.
Proof. intros l Hl. left. exists l. repeat split; auto. Qed.

Lemma Src_trans A B C : Src A B -> Src B C -> Src A C.
Proof.
  intros H1 H2 l Hl. destruct (H2 l Hl) as [(b & Hb & E)|St]; auto.
  destruct (H1 b Hb) as [(a & Ha & E')|St].
  - left. exists a. split; auto. destruct E as (?&?&?), E' as (?&?&?). repeat split; congruence.
  - right. intros Hs Hh. destruct E as (E1 & E2 & E3). rewrite <- E1, <- E2. apply St; congruence.
Qed.

Lemma stable1_nil l : l_host l = [] -> stable1 l.
Proof. intros E _ H. contradiction. Qed.

Lemma Src_add c l s s' : add_lease c l s = Some s' -> stable1 l -> Src (leases s) (leases s').
Proof.
  intros Ea St l' Hl'. apply add_lease_some in Ea as (EL & _). rewrite EL in Hl'.
  apply in_app_iff in Hl' as [H|[<-|[]]]; auto. left. exists l'. repeat split; auto.
Qed.

Lemma Src_thin_names L L' :
  (forall l', In l' L' -> In l' L \/ l_host l' = []) -> Src L L'.
Proof.
  intros H l' Hl'. destruct (H l' Hl') as [?|?]; [left; exists l'; repeat split; auto|right; apply stable1_nil; auto].
Qed.

Lemma rm_dyn_in c mac ip host ls x :
  forall l', In l' (fst (fst (rm_dyn c mac ip host ls x))) -> In l' ls \/ l_host l' = [].
Proof.
  revert x; induction ls as [|l r IH]; intros x l'; cbn; [tauto|].
  destruct ((l_mac l =? mac) || (l_ip l =? ip)).
  - destruct (l_static l); cbn; [tauto|]. intros H. destruct (IH _ _ H); auto.
  - destruct (negb (l_static l) && negb (is_nil (l_host l)) && eqb_bytes (l_host l) host).
    + specialize (IH (Index (hupd (hidx x) (l_host l) None) (iidx x) (offs x)) l').
      destruct (rm_dyn c mac ip host r _) as [[r' x'] e]. cbn in *.
      intros [<-|H]; [right; reflexivity|]. destruct (IH H); auto.
    + specialize (IH x l'). destruct (rm_dyn c mac ip host r x) as [[r' x'] e]. cbn in *.
      intros [<-|H]; auto. destruct (IH H); auto.
Qed.

Lemma Src_rm_dynamic c mac ip host s : Src (leases s) (leases (fst (rm_dynamic_lease c mac ip host s))).
Proof.
  unfold rm_dynamic_lease. pose proof (rm_dyn_in c mac ip host (leases s) (ix s)) as H.
  destruct (rm_dyn c mac ip host (leases s) (ix s)) as [[ls x] e]. cbn in *.
  apply Src_thin_names; auto.
Qed.

Lemma Src_rm_index c i s : Src (leases s) (leases (rm_lease_by_index c i s)).
Proof.
  unfold rm_lease_by_index. destruct (nth_error (leases s) i) as [l|] eqn:E; [|apply Src_refl].
  destruct (nth_error_split' _ _ _ E) as (l1 & l2 & EL & <-). cbn. rewrite EL, remove_nth_split.
  apply Src_thin_names. intros l' H. left. apply in_app_iff in H. apply in_app_iff. cbn. tauto.
Qed.

Lemma Src_update_nth i f L :
  (forall l, same_name l (f l) \/ stable1 (f l)) -> Src L (update_nth i f L).
Proof.
  intros Hf. revert i; induction L as [|a L IH]; intros i l'; destruct i; cbn; try tauto.
  - intros [E|H].
    + subst l'. destruct (Hf a) as [S|S]; [left; exists a; auto|right; auto].
    + left; exists l'; repeat split; auto.
  - intros [E|H].
    + subst l'. left; exists a; repeat split; auto.
    + destruct (IH i l' H) as [(l & Hl & E)|St]; auto. left. exists l; auto.
Qed.

Lemma Src_reserve c now mac s : Src (leases s) (leases (fst (reserve c now mac s))).
Proof.
  unfold reserve. destruct (next_ip c s) as [ip|].
  - destruct (add_lease c _ s) as [s'|] eqn:Ea; cbn; [|apply Src_refl].
    eapply Src_add; eauto. apply stable1_nil. reflexivity.
  - destruct (find_expired now (leases s)) as [[i l]|]; cbn; [|apply Src_refl].
    apply Src_update_nth. intros l0. left. repeat split.
Qed.

Lemma Src_blocklist c now i s : Src (leases s) (leases (blocklist c now i s)).
Proof.
  unfold blocklist. destruct (nth_error (leases s) i) as [l|] eqn:E; [|apply Src_refl]. cbn [leases].
  apply Src_update_nth. intros l0. right. apply stable1_nil. reflexivity.
Qed.

Lemma Src_allocate c now busy mac : forall fuel s,
  Src (leases s) (leases (fst (allocate fuel c now busy mac s))).
Proof.
  induction fuel as [|f IH]; intros s; cbn [allocate]; [apply Src_refl|].
  pose proof (Src_reserve c now mac s) as R.
  destruct (reserve c now mac s) as [s1 r]; cbn [fst] in *.
  destruct r; auto.
  destruct (mem_ip (ip_at s1 i) busy); auto.
  eapply Src_trans; [exact R|]. eapply Src_trans; [apply Src_blocklist|apply IH].
Qed.

Lemma Src_commit c now i host s : Src (leases s) (leases (commit c now i host s)).
Proof.
  unfold commit. destruct (nth_error (leases s) i) as [l|] eqn:E; [|apply Src_refl]. cbn [leases].
  intros l' Hl'.
  destruct (nth_error_split' _ _ _ E) as (l1 & l2 & EL & <-).
  rewrite EL, update_nth_split in Hl'. apply in_app_iff in Hl' as [H|[<-|H]].
  - left. exists l'. split; [rewrite EL, in_app_iff; auto|repeat split].
  - set (h := if is_some _ then _ else _).
    assert (Hh : h = l_host l \/ h = [] \/ valid_hostname_for_client h (l_ip l) = h).
    { unfold h. destruct (is_some (hidx (ix s) (valid_hostname_for_client host (l_ip l)))).
      - destruct (is_nil (l_host l)); auto.
        destruct (is_some (hidx (ix s) (gen_hostname (l_ip l)))); auto. right. right. apply vhfc_gen.
      - destruct (valid_hostname_for_client host (l_ip l)) as [|b t] eqn:Ev; auto.
        right. right. rewrite <- Ev. eapply vhfc_idem; eauto. rewrite Ev. discriminate. }
    destruct Hh as [Hh|[Hh|Hh]].
    + left. exists l. split; [rewrite EL, in_app_iff; cbn; auto|]. cbn. repeat split; auto.
    + right. apply stable1_nil. cbn. auto.
    + right. intros _ _. cbn. exact Hh.
  - left. exists l'. split; [rewrite EL, in_app_iff; cbn; auto|repeat split].
Qed.

Lemma NS_load c d : NamesStable (leases (load c d)).
Proof.
  unfold load.
  assert (G : forall d s, (forall l, In l (leases s) -> stable1 l) ->
                          forall l, In l (leases (fold_left (load_step c) d s)) -> stable1 l).
  { clear d. induction d as [|a d IH]; intros s H; cbn; auto. apply IH.
    unfold load_step. destruct (valid_mac (l_mac a)); auto.
    destruct (add_lease c (reload_lease a) s) as [s'|] eqn:Ea; auto.
    apply add_lease_some in Ea as (-> & _). intros l Hl. apply in_app_iff in Hl as [?|[<-|[]]]; auto.
    unfold reload_lease. destruct (negb (l_static a) && negb (is_nil (l_host a))) eqn:Ec.
    - intros _ Hh. cbn in *. eapply vhfc_idem; eauto.
    - intros Hs Hh. rewrite Hs in Ec. cbn in Ec. apply negb_false_iff, is_nil_spec in Ec. contradiction. }
  intros l Hl. apply (G d (State [] empty_index d)); auto. cbn. tauto.
Qed.

Lemma Src_rm_lease c ip mac host s s1 : rm_lease c ip mac host s = Some s1 -> Src (leases s) (leases s1).
Proof.
  intros H. apply rm_lease_some in H as [[-> _]|(l1 & l & l2 & _ & _ & _ & -> & _)];
    [apply Src_refl|apply Src_rm_index].
Qed.

Lemma stable1_static ip mac h e : stable1 (Lease ip mac h true e).
Proof. intros H; discriminate. Qed.

Theorem step_names c s now busy o :
  NamesStable (leases s) -> NamesStable (leases (fst (step c s now busy o))).
Proof.
  intros H. destruct o; cbn [step fst]; auto.
  - (* discover *)
    unfold discover. destruct (find_lease mac (leases s)) as [[? ?]|]; cbn; auto.
    pose proof (Src_allocate c now busy mac (alloc_fuel c s) s) as R.
    destruct (allocate _ c now busy mac s) as [s' r]; cbn in *.
    destruct r; cbn; eapply NS_src; eauto.
  - (* request *)
    unfold request. destruct (request_lease c mac sid reqip ciaddr s) as [r|[i l]]; cbn; auto.
    destruct (l_static l); cbn; auto. eapply NS_src; eauto. apply Src_commit.
  - (* decline *)
    unfold decline. destruct (find_index _ (leases s)) as [[? old]|]; cbn; auto.
    pose proof (Src_rm_dynamic c (l_mac old) (l_ip old) (l_host old) s) as R1.
    destruct (rm_dynamic_lease c (l_mac old) (l_ip old) (l_host old) s) as [s1 e]; cbn in *.
    assert (H1 : NamesStable (leases s1)) by (eapply NS_src; eauto).
    destruct e; cbn; auto.
    pose proof (Src_allocate c now busy mac (alloc_fuel c s1) s1) as R2.
    destruct (allocate _ c now busy mac s1) as [s2 r]; cbn in *.
    assert (H2 : NamesStable (leases s2)) by (eapply NS_src; eauto).
    destruct r; cbn; auto. eapply NS_src; eauto. apply Src_commit.
  - (* release *)
    unfold release. destruct (find_index _ (leases s)) as [[? old]|]; cbn; auto.
    pose proof (Src_rm_dynamic c (l_mac old) (l_ip old) (l_host old) s) as R1.
    destruct (rm_dynamic_lease c (l_mac old) (l_ip old) (l_host old) s) as [s1 e]; cbn in *.
    destruct e; cbn; eapply NS_src; eauto.
  - (* static add *)
    unfold static_add. destruct (ip =? c_gw c); cbn; auto.
    destruct (valid_mac mac); cbn; auto.
    destruct (if is_nil host then Some [] else _) as [h|]; cbn; auto.
    pose proof (Src_rm_dynamic c mac ip h s) as R1.
    destruct (rm_dynamic_lease c mac ip h s) as [s1 e]; cbn in *.
    assert (H1 : NamesStable (leases s1)) by (eapply NS_src; eauto).
    destruct e; cbn; auto.
    destruct (add_lease c _ s1) as [s2|] eqn:Ea; cbn; auto.
    eapply NS_src; eauto. eapply Src_add; eauto. apply stable1_static.
  - (* static update *)
    unfold static_update. destruct (find_lease mac (leases s)) as [[? found]|]; cbn; auto.
    destruct (validate_static c mac ip host s) as [h|]; cbn; auto.
    destruct (rm_lease c _ _ _ s) as [s1|] eqn:Er; cbn; auto.
    assert (H1 : NamesStable (leases s1)) by (eapply NS_src; eauto using Src_rm_lease).
    destruct (add_lease c _ s1) as [s2|] eqn:Ea; cbn; auto.
    eapply NS_src; eauto. eapply Src_add; eauto. apply stable1_static.
  - (* static remove *)
    unfold static_remove. destruct (valid_mac mac); cbn; auto.
    destruct (rm_lease c ip mac host s) as [s1|] eqn:Er; cbn; auto.
    eapply NS_src; eauto using Src_rm_lease.
  - (* restart *)
    apply NS_load.
Qed.

Theorem names_stable_reachable c h : NamesStable (leases (run c h empty_state)).
Proof.
  assert (G : forall s, NamesStable (leases s) -> NamesStable (leases (run c h s))).
  { unfold run. induction h as [|[[now busy] o] h IH]; intros s H; cbn; auto. apply IH, step_names; auto. }
  apply G. intros l [].
Qed.

(** Persistence, full statement. *)
Theorem persistence_full : persistence_statement.
Proof.
  intros c h Hh s s'. apply persistence.
  - apply full_inv_reachable; auto.
  - apply names_stable_reachable.
Qed.

(** C17, round 4 (H): what a pattern with a character class admits.

    Proofs/GlobCase.v reads patterns without classes and escapes
    declaratively.  Here: the pattern [lit1 ++ "[" ++ cs ++ "]" ++ lit2], with
    [lit1], [lit2] literal bytes and [cs] a non-empty list of plain ASCII
    class members (no range, no escape, no negation).  The executable matcher
    (the mirror of filepath.Match) admits exactly the names
    [lit1 ++ [c] ++ lit2] with [c] a member of the class: one character in the
    place of the brackets.  In particular such a pattern never admits a name
    longer than [lit1 ++ [c] ++ lit2], so never its own text: a file named
    exactly like the pattern is not covered by it. *)
From Coq Require Import List NArith Bool Arith Lia.
From AGH Require Import Base.Run Base.Bytes Base.Glob.
Import ListNotations.
Local Open Scope N_scope.

Ltac Zify.zify_post_hook ::= Z.to_euclidean_division_equations.

(** A byte that stands for itself inside brackets: ASCII, none of ] - \ ^ . *)
Definition is_cmember (c : N) : bool :=
  (c <? 128) && negb (c =? c_rbr) && negb (c =? c_minus) && negb (c =? c_bslash) && negb (c =? c_caret).

Lemma is_cmember_inv c : is_cmember c = true ->
  c < 128 /\ (c =? c_rbr) = false /\ (c =? c_minus) = false /\ (c =? c_bslash) = false /\
  (c =? c_caret) = false.
Proof.
  unfold is_cmember. intros H. repeat (apply andb_true_iff in H as [H ?]).
  apply N.ltb_lt in H. repeat split; try apply negb_true_iff; assumption.
Qed.

(** * Decoding: a rune below 128 is one ASCII byte *)

Lemma decode_ascii b0 t :
  fst (decode_rune (b0 :: t)) < 128 -> b0 < 128 /\ decode_rune (b0 :: t) = (b0, 1%nat).
Proof.
  unfold decode_rune. destruct (b0 <? 128) eqn:E.
  - intros _. apply N.ltb_lt in E. auto.
  - apply N.ltb_ge in E. intros H. exfalso. revert H.
    destruct (lead_info b0) as [[[sz lo] hi]|] eqn:El; [|cbn; unfold rune_error; lia].
    destruct (_ && _ && _ && _) eqn:Ec; [|cbn; unfold rune_error; lia].
    apply andb_true_iff in Ec as [Ec Hhi]. apply andb_true_iff in Ec as [Ec Hlo].
    apply andb_true_iff in Ec as [Hlen _]. apply Nat.eqb_eq in Hlen.
    apply N.leb_le in Hhi, Hlo. cbn [fst].
    revert El. unfold lead_info.
    repeat match goal with
           | |- context [if ?c then _ else _] => destruct c eqn:?
           end; intros [= <- <- <-]; cbn [Nat.sub lead_mask] in *;
      repeat match goal with
             | H : (_ && _) = true |- _ => apply andb_true_iff in H as [? ?]
             | H : (_ <=? _) = true |- _ => apply N.leb_le in H
             | H : (_ =? _) = true |- _ => apply N.eqb_eq in H
             end.
    all: destruct t as [|c1 [|c2 [|c3 t']]]; cbn [firstn length] in Hlen; try discriminate;
      cbn [firstn hd fold_left] in *; lia.
Qed.

(** * The class loop over plain members *)

Lemma class_loop_members : forall cs fuel r matched seen lit2,
  forallb is_cmember cs = true -> (length cs < fuel)%nat -> (seen = true \/ cs <> []) ->
  class_loop fuel (cs ++ c_rbr :: lit2) r matched seen =
    GOk (matched || existsb (fun c => c =? r) cs, lit2).
Proof.
  induction cs as [|c cs IH]; intros fuel r matched seen lit2 Hm Hf Hs.
  - destruct Hs as [->|Hs]; [|congruence]. destruct fuel as [|f]; [cbn in Hf; lia|].
    cbn [app class_loop existsb]. rewrite N.eqb_refl. cbn [andb]. rewrite orb_false_r. reflexivity.
  - destruct fuel as [|f]; [cbn in Hf; lia|]. cbn [forallb] in Hm.
    apply andb_true_iff in Hm as [Hc Hm]. apply is_cmember_inv in Hc as (Hlt & Hr & Hmi & Hb & _).
    cbn [app class_loop]. rewrite Hr. cbn [andb].
    set (t := cs ++ c_rbr :: lit2).
    assert (Hge : get_esc (c :: t) = Some (c, t)).
    { unfold get_esc. rewrite Hmi, Hr, Hb. cbn [orb].
      assert (Hd : decode_rune (c :: t) = (c, 1%nat)).
      { unfold decode_rune. apply N.ltb_lt in Hlt. rewrite Hlt. reflexivity. }
      rewrite Hd.
      assert ((c =? rune_error) = false) as -> by (apply N.eqb_neq; unfold rune_error; lia).
      cbn [andb skipn]. subst t. destruct cs; reflexivity. }
    rewrite Hge.
    assert (Hd : exists d t1, t = d :: t1 /\ (d =? c_minus) = false).
    { subst t. destruct cs as [|d cs'].
      - exists c_rbr, lit2. split; reflexivity.
      - cbn [forallb] in Hm. apply andb_true_iff in Hm as [Hd _].
        apply is_cmember_inv in Hd as (_ & _ & Hd & _). exists d, (cs' ++ c_rbr :: lit2). auto. }
    destruct Hd as (d & t1 & Ht & Hdm). rewrite Ht, Hdm, <- Ht. subst t.
    rewrite IH; [|exact Hm|cbn in Hf; lia|left; reflexivity].
    cbn [existsb]. rewrite orb_assoc. reflexivity.
Qed.

(** * matchChunk: a failure is never forgotten *)

Lemma match_chunk_failed : forall fuel chunk s t, match_chunk fuel chunk s true <> GOk (Some t).
Proof.
  induction fuel as [|f IH]; intros chunk s t; cbn [match_chunk]; [discriminate|].
  destruct chunk as [|c ctl]; [discriminate|]. cbn [orb].
  destruct (c =? c_lbr).
  - destruct (class_loop _ _ _ _ _) as [[m rest]| |]; [apply IH|discriminate|discriminate].
  - destruct (c =? c_quest); [apply IH|].
    destruct (if c =? c_bslash then ctl else c :: ctl) as [|l0 ltl]; [discriminate|apply IH].
Qed.

Lemma match_chunk_lit_prefix : forall lit fuel rest s t,
  forallb is_lit lit = true ->
  match_chunk fuel (lit ++ rest) s false = GOk (Some t) ->
  exists fuel' s', s = lit ++ s' /\ match_chunk fuel' rest s' false = GOk (Some t).
Proof.
  induction lit as [|c lit IH]; intros fuel rest s t Hl H.
  - exists fuel, s. auto.
  - destruct fuel as [|f]; [discriminate|]. cbn [forallb] in Hl.
    apply andb_true_iff in Hl as [Hc Hl]. apply is_lit_inv in Hc as (_ & Hq & Hb & Hs).
    cbn [app match_chunk] in H. rewrite Hb, Hq, Hs in H. cbn [orb] in H.
    destruct s as [|b0 s0]; cbn [is_nil] in H; [exfalso; exact (match_chunk_failed _ _ _ _ H)|].
    cbn [hd tl] in H. destruct (c =? b0) eqn:E; cbn [negb] in H;
      [|exfalso; exact (match_chunk_failed _ _ _ _ H)].
    apply N.eqb_eq in E. subst b0. destruct (IH _ _ _ _ Hl H) as (f' & s' & -> & H').
    exists f', s'. auto.
Qed.

(** The class itself: one ASCII character of the name, a member of the class. *)
Lemma match_chunk_class fuel cs lit2 s t :
  forallb is_cmember cs = true -> cs <> [] ->
  match_chunk fuel (c_lbr :: cs ++ c_rbr :: lit2) s false = GOk (Some t) ->
  exists c s' fuel', In c cs /\ s = c :: s' /\ match_chunk fuel' lit2 s' false = GOk (Some t).
Proof.
  intros Hm Hne H. destruct fuel as [|f]; [discriminate|]. cbn [match_chunk] in H.
  rewrite N.eqb_refl in H. cbn [orb] in H.
  assert (Hneg : match cs ++ c_rbr :: lit2 with d :: _ => d =? c_caret | [] => false end = false).
  { destruct cs as [|c0 cs']; [congruence|]. cbn [forallb] in Hm.
    apply andb_true_iff in Hm as [Hc _]. apply is_cmember_inv in Hc as (_ & _ & _ & _ & Hc). exact Hc. }
  rewrite Hneg in H.
  destruct s as [|b0 s0]; cbn [is_nil] in H.
  - rewrite class_loop_members in H; auto; [|rewrite app_length; cbn; lia].
    exfalso. cbn [orb] in H. exact (match_chunk_failed _ _ _ _ H).
  - rewrite class_loop_members in H; auto; [|rewrite app_length; cbn; lia].
    cbn [orb] in H.
    destruct (existsb (fun c => c =? fst (decode_rune (b0 :: s0))) cs) eqn:Ex; cbn [Bool.eqb] in H;
      [|exfalso; exact (match_chunk_failed _ _ _ _ H)].
    apply existsb_exists in Ex as (c & Hin & Hc). apply N.eqb_eq in Hc.
    rewrite forallb_forall in Hm. destruct (is_cmember_inv _ (Hm _ Hin)) as (Hlt & _).
    rewrite Hc in Hlt. destruct (decode_ascii _ _ Hlt) as (_ & Hd). rewrite Hd in H, Hc.
    cbn [fst] in Hc. cbn [snd skipn] in H. subst c. exists b0, s0, f. auto.
Qed.

(** * scanChunk: the whole pattern is one chunk *)

Lemma scan_lit_app : forall l r,
  forallb is_lit l = true -> scan (l ++ r) false = (l ++ fst (scan r false), snd (scan r false)).
Proof.
  induction l as [|c l IH]; intros r Hl; cbn [app]; [destruct (scan r false); reflexivity|].
  cbn [forallb] in Hl. apply andb_true_iff in Hl as [Hc Hl].
  apply is_lit_inv in Hc as (Hst & _ & Hb & Hs). cbn [scan]. rewrite Hs, Hb, Hst, (IH _ Hl).
  cbn [andb]. destruct (c =? c_rbr); reflexivity.
Qed.

Lemma scan_members : forall cs r,
  forallb is_cmember cs = true ->
  scan (cs ++ c_rbr :: r) true = (cs ++ c_rbr :: fst (scan r false), snd (scan r false)).
Proof.
  induction cs as [|c cs IH]; intros r Hm; cbn [app].
  - cbn [scan]. assert ((c_rbr =? c_bslash) = false) as -> by reflexivity.
    assert ((c_rbr =? c_lbr) = false) as -> by reflexivity. rewrite N.eqb_refl.
    destruct (scan r false); reflexivity.
  - cbn [forallb] in Hm. apply andb_true_iff in Hm as [Hc Hm].
    apply is_cmember_inv in Hc as (_ & Hr & _ & Hb & _). cbn [scan]. rewrite Hb, Hr, (IH _ Hm).
    cbn [negb andb]. rewrite andb_false_r. destruct (c =? c_lbr); reflexivity.
Qed.

Lemma scan_class_pattern lit1 cs lit2 :
  forallb is_lit lit1 = true -> forallb is_cmember cs = true -> forallb is_lit lit2 = true ->
  scan (lit1 ++ c_lbr :: cs ++ c_rbr :: lit2) false = (lit1 ++ c_lbr :: cs ++ c_rbr :: lit2, []).
Proof.
  intros H1 Hc H2. rewrite (scan_lit_app _ _ H1). cbn [scan].
  assert ((c_lbr =? c_bslash) = false) as -> by reflexivity. rewrite N.eqb_refl.
  rewrite (scan_members _ _ Hc). cbn [fst snd].
  pose proof (scan_lit_app lit2 [] H2) as H. rewrite app_nil_r in H. rewrite H. cbn [scan fst snd].
  rewrite app_nil_r. reflexivity.
Qed.

(** * The theorem *)

(** A pattern that is a single chunk without a leading star matches exactly
    when the chunk consumes the whole name. *)
Lemma one_chunk_match p0 ptl name :
  (p0 =? c_star) = false -> scan (p0 :: ptl) false = (p0 :: ptl, []) ->
  glob_match (p0 :: ptl) name = GOk true ->
  match_chunk (S (length (p0 :: ptl))) (p0 :: ptl) name false = GOk (Some []).
Proof.
  intros Hst Hsc. unfold glob_match. cbn [match_loop]. unfold scan_chunk. cbn [strip_stars].
  rewrite Hst, Hsc. cbn [andb is_nil negb orb].
  destruct (match_chunk (S (length (p0 :: ptl))) (p0 :: ptl) name false) as [[t|]| |];
    try discriminate.
  destruct t as [|t0 tt]; cbn [is_nil]; [reflexivity|discriminate].
Qed.

Theorem class_pattern_exact lit1 cs lit2 name :
  forallb is_lit lit1 = true -> forallb is_cmember cs = true -> cs <> [] ->
  forallb is_lit lit2 = true ->
  glob_match (lit1 ++ c_lbr :: cs ++ c_rbr :: lit2) name = GOk true ->
  exists c, In c cs /\ name = lit1 ++ c :: lit2.
Proof.
  intros H1 Hc Hne H2 Hm.
  assert (HP : exists p0 ptl, lit1 ++ c_lbr :: cs ++ c_rbr :: lit2 = p0 :: ptl /\ (p0 =? c_star) = false).
  { destruct lit1 as [|c l].
    - exists c_lbr, (cs ++ c_rbr :: lit2). split; reflexivity.
    - pose proof H1 as H1'. cbn [forallb] in H1'. apply andb_true_iff in H1' as [Hc1 _].
      apply is_lit_inv in Hc1 as (Hst & _). exists c, (l ++ c_lbr :: cs ++ c_rbr :: lit2). auto. }
  destruct HP as (p0 & ptl & HP & Hst).
  pose proof (scan_class_pattern _ _ _ H1 Hc H2) as Hsc. rewrite HP in Hsc, Hm.
  pose proof (one_chunk_match _ _ _ Hst Hsc Hm) as Em. rewrite <- HP in Em.
  apply match_chunk_lit_prefix in Em as (f1 & s1 & -> & Em); [|exact H1].
  apply match_chunk_class in Em as (c & s2 & f2 & Hin & -> & Em); auto.
  apply match_chunk_literal in Em as [_ ->]; [|exact H2].
  exists c. rewrite app_nil_r. auto.
Qed.

(** Such a pattern never admits its own text, nor anything of another length. *)
Corollary class_pattern_not_own_text lit1 cs lit2 :
  forallb is_lit lit1 = true -> forallb is_cmember cs = true -> cs <> [] ->
  forallb is_lit lit2 = true ->
  glob_match (lit1 ++ c_lbr :: cs ++ c_rbr :: lit2) (lit1 ++ c_lbr :: cs ++ c_rbr :: lit2) <> GOk true.
Proof.
  intros H1 Hc Hne H2 H. destruct (class_pattern_exact _ _ _ _ H1 Hc Hne H2 H) as (c & _ & He).
  apply (f_equal (@length N)) in He. rewrite !app_length in He. cbn [length] in He.
  rewrite app_length in He. cbn [length] in He. destruct cs; [congruence|cbn [length] in He; lia].
Qed.

(** * One escape

    [lit1 ++ "\" ++ [c] ++ lit2] admits exactly [lit1 ++ [c] ++ lit2], whatever
    [c] is (a star, a bracket, a letter): the backslash itself is never part of
    an admitted name at that place, so again the pattern's own text is not
    admitted. *)

Lemma scan_escape_pattern lit1 c lit2 :
  forallb is_lit lit1 = true -> forallb is_lit lit2 = true ->
  scan (lit1 ++ c_bslash :: c :: lit2) false = (lit1 ++ c_bslash :: c :: lit2, []).
Proof.
  intros H1 H2. rewrite (scan_lit_app _ _ H1). cbn [scan]. rewrite N.eqb_refl.
  pose proof (scan_lit_app lit2 [] H2) as H. rewrite app_nil_r in H. rewrite H. cbn [scan fst snd].
  rewrite app_nil_r. reflexivity.
Qed.

Lemma match_chunk_escape fuel c lit2 s t :
  match_chunk fuel (c_bslash :: c :: lit2) s false = GOk (Some t) ->
  exists s' fuel', s = c :: s' /\ match_chunk fuel' lit2 s' false = GOk (Some t).
Proof.
  destruct fuel as [|f]; [discriminate|]. cbn [match_chunk].
  assert ((c_bslash =? c_lbr) = false) as -> by reflexivity.
  assert ((c_bslash =? c_quest) = false) as -> by reflexivity. rewrite N.eqb_refl. cbn [orb].
  destruct s as [|b0 s0]; cbn [is_nil]; intros H; [exfalso; exact (match_chunk_failed _ _ _ _ H)|].
  cbn [hd tl] in H. destruct (c =? b0) eqn:E; cbn [negb] in H;
    [|exfalso; exact (match_chunk_failed _ _ _ _ H)].
  apply N.eqb_eq in E. subst b0. exists s0, f. auto.
Qed.

Theorem escape_pattern_exact lit1 c lit2 name :
  forallb is_lit lit1 = true -> forallb is_lit lit2 = true ->
  glob_match (lit1 ++ c_bslash :: c :: lit2) name = GOk true -> name = lit1 ++ c :: lit2.
Proof.
  intros H1 H2 Hm.
  assert (HP : exists p0 ptl, lit1 ++ c_bslash :: c :: lit2 = p0 :: ptl /\ (p0 =? c_star) = false).
  { destruct lit1 as [|c1 l].
    - exists c_bslash, (c :: lit2). split; reflexivity.
    - pose proof H1 as H1'. cbn [forallb] in H1'. apply andb_true_iff in H1' as [Hc1 _].
      apply is_lit_inv in Hc1 as (Hst & _). exists c1, (l ++ c_bslash :: c :: lit2). auto. }
  destruct HP as (p0 & ptl & HP & Hst).
  pose proof (scan_escape_pattern _ c _ H1 H2) as Hsc. rewrite HP in Hsc, Hm.
  pose proof (one_chunk_match _ _ _ Hst Hsc Hm) as Em. rewrite <- HP in Em.
  apply match_chunk_lit_prefix in Em as (f1 & s1 & -> & Em); [|exact H1].
  apply match_chunk_escape in Em as (s2 & f2 & -> & Em).
  apply match_chunk_literal in Em as [_ ->]; [|exact H2].
  rewrite app_nil_r. reflexivity.
Qed.

Corollary escape_pattern_not_own_text lit1 c lit2 :
  forallb is_lit lit1 = true -> forallb is_lit lit2 = true ->
  glob_match (lit1 ++ c_bslash :: c :: lit2) (lit1 ++ c_bslash :: c :: lit2) <> GOk true.
Proof.
  intros H1 H2 H. pose proof (escape_pattern_exact _ _ _ _ H1 H2 H) as He.
  apply (f_equal (@length N)) in He. rewrite !app_length in He. cbn [length] in He. lia.
Qed.

Example ex_escape_premises :
  forallb is_lit [47;108;47] = true /\ forallb is_lit [46;116] = true /\
  glob_match ([47;108;47] ++ c_bslash :: c_star :: [46;116]) ([47;108;47] ++ c_star :: [46;116]) = GOk true.
Proof. repeat split; reflexivity. Qed.

(** The premises are satisfiable, and the admitted names are admitted:
    /l/[ab].t admits /l/a.t and /l/b.t. *)
Example ex_class_premises :
  forallb is_lit [47;108;47] = true /\ forallb is_cmember [97;98] = true /\
  forallb is_lit [46;116] = true /\
  glob_match ([47;108;47] ++ c_lbr :: [97;98] ++ c_rbr :: [46;116]) ([47;108;47] ++ 97 :: [46;116]) = GOk true /\
  glob_match ([47;108;47] ++ c_lbr :: [97;98] ++ c_rbr :: [46;116]) ([47;108;47] ++ 98 :: [46;116]) = GOk true.
Proof. repeat split; reflexivity. Qed.

(** C20 proofs: one qLogReader used for a whole history of operations
    (SeekStart / seekTS / ReadNext in any order).

    [positioned me r exp]: the reader [r] is in a state from which successive
    ReadNext calls return exactly the lines [exp] (as (file, start, length)),
    then io.EOF.  Every operation maps positioned states to positioned states:

      - ReadNext returns the head of [exp] (io.EOF when it is empty) and
        leaves the tail ([read_positions]);
      - a seekTS that ends in an error leaves [exp] as it is, whatever the
        state of the reader and whatever the files hold
        ([failed_seek_positions]; hence [failed_seek_transparent]: the reads
        after a failed seek are the reads without it);
      - SeekStart, a seek that finds its record, a seek that falls back: the
        new [exp] is everything / the record and what is older / everything
        ([seek_start_positions], [seek_found_positions], [seek_back_positions]),
        from ANY reader state, not only a fresh reader.

    [hspec] puts these together as the expected outcome of one operation;
    [history_correct]: the model follows it along any history. *)
From Coq Require Import ZArith List Bool Lia.
From AGH Require Import Model.QLogFile Proofs.QLogFile Proofs.QLogFileAbsent.
Import ListNotations.
Local Open Scope Z_scope.

Definition positioned (me : Z) (r : reader) (exp : list (Z * Z * Z)) : Prop :=
  (exists i p g, rinv me r i p g /\ rexp r i p = exp) \/
  (exp = [] /\ r_cur r < 0 /\ r_files r <> []).

Lemma tagged_nil i p : tagged i p = [] -> p = [].
Proof.
  unfold tagged. intro H. apply map_eq_nil in H.
  destruct p as [|[l t] p]; [reflexivity|]. cbn [spans rev] in H.
  destruct (rev (spans p (0 + l + 1))); discriminate.
Qed.

Lemma files_nonempty r : r_files r <> [] <-> files r <> [].
Proof. unfold files. destruct (r_files r); cbn; split; congruence. Qed.

(** Reading when nothing is left: io.EOF, and the reader is past file 0. *)
Lemma reader_read_loop_eof me buf : 0 < me <= buf ->
  forall n r i p g, rinv me r i p g -> (i < n)%nat -> rexp r i p = [] ->
  exists r', reader_read_loop me buf n r = (None, r') /\ r_cur r' < 0 /\ files r' = files r.
Proof.
  intros Hme. induction n as [|n IH]; intros r i p g (Hc & (s & Hs & Hp) & Hok) Hn Hexp; [lia|].
  unfold rexp in Hexp. apply app_eq_nil in Hexp as [Hp0 Hrest]. apply tagged_nil in Hp0. subst p.
  cbn [reader_read_loop]. rewrite Hc.
  destruct (Z.ltb_spec (Z.of_nat i) 0); [lia|].
  rewrite (nth_file_nth_error _ _ _ Hs).
  cbn [fsize] in Hp. unfold read_next. rewrite Hp. change (Z.max 0 (0 - 1)) with 0. cbn [Z.eqb].
  destruct i as [|i'].
  - cbn. eexists. split; [reflexivity|]. cbn [r_cur]. split; [lia|reflexivity].
  - replace (Z.of_nat (S i') - 1) with (Z.of_nat i') by lia.
    destruct (Z.ltb_spec (Z.of_nat i') 0); [lia|].
    destruct (nth_error (r_files r) i') as [[f' s']|] eqn:E'.
    2:{ apply nth_error_None in E'. apply nth_error_Some_length in Hs. lia. }
    rewrite (nth_file_nth_error _ _ _ E').
    set (r2 := {| r_files := _; r_cur := _; r_fellback := _ |}).
    assert (Hfiles : files r2 = files r).
    { unfold files, r2, set_state. cbn [r_files]. rewrite Nat2Z.id.
      rewrite (nth_file_nth_error _ _ _ E'). cbn [fst].
      eapply map_fst_set_nth; eauto. }
    assert (Hinv : rinv me r2 i' f' []).
    { split; [reflexivity|]. split.
      - exists (seek_start f' s'). split; [|reflexivity].
        unfold r2, set_state. cbn [r_files]. rewrite Nat2Z.id, app_nil_r.
        rewrite (nth_file_nth_error _ _ _ E'). cbn [fst].
        eapply nth_error_set_nth_same; eauto.
      - rewrite Hfiles; auto. }
    assert (Hexp2 : rexp r2 i' f' = []).
    { unfold rexp. rewrite Hfiles. cbn [all_rev_upto] in Hrest.
      rewrite (files_nth _ _ _ _ E') in Hrest. exact Hrest. }
    destruct (IH r2 i' f' [] Hinv ltac:(lia) Hexp2) as (r' & H1 & H2 & H3).
    exists r'. split; [exact H1|]. split; [exact H2|]. congruence.
Qed.

(** *** ReadNext from a positioned state. *)
Theorem read_positions me buf r exp : 0 < me <= buf -> positioned me r exp ->
  match exp with
  | [] => exists r', reader_read_next me buf r = (None, r') /\ positioned me r' [] /\ files r' = files r
  | x :: rest => exists r', reader_read_next me buf r = (Some x, r') /\ positioned me r' rest /\ files r' = files r
  end.
Proof.
  intros Hme [(i & p & g & Hinv & Hexp)|(-> & Hc & Hne)].
  - destruct exp as [|x rest].
    + pose proof Hinv as (_ & (s & Hs & _) & _).
      pose proof (nth_error_Some_length _ _ _ Hs) as Hlen.
      destruct (reader_read_loop_eof me buf Hme (S (length (r_files r))) r i p g Hinv ltac:(lia) Hexp)
        as (r' & H1 & H2 & H3).
      exists r'. split; [|split; [|exact H3]].
      * unfold reader_read_next. destruct (r_files r); [cbn in Hlen; lia|exact H1].
      * right. split; [reflexivity|]. split; [exact H2|]. apply files_nonempty. rewrite H3.
        apply files_nonempty. intro E. rewrite E in Hlen. cbn in Hlen. lia.
    + destruct (reader_read_next_spec me buf r i p g x rest Hme Hinv Hexp) as (r' & i' & p' & g' & H1 & H2 & H3 & H4).
      exists r'. split; [exact H1|]. split; [|exact H4]. left. exists i', p', g'. auto.
  - exists r. split; [|split; [|reflexivity]].
    + unfold reader_read_next. destruct (r_files r) eqn:E; [congruence|].
      cbn [reader_read_loop]. destruct (Z.ltb_spec (r_cur r) 0); [reflexivity|lia].
    + right. auto.
Qed.

(** *** A seek that ends in an error leaves the reader positioned as it was:
    for every reader state, every file contents, every target. *)
Lemma rinv_transfer me r r' i p g :
  rinv me r i p g -> poss r' = poss r -> r_cur r' = r_cur r -> files r' = files r -> rinv me r' i p g.
Proof.
  intros (Hc & (s & Hs & Hp) & Hok) Hposs Hcur Hfiles.
  split; [congruence|]. split; [|rewrite Hfiles; exact Hok].
  assert (Ef : nth_error (files r') i = Some (p ++ g)).
  { rewrite Hfiles. unfold files. rewrite nth_error_map, Hs. reflexivity. }
  destruct (nth_files _ _ _ Ef) as [s' Hs']. exists s'. split; [exact Hs'|].
  assert (H1 : nth_error (poss r') i = Some (pos s')) by (unfold poss; rewrite nth_error_map, Hs'; reflexivity).
  assert (H2 : nth_error (poss r) i = Some (pos s)) by (unfold poss; rewrite nth_error_map, Hs; reflexivity).
  rewrite Hposs, H2 in H1. injection H1 as <-. exact Hp.
Qed.

Definition unfell (r : reader) : reader := {| r_files := r_files r; r_cur := r_cur r; r_fellback := false |}.

Lemma reader_seek_ts_loop me ts r : r_files r <> [] ->
  reader_seek_ts me ts r = reader_seek_loop me (length (r_files r)) ts (unfell r).
Proof. unfold reader_seek_ts, unfell. destruct (r_files r); [congruence|reflexivity]. Qed.

Lemma reader_seek_ts_nofiles me ts r : r_files r = [] -> reader_seek_ts me ts r = (RFound, unfell r).
Proof. unfold reader_seek_ts, unfell. intros ->. reflexivity. Qed.

Theorem failed_seek_positions me ts r res r' exp :
  positioned me r exp -> reader_seek_ts me ts r = (res, r') -> res = RNotFound \/ res = ROther ->
  positioned me r' exp /\ files r' = files r.
Proof.
  intros Hpos Hseek Hres.
  assert (Hcase : r_files r = [] \/ r_files r <> []) by (destruct (r_files r); [left; reflexivity|right; discriminate]).
  destruct Hcase as [E|E].
  { rewrite reader_seek_ts_nofiles in Hseek by exact E. injection Hseek as <- _. destruct Hres; discriminate. }
  rewrite reader_seek_ts_loop in Hseek by exact E.
  destruct (reader_seek_loop_failed me ts _ (unfell r) res r' Hseek Hres) as (H1 & H2 & _ & H4).
  change (files (unfell r)) with (files r) in H4. change (poss (unfell r)) with (poss r) in H1.
  change (r_cur (unfell r)) with (r_cur r) in H2.
  split; [|exact H4].
  destruct Hpos as [(i & p & g & Hinv & Hexp)|(-> & Hc & Hne)].
  - left. exists i, p, g. split; [eapply rinv_transfer; eauto|]. unfold rexp in *. rewrite H4. exact Hexp.
  - right. split; [reflexivity|]. split; [lia|]. apply files_nonempty. rewrite H4. apply files_nonempty. exact Hne.
Qed.

(** Reads from a positioned state return [exp], then stop. *)
Lemma read_all_positioned me buf : 0 < me <= buf ->
  forall exp fuel r, positioned me r exp -> (length exp < fuel)%nat -> reader_read_all me buf fuel r = exp.
Proof.
  intros Hme. induction exp as [|x rest IH]; intros fuel r Hpos Hf; (destruct fuel as [|fuel]; [cbn in Hf; lia|]).
  - destruct (read_positions me buf r [] Hme Hpos) as (r' & H1 & _). cbn [reader_read_all]. rewrite H1. reflexivity.
  - destruct (read_positions me buf r (x :: rest) Hme Hpos) as (r' & H1 & H2 & _).
    cbn [reader_read_all]. rewrite H1. f_equal. apply IH; auto. cbn in Hf. lia.
Qed.

(** *** The reads after a failed seek are the reads without the seek. *)
Theorem failed_seek_transparent me buf ts r res r' exp fuel :
  0 < me <= buf -> positioned me r exp -> reader_seek_ts me ts r = (res, r') ->
  res = RNotFound \/ res = ROther -> (length exp < fuel)%nat ->
  reader_read_all me buf fuel r' = reader_read_all me buf fuel r.
Proof.
  intros Hme Hpos Hseek Hres Hf.
  destruct (failed_seek_positions me ts r res r' exp Hpos Hseek Hres) as [Hpos' _].
  rewrite (read_all_positioned me buf Hme exp fuel r' Hpos' Hf).
  rewrite (read_all_positioned me buf Hme exp fuel r Hpos Hf). reflexivity.
Qed.

(** ** Positioning operations, from any reader state *)
Lemma positioned_flag me r b exp :
  positioned me {| r_files := r_files r; r_cur := r_cur r; r_fellback := b |} exp <-> positioned me r exp.
Proof. unfold positioned, rinv, rexp, files. cbn [r_files r_cur]. tauto. Qed.

Lemma file_ok_lines me fs : Forall (file_ok me) fs -> Forall (lines_ok me) fs.
Proof. intro H. eapply Forall_impl; [|exact H]. intros a Ha. apply Ha. Qed.

(** *** SeekStart: everything is to be read. *)
Theorem seek_start_positions me r : r_files r <> [] -> Forall (lines_ok me) (files r) ->
  positioned me (reader_seek_start r) (all_rev (files r)) /\ files (reader_seek_start r) = files r.
Proof.
  intros Hne Hok. set (fs := files r).
  assert (Hlen : length fs = length (r_files r)) by (unfold fs, files; apply map_length).
  assert (Hpos : (0 < length (r_files r))%nat) by (destruct (r_files r); [congruence|cbn; lia]).
  set (i := (length (r_files r) - 1)%nat).
  destruct (nth_error (r_files r) i) as [[f s]|] eqn:Hs; [|apply nth_error_None in Hs; lia].
  rewrite reader_seek_start_nonempty by exact Hne. cbv zeta.
  replace (Z.of_nat (length (r_files r)) - 1) with (Z.of_nat i) by lia.
  rewrite (nth_file_nth_error _ _ _ Hs).
  set (r2 := {| r_files := _; r_cur := _; r_fellback := _ |}).
  assert (Hfiles : files r2 = fs).
  { unfold files at 1, r2. cbn [r_files]. eapply files_set_state; eauto. }
  split; [|exact Hfiles]. left. exists i, f, []. split.
  - split; [reflexivity|]. split.
    + exists (seek_start f s). split; [|reflexivity].
      unfold r2, set_state. cbn [r_files]. rewrite Nat2Z.id, app_nil_r.
      rewrite (nth_file_nth_error _ _ _ Hs). cbn [fst]. eapply nth_error_set_nth_same; eauto.
    + rewrite Hfiles. exact Hok.
  - unfold rexp, all_rev. rewrite Hfiles. replace (length fs) with (S i) by lia.
    cbn [all_rev_upto]. unfold fs. rewrite (files_nth _ _ _ _ Hs). reflexivity.
Qed.

(** *** A seek that finds its record (file [i], line [t]; newer files wholly
    newer): the record and everything older is to be read. *)
Theorem seek_found_positions me r i f t l ts :
  0 < me -> Forall (file_ok me) (files r) ->
  nth_error (files r) i = Some f -> sorted_ts f -> nth_error f t = Some (l, ts) ->
  (forall j f', (i < j)%nat -> nth_error (files r) j = Some f' -> all_newer ts f') ->
  exists r', reader_seek_ts me ts r = (RFound, r') /\ files r' = files r /\
    positioned me r' ((Z.of_nat i, St f t, l) :: tagged i (firstn t f) ++ all_rev_upto i (files r)).
Proof.
  intros Hme Hok Ef Hs Et Hnew. set (fs := files r) in *.
  pose proof (nth_error_Some_length _ _ _ Ef) as Hi.
  assert (Hl0 : length (r_files r) = length fs) by (unfold fs, files; symmetry; apply map_length).
  assert (Hne : r_files r <> []) by (intro E; rewrite E in Hl0; cbn in Hl0; lia).
  rewrite reader_seek_ts_loop by exact Hne. set (r0 := unfell r).
  assert (Hf0 : files r0 = fs) by reflexivity.
  destruct (reader_seek_loop_skip me ts Hme (length (r_files r)) r0 i ltac:(unfold r0, unfell; cbn [r_files]; lia)
              ltac:(rewrite Hf0; auto) ltac:(intros j f' Hj; rewrite Hf0; apply Hnew; lia))
    as (r1 & Hr1 & Hf1 & _ & _).
  destruct (reader_seek_loop_found me ts r1 i f t l Hme ltac:(rewrite Hf1, Hf0; auto)
              ltac:(rewrite Hf1, Hf0; auto) Hs Et) as (r' & s & Hr' & Hf' & Hc' & _ & Hn' & Hp').
  exists r'. split; [rewrite Hr1; exact Hr'|]. split; [congruence|].
  assert (Hlf : lines_ok me f).
  { rewrite Forall_forall in Hok. apply (Hok f). eapply nth_error_In; eauto. }
  left. exists i, (firstn (S t) f), (skipn (S t) f). split.
  - split; [exact Hc'|]. split.
    + exists s. rewrite firstn_skipn. split; auto. rewrite Hp'.
      fold (St f (S t)). rewrite (St_succ _ _ _ _ Et).
      assert (0 <= St f t) by (apply (fsize_nonneg me); apply lines_ok_firstn; auto).
      pose proof (nth_line_ok _ _ _ _ _ Hlf Et). lia.
    + rewrite Hf', Hf1, Hf0. apply file_ok_lines. exact Hok.
  - unfold rexp. rewrite Hf', Hf1, Hf0.
    rewrite (firstn_S_snoc f t (0, 0)) by (eapply nth_error_Some_length; eauto).
    rewrite (nth_error_nth _ _ _ Et), tagged_snoc. reflexivity.
Qed.

(** *** A seek that falls back (file [i] wholly older than the stamp, newer
    files wholly newer: the stamp lies after the end of file [i]): everything
    is to be read. *)
Theorem seek_back_positions me r i f ts :
  0 < me -> Forall (file_ok me) (files r) ->
  nth_error (files r) i = Some f -> all_older ts f ->
  (forall j f', (i < j)%nat -> nth_error (files r) j = Some f' -> all_newer ts f') ->
  exists r', reader_seek_ts me ts r = (RFellBack, r') /\ files r' = files r /\
    r_fellback r' = true /\ positioned me r' (all_rev (files r)).
Proof.
  intros Hme Hok Ef Hold Hnew. set (fs := files r) in *.
  pose proof (nth_error_Some_length _ _ _ Ef) as Hi.
  assert (Hl0 : length (r_files r) = length fs) by (unfold fs, files; symmetry; apply map_length).
  assert (Hne : r_files r <> []) by (intro E; rewrite E in Hl0; cbn in Hl0; lia).
  rewrite reader_seek_ts_loop by exact Hne. set (r0 := unfell r).
  assert (Hf0 : files r0 = fs) by reflexivity.
  destruct (reader_seek_loop_skip me ts Hme (length (r_files r)) r0 i ltac:(unfold r0, unfell; cbn [r_files]; lia)
              ltac:(rewrite Hf0; auto) ltac:(intros j f' Hj; rewrite Hf0; apply Hnew; lia))
    as (r1 & Hr1 & Hf1 & _ & _).
  rewrite Hr1. rewrite Hf0 in Hf1.
  assert (Ef1 : nth_error (files r1) i = Some f) by (rewrite Hf1; exact Ef).
  destruct (nth_files _ _ _ Ef1) as [s0 E].
  assert (Hfok : file_ok me f).
  { rewrite Forall_forall in Hok. apply Hok. eapply nth_error_In; eauto. }
  destruct Hfok as (H1 & H2 & H3 & H4).
  cbn [reader_seek_loop]. rewrite (nth_file_nth_error _ _ _ E).
  unfold seek_ts_state. rewrite (seek_too_late me f ts Hme H1 H2 H3 H4 Hold).
  set (r2 := {| r_files := set_state r1 (Z.of_nat i) _; r_cur := r_cur r1; r_fellback := r_fellback r1 |}).
  assert (Hf2 : files r2 = fs).
  { rewrite <- Hf1. unfold files at 1, r2. cbn [r_files]. eapply files_set_state; eauto. }
  assert (Hne2 : r_files r2 <> []).
  { apply files_nonempty. rewrite Hf2. intro E0. rewrite E0 in Hi. cbn in Hi. lia. }
  destruct (seek_start_positions me r2 Hne2 ltac:(rewrite Hf2; apply file_ok_lines; exact Hok)) as [Hp Hfs].
  eexists. split; [reflexivity|]. cbn [r_files r_cur r_fellback].
  split; [unfold files at 1; cbn [r_files]; fold (files (reader_seek_start r2)); congruence|].
  split; [reflexivity|]. apply positioned_flag. rewrite <- Hf2. exact Hp.
Qed.

(** *** Seeks that find nothing report not-found (they do not fall back). *)
Theorem seek_between_notfound me r i f t l1 t1 l2 t2 ts :
  0 < me -> Forall (file_ok me) (files r) ->
  nth_error (files r) i = Some f -> sorted_ts f ->
  nth_error f t = Some (l1, t1) -> nth_error f (S t) = Some (l2, t2) -> t1 < ts < t2 ->
  (forall j f', (i < j)%nat -> nth_error (files r) j = Some f' -> all_newer ts f') ->
  exists r', reader_seek_ts me ts r = (RNotFound, r').
Proof.
  intros Hme Hok Ef Hs E1 E2 Hb Hnew. set (fs := files r) in *.
  pose proof (nth_error_Some_length _ _ _ Ef) as Hi.
  assert (Hl0 : length (r_files r) = length fs) by (unfold fs, files; symmetry; apply map_length).
  assert (Hne : r_files r <> []) by (intro E; rewrite E in Hl0; cbn in Hl0; lia).
  rewrite reader_seek_ts_loop by exact Hne. set (r0 := unfell r).
  assert (Hf0 : files r0 = fs) by reflexivity.
  destruct (reader_seek_loop_skip me ts Hme (length (r_files r)) r0 i ltac:(unfold r0, unfell; cbn [r_files]; lia)
              ltac:(rewrite Hf0; auto) ltac:(intros j f' Hj; rewrite Hf0; apply Hnew; lia))
    as (r1 & Hr1 & Hf1 & _ & _).
  rewrite Hr1. rewrite Hf0 in Hf1.
  apply (reader_seek_loop_absent me ts r1 i f t l1 t1 l2 t2 Hme); try rewrite Hf1; auto.
Qed.

Theorem seek_older_notfound me r ts :
  0 < me -> Forall (file_ok me) (files r) -> r_files r <> [] ->
  (forall j f', nth_error (files r) j = Some f' -> all_newer ts f') ->
  exists r', reader_seek_ts me ts r = (RNotFound, r').
Proof.
  intros Hme Hok Hne Hnew. set (fs := files r) in *.
  assert (Hl0 : length (r_files r) = length fs) by (unfold fs, files; symmetry; apply map_length).
  assert (Hpos : (0 < length (r_files r))%nat) by (destruct (r_files r); [congruence|cbn; lia]).
  rewrite reader_seek_ts_loop by exact Hne. set (r0 := unfell r).
  assert (Hf0 : files r0 = fs) by reflexivity.
  destruct (reader_seek_loop_skip me ts Hme (length (r_files r)) r0 0%nat ltac:(unfold r0, unfell; cbn [r_files]; lia)
              ltac:(rewrite Hf0; auto) ltac:(intros j f' Hj; rewrite Hf0; apply Hnew))
    as (r1 & Hr1 & Hf1 & _ & _).
  rewrite Hr1. rewrite Hf0 in Hf1.
  destruct (nth_error fs 0) as [f|] eqn:Ef; [|apply nth_error_None in Ef; lia].
  assert (Ef1 : nth_error (files r1) 0 = Some f) by (rewrite Hf1; exact Ef).
  destruct (nth_files _ _ _ Ef1) as [s0 E].
  assert (Hfok : file_ok me f).
  { rewrite Forall_forall in Hok. apply Hok. eapply nth_error_In; eauto. }
  destruct Hfok as (H1 & H2 & H3 & H4).
  cbn [reader_seek_loop]. rewrite (nth_file_nth_error _ _ _ E).
  unfold seek_ts_state. rewrite (seek_too_early me f ts Hme H1 H2 H3 H4 (Hnew 0%nat f Ef)).
  eexists. reflexivity.
Qed.

(** ** Whole histories *)
Inductive hop := HStart | HSeek (ts : Z) | HRead.
Inductive hobs := OStart | OSeek (res : rseek_res) | ORead (x : option (Z * Z * Z)).

Definition hstep (me buf : Z) (r : reader) (o : hop) : hobs * reader :=
  match o with
  | HStart => (OStart, reader_seek_start r)
  | HSeek ts => let (res, r') := reader_seek_ts me ts r in (OSeek res, r')
  | HRead => let (x, r') := reader_read_next me buf r in (ORead x, r')
  end.

Fixpoint hrun (me buf : Z) (r : reader) (ops : list hop) : list hobs :=
  match ops with
  | [] => []
  | o :: ops => let (b, r') := hstep me buf r o in b :: hrun me buf r' ops
  end.

(** What one operation must do, stated on the files [fs] (oldest first) and
    on the lines still to be returned ([exp], as (file, start, length)):
    the observation, and the lines to be returned afterwards. *)
Inductive hspec (fs : list qfile) : list (Z * Z * Z) -> hop -> hobs -> list (Z * Z * Z) -> Prop :=
  | SStart exp : hspec fs exp HStart OStart (all_rev fs)
  | SReadLine x rest : hspec fs (x :: rest) HRead (ORead (Some x)) rest
  | SReadEOF : hspec fs [] HRead (ORead None) []
  (* the stamp of line t of file i *)
  | SSeekFound exp ts i f t l :
      nth_error fs i = Some f -> sorted_ts f -> nth_error f t = Some (l, ts) ->
      (forall j f', (i < j)%nat -> nth_error fs j = Some f' -> all_newer ts f') ->
      hspec fs exp (HSeek ts) (OSeek RFound)
            ((Z.of_nat i, St f t, l) :: tagged i (firstn t f) ++ all_rev_upto i fs)
  (* a stamp after the end of file i and before the newer files *)
  | SSeekBack exp ts i f :
      nth_error fs i = Some f -> all_older ts f ->
      (forall j f', (i < j)%nat -> nth_error fs j = Some f' -> all_newer ts f') ->
      hspec fs exp (HSeek ts) (OSeek RFellBack) (all_rev fs)
  (* a stamp between two neighbouring lines of file i: an error, [exp] stays *)
  | SSeekBetween exp ts i f t l1 t1 l2 t2 :
      nth_error fs i = Some f -> sorted_ts f ->
      nth_error f t = Some (l1, t1) -> nth_error f (S t) = Some (l2, t2) -> t1 < ts < t2 ->
      (forall j f', (i < j)%nat -> nth_error fs j = Some f' -> all_newer ts f') ->
      hspec fs exp (HSeek ts) (OSeek RNotFound) exp
  (* a stamp older than every line of every file: an error, [exp] stays *)
  | SSeekOlder exp ts :
      (forall j f', nth_error fs j = Some f' -> all_newer ts f') ->
      hspec fs exp (HSeek ts) (OSeek RNotFound) exp.

Inductive hspec_run (fs : list qfile) : list (Z * Z * Z) -> list hop -> list hobs -> Prop :=
  | HNil exp : hspec_run fs exp [] []
  | HCons exp o b exp' ops bs :
      hspec fs exp o b exp' -> hspec_run fs exp' ops bs -> hspec_run fs exp (o :: ops) (b :: bs).

Lemma hstep_correct me buf fs r exp o b exp' :
  0 < me <= buf -> Forall (file_ok me) fs -> fs <> [] -> files r = fs -> positioned me r exp ->
  hspec fs exp o b exp' ->
  exists r', hstep me buf r o = (b, r') /\ files r' = fs /\ positioned me r' exp'.
Proof.
  intros Hme Hok Hne Hfs Hpos Hsp.
  assert (Hne' : r_files r <> []) by (apply files_nonempty; rewrite Hfs; exact Hne).
  destruct Hsp as [exp|x rest| |exp ts i f t l A1 A2 A3 A4|exp ts i f A1 A2 A3
                   |exp ts i f t l1 t1 l2 t2 A1 A2 A3 A4 A5 A6|exp ts A1].
  - cbn [hstep]. destruct (seek_start_positions me r Hne' ltac:(rewrite Hfs; apply file_ok_lines; exact Hok)) as [H1 H2].
    eexists. split; [reflexivity|]. rewrite <- Hfs at 2. split; [congruence|exact H1].
  - destruct (read_positions me buf r (x :: rest) Hme Hpos) as (r' & H1 & H2 & H3).
    cbn [hstep]. rewrite H1. exists r'. split; [reflexivity|]. split; [congruence|exact H2].
  - destruct (read_positions me buf r [] Hme Hpos) as (r' & H1 & H2 & H3).
    cbn [hstep]. rewrite H1. exists r'. split; [reflexivity|]. split; [congruence|exact H2].
  - subst fs. destruct (seek_found_positions me r i f t l ts ltac:(lia) Hok A1 A2 A3 A4) as (r' & H3 & H4 & H5).
    cbn [hstep]. rewrite H3. exists r'. auto.
  - subst fs. destruct (seek_back_positions me r i f ts ltac:(lia) Hok A1 A2 A3) as (r' & H3 & H4 & _ & H5).
    cbn [hstep]. rewrite H3. exists r'. auto.
  - subst fs. destruct (seek_between_notfound me r i f t l1 t1 l2 t2 ts ltac:(lia) Hok A1 A2 A3 A4 A5 A6) as (r' & H5).
    destruct (failed_seek_positions me ts r RNotFound r' exp Hpos H5 (or_introl eq_refl)) as [H6 H7].
    cbn [hstep]. rewrite H5. exists r'. auto.
  - subst fs. destruct (seek_older_notfound me r ts ltac:(lia) Hok Hne' A1) as (r' & H5).
    destruct (failed_seek_positions me ts r RNotFound r' exp Hpos H5 (or_introl eq_refl)) as [H6 H7].
    cbn [hstep]. rewrite H5. exists r'. auto.
Qed.

(** *** Any history on one reader: the observations are the specified ones. *)
Theorem history_correct me buf fs : 0 < me <= buf -> Forall (file_ok me) fs -> fs <> [] ->
  forall ops r exp bs, files r = fs -> positioned me r exp -> hspec_run fs exp ops bs ->
  hrun me buf r ops = bs.
Proof.
  intros Hme Hok Hne. induction ops as [|o ops IH]; intros r exp bs Hfs Hpos Hrun;
    inversion Hrun as [|? ? b exp' ? bs' Hs Hr]; subst; [reflexivity|].
  destruct (hstep_correct me buf (files r) r exp o b exp' Hme Hok Hne eq_refl Hpos Hs) as (r' & E1 & E3 & E4).
  cbn [hrun]. rewrite E1. f_equal. eapply IH; eauto.
Qed.

(** A reader that was never positioned is positioned too: on everything but
    the newest file (newQLogReader leaves every file at position 0, which
    ReadNext takes for an exhausted newest file). *)
Lemma new_reader_positioned me fs : fs <> [] -> Forall (lines_ok me) fs ->
  files (new_reader fs) = fs /\ positioned me (new_reader fs) (all_rev_upto (length fs - 1) fs).
Proof.
  intros Hne Hok.
  assert (Hfl : files (new_reader fs) = fs).
  { unfold files, new_reader. cbn [r_files]. rewrite map_map. cbn. apply map_id. }
  split; [exact Hfl|].
  assert (Hlen : (0 < length fs)%nat) by (destruct fs; [congruence|cbn; lia]).
  set (i := (length fs - 1)%nat).
  destruct (nth_error fs i) as [f|] eqn:E; [|apply nth_error_None in E; lia].
  left. exists i, [], f. split.
  - split; [unfold new_reader; cbn [r_cur]; lia|]. split.
    + exists rstate0. split; [|reflexivity]. unfold new_reader. cbn [r_files app].
      rewrite nth_error_map, E. reflexivity.
    + rewrite Hfl. exact Hok.
  - unfold rexp. rewrite Hfl. reflexivity.
Qed.

(** The premises are satisfiable: a history with a failed seek of each kind
    in the middle of a run, in the newest and in the rotated file. *)
Example history_example :
  let old := [(5, 1); (4, 3)] in
  let cur := [(5, 11); (7, 13); (3, 15)] in
  let fs := [old; cur] in
  Forall (file_ok 8) fs /\
  hrun 8 800 (new_reader fs)
       [HStart; HRead; HSeek 0; HRead; HSeek 12; HRead; HRead; HSeek 2; HRead; HSeek 5; HRead; HSeek 3; HRead; HRead; HRead]
  = [OStart; ORead (Some (1, 14, 3)); OSeek RNotFound; ORead (Some (1, 6, 7)); OSeek RNotFound;
     ORead (Some (1, 0, 5)); ORead (Some (0, 6, 4)); OSeek RNotFound; ORead (Some (0, 0, 5));
     OSeek RFellBack; ORead (Some (1, 14, 3)); OSeek RFound; ORead (Some (0, 6, 4)); ORead (Some (0, 0, 5)); ORead None].
Proof.
  cbv zeta. split.
  - repeat constructor; cbn; try lia; try discriminate; unfold size_ok; cbn; lia.
  - vm_compute. reflexivity.
Qed.

(** Round 6 (C02).  Response filtering over the whole upstream message
    (Model/PipelineAnswer.v): the verdict depends on the client's filtering
    flag and on the records of the ANSWER section only: not on the response
    code, not on the authority and additional sections, not on the TC flag,
    not on the question of the message; a delivered message reaches the
    client with everything but the (stripped) answer section unchanged; the
    variant that returns early for a code other than NOERROR is refuted. *)
From Coq Require Import List NArith Bool Lia.
From AGH Require Import Base.Run Base.NetAddr Base.RuleEngine Model.Pipeline Model.PipelineAnswer Proofs.Pipeline.
From AGH Require Model.Rewrites.
Import ListNotations.
Local Open Scope N_scope.

Section Answer.
  Variable allow_eng block_eng : ufreq -> dnsresult * bool.
  Variable sb_oracle par_oracle : bytes -> bool.
  Variable ss_oracle : bytes -> N -> option ssverdict.
  Variable rw_sort : list Rewrites.entry -> list Rewrites.entry.

  Notation filter_response := (filter_response allow_eng block_eng).
  Notation filter_response_with := (filter_response_with allow_eng block_eng).
  Notation filter_answer := (filter_answer allow_eng block_eng).
  Notation check_rr := (check_rr allow_eng block_eng).
  Notation clean := (clean allow_eng block_eng).
  Notation process := (process allow_eng block_eng sb_oracle par_oracle ss_oracle rw_sort).
  Notation passes_request_stage := (passes_request_stage allow_eng block_eng sb_oracle par_oracle ss_oracle rw_sort).
  Notation after_upstream := (after_upstream allow_eng block_eng).

  (** * The function reads the answer section and the filtering flag only *)

  (** [f] changes a message outside its answer section. *)
  Definition outside_answer (f : resp -> resp) : Prop :=
    forall r, rs_answer (f r) = rs_answer r /\ forall ans, with_answer (f r) ans = f (with_answer r ans).

  Lemma set_rcode_outside rc : outside_answer (set_rcode rc).
  Proof. intros r. split; [reflexivity | intros; reflexivity]. Qed.
  Lemma set_authority_outside soa ns : outside_answer (set_authority soa ns).
  Proof. intros r. split; [reflexivity | intros; reflexivity]. Qed.
  Lemma set_additional_outside ex : outside_answer (set_additional ex).
  Proof. intros r. split; [reflexivity | intros; reflexivity]. Qed.
  Lemma set_tc_outside tc : outside_answer (set_tc tc).
  Proof. intros r. split; [reflexivity | intros; reflexivity]. Qed.
  Lemma set_qcase_outside k : outside_answer (set_qcase k).
  Proof. intros r. split; [reflexivity | intros; reflexivity]. Qed.

  Lemma outside_compose f g : outside_answer f -> outside_answer g -> outside_answer (fun r => f (g r)).
  Proof.
    intros Hf Hg r. destruct (Hf (g r)) as [Hf1 Hf2], (Hg r) as [Hg1 Hg2]. split.
    - rewrite Hf1. exact Hg1.
    - intros ans. rewrite Hf2, Hg2. reflexivity.
  Qed.

  (** Whatever is changed outside the answer section: the same verdict, the
      same filtering result, and the message left behind (delivered, or kept as
      the original for the log) differs by exactly that change. *)
  Theorem filter_response_outside_answer f c st r :
    outside_answer f ->
    filter_response c st (f r) = map_message f (filter_response c st r).
  Proof.
    intros Hf. destruct (Hf r) as [Ha Hw].
    unfold PipelineAnswer.filter_response, PipelineAnswer.filter_response_with, guard_as_written.
    destruct (negb (st_filtering st)); [reflexivity|]. rewrite Ha.
    destruct (filter_answer c st (rs_answer r)) as [ans' [res|]]; cbn [map_message]; rewrite Hw; reflexivity.
  Qed.

  Theorem filter_response_ignores_rcode c st r rc :
    filter_response c st (set_rcode rc r) = map_message (set_rcode rc) (filter_response c st r).
  Proof. apply filter_response_outside_answer, set_rcode_outside. Qed.

  Theorem filter_response_ignores_authority c st r soa ns :
    filter_response c st (set_authority soa ns r) = map_message (set_authority soa ns) (filter_response c st r).
  Proof. apply filter_response_outside_answer, set_authority_outside. Qed.

  Theorem filter_response_ignores_additional c st r ex :
    filter_response c st (set_additional ex r) = map_message (set_additional ex) (filter_response c st r).
  Proof. apply filter_response_outside_answer, set_additional_outside. Qed.

  Theorem filter_response_ignores_tc c st r tc :
    filter_response c st (set_tc tc r) = map_message (set_tc tc) (filter_response c st r).
  Proof. apply filter_response_outside_answer, set_tc_outside. Qed.

  Theorem filter_response_ignores_question_case c st r k :
    filter_response c st (set_qcase k r) = map_message (set_qcase k) (filter_response c st r).
  Proof. apply filter_response_outside_answer, set_qcase_outside. Qed.

  (** Two messages with the same answer section get the same verdict and
      the same result. *)
  Definition result_of (v : fverdict) : option result :=
    match v with Replaced res _ => Some res | Delivered _ => None end.

  Theorem filter_response_reads_answer_section_only c st r r' :
    rs_answer r = rs_answer r' ->
    result_of (filter_response c st r) = result_of (filter_response c st r').
  Proof.
    intros H. unfold PipelineAnswer.filter_response, PipelineAnswer.filter_response_with, guard_as_written.
    destruct (negb (st_filtering st)); [reflexivity|]. rewrite H.
    destruct (filter_answer c st (rs_answer r')) as [ans' [res|]]; reflexivity.
  Qed.

  (** * What is left behind *)

  Lemma filter_answer_none c st ans ans' :
    filter_answer c st ans = (ans', None) -> ans' = map (strip_rr c) ans /\ Forall (clean c st) ans.
  Proof.
    revert ans'. induction ans as [|r rest IH]; intros ans'; cbn [Pipeline.filter_answer].
    - intros [= <-]. split; [reflexivity | constructor].
    - destruct (check_rr st (strip_rr c r)) as [res|] eqn:E; [discriminate|].
      destruct (filter_answer c st rest) as [rest' fr] eqn:Er. intros [= <- ->].
      destruct (IH _ eq_refl) as [-> Hc]. split; [reflexivity | constructor; [exact E | exact Hc]].
  Qed.

  Lemma filter_answer_some c st ans ans' res :
    filter_answer c st ans = (ans', Some res) ->
    r_filtered res = true /\ r_reason res = FilteredBlockList /\
    exists pre rr0 post, ans = pre ++ rr0 :: post /\ Forall (clean c st) pre /\
                         check_rr st (strip_rr c rr0) = Some res.
  Proof.
    revert ans'. induction ans as [|r rest IH]; intros ans'; cbn [Pipeline.filter_answer]; [discriminate|].
    destruct (check_rr st (strip_rr c r)) as [res0|] eqn:E.
    - intros [= <- <-]. destruct (check_rr_reason _ _ sb_oracle par_oracle ss_oracle _ _ _ E) as [H1 H2].
      split; [exact H1|]. split; [exact H2|]. exists [], r, rest. repeat split; [constructor | exact E].
    - destruct (filter_answer c st rest) as [rest' fr] eqn:Er. intros [= <- ->].
      destruct (IH _ eq_refl) as (H1 & H2 & pre & rr0 & post & -> & Hpre & Hrr).
      split; [exact H1|]. split; [exact H2|]. exists (r :: pre), rr0, post.
      repeat split; [constructor; [exact E | exact Hpre] | exact Hrr].
  Qed.

  (** A delivered message: code, authority, additional, TC flag and question
      as the upstream sent them; the answer section as it came, or (examined)
      with the IPv6 hints of its HTTPS records removed when AAAA is disabled. *)
  Theorem delivered_message_unchanged c st r r' :
    filter_response c st r = Delivered r' ->
    rs_rcode r' = rs_rcode r /\ rs_soa r' = rs_soa r /\ rs_ns r' = rs_ns r /\ rs_extra r' = rs_extra r /\
    rs_tc r' = rs_tc r /\ rs_qcase r' = rs_qcase r /\
    (rs_answer r' = rs_answer r \/
     st_filtering st = true /\ rs_answer r' = map (strip_rr c) (rs_answer r) /\
     Forall (clean c st) (rs_answer r)).
  Proof.
    unfold PipelineAnswer.filter_response, PipelineAnswer.filter_response_with, guard_as_written.
    destruct (st_filtering st) eqn:Ef; cbn [negb].
    - destruct (filter_answer c st (rs_answer r)) as [ans' [res|]] eqn:E; [discriminate|].
      intros [= <-]. destruct (filter_answer_none _ _ _ _ E) as [-> Hc].
      repeat split; try reflexivity. right. repeat split; [exact Hc].
    - intros [= <-]. repeat split; try reflexivity. left. reflexivity.
  Qed.

  Corollary delivered_message_identical_when_aaaa_enabled c st r r' :
    c_aaaa_disabled c = false -> filter_response c st r = Delivered r' -> r' = r.
  Proof.
    intros Ha H. destruct (delivered_message_unchanged _ _ _ _ H) as (H1 & H2 & H3 & H4 & H5 & H6 & H7).
    assert (Hans : rs_answer r' = rs_answer r).
    { destruct H7 as [H7 | (_ & H7 & _)]; [exact H7|]. rewrite H7. apply map_strip_id. exact Ha. }
    destruct r, r'. cbn in *. congruence.
  Qed.

  (** An offending record anywhere in the answer section, whatever the code,
      the other sections, the flag: replaced. *)
  Theorem offending_record_replaces c st r pre rr0 post res :
    st_filtering st = true ->
    rs_answer r = pre ++ rr0 :: post ->
    Forall (clean c st) pre ->
    check_rr st (strip_rr c rr0) = Some res ->
    forall f, outside_answer f ->
    filter_response c st (f r) =
      Replaced res (f (with_answer r (map (strip_rr c) pre ++ strip_rr c rr0 :: post))).
  Proof.
    intros Hf Hans Hpre Hrr f Hout. rewrite (filter_response_outside_answer f _ _ _ Hout).
    unfold PipelineAnswer.filter_response, PipelineAnswer.filter_response_with, guard_as_written.
    rewrite Hf. cbn [negb]. rewrite Hans, (filter_answer_first _ _ _ _ _ _ _ _ Hpre Hrr). reflexivity.
  Qed.

  (** Replaced iff some record of the answer section offends (and the
      client's filtering is on). *)
  Theorem replaced_iff_some_record_offends c st r :
    is_replaced (filter_response c st r) = true <->
    st_filtering st = true /\ Exists (offending allow_eng block_eng c st) (rs_answer r).
  Proof.
    unfold PipelineAnswer.filter_response, PipelineAnswer.filter_response_with, guard_as_written.
    destruct (st_filtering st); cbn [negb].
    - rewrite <- answer_blocked_iff. unfold answer_blocked.
      destruct (filter_answer c st (rs_answer r)) as [ans' [res|]]; cbn [is_replaced snd].
      + split; auto.
      + split; [discriminate | intros [_ H]; exact H].
    - cbn. split; [discriminate | intros [H _]; discriminate].
  Qed.

  (** * The pipeline's outcome for a forwarded question is this verdict *)

  Lemma after_upstream_is_filter_response c up q res r :
    r_reason res = NotFilteredNotFound -> protection_on c = true ->
    after_upstream c up q res r =
    match filter_response c (request_settings c q) r with
    | Replaced fr _ =>
        mkOutcome (Some (fst (filter_message c up (q_name q) (q_qtype q) fr))) [the_call q] fr true true (q_name q)
    | Delivered r' => mkOutcome (Some r') [the_call q] res false true (resp_qname r (q_name q))
    end.
  Proof.
    intros Hr Hp. unfold Pipeline.after_upstream. rewrite Hr, Hp. cbn [negb orb].
    unfold PipelineAnswer.filter_response, PipelineAnswer.filter_response_with, guard_as_written.
    destruct (negb (st_filtering (request_settings c q))); [reflexivity|].
    destruct (filter_answer c (request_settings c q) (rs_answer r)) as [ans' [fr|]]; reflexivity.
  Qed.

  (** For every request that reaches the upstream with its own question and
      every two upstream answers that differ only outside the answer section
      (the response code; the authority and additional sections; the TC
      flag): the same verdict, the same result, the same upstream calls; a
      replaced answer is replaced by the same blocking-mode answer; a
      delivered answer differs by exactly what the upstream answers differ
      by. *)
  Theorem response_filtering_ignores_outside_answer f c up up' q res r :
    outside_answer f -> (forall r0 n, resp_qname (f r0) n = resp_qname r0 n) ->
    passes_request_stage c q res ->
    up (q_name q) (q_qtype q) = Some r ->
    up' (q_name q) (q_qtype q) = Some (f r) ->
    let o := process c up q in
    let o' := process c up' q in
    o_orig_kept o' = o_orig_kept o /\ o_result o' = o_result o /\ o_calls o' = o_calls o /\
    o_qname o' = o_qname o /\ o_logged o' = o_logged o /\
    o_resp o' = if o_orig_kept o then o_resp o else option_map f (o_resp o).
  Proof.
    intros Hout Hq Hpass Hu Hu'. cbv zeta. destruct (Hout r) as [Ha Hw].
    rewrite !(passes_outcome _ _ _ _ _ _ _ _ _ _ Hpass). unfold forward_outcome. rewrite Hu, Hu'.
    destruct Hpass as (_ & _ & _ & Hr). unfold Pipeline.after_upstream. rewrite Hq.
    destruct Hr as [-> | ->]; [|repeat split].
    destruct (negb (protection_on c) || negb (st_filtering (request_settings c q))); [repeat split|].
    rewrite Ha.
    destruct (filter_answer c (request_settings c q) (rs_answer r)) as [ans' [fr|]] eqn:E.
    - destruct (filter_answer_some _ _ _ _ _ E) as (_ & Hrr & _).
      rewrite !(filter_message_synthetic _ _ _ _ _ (or_introl Hrr)). repeat split.
    - cbn [o_orig_kept o_resp option_map]. rewrite Hw. repeat split.
  Qed.

  Theorem response_filtering_ignores_rcode c up up' q res r rc :
    passes_request_stage c q res ->
    up (q_name q) (q_qtype q) = Some r ->
    up' (q_name q) (q_qtype q) = Some (set_rcode rc r) ->
    let o := process c up q in
    let o' := process c up' q in
    o_orig_kept o' = o_orig_kept o /\ o_result o' = o_result o /\ o_calls o' = o_calls o /\
    o_qname o' = o_qname o /\ o_logged o' = o_logged o /\
    o_resp o' = if o_orig_kept o then o_resp o else option_map (set_rcode rc) (o_resp o).
  Proof.
    apply response_filtering_ignores_outside_answer; [apply set_rcode_outside | reflexivity].
  Qed.

  (** The question's case inside the upstream answer: the same verdict; a
      delivered message carries the upstream's question, the blocking-mode
      answer the client's. *)
  Theorem response_filtering_ignores_question_case c up up' q res r k :
    passes_request_stage c q res ->
    up (q_name q) (q_qtype q) = Some r ->
    up' (q_name q) (q_qtype q) = Some (set_qcase k r) ->
    let o := process c up q in
    let o' := process c up' q in
    o_orig_kept o' = o_orig_kept o /\ o_result o' = o_result o /\ o_calls o' = o_calls o /\
    o_qname o' = (if o_orig_kept o then q_name q else resp_qname (set_qcase k r) (q_name q)) /\
    o_resp o' = if o_orig_kept o then o_resp o else option_map (set_qcase k) (o_resp o).
  Proof.
    intros Hpass Hu Hu'. cbv zeta.
    rewrite !(passes_outcome _ _ _ _ _ _ _ _ _ _ Hpass). unfold forward_outcome. rewrite Hu, Hu'.
    destruct Hpass as (_ & _ & _ & Hr). unfold Pipeline.after_upstream.
    destruct Hr as [-> | ->]; [|repeat split].
    destruct (negb (protection_on c) || negb (st_filtering (request_settings c q))); [repeat split|].
    change (rs_answer (set_qcase k r)) with (rs_answer r).
    destruct (filter_answer c (request_settings c q) (rs_answer r)) as [ans' [fr|]] eqn:E.
    - destruct (filter_answer_some _ _ _ _ _ E) as (_ & Hrr & _).
      rewrite !(filter_message_synthetic _ _ _ _ _ (or_introl Hrr)). repeat split.
    - repeat split.
  Qed.

  (** * The early return on a code other than NOERROR *)

  (** On NOERROR answers the two policies agree (why ordinary tests cannot
      tell them apart). *)
  Theorem noerror_only_guard_agrees_on_noerror c st r :
    rs_rcode r = rcSuccess ->
    filter_response_with guard_noerror_only c st r = filter_response c st r.
  Proof.
    intros H. unfold PipelineAnswer.filter_response, PipelineAnswer.filter_response_with,
      guard_noerror_only, guard_as_written.
    rewrite H. cbn [N.eqb rcSuccess]. rewrite andb_true_r. reflexivity.
  Qed.

  (** Under it every answer with another code is delivered as it is. *)
  Theorem noerror_only_guard_delivers_every_failed_answer c st r :
    rs_rcode r <> rcSuccess -> filter_response_with guard_noerror_only c st r = Delivered r.
  Proof.
    intros H. unfold PipelineAnswer.filter_response_with, guard_noerror_only.
    apply N.eqb_neq in H. rewrite H, andb_false_r. reflexivity.
  Qed.
End Answer.

(** The witness: the question x.test, the block rule of [ex_block_rules] for
    a.test, the upstream answers NXDOMAIN with "x.test CNAME b.a.test" (and an
    address) in the answer section (RFC 2308 section 2.1 / RFC 6604: the chain
    ends at a name that does not exist).  The code as written replaces the
    answer; with the early return on the code it is delivered as it came. *)
Definition ex_nx_answer : resp := set_rcode rcNXDomain ex_answer.

Theorem noerror_only_guard_refuted :
  let a := match_request [] in
  let b := match_request ex_block_rules in
  let c := ex_cfg MDefault in
  let st := request_settings c ex_query_other in
  rs_rcode ex_nx_answer = rcNXDomain /\
  st_filtering st = true /\ st_protection st = true /\
  is_replaced (filter_response a b c st ex_nx_answer) = true /\
  filter_response_with a b guard_noerror_only c st ex_nx_answer = Delivered ex_nx_answer.
Proof. cbv zeta. repeat split; vm_compute; reflexivity. Qed.

(** The premises of [response_filtering_ignores_rcode] are satisfiable, and
    its conclusion is not vacuous: the answer of [ex_answer] is replaced for
    every code. *)
Example ex_ignores_rcode_premises rc :
  let a := match_request [] in
  let b := match_request ex_block_rules in
  let c := ex_cfg MNXDomain in
  passes_request_stage a b (fun _ => false) (fun _ => false) no_ss Rewrites.isort c ex_query_other no_result /\
  is_replaced (filter_response a b c (request_settings c ex_query_other) (set_rcode rc ex_answer)) = true.
Proof.
  cbv zeta. split.
  - unfold passes_request_stage. repeat split; try (vm_compute; reflexivity). left. reflexivity.
  - rewrite filter_response_ignores_rcode. vm_compute. reflexivity.
Qed.

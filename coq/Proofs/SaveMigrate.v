(** The migration of the legacy lease database (Model/SaveLoop.v, round 6
    (K)): a save whose data live in TWO paths, the legacy [old] and the new
    [dst].  As the code is (remove the legacy file ONLY after the atomic write
    of the new one succeeded), for every legacy content, chunking and fault
    plan of the write, and whether or not the removal itself fails: at every
    instant and after a crash at every prefix the leases are recoverable: the
    new file is complete, or the legacy file is still there and complete.  The
    variant that removes the legacy file whatever the write did is refuted. *)
From Coq Require Import List NArith Bool Lia.
From AGH Require Import Base.FS Proofs.FS Model.SaveLoop Proofs.SaveLoop.
Import ListNotations.
Local Open Scope N_scope.

(** ** Two paths at once *)

Lemma crash_views_dviews s p : crash_views s p = flat_map (fun d => dviews d s p) (all_dirs s).
Proof. reflexivity. Qed.

(** Under [inv] every directory of the journal shows one of [vs] at [p],
    whatever the crash does to the file. *)
Lemma dviews_inv s p vs d v : inv s p vs -> In d (all_dirs s) -> In v (dviews d s p) -> In v vs.
Proof.
  intros H Hd Hv. apply (inv_now s p vs v H). right.
  rewrite crash_views_dviews. apply in_flat_map. exists d. auto.
Qed.

Lemma pair_now_snd s p q vs v w :
  inv s q vs -> In (v, w) ((live_view s p, live_view s q) :: crash_pairs s p q) -> In w vs.
Proof.
  intros H [E|Hin].
  - inversion E; subst. apply (inv_now s q vs _ H). left. reflexivity.
  - unfold crash_pairs in Hin. apply in_flat_map in Hin. destruct Hin as (d & Hd & Hin).
    apply in_prod_iff in Hin. destruct Hin as [_ Hw]. eapply dviews_inv; eauto.
Qed.

(** While a trace does nothing to [q] (accepted by the checker FOR [q], and
    publishes nothing there), [q] shows its version in every pair. *)
Lemma pairs_bystander t : forall s p q vs,
  inv s q vs -> trace_safe q s t = true -> versions s t q = [] ->
  forall v w, In (v, w) (visible_pairs s t p q) -> In w vs.
Proof.
  induction t as [|o t IH]; intros s p q vs H Hs Hv v w Hin; cbn [visible_pairs trace_safe versions] in *.
  - rewrite app_nil_r in Hin. eapply pair_now_snd; eauto.
  - apply andb_prop in Hs. destruct Hs as [Ho Hs]. apply app_eq_nil in Hv. destruct Hv as [Hp Hv].
    apply in_app_or in Hin. destruct Hin as [Hin|Hin]; [eapply pair_now_snd; eauto|].
    pose proof (step_inv s o q vs H Ho) as H'. rewrite Hp, app_nil_r in H'.
    eapply IH; eauto.
Qed.

Lemma visible_pairs_app t1 : forall s t2 p q x,
  In x (visible_pairs s (t1 ++ t2) p q) ->
  In x (visible_pairs s t1 p q) \/ In x (visible_pairs (run s t1) t2 p q).
Proof.
  induction t1 as [|o t1 IH]; intros s t2 p q x Hin.
  - right. exact Hin.
  - rewrite <- app_comm_cons in Hin. cbn [visible_pairs] in *. rewrite run_cons.
    apply in_app_or in Hin. destruct Hin as [Hin|Hin].
    + left. apply in_or_app. left. exact Hin.
    + destruct (IH _ _ _ _ _ Hin) as [H|H]; [left; apply in_or_app; right; exact H|right; exact H].
Qed.

(** ** The write of the new file does nothing to the legacy file *)

Definition quiet2 (q : path) (o : op) : Prop :=
  match o with
  | Fsync _ | Close _ => True
  | Unlink p => p <> q
  | Rename a b => a <> q /\ b <> q
  | _ => False
  end.

Lemma quiet2_tail q tail : Forall (quiet2 q) tail ->
  forall s, trace_safe q s tail = true /\ versions s tail q = [].
Proof.
  induction 1 as [|o tail Ho _ IH]; intros s; cbn [trace_safe versions]; [auto|].
  destruct (IH (step s o)) as [Hs Hv]. rewrite Hs, Hv.
  destruct o; cbn in Ho; try contradiction; cbn [step_ok published app andb]; auto.
  - destruct Ho as [Ha Hb]. apply N.eqb_neq in Ha, Hb. rewrite Ha, Hb. auto.
  - apply N.eqb_neq in Ho. rewrite Ho. auto.
Qed.

(** A save onto [dst], seen from another path [q] for which the temporary
    name is fresh as well: accepted, nothing published at [q]. *)
Lemma save_ops_bystander cl s dst q tmp fd done e p :
  fresh_tmp s q tmp -> dst <> q ->
  let t := fst (save_ops cl fd tmp dst done e p) in
  trace_safe q s t = true /\ versions s t q = [].
Proof.
  intros Hf Hne. pose proof (tmp_ne_dst _ _ _ Hf) as Htq. cbn zeta. unfold save_ops.
  destruct (p_open p); [cbn; auto|].
  assert (Hq : forall tail, Forall (quiet2 q) tail ->
               trace_safe q s ((Open fd tmp fl_tmp :: map (Write fd) done) ++ tail) = true /\
               versions s ((Open fd tmp fl_tmp :: map (Write fd) done) ++ tail) q = []).
  { intros tail Ht. rewrite <- app_comm_cons.
    destruct (open_filling s q tmp fd Hf) as (Ho & Hp & Hfill).
    cbn [trace_safe versions]. rewrite Ho, Hp. cbn [andb app].
    rewrite trace_safe_app, versions_app.
    destruct (filling_writes q tmp fd _ done _ [] Hfill) as (Hs & Hv & _).
    rewrite Hs, Hv. cbn [andb app]. apply quiet2_tail, Ht. }
  destruct e as [stg| |].
  - cbn [fst]. apply Hq. repeat constructor. exact Htq.
  - cbn [fst]. apply Hq. repeat constructor. exact Htq.
  - unfold replace_ops.
    destruct (p_sync p). { cbn [fst]. apply Hq. destruct cl; repeat constructor. exact Htq. }
    destruct (p_close p). { cbn [fst]. apply Hq. destruct cl; repeat constructor. exact Htq. }
    destruct (p_rename p). { cbn [fst]. apply Hq. destruct cl; repeat constructor. exact Htq. }
    cbn [fst]. apply Hq. repeat constructor; assumption.
Qed.

Lemma write_file_bystander s dst q tmp fd chunks p :
  fresh_tmp s q tmp -> dst <> q ->
  let t := fst (write_file fd tmp dst chunks p) in
  trace_safe q s t = true /\ versions s t q = [].
Proof.
  intros Hf Hne. cbn zeta. unfold write_file.
  destruct (do_writes chunks (p_write p)) as [done ok]. apply save_ops_bystander; assumption.
Qed.

(** ** The state after the removal of the legacy file *)

Lemma live_unlink_other s p q : p <> q -> live_view (step s (Unlink q)) p = live_view s p.
Proof.
  intros Hne. unfold live_view, view. cbn [step].
  destruct (aget (dir_cur s) q) as [i|]; [|reflexivity].
  cbn [set_dir dir_cur]. rewrite aget_adel.
  destruct (N.eqb_spec p q); [congruence|].
  destruct (aget (dir_cur s) p); reflexivity.
Qed.

Lemma live_unlink_self s q : live_view (step s (Unlink q)) q = None.
Proof.
  unfold live_view, view. cbn [step].
  destruct (aget (dir_cur s) q) eqn:E.
  - cbn [set_dir dir_cur]. rewrite aget_adel, N.eqb_refl. reflexivity.
  - rewrite E. reflexivity.
Qed.

(** After [Unlink old]: the new directory shows the complete new file at
    [dst] (also after a crash: it is synced), every earlier directory still
    shows the legacy file. *)
Lemma pairs_after_unlink s dst old vsd vso nv v w :
  dst <> old ->
  inv s dst vsd -> live_view s dst = Some nv ->
  inv s old vso ->
  In (v, w) ((live_view (step s (Unlink old)) dst, live_view (step s (Unlink old)) old)
             :: crash_pairs (step s (Unlink old)) dst old) ->
  v = Some nv \/ In w vso.
Proof.
  intros Hne Hd Hl Ho [E|Hin].
  - assert (Ev : live_view (step s (Unlink old)) dst = v) by (apply (f_equal fst) in E; exact E).
    left. rewrite <- Ev, live_unlink_other by exact Hne. exact Hl.
  - unfold crash_pairs in Hin. apply in_flat_map in Hin. destruct Hin as (d & Hdin & Hin).
    apply in_prod_iff in Hin. destruct Hin as [Hv Hw].
    cbn [step] in *. destruct (aget (dir_cur s) old) as [io|] eqn:Eo.
    + (* the directory without [old] first, then the earlier ones *)
      assert (Hfiles : forall d' p', dviews d' (set_dir s (adel (dir_cur s) old)) p' = dviews d' s p') by reflexivity.
      rewrite Hfiles in Hv, Hw.
      destruct Hdin as [<-|Hdin].
      * left. cbn [set_dir dir_cur] in Hv. unfold dviews in Hv. rewrite aget_adel in Hv.
        destruct (N.eqb_spec dst old); [congruence|].
        unfold live_view, view in Hl.
        destruct (aget (dir_cur s) dst) as [i|] eqn:Ei; [|discriminate].
        destruct Hd as [Hc _]. specialize (Hc (dir_cur s) i (or_introl eq_refl) Ei).
        unfold crash_contents in Hv. rewrite Hc in Hv. cbn in Hv. destruct Hv as [<-|[]].
        rewrite <- (f_cur_synced _ Hc). exact Hl.
      * right. eapply dviews_inv; eauto.
    + right. eapply dviews_inv; eauto.
Qed.

(** ** The migration *)

Section MigrateProofs.
  Variables (s : fs) (old dst tmp : path) (fd : N) (conv : data -> conv_res) (oc : data) (chunks : list data).
  Hypothesis Hqd : quiescent s dst.
  Hypothesis Hqo : quiescent s old.
  Hypothesis Hfd : fresh_tmp s dst tmp.
  Hypothesis Hfo : fresh_tmp s old tmp.
  Hypothesis Hne : dst <> old.
  Hypothesis Hold : live_view s old = Some oc.
  Hypothesis Hconv : conv oc = ConvNew chunks.

  Let nv := concat chunks.

  Lemma migrate_unfold guard p rmf :
    migrate guard s old dst fd tmp true conv p rmf = migrate_tail guard old (write_file fd tmp dst chunks p) rmf.
  Proof. unfold migrate. rewrite Hold. cbn [negb]. rewrite Hconv. reflexivity. Qed.

  (** during the write (whatever its outcome) the legacy file is there, complete *)
  Lemma write_phase_keeps_old p v w :
    In (v, w) (visible_pairs s (fst (write_file fd tmp dst chunks p)) dst old) -> w = Some oc.
  Proof.
    intros Hin. destruct (write_file_bystander s dst old tmp fd chunks p Hfo Hne) as [Hs Hv]. cbn zeta in Hs, Hv.
    pose proof (pairs_bystander _ s dst old [live_view s old] (quiescent_inv s old Hqo) Hs Hv v w Hin) as H.
    rewrite Hold in H. destruct H as [<-|[]]. reflexivity.
  Qed.

  Lemma inv_old_after_write p :
    inv (run s (fst (write_file fd tmp dst chunks p))) old [Some oc].
  Proof.
    destruct (write_file_bystander s dst old tmp fd chunks p Hfo Hne) as [Hs Hv]. cbn zeta in Hs, Hv.
    pose proof (run_inv _ s old [live_view s old] (quiescent_inv s old Hqo) Hs) as H.
    rewrite Hv, app_nil_r, Hold in H. exact H.
  Qed.

  Lemma write_file_checked p :
    let t := fst (write_file fd tmp dst chunks p) in
    trace_safe dst s t = true.
  Proof.
    cbn zeta. unfold write_file. destruct (do_writes chunks (p_write p)) as [done ok].
    apply (save_ops_checked true s dst tmp fd done _ p Hfd).
  Qed.

  (** MAIN (K): the code as it is.  At every instant of the migration and after
      a crash at every prefix, for every fault plan of the write and whether
      or not the removal fails: the new file is complete, or the legacy file is
      still there and complete. *)
  Theorem migration_never_loses_leases p rmf :
    let x := migrate true s old dst fd tmp true conv p rmf in
    forall v w, In (v, w) (visible_pairs s (fst x) dst old) -> v = Some nv \/ w = Some oc.
  Proof.
    cbn zeta. rewrite migrate_unfold. unfold migrate_tail.
    destruct (snd (write_file fd tmp dst chunks p)) eqn:Eres;
      try (cbn [fst]; intros v w Hin; right; eapply write_phase_keeps_old; exact Hin).
    destruct rmf; [cbn [fst]; intros v w Hin; right; eapply write_phase_keeps_old; exact Hin|].
    cbn [fst]. intros v w Hin.
    apply visible_pairs_app in Hin. destruct Hin as [Hin|Hin]; [right; eapply write_phase_keeps_old; exact Hin|].
    set (t := fst (write_file fd tmp dst chunks p)) in *.
    cbn [visible_pairs] in Hin. rewrite app_nil_r in Hin.
    apply in_app_or in Hin. destruct Hin as [Hin|Hin].
    - right. pose proof (pair_now_snd _ dst old _ v w (inv_old_after_write p) Hin) as H.
      destruct H as [<-|[]]. reflexivity.
    - pose proof (run_inv _ s dst [live_view s dst] (quiescent_inv s dst Hqd) (write_file_checked p)) as Hd.
      destruct (write_file_identity s dst tmp fd nv chunks p Hqd Hfd eq_refl) as [_ Hl]. cbn zeta in Hl.
      rewrite Eres in Hl. cbn [replaced] in Hl.
      destruct (pairs_after_unlink _ dst old _ _ nv v w Hne Hd Hl (inv_old_after_write p) Hin) as [H|[<-|[]]]; auto.
  Qed.

  (** What the call reports and where the leases are when it has returned. *)
  Theorem migration_result p rmf :
    let x := migrate true s old dst fd tmp true conv p rmf in
    let fin := run s (fst x) in
    match snd x with
    | MigDone => live_view fin dst = Some nv /\ live_view fin old = None /\
                 snd (write_file fd tmp dst chunks p) = Replaced /\ rmf = false
    | MigErr => live_view fin old = Some oc /\
                (snd (write_file fd tmp dst chunks p) = Replaced -> rmf = true /\ live_view fin dst = Some nv) /\
                (snd (write_file fd tmp dst chunks p) <> Replaced -> live_view fin dst = live_view s dst)
    | MigNothing => False
    end.
  Proof.
    cbn zeta. rewrite migrate_unfold. unfold migrate_tail.
    destruct (write_file_identity s dst tmp fd nv chunks p Hqd Hfd eq_refl) as [_ Hl]. cbn zeta in Hl.
    assert (Ho : live_view (run s (fst (write_file fd tmp dst chunks p))) old = Some oc).
    { pose proof (inv_old_after_write p) as [_ Hv]. specialize (Hv _ (or_introl eq_refl)).
      destruct Hv as [Hv|[]]. symmetry. exact Hv. }
    destruct (snd (write_file fd tmp dst chunks p)) eqn:Eres; cbn [replaced] in Hl.
    - destruct rmf; cbn [fst snd].
      + split; [exact Ho|]. split; [auto|]. intros H. now elim H.
      + rewrite run_app. cbn [run fold_left].
        rewrite live_unlink_other by exact Hne. rewrite live_unlink_self. auto.
    - cbn [fst snd]. split; [exact Ho|]. split; [discriminate|auto].
    - cbn [fst snd]. split; [exact Ho|]. split; [discriminate|auto].
  Qed.

  (** REFUTED variant (the removal does not look at the result of the write):
      whenever the write does not replace the file - the temporary file cannot
      be created (data directory missing, no descriptor), a write is cut (full
      disk, file-size limit), fsync, close or rename fails - the call reports
      the error, [dst] is as it was and the legacy file is GONE: the leases are
      in neither path. *)
  Theorem unconditional_removal_loses_leases p :
    snd (write_file fd tmp dst chunks p) <> Replaced ->
    let x := migrate false s old dst fd tmp true conv p false in
    let fin := run s (fst x) in
    snd x = MigErr /\ live_view fin old = None /\ live_view fin dst = live_view s dst.
  Proof.
    intros Hres. cbn zeta. rewrite migrate_unfold. unfold migrate_tail.
    destruct (write_file_identity s dst tmp fd nv chunks p Hqd Hfd eq_refl) as [_ Hl]. cbn zeta in Hl.
    destruct (snd (write_file fd tmp dst chunks p)) eqn:Eres; [now elim Hres| |];
      cbn [replaced] in Hl; cbn [fst snd]; rewrite run_app; cbn [run fold_left];
      (split; [reflexivity|]); (split; [apply live_unlink_self|]);
      rewrite live_unlink_other by exact Hne; exact Hl.
  Qed.
End MigrateProofs.

(** Every fault the harness injects is such a plan. *)
Lemma failing_plans_do_not_replace fd tmp dst chunks p :
  p_open p || p_sync p || p_close p || p_rename p = true \/ snd (do_writes chunks (p_write p)) = false ->
  snd (write_file fd tmp dst chunks p) <> Replaced.
Proof.
  intros H E. destruct (write_file_reports dst tmp fd chunks p) as (H1 & _). cbn zeta in H1.
  destruct (H1 E) as (Hw & Ho & Hs & Hc & Hr). rewrite Ho, Hs, Hc, Hr, Hw in H. cbn in H.
  destruct H; discriminate.
Qed.

(** Nothing to migrate, an unreadable or undecodable legacy file: no
    operation at all. *)
Lemma migrate_no_ops guard s old dst fd tmp readable conv p rmf :
  live_view s old = None \/ readable = false \/
  (forall oc, live_view s old = Some oc -> conv oc = ConvNothing \/ conv oc = ConvErr) ->
  fst (migrate guard s old dst fd tmp readable conv p rmf) = [].
Proof.
  unfold migrate. intros [H|[H|H]].
  - rewrite H. reflexivity.
  - subst readable. destruct (live_view s old); reflexivity.
  - destruct (live_view s old) as [oc|]; [|reflexivity].
    destruct readable; [|reflexivity]. cbn [negb].
    destruct (H oc eq_refl) as [-> | ->]; reflexivity.
Qed.

(** *** Instances *)

(** Premises satisfiable: legacy file 2 = [7; 8; 9] converts to [20; 21; 22];
    dst 1 absent; temporary name 3.  Success; the data directory missing
    (the temporary file cannot be created); a write cut after one element;
    fsync failing; the removal failing. *)
Example migrate_premises :
  let s := boot [(2, [7; 8; 9])] in
  let conv (c : data) := ConvNew [[20]; [21; 22]] in
  let mig g p rmf := migrate g s 2 1 4 3 true conv p rmf in
  let fin x := (live_view (run s (fst x)) 1, live_view (run s (fst x)) 2) in
  let nodir := {| p_open := true; p_write := None; p_sync := false; p_close := false; p_rename := false |} in
  let cutw := {| p_open := false; p_write := Some (1%nat, 1); p_sync := false; p_close := false; p_rename := false |} in
  let nosync := {| p_open := false; p_write := None; p_sync := true; p_close := false; p_rename := false |} in
  quiescent s 1 /\ quiescent s 2 /\ fresh_tmp s 1 3 /\ fresh_tmp s 2 3 /\
  (let x := mig true no_faults false in
   snd x = MigDone /\ fin x = (Some [20; 21; 22], None) /\
   fst x = [Open 4 3 fl_tmp; Write 4 [20]; Write 4 [21; 22]; Fsync 4; Close 4; Rename 3 1; Unlink 2]) /\
  (let x := mig true nodir false in snd x = MigErr /\ fin x = (None, Some [7; 8; 9]) /\ fst x = []) /\
  (let x := mig true cutw false in
   snd x = MigErr /\ fin x = (None, Some [7; 8; 9]) /\
   fst x = [Open 4 3 fl_tmp; Write 4 [20]; Write 4 [21]; Close 4; Unlink 3]) /\
  (let x := mig true nosync false in snd x = MigErr /\ fin x = (None, Some [7; 8; 9])) /\
  (let x := mig true no_faults true in snd x = MigErr /\ fin x = (Some [20; 21; 22], Some [7; 8; 9])) /\
  (* the refuted variant on the same inputs *)
  (let x := mig false nodir false in snd x = MigErr /\ fin x = (None, None) /\ fst x = [Unlink 2]) /\
  (let x := mig false cutw false in
   snd x = MigErr /\ fin x = (None, None) /\
   fst x = [Open 4 3 fl_tmp; Write 4 [20]; Write 4 [21]; Close 4; Unlink 3; Unlink 2]) /\
  (let x := mig false nosync false in snd x = MigErr /\ fin x = (None, None)) /\
  (* ... and the pair (nothing, nothing) is visible in its trace, in none of the code's *)
  existsb (fun vw => match vw with (None, None) => true | _ => false end)
          (visible_pairs s (fst (mig false cutw false)) 1 2) = true /\
  forallb (fun p => forallb (fun vw => match vw with (None, None) => false | _ => true end)
                            (visible_pairs s (fst (mig true p false)) 1 2))
          [no_faults; nodir; cutw; nosync] = true.
Proof.
  cbn zeta. split; [apply boot_quiescent|]. split; [apply boot_quiescent|].
  split. { unfold fresh_tmp. repeat split; try (vm_compute; reflexivity). discriminate. }
  split. { unfold fresh_tmp. repeat split; try (vm_compute; reflexivity). discriminate. }
  vm_compute. repeat split; reflexivity.
Qed.

(** C09, round 4: a clean shutdown concurrent with the hourly flush and with
    updates is equivalent to a sequential history, and the counts survive it.

    The lock level is in Proofs/StatsConc.v ([shutdown_during_flush]: Close,
    flush and Update are one confMu write section each, never overlap, never
    block each other for good; [close_before_fix_deadlocks] for Close as it was
    before bf01866).  Here the data level: whatever the order in which the
    serialised bodies ran,

      updates and flushes ; Close ; updates and flushes ; New id

    ends in the state of the sequential history "the operations before Close,
    then ORestart id" of Model/Stats.v: what ran on the closed context (a flush
    that lost the race for confMu, updates of requests still in flight) leaves
    no trace, and everything counted before Close is in the file.  All theorems
    about histories (conservation, series, restart) therefore apply; in
    particular both orders flush; Close and Close; flush report the same
    totals after the restart. *)
From Coq Require Import ZArith List Bool Lia.
From AGH Require Import Model.Stats Model.StatsShutdown Proofs.Stats.
Import ListNotations.
Local Open Scope Z_scope.

Lemma xrun_app s a b : xrun s (a ++ b) = xrun (xrun s a) b.
Proof. unfold xrun. apply fold_left_app. Qed.

Lemma run_app s a b : run s (a ++ b) = run (run s a) b.
Proof. unfold run. apply fold_left_app. Qed.

Lemma xrun_ops s h : xrun s (map XOp h) = run s h.
Proof. revert s; induction h as [|o h IH]; intros s; [reflexivity|]. cbn. apply IH. Qed.

(** Close directly followed by New is the restart of the histories. *)
Lemma close_then_new s id : dbnil s = false -> new_step (close_step s) id = restart s id.
Proof. intros H. unfold close_step, new_step, restart. rewrite H. reflexivity. Qed.

(** A second Close (or Close while a reset has the file closed) does nothing. *)
Lemma close_closed s : dbnil s = true -> close_step s = s.
Proof. intros H. unfold close_step. rewrite H. reflexivity. Qed.

Lemma close_step_nil s : dbnil s = false -> dbnil (close_step s) = true.
Proof. intros H. unfold close_step. rewrite H. reflexivity. Qed.

(** Updates and flushes do not touch the database pointer ... *)
Lemma uf_keeps_nil o s : uf o = true -> dbnil (step s o) = dbnil s.
Proof.
  destruct o; try discriminate; intros _; cbn [step].
  - unfold update. destruct (accepts s e); [|reflexivity]. destruct (cat_of (e_res e)); reflexivity.
  - unfold flush. destruct ((lim s =? 0) || (cur_id s =? id)); [reflexivity|].
    destruct (dbnil s) eqn:E; [first [reflexivity|exact E]|cbn; exact E].
Qed.

Lemma uf_run_keeps_nil h : forall s, forallb uf h = true -> dbnil (run s h) = dbnil s.
Proof.
  induction h as [|o h IH]; intros s H; [reflexivity|].
  cbn [forallb] in H. apply andb_true_iff in H as [Ho Hh].
  change (run s (o :: h)) with (run (step s o) h). rewrite (IH _ Hh). apply uf_keeps_nil. exact Ho.
Qed.

(** ... and on a closed context they change nothing that New looks at: the
    file, the configuration.  (An update changes the unit in memory, which is
    dropped; a flush finds the pointer nil and returns.) *)
Lemma uf_closed_inert o s :
  uf o = true -> dbnil s = true ->
  db (step s o) = db s /\ lim_ms (step s o) = lim_ms s /\ enabled (step s o) = enabled s.
Proof.
  destruct o; try discriminate; intros _ Hn; cbn [step].
  - unfold update. destruct (accepts s e); [|repeat split]. destruct (cat_of (e_res e)); repeat split.
  - unfold flush. destruct ((lim s =? 0) || (cur_id s =? id)); [repeat split|]. rewrite Hn. repeat split.
Qed.

Lemma closed_is_inert h : forall s id,
  forallb uf h = true -> dbnil s = true -> new_step (run s h) id = new_step s id.
Proof.
  induction h as [|o h IH]; intros s id H Hn; [reflexivity|].
  cbn [forallb] in H. apply andb_true_iff in H as [Ho Hh].
  change (run s (o :: h)) with (run (step s o) h).
  rewrite (IH (step s o) id Hh); [|rewrite uf_keeps_nil; assumption].
  destruct (uf_closed_inert o s Ho Hn) as (Ed & El & Ee).
  unfold new_step. rewrite Ed, El, Ee. reflexivity.
Qed.

(** The shutdown schedule equals a sequential history. *)
Theorem shutdown_serialises s pre post id :
  dbnil s = false -> forallb uf pre = true -> forallb uf post = true ->
  xrun s (map XOp pre ++ XClose :: map XOp post ++ [XNew id]) = run s (pre ++ [ORestart id]).
Proof.
  intros Hn Hpre Hpost.
  rewrite xrun_app, xrun_ops. change (XClose :: map XOp post ++ [XNew id]) with ([XClose] ++ map XOp post ++ [XNew id]).
  rewrite xrun_app, xrun_app, xrun_ops. cbn [xrun fold_left xstep].
  assert (Hp : dbnil (run s pre) = false) by (rewrite uf_run_keeps_nil; assumption).
  rewrite closed_is_inert; [|exact Hpost|apply close_step_nil; exact Hp].
  rewrite close_then_new by exact Hp.
  rewrite run_app. reflexivity.
Qed.

Definition upds (es : list entry) : list op := map OUpdate es.

Lemma uf_upds es : forallb uf (upds es) = true.
Proof. induction es; [reflexivity|exact IHes]. Qed.

Lemma forallb_app_true {A} (f : A -> bool) a b :
  forallb f a = true -> forallb f b = true -> forallb f (a ++ b) = true.
Proof. intros Ha Hb. rewrite forallb_app, Ha, Hb. reflexivity. Qed.

(** The two orders of the defect's schedule, with updates anywhere.  The flush
    won: it is in the history, the updates after it were counted in the new
    hour.  Close won: the flush found the pointer nil, the restart in the later
    hour does the roll-over; updates after Close are not in the file. *)
Corollary flush_then_close s us1 id1 us2 us3 id2 :
  dbnil s = false ->
  xrun s (map XOp (upds us1 ++ [OFlush id1] ++ upds us2) ++ XClose :: map XOp (upds us3) ++ [XNew id2]) =
  run s (upds us1 ++ [OFlush id1] ++ upds us2 ++ [ORestart id2]).
Proof.
  intros Hn. rewrite shutdown_serialises; try assumption.
  - rewrite <- !app_assoc. reflexivity.
  - repeat apply forallb_app_true; try apply uf_upds. reflexivity.
  - apply uf_upds.
Qed.

Corollary close_then_flush s us1 us2 id1 us3 id2 :
  dbnil s = false ->
  xrun s (map XOp (upds us1) ++ XClose :: map XOp (upds us2 ++ [OFlush id1] ++ upds us3) ++ [XNew id2]) =
  run s (upds us1 ++ [ORestart id2]).
Proof.
  intros Hn. apply shutdown_serialises; try assumption.
  - apply uf_upds.
  - repeat apply forallb_app_true; try apply uf_upds. reflexivity.
Qed.

(** * Counts survive *)

Lemma gstep_uf_phase o g : uf o = true -> g_phase (gstep g o) = g_phase g.
Proof. destruct o; try discriminate; reflexivity. Qed.

Lemma grun_uf_phase h : forall g, forallb uf h = true -> g_phase (grun g h) = g_phase g.
Proof.
  induction h as [|o h IH]; intros g H; [reflexivity|].
  cbn [forallb] in H. apply andb_true_iff in H as [Ho Hh].
  change (grun g (o :: h)) with (grun (gstep g o) h). rewrite (IH _ Hh). apply gstep_uf_phase. exact Ho.
Qed.

Lemma grun_app g a b : grun g (a ++ b) = grun (grun g a) b.
Proof. unfold grun. apply fold_left_app. Qed.

Lemma wf_from_app a : forall g b,
  wf_from (g_clock g) (g_phase g) (a ++ b) ->
  wf_from (g_clock g) (g_phase g) a /\ wf_from (g_clock (grun g a)) (g_phase (grun g a)) b.
Proof.
  induction a as [|o a IH]; intros g b W; [split; [exact I|exact W]|].
  change (grun g (o :: a)) with (grun (gstep g o) a).
  cbn [app wf_from] in *. destruct W as [Wp W].
  assert (W' : wf_from (g_clock (gstep g o)) (g_phase (gstep g o)) (a ++ b)).
  { unfold gstep; cbn [g_clock g_phase]. destruct (op_id o); tauto. }
  destruct (IH _ _ W') as [Wa Wb]. split; [|exact Wb]. split; [exact Wp|].
  unfold gstep in Wa; cbn [g_clock g_phase] in Wa. destruct (op_id o); tauto.
Qed.

(** In a well-formed history a restart finds the database open. *)
Lemma open_before_restart id0 ms en h pre id :
  init_ok id0 ms -> forallb uf pre = true -> wf_hist id0 (h ++ pre ++ [ORestart id]) ->
  dbnil (run (init id0 ms en) h) = false.
Proof.
  intros Hi Hpre W. set (g := grun (ginit id0 ms en) h).
  assert (W0 : wf_from (g_clock (ginit id0 ms en)) (g_phase (ginit id0 ms en)) (h ++ pre ++ [ORestart id])) by exact W.
  destruct (wf_from_app h _ _ W0) as [Wh Wr]. fold g in Wr.
  destruct (wf_from_app pre _ _ Wr) as [_ Wl].
  cbn [wf_from phase_ok] in Wl. destruct Wl as [Hph _].
  rewrite grun_uf_phase in Hph by exact Hpre.
  assert (HI : Inv g) by (apply reachable_inv; assumption).
  destruct (dbnil (run (init id0 ms en) h)) eqn:E; [|reflexivity].
  assert (E' : dbnil (g_st g) = true) by (unfold g; rewrite grun_st; exact E).
  apply (i_nil g HI) in E'. congruence.
Qed.

(** After New the reported counters obey the conservation bounds with respect
    to exactly the updates that were counted before Close: those of [h] and
    of [pre]; what happened on the closed context ([post]) is not counted and
    does no harm. *)
Theorem shutdown_conservation id0 ms en h pre post id k :
  init_ok id0 ms -> forallb uf pre = true -> forallb uf post = true ->
  wf_hist id0 (h ++ pre ++ [ORestart id]) ->
  let s := xrun (init id0 ms en) (map XOp h ++ map XOp pre ++ XClose :: map XOp post ++ [XNew id]) in
  let g := grun (ginit id0 ms en) (h ++ pre ++ [ORestart id]) in
  rep k s <= wsum s (fun i => g_ev g i k) /\
  wsum s (fun i => if i <=? g_low g then 0 else g_ev g i k) <= rep k s /\
  (g_raised g = false -> rep k s = wsum s (fun i => g_ev g i k)).
Proof.
  intros Hi Hpre Hpost W s g.
  assert (E : s = run (init id0 ms en) (h ++ pre ++ [ORestart id])).
  { unfold s. rewrite xrun_app, xrun_ops.
    rewrite shutdown_serialises; try assumption.
    - rewrite <- run_app. reflexivity.
    - apply (open_before_restart id0 ms en h pre id); assumption. }
  rewrite E. exact (conservation id0 ms en (h ++ pre ++ [ORestart id]) k Hi W).
Qed.

(** Who wins the race does not matter for what is reported afterwards: with
    no update in between, flush; Close; New and Close; flush; New report the
    same counters (while the limit has not been raised since the last clear:
    otherwise both obey the same two bounds). *)
Lemma lim_restart s id : lim (restart s id) = lim s /\ cur_id (restart s id) = id.
Proof. split; reflexivity. Qed.

Lemma lim_flush s id : lim (flush s id) = lim s.
Proof.
  unfold flush. destruct ((lim s =? 0) || (cur_id s =? id)); [reflexivity|].
  destruct (dbnil s); reflexivity.
Qed.

Theorem shutdown_order_irrelevant id0 ms en h id1 id2 k :
  init_ok id0 ms ->
  wf_hist id0 (h ++ [OFlush id1; ORestart id2]) -> wf_hist id0 (h ++ [ORestart id2]) ->
  g_raised (grun (ginit id0 ms en) h) = false ->
  let s0 := init id0 ms en in
  rep k (xrun s0 (map XOp h ++ [XOp (OFlush id1); XClose; XNew id2])) =
  rep k (xrun s0 (map XOp h ++ [XClose; XOp (OFlush id1); XNew id2])).
Proof.
  intros Hi WA WB Hr s0.
  assert (Hn : dbnil (run s0 h) = false).
  { apply (open_before_restart id0 ms en h [] id2); [assumption|reflexivity|exact WB]. }
  assert (EA : xrun s0 (map XOp h ++ [XOp (OFlush id1); XClose; XNew id2]) = run s0 (h ++ [OFlush id1; ORestart id2])).
  { rewrite xrun_app, xrun_ops.
    change [XOp (OFlush id1); XClose; XNew id2] with (map XOp [OFlush id1] ++ XClose :: map XOp [] ++ [XNew id2]).
    rewrite (shutdown_serialises (run s0 h) [OFlush id1] [] id2 Hn eq_refl eq_refl).
    rewrite <- run_app. reflexivity. }
  assert (EB : xrun s0 (map XOp h ++ [XClose; XOp (OFlush id1); XNew id2]) = run s0 (h ++ [ORestart id2])).
  { rewrite xrun_app, xrun_ops.
    change [XClose; XOp (OFlush id1); XNew id2] with (map XOp [] ++ XClose :: map XOp [OFlush id1] ++ [XNew id2]).
    rewrite (shutdown_serialises (run s0 h) [] [OFlush id1] id2 Hn eq_refl eq_refl).
    rewrite <- run_app. reflexivity. }
  rewrite EA, EB. clear EA EB. subst s0.
  destruct (conservation id0 ms en _ k Hi WA) as (_ & _ & XA).
  destruct (conservation id0 ms en _ k Hi WB) as (_ & _ & XB).
  cbn zeta in XA, XB.
  rewrite !grun_app in XA, XB. cbn [grun fold_left gstep g_raised raised_step g_ev ev_step] in XA, XB.
  rewrite XA by exact Hr. rewrite XB by exact Hr.
  unfold wsum, window_hours. rewrite !run_app. cbn [run fold_left step].
  destruct (lim_restart (flush (run (init id0 ms en) h) id1) id2) as [L1 C1].
  destruct (lim_restart (run (init id0 ms en) h) id2) as [L2 C2].
  fold (run (init id0 ms en) h). rewrite L1, C1, L2, C2, lim_flush. reflexivity.
Qed.

(** Premises satisfiable, and the counts do survive: five updates, the hour
    turns, the flush and Close race, two updates of requests in flight; after
    New in the next hour five (flush first: plus the two counted before Close)
    are reported. *)
Example shutdown_example :
  let s0 := init 490000 (24 * ms_hour) true in
  let late := [OUpdate (ex_e 1); OUpdate (ex_e 2)] in
  let a := xrun s0 (map XOp ex_all5 ++ [XOp (OFlush 490001)] ++ map XOp late ++ [XClose; XNew 490001]) in
  let b := xrun s0 (map XOp ex_all5 ++ [XClose; XOp (OFlush 490001)] ++ map XOp late ++ [XNew 490001]) in
  init_ok 490000 (24 * ms_hour) /\
  wf_hist 490000 (ex_all5 ++ [OFlush 490001] ++ late ++ [ORestart 490001]) /\
  wf_hist 490000 (ex_all5 ++ [ORestart 490001]) /\
  rep CTotal a = 7 /\ rep CTotal b = 5 /\ cur_id a = 490001 /\ cur_id b = 490001 /\
  dbnil a = false /\ dbnil b = false /\
  rep CTotal (xrun s0 (map XOp ex_all5 ++ [XOp (OFlush 490001); XClose; XNew 490001])) = 5.
Proof. cbn zeta. unfold init_ok, wf_hist. repeat split; vm_compute; try reflexivity; try discriminate; auto. Qed.

(** Proofs about the persistent-client registry model (C04). *)
From Coq Require Import Lia Sorting.Sorted.
From AGH Require Import Base.Run Model.ClientIndex.
Local Open Scope N_scope.

(** * A rejected operation leaves the registry as it was *)
Lemma failed_op_is_noop : forall ix o ix' e,
  step ix o = (ix', e) -> e <> EOk -> ix' = ix.
Proof.
  intros ix o ix' e H Hne. destruct o as [c|n c|n]; cbn [step] in H.
  - unfold add in H. destruct (negb (validate c)); [congruence|].
    destruct (deref ix (c_uid c)); [congruence|].
    destruct (clashes c ix); congruence.
  - unfold update in H. destruct (negb (validate c)); [congruence|].
    destruct (bget n (name_to ix)); [|congruence].
    destruct (deref ix u); [|congruence].
    destruct (clashes _ ix); congruence.
  - unfold remove_by_name in H. destruct (bget n (name_to ix)); [|congruence].
    destruct (deref ix u); congruence.
Qed.
